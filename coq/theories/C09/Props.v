(* C09 — property theorems only. Statements are pinned by vp/check.py. *)
From PV Require Import Lib.Base Cbor.Item Cbor.Dec C09.Model C09.Proofs.
Open Scope Z_scope.

(* FULL STATEMENT (not provable here): every public decoder of pallas, including the
   derive-generated era and message codecs, never panics:
     forall ep bs, impl_decode ep bs <> Panic _.
   What is proved: the hand-written decoders / dispatchers in front of those codecs never reach
   one of their panic sites, for all inputs, provided the codecs they call do not panic
   (premises below; covered by the differential run only). *)
Theorem decoders_total :
  forall (era_block era_tx era_header : Z -> list Z -> outcome unit)
         (payload : Z -> Z -> Z -> list Z -> dres (list Z)),
    (forall k bs, is_panic (era_block k bs) = false) ->
    (forall k bs, is_panic (era_tx k bs) = false) ->
    (forall k bs, is_panic (era_header k bs) = false) ->
    forall (ep : entry) (bs : list Z),
      is_panic (model_decode era_block era_tx era_header payload ep bs) = false.
Proof. intros eb et eh pl Hb Ht Hh ep bs. exact (decoders_total_proof eb et eh pl Hb Ht Hh ep bs). Qed.

(* the address, pointer and varuint decoders need no premise at all *)
Theorem address_decoders_total :
  forall bs, is_panic (address_from_bytes bs) = false /\ is_panic (pointer_parse bs) = false /\
             is_panic (varuint_read bs) = false.
Proof. intros bs. split; [apply address_no_panic|]. split; [apply pointer_no_panic|apply varuint_no_panic]. Qed.

(* the probe answers only with eras MultiEraBlock::decode has an arm for *)
Theorem probe_range : forall bs, match block_era bs with PEra e => 1 <= e <= 7 | _ => True end.
Proof. exact probe_range_proof. Qed.

(* channel buffers: drain(0..position) is always within the buffer *)
Theorem channel_drain_in_range : forall (buf r : list Z), is_panic (drain_to buf (len buf - len r)) = false.
Proof. exact drain_no_panic. Qed.

(* the six label dispatchers of localstate/queries_v16 after the repair ... *)
Theorem variant_dispatch_total : forall known bs, is_panic (variant_dispatch known false bs) = false.
Proof. exact variant_dispatch_total_proof. Qed.
(* ... and the failing input of the unrepaired ones: [7, 0] reaches unreachable!() *)
Theorem variant_dispatch_old_refuted :
  exists bs, variant_dispatch [0; 1; 2; 3; 4; 5; 6] true bs = Panic P_UNREACHABLE.
Proof. exact variant_dispatch_old_refuted_proof. Qed.

(* KNOWN FINDING (keys abort/stack-overflow/..): the recursive payload decoders descend once per
   nesting level and an input of d+1 bytes can force d+1 levels, so no fixed stack suffices;
   outside that class (bounded nesting) the differential run found no abort *)
Theorem unbounded_nesting_refuted :
  forall d : nat, exists bs i, length bs = S d /\ decode bs = DOk (i, []) /\ fuel_of i = S d.
Proof. exact unbounded_nesting_proof. Qed.

(* non-vacuity: concrete inputs reach the interesting arms *)
Example probe_examples :
  block_era [130; 7; 128] = PEra 7 /\ block_era [130; 0] = PEbb /\ block_era [130; 24; 5; 0] = PEra 5 /\
  block_era [130; 25; 0; 5] = PInconclusive /\ block_era [159; 5] = PInconclusive /\ block_era [130; 8] = PInconclusive.
Proof. repeat split; vm_compute; reflexivity. Qed.
Example address_examples :
  class_of (address_from_bytes [97; 1; 2]) = Err C18.Model.E_ADDR_LEN /\
  class_of (address_from_bytes (97 :: repeat 7 28)) = Ok 0 /\
  class_of (pointer_parse [129; 129]) = Err C18.Model.E_VARUINT_EOF.
Proof. repeat split; vm_compute; reflexivity. Qed.
