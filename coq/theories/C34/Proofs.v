From PV Require Import Lib.Base C34.Model.
Open Scope Z_scope.

(* ---------- association lists *)
Lemma find_set_same {A} k (v : A) l : find k (set k v l) = Some v.
Proof.
  induction l as [|[k' v'] r IH]; cbn.
  - rewrite Z.eqb_refl. reflexivity.
  - destruct (k' =? k) eqn:E; cbn.
    + rewrite Z.eqb_refl. reflexivity.
    + rewrite E. exact IH.
Qed.

Lemma find_set_other {A} k k2 (v : A) l : k2 <> k -> find k2 (set k v l) = find k2 l.
Proof.
  intros Hne. induction l as [|[k' v'] r IH]; cbn.
  - destruct (k =? k2) eqn:E; [lia|reflexivity].
  - destruct (k' =? k) eqn:E; cbn.
    + destruct (k =? k2) eqn:E2; [lia|]. destruct (k' =? k2) eqn:E3; [lia|reflexivity].
    + destruct (k' =? k2); [reflexivity|exact IH].
Qed.

Lemma find_In {A} k (v : A) l : find k l = Some v -> In (k, v) l.
Proof.
  induction l as [|[k' v'] r IH]; cbn; [discriminate|].
  destruct (k' =? k) eqn:E; intros H.
  - inversion H; subst. left. f_equal. lia.
  - right. auto.
Qed.

Lemma nodup_set {A} k (v : A) l : nodup_keys l = true -> nodup_keys (set k v l) = true.
Proof.
  induction l as [|[k' v'] r IH]; cbn; [reflexivity|].
  destruct (find k' r) eqn:F; [discriminate|]. intros H.
  destruct (k' =? k) eqn:E; cbn.
  - assert (k' = k) by lia. subst. rewrite F. exact H.
  - rewrite find_set_other by lia. rewrite F. auto.
Qed.

Lemma qty_set_same a q l : qty (set a q l) a = q.
Proof. unfold qty. rewrite find_set_same. reflexivity. Qed.
Lemma qty_set_other a x q l : x <> a -> qty (set a q l) x = qty l x.
Proof. intros. unfold qty. rewrite find_set_other by assumption. reflexivity. Qed.

(* ---------- add_same *)
Lemma add_same_spec is inw : forall new old r,
  add_same is inw old new = Some r -> nodup_keys new = true ->
  forall x, qty r x = qty old x + qty new x.
Proof.
  induction new as [|[a q] rest IH]; intros old r H Hnd x; cbn [add_same] in H.
  - inversion H; subst. change (qty [] x) with 0. lia.
  - cbn [nodup_keys] in Hnd. destruct (find a rest) eqn:Fr; [discriminate|].
    assert (Hq0 : qty rest a = 0) by (unfold qty; rewrite Fr; reflexivity).
    assert (Hhead : forall y, qty ((a, q) :: rest) y = if a =? y then q else qty rest y).
    { intros y. unfold qty. cbn. destruct (a =? y); reflexivity. }
    rewrite Hhead.
    destruct (find a old) as [q0|] eqn:Fo.
    + destruct (is (q0 + q)); [|discriminate].
      rewrite (IH _ _ H Hnd x). destruct (a =? x) eqn:E.
      * assert (x = a) by lia. subst. rewrite qty_set_same, Hq0. unfold qty. rewrite Fo. lia.
      * rewrite qty_set_other by lia. lia.
    + destruct (inw q); [|discriminate].
      rewrite (IH _ _ H Hnd x). destruct (a =? x) eqn:E.
      * assert (x = a) by lia. subst. rewrite qty_set_same, Hq0. unfold qty. rewrite Fo. lia.
      * rewrite qty_set_other by lia. lia.
Qed.

Lemma add_same_nodup is inw : forall new old r,
  add_same is inw old new = Some r -> nodup_keys old = true -> nodup_keys r = true.
Proof.
  induction new as [|[a q] rest IH]; intros old r H Hnd; cbn [add_same] in H.
  - inversion H; subst. exact Hnd.
  - destruct (find a old) as [q0|].
    + destruct (is (q0 + q)); [|discriminate]. eapply IH; [exact H|]. apply nodup_set. exact Hnd.
    + destruct (inw q); [|discriminate]. eapply IH; [exact H|]. apply nodup_set. exact Hnd.
Qed.

(* ---------- add_into *)
Definition inner_nodup (m : ma) : Prop := forall p l, In (p, l) m -> nodup_keys l = true.

Lemma get_set_same p l m a : get (set p l m) p a = qty l a.
Proof. unfold get. rewrite find_set_same. reflexivity. Qed.
Lemma get_set_other p p2 l m a : p2 <> p -> get (set p l m) p2 a = get m p2 a.
Proof. intros. unfold get. rewrite find_set_other by assumption. reflexivity. Qed.

Lemma add_into_spec is inw : forall m res r,
  add_into is inw res m = Some r -> nodup_keys m = true -> inner_nodup m ->
  forall p a, get r p a = get res p a + get m p a.
Proof.
  induction m as [|[p0 new] rest IH]; intros res r H Hnd Hin p a; cbn [add_into] in H.
  - inversion H; subst. change (get [] p a) with 0. lia.
  - cbn [nodup_keys] in Hnd. destruct (find p0 rest) eqn:Fr; [discriminate|].
    destruct (add_same is inw (match find p0 res with Some o => o | None => [] end) new) as [l|] eqn:Es; [|discriminate].
    assert (Hnew : nodup_keys new = true) by (apply (Hin p0); left; reflexivity).
    assert (Hrest : inner_nodup rest) by (intros p' l' Hi; apply (Hin p'); right; exact Hi).
    rewrite (IH _ _ H Hnd Hrest p a).
    assert (Hhead : get ((p0, new) :: rest) p a = if p0 =? p then qty new a else get rest p a).
    { unfold get. cbn. destruct (p0 =? p); reflexivity. }
    rewrite Hhead. destruct (p0 =? p) eqn:E.
    + assert (p = p0) by lia. subst. rewrite get_set_same.
      rewrite (add_same_spec _ _ _ _ _ Es Hnew a).
      assert (Hz : get rest p0 a = 0) by (unfold get; rewrite Fr; reflexivity).
      rewrite Hz. unfold get. destruct (find p0 res); [lia|]. change (qty [] a) with 0. lia.
    + rewrite get_set_other by lia. lia.
Qed.

Definition wf (m : ma) : Prop := nodup_keys m = true /\ inner_nodup m.

Lemma wf_ma_wf m : wf_ma m = true -> wf m.
Proof.
  unfold wf_ma, wf. intros H. apply andb_true_iff in H as [H1 H2]. split; [exact H1|].
  intros p l Hi. rewrite forallb_forall in H2. apply (H2 (p, l) Hi).
Qed.

Lemma In_set {A} k (v : A) l x : In x (set k v l) -> x = (k, v) \/ In x l.
Proof.
  induction l as [|[k' v'] r IH]; cbn.
  - intros [H|[]]; left; auto.
  - destruct (k' =? k); cbn; intros [H|H]; auto. destruct (IH H); auto.
Qed.

Lemma wf_set p l m : wf m -> nodup_keys l = true -> wf (set p l m).
Proof.
  intros [H1 H2] Hl. split; [apply nodup_set; exact H1|].
  intros p' l' Hi. apply In_set in Hi as [Hi|Hi]; [inversion Hi; subst; exact Hl|eapply H2; exact Hi].
Qed.

Lemma wf_find m p l : wf m -> find p m = Some l -> nodup_keys l = true.
Proof. intros [_ H] F. apply find_In in F. eapply H. exact F. Qed.

Lemma add_into_wf is inw : forall m res r,
  add_into is inw res m = Some r -> wf res -> wf r.
Proof.
  induction m as [|[p0 new] rest IH]; intros res r H Hw; cbn [add_into] in H.
  - inversion H; subst. exact Hw.
  - destruct (add_same is inw (match find p0 res with Some o => o | None => [] end) new) as [l|] eqn:Es; [|discriminate].
    eapply IH; [exact H|]. apply wf_set; [exact Hw|].
    eapply add_same_nodup; [exact Es|]. destruct (find p0 res) eqn:F; [eapply wf_find; eauto|reflexivity].
Qed.

Lemma wf_nil : wf [].
Proof. split; [reflexivity|intros p l []]. Qed.

Lemma get_nil p a : get [] p a = 0.
Proof. reflexivity. Qed.

Lemma add_ma_spec is f s r :
  add_ma is f s = Some r -> wf f -> wf s ->
  (forall p a, get r p a = get f p a + get s p a) /\ wf r.
Proof.
  unfold add_ma. intros H [Hf1 Hf2] [Hs1 Hs2].
  destruct (add_into is (fun _ => true) [] f) as [r1|] eqn:E1; [|discriminate].
  pose proof (add_into_spec _ _ _ _ _ E1 Hf1 Hf2) as S1.
  pose proof (add_into_wf _ _ _ _ _ E1 wf_nil) as W1.
  pose proof (add_into_spec _ _ _ _ _ H Hs1 Hs2) as S2.
  split; [|eapply add_into_wf; eauto].
  intros p a. rewrite S2, S1, get_nil. lia.
Qed.

(* ---------- coercions are the identity when they succeed *)
Lemma coerce_to_i64_id m m' : coerce_to_i64 m = Some m' -> m' = m.
Proof. unfold coerce_to_i64. destruct (all_qty _ m); intros H; inversion H; reflexivity. Qed.
Lemma coerce_to_coin_id m m' : coerce_to_coin m = Some m' -> m' = m.
Proof. unfold coerce_to_coin. destruct (all_qty _ m); intros H; inversion H; reflexivity. Qed.
Lemma to_positive_id m m' : to_positive m = Some m' -> m' = m.
Proof. unfold to_positive. destruct (all_qty _ m); intros H; inversion H; reflexivity. Qed.

Lemma add_lovelace_spec a b c : add_lovelace a b = Some c -> c = a + b.
Proof. unfold add_lovelace. destruct (a + b <=? U64_MAX); intros H; inversion H; reflexivity. Qed.

Definition wfv (v : value) : Prop := wf (ma_of v).
Definition vget (v : value) (p a : Z) : Z := get (ma_of v) p a.

Lemma add_ma_pre_spec f s r : add_ma_pre f s = Some r -> wf f -> wf s ->
  (forall p a, get r p a = get f p a + get s p a) /\ wf r.
Proof.
  unfold add_ma_pre. intros H Hf Hs.
  destruct (coerce_to_i64 f) as [fi|] eqn:E1; [|discriminate].
  destruct (coerce_to_i64 s) as [si|] eqn:E2; [|discriminate].
  apply coerce_to_i64_id in E1, E2. subst.
  destruct (add_ma in_i64 f s) as [r0|] eqn:E3; [|discriminate].
  apply coerce_to_coin_id in H. subst. eapply add_ma_spec; eauto.
Qed.

Lemma add_values_spec v1 v2 v : add_values v1 v2 = Some v -> wfv v1 -> wfv v2 ->
  coin_of v = coin_of v1 + coin_of v2 /\ (forall p a, vget v p a = vget v1 p a + vget v2 p a) /\ wfv v.
Proof.
  unfold wfv, vget. destruct v1 as [f|f fm], v2 as [s|s sm]; cbn [add_values ma_of coin_of]; intros H W1 W2.
  - destruct (add_lovelace f s) as [c|] eqn:E; [|discriminate]. inversion H; subst. apply add_lovelace_spec in E.
    cbn. refine (conj _ (conj _ _)); [lia | intros; rewrite ?get_nil; lia | assumption].
  - destruct (add_lovelace f s) as [c|] eqn:E; [|discriminate]. inversion H; subst. apply add_lovelace_spec in E.
    cbn. refine (conj _ (conj _ _)); [lia | intros; rewrite ?get_nil; lia | assumption].
  - destruct (add_lovelace f s) as [c|] eqn:E; [|discriminate]. inversion H; subst. apply add_lovelace_spec in E.
    cbn. refine (conj _ (conj _ _)); [lia | intros; rewrite ?get_nil; lia | assumption].
  - destruct (add_lovelace f s) as [c|] eqn:E; [|discriminate]. apply add_lovelace_spec in E.
    destruct (add_ma_pre fm sm) as [r|] eqn:Em; [|discriminate]. inversion H; subst.
    destruct (add_ma_pre_spec _ _ _ Em W1 W2) as [S W]. cbn. refine (conj _ (conj _ _)); [lia | exact S | exact W].
Qed.

Lemma conway_add_values_spec v1 v2 v : conway_add_values v1 v2 = Some v -> wfv v1 -> wfv v2 ->
  coin_of v = coin_of v1 + coin_of v2 /\ (forall p a, vget v p a = vget v1 p a + vget v2 p a) /\ wfv v.
Proof.
  unfold wfv, vget. destruct v1 as [f|f fm], v2 as [s|s sm]; cbn [conway_add_values ma_of coin_of]; intros H W1 W2.
  - destruct (add_lovelace f s) as [c|] eqn:E; [|discriminate]. inversion H; subst. apply add_lovelace_spec in E.
    cbn. refine (conj _ (conj _ _)); [lia | intros; rewrite ?get_nil; lia | assumption].
  - destruct (add_lovelace f s) as [c|] eqn:E; [|discriminate]. inversion H; subst. apply add_lovelace_spec in E.
    cbn. refine (conj _ (conj _ _)); [lia | intros; rewrite ?get_nil; lia | assumption].
  - destruct (add_lovelace f s) as [c|] eqn:E; [|discriminate]. inversion H; subst. apply add_lovelace_spec in E.
    cbn. refine (conj _ (conj _ _)); [lia | intros; rewrite ?get_nil; lia | assumption].
  - destruct (add_lovelace f s) as [c|] eqn:E; [|discriminate]. apply add_lovelace_spec in E.
    destruct (add_ma in_u64 fm sm) as [r|] eqn:Em; [|discriminate].
    destruct (to_positive r) as [r'|] eqn:Ep; [|discriminate]. apply to_positive_id in Ep. inversion H; subst.
    destruct (add_ma_spec _ _ _ _ Em W1 W2) as [S W]. cbn. refine (conj _ (conj _ _)); [lia | exact S | exact W].
Qed.

Lemma sum_values_spec add :
  (forall v1 v2 v, add v1 v2 = Some v -> wfv v1 -> wfv v2 ->
     coin_of v = coin_of v1 + coin_of v2 /\ (forall p a, vget v p a = vget v1 p a + vget v2 p a) /\ wfv v) ->
  forall l acc r, sum_values add acc l = Some r -> wfv acc -> Forall wfv l ->
  coin_of r = coin_of acc + total_coin l /\ (forall p a, vget r p a = vget acc p a + total_qty l p a) /\ wfv r.
Proof.
  intros Hadd. induction l as [|v rest IH]; intros acc r H Wa Wl; cbn [sum_values] in H.
  - inversion H; subst. cbn. refine (conj _ (conj _ _)); [lia | intros; lia | assumption].
  - destruct (add acc v) as [acc'|] eqn:E; [|discriminate]. inversion Wl as [|? ? Wv Wr]; subst.
    destruct (Hadd _ _ _ E Wa Wv) as [C [G W]].
    destruct (IH _ _ H W Wr) as [C2 [G2 W2]]. cbn [total_coin total_qty fold_right].
    fold (total_coin rest). split; [lia|]. split; [|exact W2].
    intros p a. rewrite G2, G. unfold vget. fold (total_qty rest p a). lia.
Qed.

(* ---------- equality *)
Lemma included_spec f s : included f s = true -> forall p a, get f p a <> 0 -> get s p a = get f p a.
Proof.
  unfold included. rewrite forallb_forall. intros H p a Hne.
  unfold get in *. destruct (find p f) as [fas|] eqn:Ff; [|contradiction].
  specialize (H _ (find_In _ _ _ Ff)). cbn [fst snd] in H.
  destruct (find p s) as [sas|]; [|discriminate]. rewrite forallb_forall in H.
  unfold qty in *. destruct (find a fas) as [q|] eqn:Fa; [|contradiction].
  specialize (H _ (find_In _ _ _ Fa)). cbn [fst snd] in H.
  destruct (q =? 0) eqn:Z0; [lia|]. destruct (find a sas) as [q'|]; [lia|discriminate].
Qed.

Lemma ma_equal_spec f s : ma_equal f s = true -> forall p a, get f p a = get s p a.
Proof.
  unfold ma_equal. intros H p a. apply andb_true_iff in H as [H1 H2].
  destruct (Z.eq_dec (get f p a) 0) as [Z0|NZ].
  - destruct (Z.eq_dec (get s p a) 0) as [Z1|NZ1]; [lia|].
    pose proof (included_spec _ _ H2 p a NZ1). lia.
  - pose proof (included_spec _ _ H1 p a NZ). lia.
Qed.

Lemma values_equal_spec v1 v2 : values_are_equal v1 v2 = true ->
  coin_of v1 = coin_of v2 /\ forall p a, vget v1 p a = vget v2 p a.
Proof.
  unfold vget. destruct v1 as [f|f fm], v2 as [s|s sm]; cbn [values_are_equal ma_of coin_of]; intros H.
  - split; [lia|reflexivity].
  - apply andb_true_iff in H as [H1 H2]. destruct sm; [|discriminate]. split; [lia|reflexivity].
  - apply andb_true_iff in H as [H1 H2]. destruct fm; [|discriminate]. split; [lia|reflexivity].
  - destruct (f =? s) eqn:E; [|discriminate]. split; [lia|]. apply ma_equal_spec. exact H.
Qed.

(* ---------- mint, pre-Conway *)
Lemma add_minted_spec v mint v' : add_minted_value v mint = Some v' -> wfv v -> wf mint ->
  coin_of v' = coin_of v /\ forall p a, vget v' p a = vget v p a + get mint p a.
Proof.
  unfold wfv, vget. destruct v as [n|n m]; cbn [add_minted_value ma_of coin_of]; intros H W Wm.
  - destruct (coerce_to_coin mint) as [m'|] eqn:E; [|discriminate]. apply coerce_to_coin_id in E. inversion H; subst.
    cbn. split; [reflexivity|]. intros. rewrite ?get_nil. lia.
  - destruct (coerce_to_i64 m) as [mi|] eqn:E1; [|discriminate]. apply coerce_to_i64_id in E1. subst.
    destruct (add_ma in_i64 m mint) as [r|] eqn:E2; [|discriminate].
    destruct (coerce_to_coin r) as [r'|] eqn:E3; [|discriminate]. apply coerce_to_coin_id in E3. inversion H; subst.
    destruct (add_ma_spec _ _ _ _ E2 W Wm) as [S _]. cbn. split; [reflexivity|exact S].
Qed.

Lemma wfv_empty : wfv (VMa 0 []).
Proof. exact wf_nil. Qed.

Lemma pre_balance ins outs fee mint :
  Forall wfv ins -> Forall wfv outs -> (forall m, mint = Some m -> wf m) ->
  check_preservation_pre ins outs fee mint = V_OK ->
  total_coin ins = total_coin outs + fee /\
  forall p a, total_qty ins p a + mint_qty mint p a = total_qty outs p a.
Proof.
  intros Wi Wo Wm H. unfold check_preservation_pre in H.
  destruct (sum_values add_values (VMa 0 []) ins) as [consumed|] eqn:Ec; [|discriminate].
  destruct (sum_values add_values (VMa 0 []) outs) as [produced|] eqn:Ep; [|discriminate].
  destruct (sum_values_spec _ add_values_spec _ _ _ Ec wfv_empty Wi) as [Cc [Gc Wc]].
  destruct (sum_values_spec _ add_values_spec _ _ _ Ep wfv_empty Wo) as [Cp [Gp Wp]].
  destruct (add_values produced (VCoin fee)) as [output|] eqn:Eo; [|discriminate].
  destruct (add_values_spec _ _ _ Eo Wp wf_nil) as [Co [Go _]].
  destruct mint as [m|].
  - destruct (add_minted_value consumed m) as [input|] eqn:Em; [|discriminate].
    destruct (add_minted_spec _ _ _ Em Wc (Wm m eq_refl)) as [Ci Gi].
    destruct (values_are_equal input output) eqn:Eq; [|discriminate].
    destruct (values_equal_spec _ _ Eq) as [C G]. cbn in *. split; [lia|].
    intros p a. specialize (G p a). rewrite Gi, Go, Gc, Gp in G. unfold vget in G. cbn in G. rewrite ?get_nil in G. lia.
  - destruct (values_are_equal consumed output) eqn:Eq; [|discriminate].
    destruct (values_equal_spec _ _ Eq) as [C G]. cbn in *. split; [lia|].
    intros p a. specialize (G p a). rewrite Go, Gc, Gp in G. unfold vget in G. cbn in G. rewrite ?get_nil in G. lia.
Qed.

(* ---------- Conway *)
Lemma qty_filter_nz l a : nodup_keys l = true ->
  qty (filter (fun aq : Z * Z => negb (snd aq =? 0)) l) a = qty l a.
Proof.
  induction l as [|[k q] r IH]; intros Hnd; [reflexivity|].
  cbn [nodup_keys] in Hnd. destruct (find k r) eqn:F; [discriminate|].
  cbn [filter snd]. destruct (q =? 0) eqn:Z0; cbn [negb].
  - rewrite (IH Hnd). unfold qty. cbn [find]. destruct (k =? a) eqn:E; [|reflexivity].
    assert (a = k) by lia. subst. rewrite F. lia.
  - unfold qty in *. cbn [find]. destruct (k =? a); [reflexivity|apply IH; exact Hnd].
Qed.

Lemma get_retain m : wf m -> forall p a, get (retain_nonzero m) p a = get m p a.
Proof.
  unfold retain_nonzero. induction m as [|[k l] r IH]; intros [Hnd Hin] p a; [reflexivity|].
  cbn [nodup_keys] in Hnd. destruct (find k r) eqn:F; [discriminate|].
  assert (Wr : wf r) by (split; [exact Hnd|intros p' l' Hi; apply (Hin p'); right; exact Hi]).
  assert (Hl : nodup_keys l = true) by (apply (Hin k); left; reflexivity).
  cbn [map filter fst snd].
  destruct (filter (fun aq : Z * Z => negb (snd aq =? 0)) l) as [|x xs] eqn:Fl; cbn [is_empty negb].
  - rewrite (IH Wr). unfold get at 2. cbn [find]. destruct (k =? p) eqn:E; [|reflexivity].
    assert (p = k) by lia. subst. unfold get. rewrite F.
    rewrite <- (qty_filter_nz l a Hl), Fl. reflexivity.
  - unfold get. cbn [find]. destruct (k =? p) eqn:E.
    + rewrite <- Fl. apply qty_filter_nz. exact Hl.
    + apply (IH Wr).
Qed.

Lemma conway_add_minted_spec v mint v' : conway_add_minted_non_zero v mint = Some v' -> wfv v -> wf mint ->
  coin_of v' = coin_of v /\ forall p a, vget v' p a = vget v p a + get mint p a.
Proof.
  unfold wfv, vget. destruct v as [n|n m]; cbn [conway_add_minted_non_zero ma_of coin_of]; intros H W Wm.
  - destruct (all_qty (fun q => 0 <=? q) mint); [|discriminate].
    destruct (to_positive mint) as [m'|] eqn:E; [|discriminate]. apply to_positive_id in E. inversion H; subst.
    cbn. split; [reflexivity|]. intros. rewrite ?get_nil. lia.
  - destruct W as [W1 W2]. destruct Wm as [M1 M2].
    destruct (add_into in_u64 (fun _ => true) [] m) as [r|] eqn:E1; [|discriminate].
    destruct (add_into in_u64 (fun q => 0 <=? q) r mint) as [r2|] eqn:E2; [|discriminate].
    destruct (to_positive (retain_nonzero r2)) as [r3|] eqn:E3; [|discriminate]. apply to_positive_id in E3. inversion H; subst.
    pose proof (add_into_spec _ _ _ _ _ E1 W1 W2) as S1.
    pose proof (add_into_wf _ _ _ _ _ E1 wf_nil) as Wr.
    pose proof (add_into_spec _ _ _ _ _ E2 M1 M2) as S2.
    pose proof (add_into_wf _ _ _ _ _ E2 Wr) as Wr2.
    cbn. split; [reflexivity|]. intros p a. rewrite (get_retain _ Wr2), S2, S1, get_nil. lia.
Qed.

Lemma sum_values1_spec l r : sum_values1 conway_add_values l = Ok r -> Forall wfv l ->
  coin_of r = total_coin l /\ (forall p a, vget r p a = total_qty l p a) /\ wfv r.
Proof.
  destruct l as [|v rest]; cbn [sum_values1]; [discriminate|].
  destruct (sum_values conway_add_values v rest) as [x|] eqn:E; [|discriminate].
  intros H Wl. inversion H; subst. inversion Wl as [|? ? Wv Wr]; subst.
  destruct (sum_values_spec _ conway_add_values_spec _ _ _ E Wv Wr) as [C [G W]].
  cbn [total_coin total_qty fold_right]. fold (total_coin rest).
  refine (conj _ (conj _ _)); [lia | | exact W].
  intros p a. rewrite G. unfold vget. fold (total_qty rest p a). lia.
Qed.

Lemma conway_balance ins outs fee mint :
  Forall wfv ins -> Forall wfv outs -> (forall m, mint = Some m -> wf m) ->
  check_preservation_conway ins outs fee mint = V_OK ->
  total_coin ins = total_coin outs + fee /\
  forall p a, total_qty ins p a + mint_qty mint p a = total_qty outs p a.
Proof.
  intros Wi Wo Wm H. unfold check_preservation_conway in H.
  destruct (sum_values1 conway_add_values ins) as [consumed|e|pp] eqn:Ec; [| |discriminate].
  2:{ destruct ins as [|v rest]; cbn in Ec; [inversion Ec; subst; discriminate|].
      destruct (sum_values conway_add_values v rest); inversion Ec; subst; discriminate. }
  destruct (sum_values1 conway_add_values outs) as [produced|e|pp] eqn:Ep; [| |discriminate].
  2:{ destruct outs as [|v rest]; cbn in Ep; [inversion Ep; subst; discriminate|].
      destruct (sum_values conway_add_values v rest); inversion Ep; subst; discriminate. }
  destruct (sum_values1_spec _ _ Ec Wi) as [Cc [Gc Wc]].
  destruct (sum_values1_spec _ _ Ep Wo) as [Cp [Gp Wp]].
  destruct (conway_add_values produced (VCoin fee)) as [output|] eqn:Eo; [|discriminate].
  destruct (conway_add_values_spec _ _ _ Eo Wp wf_nil) as [Co [Go _]].
  destruct mint as [m|].
  - destruct (conway_add_minted_non_zero consumed m) as [input|] eqn:Em; [|discriminate].
    destruct (conway_add_minted_spec _ _ _ Em Wc (Wm m eq_refl)) as [Ci Gi].
    destruct (values_are_equal input output) eqn:Eq; [|discriminate].
    destruct (values_equal_spec _ _ Eq) as [C G]. cbn in *. split; [lia|].
    intros p a. specialize (G p a). rewrite Gi, Go, Gc, Gp in G. unfold vget in G. cbn in G. rewrite ?get_nil in G. lia.
  - destruct (values_are_equal consumed output) eqn:Eq; [|discriminate].
    destruct (values_equal_spec _ _ Eq) as [C G]. cbn in *. split; [lia|].
    intros p a. specialize (G p a). rewrite Go, Gc, Gp in G. unfold vget in G. cbn in G. rewrite ?get_nil in G. lia.
Qed.

(* ---------- the casts as they were *)
(* Conway: a burn of 5 of an asset the inputs do not hold, against an output of 2^64-5 of it *)
Lemma conway_old_cast_refuted :
  exists n mint out_ma,
    values_are_equal (conway_add_minted_non_zero_old_coin n mint) (VMa n out_ma) = true /\
    get mint 1 1 = -5 /\ get out_ma 1 1 = 18446744073709551611.
Proof.
  exists 1000000, [(1, [(1, -5)])], [(1, [(1, 18446744073709551611)])].
  repeat split; vm_compute; reflexivity.
Qed.

(* pre-Conway: a quantity of 2^64-5 reads as -5 after `as i64`, and 5 more of it sum to 0 *)
Lemma pre_old_cast_refuted :
  exists f s r, add_ma in_i64 (coerce_to_i64_old f) (coerce_to_i64_old s) = Some r /\
    get f 1 1 + get s 1 1 = 18446744073709551616 /\ get r 1 1 = 0.
Proof.
  exists [(1, [(1, 18446744073709551611)])], [(1, [(1, 5)])]. eexists.
  split; [vm_compute; reflexivity|]. split; vm_compute; reflexivity.
Qed.

(* ---------- Byron *)
Lemma checked_sum_spec : forall l acc r, checked_sum l acc = Some r -> r = acc + sumZ l.
Proof.
  induction l as [|x rest IH]; intros acc r H; cbn [checked_sum] in H.
  - inversion H; subst. cbn. lia.
  - destruct (acc + x <=? U64_MAX); [|discriminate]. apply IH in H. cbn [sumZ fold_right]. fold (sumZ rest). lia.
Qed.

Lemma byron_fee ins outs size mult summand :
  byron_check_fees ins outs false size mult summand = V_OK ->
  sumZ outs + (mult * size + summand) <= sumZ ins.
Proof.
  unfold byron_check_fees. destruct (checked_sum ins 0) as [ib|] eqn:Ei; [|discriminate].
  destruct (checked_sum outs 0) as [ob|] eqn:Eo; [|discriminate].
  apply checked_sum_spec in Ei, Eo.
  destruct (ib <? ob) eqn:C1; [discriminate|].
  destruct ((mult * size >? U64_MAX) || (mult * size + summand >? U64_MAX)); [discriminate|].
  destruct (ib - ob <? mult * size + summand) eqn:C2; [discriminate|]. intros _. lia.
Qed.
