(* C32 correspondence.  A case records, for one build mode, one genesis record
   (a well-known network, whose generated constants must equal the record the
   Rust constructor returned, or a generated record), one absolute slot and one
   (epoch, slot-in-epoch) pair, what the implementation returned for
     absolute_slot_to_relative slot, relative_slot_to_absolute epoch sub,
     slot_to_wallclock slot, relative_slot_to_absolute (absolute_slot_to_relative slot),
     shelley_start_epoch. *)
From PV Require Import Lib.Base Generated.Wellknown C32.Model.
Open Scope Z_scope.

Definition outs : Type := (outcome (Z * Z) * outcome Z * outcome Z * outcome Z * outcome Z)%type.
Definition case : Type := (mode * option network * genesis * (Z * Z * Z) * outs)%type.

Definition run (m : mode) (g : genesis) (q : Z * Z * Z) : outs :=
  let '(slot, e, s) := q in
  let rel := absolute_slot_to_relative m g slot in
  (rel,
   relative_slot_to_absolute m g e s,
   slot_to_wallclock m g slot,
   bind rel (fun er => relative_slot_to_absolute m g (fst er) (snd er)),
   shelley_start_epoch m g).

Definition case_out (c : case) : outs := let '(m, _, g, q, _) := c in run m g q.

Definition outs_eqb (a b : outs) : bool :=
  let '(a1, a2, a3, a4, a5) := a in
  let '(b1, b2, b3, b4, b5) := b in
  outcome_eqb pair_eqb a1 b1 && outcome_eqb Z.eqb a2 b2 && outcome_eqb Z.eqb a3 b3 &&
  outcome_eqb Z.eqb a4 b4 && outcome_eqb Z.eqb a5 b5.

Definition case_ok (c : case) : bool :=
  let '(m, n, g, q, o) := c in
  match n with Some n => genesis_eqb (genesis_of n) g | None => true end &&
  outs_eqb (run m g q) o.
