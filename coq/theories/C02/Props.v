(* C02 — property theorems only. Statements are pinned by vp/check.py. *)
From PV Require Import Lib.Base Flat.Model Flat.DecSafe Flat.DecTotal C02.Legacy.
Open Scope Z_scope.

(* Decoding is total: whatever the bytes and whatever sequence of Decoder calls
   (going on after errors), no call panics: no index or slice range out of
   bounds, no shift by >= the bit width, no arithmetic overflow. *)
Theorem flat_dec_total : forall bs script,
  bytes_wf bs -> Z.of_nat (length bs) < 2 ^ 60 -> Forall op_wf script ->
  forall r, In r (fst (run_script script (mk_dec bs))) -> forall p, r <> Panic p.
Proof.
  intros bs script Hw Hl Hs r Hr.
  exact (proj1 (proj1 (run_script_ok script Hs (mk_dec bs) (dinv_mk_dec bs Hw Hl)) r Hr)).
Qed.

(* The loop fuel of the model is always sufficient: E_FUEL never comes out, so
   [flat_dec_total] is not true by truncation of the loops. *)
Theorem flat_dec_fuel_sufficient : forall bs script,
  bytes_wf bs -> Z.of_nat (length bs) < 2 ^ 60 -> Forall op_wf script ->
  forall r, In r (fst (run_script script (mk_dec bs))) -> r <> Err E_FUEL.
Proof.
  intros bs script Hw Hl Hs r Hr.
  exact (proj2 (proj1 (run_script_ok script Hs (mk_dec bs) (dinv_mk_dec bs Hw Hl)) r Hr)).
Qed.

(* The cursor never leaves the buffer: 0 <= pos <= len, 0 <= used_bits < 8,
   and used_bits = 0 once pos = len. *)
Theorem flat_dec_cursor_in_bounds : forall bs script,
  bytes_wf bs -> Z.of_nat (length bs) < 2 ^ 60 -> Forall op_wf script ->
  let s := snd (run_script script (mk_dec bs)) in
  d_buf s = bs /\ 0 <= d_pos s <= Z.of_nat (length bs) /\ 0 <= d_used s < 8 /\
  (d_pos s = Z.of_nat (length bs) -> d_used s = 0).
Proof.
  intros bs script Hw Hl Hs.
  destruct (run_script_ok script Hs (mk_dec bs) (dinv_mk_dec bs Hw Hl)) as (_ & (H1 & H2 & H3 & _) & Hb).
  cbn zeta. unfold d_len in *. rewrite Hb in *. cbn [d_buf mk_dec] in *. tauto.
Qed.

(* flat::decode::<T>(bytes) = T::decode then Filler::decode *)
Theorem flat_decode_total : forall o bs,
  bytes_wf bs -> Z.of_nat (length bs) < 2 ^ 60 -> op_wf o -> forall p, flat_decode o bs <> Panic p.
Proof.
  intros o bs Hw Hl Ho p. unfold flat_decode.
  assert (G : good 0 (v <- run_op o ;; dec_filler ;;; ret v)).
  { apply good_bind0; [apply good_op, Ho|]. intros v.
    apply good_bind0; [apply good_filler | intros; apply good_ret]. }
  exact (proj1 (G (mk_dec bs) (dinv_mk_dec bs Hw Hl)) p).
Qed.

(* History: the three methods as they were before the fix: commits panicked. *)
Theorem flat_dec_total_refuted_before_fix :
  fst (dec_bool_legacy (mk_dec [])) = Panic P_INDEX /\
  fst (dec_word_legacy true (mk_dec (repeat 255 10 ++ [1]))) = Panic P_SHIFT /\
  fst (dec_word_legacy false (mk_dec (repeat 255 10 ++ [1]))) = Ok (2 ^ 64 - 1) /\
  fst (dec_bits8_legacy true 0 (mk_dec [255])) = Panic P_SHIFT /\
  fst (dec_bits8_legacy false 0 (mk_dec [])) = Panic P_INDEX.
Proof. exact legacy_decoder_panics. Qed.

(* non-vacuity: a script that decodes values, hits errors and goes on *)
Example flat_dec_example :
  run_script [OBool; OWord; OBytes; OInteger; OBool; OList OBool; OBits8 3; OBits8 3]
             (mk_dec [193; 0; 129; 2; 7; 9; 0; 5; 234])
  = ([Ok (DBool true); Ok (DWord 130); Ok (DBytes [7; 9]); Ok (DInt (-3)); Ok (DBool true);
      Ok (DList [DBool true]); Ok (DBits 5); Err (E_BITS 3)],
     mkDec [193; 0; 129; 2; 7; 9; 0; 5; 234] 8 7)
  /\ fst (run_script [OWord; OBool] (mk_dec (repeat 255 10 ++ [1]))) = [Err E_MSG; Ok (DBool false)]
  /\ fst (run_script [OBool] (mk_dec [])) = [Err E_END].
Proof. vm_compute. repeat split. Qed.
