(* C01, decoder side: if the unread bits of the buffer start with the bits the
   encoder wrote for a value, the Decoder method returns that value and the
   cursor advances exactly past them. *)
From PV Require Import Lib.Base Flat.Model Flat.Encoder Flat.Bits Flat.DecSafe Flat.DecTotal Flat.EncProofs.
Open Scope Z_scope.

Definition d_off (s : dec) : Z := 8 * d_pos s + d_used s.
(* the bits not yet read *)
Definition drest (s : dec) : list bool := skipn (Z.to_nat (d_off s)) (bytes_bits (d_buf s)).

Definition dstep {A} (u : Z) (m : M A) (a : A) (bits : list bool) : Prop :=
  forall st post, dinv st -> d_used st = u -> drest st = bits ++ post ->
  exists st', m st = (Ok a, st') /\ dinv st' /\ d_buf st' = d_buf st /\ drest st' = post /\
              d_off st' = d_off st + Z.of_nat (length bits).

Ltac split5 := split; [|split; [|split; [|split]]].

Lemma skipn_app_exact {A} (l r : list A) : skipn (length l) (l ++ r) = r.
Proof. induction l; cbn; auto. Qed.

Lemma drest_advance s s' k :
  d_buf s' = d_buf s -> 0 <= d_off s -> 0 <= k -> d_off s' = d_off s + k ->
  drest s' = skipn (Z.to_nat k) (drest s).
Proof.
  intros Hb H0 Hk Ho. unfold drest. rewrite Hb, Ho, Z2Nat.inj_add by lia. apply skipn_add.
Qed.

Lemma drest_after s s' bits post :
  d_buf s' = d_buf s -> 0 <= d_off s -> d_off s' = d_off s + Z.of_nat (length bits) ->
  drest s = bits ++ post -> drest s' = post.
Proof.
  intros Hb H0 Ho Hr. rewrite (drest_advance s s' (Z.of_nat (length bits))); auto; try lia.
  rewrite Hr, Nat2Z.id. apply skipn_app_exact.
Qed.

Lemma dinv_off s : dinv s -> 0 <= d_off s.
Proof. intros (Hp & Hu & _). unfold d_off. lia. Qed.

Lemma drest_length s : dinv s -> Z.of_nat (length (drest s)) = 8 * d_len s - d_off s.
Proof.
  intros (Hp & Hu & He & _). unfold drest, d_off, d_len in *. rewrite skipn_length, bytes_bits_length. lia.
Qed.

(* building a dstep from [good] (invariant, same buffer) + value + offset *)
Lemma dstep_intro {A} k u (m : M A) a bits :
  good k m ->
  (forall st post, dinv st -> d_used st = u -> drest st = bits ++ post ->
     exists st', m st = (Ok a, st') /\ d_off st' = d_off st + Z.of_nat (length bits)) ->
  dstep u m a bits.
Proof.
  intros Hg H st post Hs Hu Hr. destruct (H st post Hs Hu Hr) as (st' & E & Ho).
  destruct (Hg st Hs) as (_ & _ & G3 & G4 & _). rewrite E in *. cbn [fst snd] in *.
  exists st'. split5; auto. eapply drest_after; eauto. apply dinv_off, Hs.
Qed.

Lemma nth_idx l i : 0 <= i < Z.of_nat (length l) -> idx l i = Ok (nth (Z.to_nat i) l 0).
Proof. intros H. unfold idx. replace ((0 <=? i) && (i <? Z.of_nat (length l))) with true by lia. reflexivity. Qed.

(* the n <= 8 unread bits are inside the two bytes at pos, pos+1 *)
Lemma dec_window st bits post :
  dinv st -> drest st = bits ++ post -> (1 <= length bits <= 8)%nat ->
  let a := nth (Z.to_nat (d_pos st)) (d_buf st) 0 in
  let b := nth (Z.to_nat (d_pos st + 1)) (d_buf st) 0 in
  d_pos st < d_len st /\
  (Z.of_nat (length bits) + d_used st > 8 -> d_pos st + 1 < d_len st) /\
  0 <= a < 256 /\ 0 <= b < 256 /\
  firstn (length bits) (skipn (Z.to_nat (d_used st)) (byte_bits a ++ byte_bits b)) = bits.
Proof.
  intros Hs Hr Hn a b. pose proof (drest_length st Hs) as HL.
  pose proof Hs as (Hp & Hu & He & Hl & Hw).
  rewrite Hr, app_length in HL. unfold d_off in HL.
  assert (Hpos : d_pos st < d_len st) by lia.
  assert (Hpos1 : Z.of_nat (length bits) + d_used st > 8 -> d_pos st + 1 < d_len st) by lia.
  unfold d_len in *.
  assert (Ha : 0 <= a < 256) by (apply nth_wf; [exact Hw | lia]).
  assert (Hb : 0 <= b < 256).
  { destruct (Z_lt_dec (d_pos st + 1) (Z.of_nat (length (d_buf st)))).
    - apply nth_wf; [exact Hw | lia].
    - unfold b. rewrite nth_overflow by lia. lia. }
  repeat split; try lia.
  assert (Hd : drest st = skipn (Z.to_nat (d_used st)) (bytes_bits (skipn (Z.to_nat (d_pos st)) (d_buf st)))).
  { unfold drest, d_off. rewrite Z2Nat.inj_add, skipn_add by lia.
    replace (Z.to_nat (8 * d_pos st)) with (8 * Z.to_nat (d_pos st))%nat by lia.
    rewrite skipn_bytes_bits. reflexivity. }
  rewrite (skipn_nth_cons 0) in Hd by lia. fold a in Hd.
  assert (Hf : firstn (length bits) (drest st) = bits).
  { rewrite Hr. rewrite firstn_app, Nat.sub_diag, firstn_all. cbn [firstn]. apply app_nil_r. }
  etransitivity; [|exact Hf]. rewrite Hd, bytes_bits_cons.
  destruct (Z_lt_dec (d_pos st + 1) (Z.of_nat (length (d_buf st)))) as [Hlt|Hge].
  - rewrite (skipn_nth_cons 0) by lia.
    replace (S (Z.to_nat (d_pos st))) with (Z.to_nat (d_pos st + 1)) by lia. fold b.
    rewrite bytes_bits_cons, app_assoc.
    symmetry. apply firstn_skipn_app. rewrite app_length, !byte_bits_length. lia.
  - replace (skipn (S (Z.to_nat (d_pos st))) (d_buf st)) with (@nil Z) by (symmetry; apply skipn_all2; lia).
    cbn [bytes_bits flat_map]. rewrite app_nil_r.
    apply firstn_skipn_app. rewrite byte_bits_length. lia.
Qed.

Lemma firstn1_skipn_nth {A} (d : A) u l x : firstn 1 (skipn u l) = [x] -> nth u l d = x.
Proof.
  revert l. induction u as [|u IH]; intros [|y l] H; cbn in *; try discriminate.
  - inversion H. reflexivity.
  - apply IH, H.
Qed.

(* fn bit / pub fn bool *)
Lemma dec_bit_ok u b : dstep u dec_bit b [b].
Proof.
  apply (dstep_intro 1); [apply good_bit|].
  intros st post Hs _ Hr.
  destruct (dec_window st [b] post Hs Hr) as (Hpos & _ & Ha & _ & Hf); [cbn; lia|].
  pose proof Hs as (Hp & Hu & He & Hl & Hw).
  cbn [length] in Hf. apply (firstn1_skipn_nth false) in Hf.
  rewrite app_nth1 in Hf by (rewrite byte_bits_length; lia).
  unfold dec_bit, bind, get, lift, shr8, incr_bit, ret, fail.
  replace (d_pos st >=? d_len st) with false by lia.
  unfold d_len in *. rewrite nth_idx by lia.
  replace ((0 <=? d_used st) && (d_used st <? 8)) with true by lia.
  rewrite d_bit_spec, Hf by lia.
  destruct (d_used st =? 7) eqn:E7; eexists; (split; [reflexivity|]); unfold d_off; cbn [d_pos d_used length]; lia.
Qed.

(* pub fn bits8(n): the n low bits of v *)
Lemma low_bits_length n v : 1 <= n <= 8 -> length (low_bits n v) = Z.to_nat n.
Proof. intros Hn. unfold low_bits. rewrite skipn_length, byte_bits_length. lia. Qed.

Lemma shiftr_small b m : 0 <= b < 256 -> 8 <= m -> Z.shiftr b m = 0.
Proof.
  intros Hb Hm. rewrite Z.shiftr_div_pow2 by lia. apply Z.div_small.
  assert (2 ^ 8 <= 2 ^ m) by (apply Z.pow_le_mono_r; lia). change (2 ^ 8) with 256 in *. lia.
Qed.

Lemma dec_bits8_ok u n v : 1 <= n <= 8 -> 0 <= v < 2 ^ n -> dstep u (dec_bits8 n) v (low_bits n v).
Proof.
  intros Hn Hv. eapply (dstep_intro (if n <=? 8 then n else 0)); [apply good_bits8; lia|].
  intros st post Hs _ Hr.
  pose proof (low_bits_length n v Hn) as HLn.
  destruct (dec_window st _ post Hs Hr) as (Hpos & Hpos1 & Ha & Hb & Hf); [rewrite HLn; lia|].
  rewrite HLn in *. rewrite Z2Nat.id in Hpos1 by lia.
  set (a := nth (Z.to_nat (d_pos st)) (d_buf st) 0) in *.
  set (b := nth (Z.to_nat (d_pos st + 1)) (d_buf st) 0) in *.
  pose proof Hs as (Hp & Hu & He & Hl & Hw).
  (* the value *)
  destruct (d_win8_spec (d_used st) a b Hu Ha Hb) as (HX & HXb).
  destruct (d_top_spec n (win8 (d_used st) a b) Hn HX) as (HY & HYb).
  assert (Hval : Z.shiftr (win8 (d_used st) a b) (8 - n) = v).
  { apply (low_bits_inj n); auto.
    rewrite HYb, HXb, firstn_firstn. replace (Nat.min (Z.to_nat n) 8) with (Z.to_nat n) by lia.
    exact Hf. }
  assert (Hsplit : Z.shiftr (win8 (d_used st) a b) (8 - n)
                   = Z.lor (Z.shiftr (Z.shiftl a (d_used st) mod 256) (8 - n)) (Z.shiftr b (8 - d_used st + (8 - n)))).
  { unfold win8. rewrite Z.shiftr_lor, Z.shiftr_shiftr by lia. reflexivity. }
  (* the run *)
  unfold dec_bits8.
  replace (n >? 8) with false by lia. replace (n =? 0) with false by lia.
  unfold ensure_bits, mul_isize, sub_usize, shl8, shr8, drop_bits, bind, get, lift, ret, fail.
  cbn [fst snd d_buf d_pos d_used].
  unfold d_len in *.
  assert (HL : Z.of_nat (length (d_buf st)) < 1152921504606846976) by (change (2 ^ 60) with 1152921504606846976 in Hl; exact Hl).
  change (2 ^ 63) with 9223372036854775808.
  pose proof (drest_length st Hs) as HR. rewrite Hr, app_length, HLn in HR. unfold d_off, d_len in HR.
  match goal with |- context [if ?c then _ else _] => replace c with true by lia end. cbn [fst snd d_buf d_pos d_used].
  match goal with |- context [if ?c then _ else _] => replace c with false by lia end. cbn [fst snd d_buf d_pos d_used].
  replace (d_used st <=? 8) with true by lia. cbn [fst snd].
  replace (n <=? 8) with true by lia. cbn [fst snd].
  rewrite nth_idx by lia. fold a. cbn [fst snd].
  replace ((0 <=? d_used st) && (d_used st <? 8)) with true by lia. cbn [fst snd].
  replace ((0 <=? 8 - n) && (8 - n <? 8)) with true by lia. cbn [fst snd].
  destruct (n >? 8 - d_used st) eqn:En.
  - rewrite nth_idx by lia. fold b. cbn [fst snd].
    replace ((0 <=? 8 - d_used st + (8 - n)) && (8 - d_used st + (8 - n) <? 8)) with true by lia.
    cbn [fst snd d_buf d_pos d_used].
    eexists. split; [rewrite <- Hsplit, Hval; reflexivity|].
    unfold d_off. cbn [d_pos d_used]. lia.
  - cbn [fst snd d_buf d_pos d_used].
    eexists. split.
    + rewrite Hsplit, (shiftr_small b) in Hval by lia. rewrite Z.lor_0_r in Hval. rewrite Hval. reflexivity.
    + unfold d_off. cbn [d_pos d_used]. lia.
Qed.

(* pub fn u8 *)
Lemma dec_u8_ok u x : 0 <= x < 256 -> dstep u dec_u8 x (byte_bits x).
Proof. intros Hx. apply (dec_bits8_ok u 8 x); [lia | change (2 ^ 8) with 256; lia]. Qed.

Lemma rem_off st : rem st = 8 * d_len st - d_off st.
Proof. unfold rem, d_off. lia. Qed.

(* pub fn filler: zeros then a one *)
Lemma filler_loop_dec k : forall fuel st post, dinv st -> rem st < Z.of_nat fuel ->
  drest st = (repeat false k ++ [true]) ++ post ->
  exists st', filler_loop fuel st = (Ok tt, st') /\ dinv st' /\ d_buf st' = d_buf st /\ drest st' = post /\
              d_off st' = d_off st + Z.of_nat (length (repeat false k ++ [true])).
Proof.
  induction k as [|k IH]; intros fuel st post Hs Hf Hr.
  - destruct fuel as [|f]. { pose proof (drest_length st Hs). rewrite Hr in H. cbn in H. rewrite rem_off in Hf. lia. }
    cbn [repeat app] in Hr. destruct (dec_bit_ok (d_used st) true st post Hs eq_refl Hr) as (st' & E & Hs' & Hb & Hr' & Ho).
    exists st'. cbn [filler_loop]. unfold bind, dec_zero, bind. rewrite E. cbn [ret negb]. split5; auto.
  - destruct fuel as [|f]. { pose proof (drest_length st Hs). rewrite Hr in H. cbn in H. rewrite rem_off in Hf. lia. }
    cbn [repeat app] in Hr.
    destruct (dec_bit_ok (d_used st) false st _ Hs eq_refl Hr) as (st1 & E & Hs1 & Hb1 & Hr1 & Ho1).
    destruct (IH f st1 post Hs1) as (st' & E' & Hs' & Hb' & Hr' & Ho'); auto.
    { rewrite rem_off in *. unfold d_len in *. rewrite Hb1. cbn [length] in Ho1. lia. }
    exists st'. cbn [filler_loop]. unfold bind, dec_zero, bind. rewrite E. cbn [ret negb]. rewrite E'.
    split5; auto; try congruence. rewrite Ho', Ho1. cbn [length repeat app]. rewrite !app_length, !repeat_length. cbn [length]. lia.
Qed.

Lemma dec_filler_ok u : 0 <= u < 8 -> dstep u dec_filler tt (filler_bits u).
Proof.
  intros Hu st post Hs _ Hr. unfold dec_filler, bind, get.
  apply filler_loop_dec; auto. apply fuel_ok', Hs.
Qed.
