(* C39 — property theorems only. Statements are pinned by vp/check.py. *)
From PV Require Import Lib.Base C39.Model C39.Proofs.
Open Scope Z_scope.

(* for ANY per-transaction validator (any state type, any in-place mutation,
   also on its failing path): the call either succeeds and the caller's state
   is the in-order application of every transaction, or fails and the caller's
   state is untouched; within the u32 index range there is no panic *)
Theorem validate_txs_atomic :
  forall (St Tx : Type) (step : St -> Z -> Tx -> St * option Z) (cs : St) (txs : list Tx),
  Z.of_nat (length txs) <= u32_max + 1 ->
  match validate_txs step cs txs with
  | (cs', Ok _) => apply_all step 0 cs txs = Some cs'
  | (cs', Err _) => cs' = cs /\ apply_all step 0 cs txs = None
  | (_, Panic _) => False
  end.
Proof. intros St Tx step cs txs H. exact (atomic_proof step cs txs H). Qed.

(* with no bound at all (the index-conversion panic included): anything but Ok leaves the state alone *)
Theorem validate_txs_failure_keeps_state :
  forall (St Tx : Type) (step : St -> Z -> Tx -> St * option Z) (cs : St) (txs : list Tx),
  snd (validate_txs step cs txs) <> Ok tt -> fst (validate_txs step cs txs) = cs.
Proof. intros St Tx step cs txs H. exact (failure_keeps_state_proof step cs txs H). Qed.

Theorem validate_txs_ok_iff_all_ok :
  forall (St Tx : Type) (step : St -> Z -> Tx -> St * option Z) (cs : St) (txs : list Tx),
  Z.of_nat (length txs) <= u32_max + 1 ->
  (snd (validate_txs step cs txs) = Ok tt <-> exists cs', apply_all step 0 cs txs = Some cs').
Proof. intros St Tx step cs txs H. exact (ok_iff_proof step cs txs H). Qed.

(* the reported error is that of the first transaction that fails on the state built so far *)
Theorem validate_txs_error_is_first_failure :
  forall (St Tx : Type) (step : St -> Z -> Tx -> St * option Z) (cs cs' : St) (txs : list Tx) (e : Z),
  validate_txs step cs txs = (cs', Err e) ->
  exists pre tx post d, txs = pre ++ tx :: post /\
    apply_all step 0 cs pre = Some d /\
    snd (step d (Z.of_nat (length pre)) tx) = Some e.
Proof. intros St Tx step cs cs' txs e H. exact (first_failure_proof step cs txs cs' e H). Qed.

(* non-vacuity, and the contrast: the same leaky validator run directly on the
   caller's state leaves it half-updated *)
Example validate_txs_example :
  validate_txs_inplace_from leaky_step 0 10 [0; 0; 1; 0] = (13, Err 7) /\
  validate_txs leaky_step 10 [0; 0; 1; 0] = (10, Err 7) /\
  validate_txs leaky_step 10 [0; 0; 0] = (13, Ok tt).
Proof. exact inplace_not_atomic_proof. Qed.
