(* C10 model: pallas-crypto/src/hash/{hasher,hash}.rs and nonce/mod.rs, transcribed
   over the streaming BLAKE2b context of Crypto/Blake2b.v.  Definitions only.
   Bytes are Z in [0,256); strings are lists of their UTF-8 bytes. *)
From PV Require Import Lib.Base Crypto.Hex Crypto.Blake2b.
Open Scope Z_scope.

(* ---- hasher.rs: Hasher<BITS>(Blake2b), n = BITS / 8 ---- *)
Definition hasher_new (n : Z) : bstate := blake2b_init n.          (* Blake2b::new($size / 8) *)
Definition hasher_input (s : bstate) (bs : list Z) : bstate := absorb s bs.
Definition hasher_finalize (s : bstate) : list Z := blake2b_fin s.  (* result(&mut [0; n]) *)

Definition hash (n : Z) (bs : list Z) : list Z :=
  hasher_finalize (hasher_input (hasher_new n) bs).
Definition hash_tagged (n : Z) (bs : list Z) (tag : Z) : list Z :=
  hasher_finalize (hasher_input (hasher_input (hasher_new n) [tag]) bs).
(* minicbor::encode(data, &mut hasher): the encoder performs a sequence of
   write_all calls, each of which is one hasher.input; [writes] is that sequence. *)
Definition hash_cbor (n : Z) (writes : list (list Z)) : list Z :=
  hasher_finalize (fold_left hasher_input writes (hasher_new n)).
Definition hash_tagged_cbor (n : Z) (writes : list (list Z)) (tag : Z) : list Z :=
  hasher_finalize (fold_left hasher_input writes (hasher_input (hasher_new n) [tag])).

(* ---- hash.rs: Hash<BYTES> ---- *)
(* From<&[u8]>: copy_from_slice panics unless the lengths agree *)
Definition hash_from_slice (n : Z) (bs : list Z) : outcome (list Z) :=
  if zlen bs =? n then Ok bs else Panic 1.

(* Display: hex::encode (lower case) *)
Definition hash_to_hex (bs : list Z) : list Z := to_hex bs.

(* hex::val *)
Definition hexval (c : Z) : option Z :=
  if (65 <=? c) && (c <=? 70) then Some (c - 65 + 10)
  else if (97 <=? c) && (c <=? 102) then Some (c - 97 + 10)
  else if (48 <=? c) && (c <=? 57) then Some (c - 48)
  else None.

(* the decode loop of hex::decode_to_slice; error classes: 1 OddLength,
   2 InvalidStringLength, 3 InvalidHexCharacter *)
Fixpoint hex_pairs (s : list Z) : outcome (list Z) :=
  match s with
  | hi :: lo :: r =>
      match hexval hi with
      | None => Err 3
      | Some h =>
          match hexval lo with
          | None => Err 3
          | Some l =>
              match hex_pairs r with
              | Ok bs => Ok (Z.lor (Z.shiftl h 4) l :: bs)
              | e => e
              end
          end
      end
  | _ => Ok []
  end.

(* FromStr: hex::decode_to_slice(s, &mut [0; BYTES]) *)
Definition hash_from_hex (n : Z) (s : list Z) : outcome (list Z) :=
  if negb (zlen s mod 2 =? 0) then Err 1
  else if negb (zlen s / 2 =? n) then Err 2
  else hex_pairs s.

(* minicbor Encoder::bytes: type_len(BYTES = 0x40, len) then the payload *)
Fixpoint be_bytes (k : nat) (v : Z) : list Z :=
  match k with
  | O => []
  | S k' => be_bytes k' (v / 256) ++ [v mod 256]
  end.
Definition be_val (bs : list Z) : Z := fold_left (fun acc b => acc * 256 + b) bs 0.

Definition cbor_bytes_head (len : Z) : list Z :=
  if len <=? 23 then [64 + len]
  else if len <=? 255 then 88 :: be_bytes 1 len
  else if len <=? 65535 then 89 :: be_bytes 2 len
  else if len <=? 4294967295 then 90 :: be_bytes 4 len
  else 91 :: be_bytes 8 len.
Definition enc_Hash (bs : list Z) : list Z := cbor_bytes_head (zlen bs) ++ bs.

(* minicbor Decoder::bytes on a fresh decoder over [buf]; result = (slice, pos).
   error classes: 1 end of input, 2 type mismatch, 3 message "Invalid hash size" *)
Definition read_be (k : nat) (r : list Z) : outcome (Z * list Z) :=
  if (length r <? k)%nat then Err 1 else Ok (be_val (firstn k r), skipn k r).

Definition dec_bytes (buf : list Z) : outcome (list Z * Z) :=
  match buf with
  | [] => Err 1
  | b :: r =>
      if negb (Z.land b 224 =? 64) || (Z.land b 31 =? 31) then
        (* Error::type_mismatch(self.type_of(b)?): for 0x38..0x3b type_of peeks at
           buf[pos + 1], and pos is already 1 here, i.e. at the second byte of [r] *)
        if (56 <=? b) && (b <=? 59) && (match r with [] | [_] => true | _ => false end)
        then Err 1 else Err 2
      else
        let info := Z.land b 31 in
        let hd : outcome (Z * list Z) :=
          if info <=? 23 then Ok (info, r)
          else if info =? 24 then read_be 1 r
          else if info =? 25 then read_be 2 r
          else if info =? 26 then read_be 4 r
          else if info =? 27 then read_be 8 r
          else Err 2 in
        match hd with
        | Ok (n, r') =>
            (* read_slice(n) *)
            if zlen r' <? n then Err 1
            else Ok (firstn (Z.to_nat n) r', zlen buf - zlen r' + n)
        | Err e => Err e
        | Panic p => Panic p
        end
  end.

(* impl Decode for Hash<BYTES>, non-relaxed *)
Definition dec_Hash (n : Z) (buf : list Z) : outcome (list Z * Z) :=
  match dec_bytes buf with
  | Ok (bs, pos) => if zlen bs =? n then Ok (bs, pos) else Err 3
  | e => e
  end.

(* ---- nonce/mod.rs ---- *)
Definition generate_epoch_nonce (nc nh : list Z) (extra : option (list Z)) : list Z :=
  let epoch_nonce := hasher_finalize (hasher_input (hasher_input (hasher_new 32) nc) nh) in
  match extra with
  | Some ee => hasher_finalize (hasher_input (hasher_input (hasher_new 32) epoch_nonce) ee)
  | None => epoch_nonce
  end.

Definition generate_rolling_nonce (prev vrf : list Z) : outcome (list Z) :=
  if (zlen vrf =? 32) || (zlen vrf =? 64) then
    Ok (hasher_finalize (hasher_input (hasher_input (hasher_new 32) prev) (hash 32 vrf)))
  else Panic 1.
