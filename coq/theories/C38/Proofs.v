(* C38 proofs, part 1: inversion lemmas - what an `Ok` of each modelled check implies. *)
From PV Require Import Lib.Base C33.Model C33.ModelPA C33.Proofs C38.Model.
Open Scope Z_scope.

Lemma fail_if_ok b e : fail_if b e = Ok tt -> b = false.
Proof. destruct b; cbn; [discriminate | reflexivity]. Qed.
Lemma bind_ok_u {A} (x : outcome A) (f : A -> outcome unit) : bind x f = Ok tt -> exists a, x = Ok a /\ f a = Ok tt.
Proof. apply bind_ok. Qed.
Lemma ok_or_ok {A} (o : option A) e a : ok_or o e = Ok a -> o = Some a.
Proof. destruct o; cbn; intros H; inversion H; reflexivity. Qed.
Lemma seq_ok l : seq_checks l = Ok tt -> Forall (fun c => c = Ok tt) l.
Proof.
  induction l as [|c r IH]; cbn [seq_checks]; intros H; [constructor|].
  apply bind_ok_u in H as ([] & Hc & Hr). constructor; [exact Hc | apply IH; exact Hr].
Qed.
Lemma unit_ok (x : outcome unit) a : x = Ok a -> x = Ok tt. Proof. destruct a; auto. Qed.

(* acceptance = every rule function of the era validator returned Ok *)
Lemma validate_ok dev t u e : validate dev t u e = Ok tt -> Forall (fun c => c = Ok tt) (era_checks dev t u e).
Proof.
  unfold validate. intros H.
  destruct (p_era (e_pp e) =? 0) eqn:E0.
  - destruct (e_acnt e); [discriminate|]. destruct (t_era t =? 0) eqn:Et; [|discriminate].
    apply Z.eqb_eq in Et. unfold era_checks. rewrite Et. apply seq_ok; exact H.
  - destruct (p_era (e_pp e) =? 1) eqn:E1.
    + destruct (e_acnt e); [|discriminate].
      destruct ((1 <=? t_era t) && (t_era t <=? 3)) eqn:Et; [|discriminate].
      assert (Hc : t_era t = 1 \/ t_era t = 2 \/ t_era t = 3) by lia.
      unfold era_checks. destruct Hc as [-> | [-> | ->]]; apply seq_ok; exact H.
    + destruct (p_era (e_pp e) =? t_era t); [|discriminate]. apply seq_ok; exact H.
Qed.

(* ---------------------------------------------------------------- membership / lookup *)
Lemma mem_z_In x l : mem_z x l = true <-> In x l.
Proof.
  unfold mem_z. rewrite existsb_exists. split.
  - intros (y & Hy & E). apply Z.eqb_eq in E. subst; exact Hy.
  - intros H. exists x. split; [exact H | apply Z.eqb_refl].
Qed.
Lemma in_utxo_resolves u i : in_utxo i u = true -> resolves u false i.
Proof. unfold in_utxo, resolves. destruct (lookup false i u); [eauto | discriminate]. Qed.
Lemma forallb_in_utxo u l : forallb (fun i => in_utxo i u) l = true -> Forall (resolves u false) l.
Proof. rewrite forallb_forall, Forall_forall. intros H x Hx. apply in_utxo_resolves, H, Hx. Qed.
Lemma is_nil_false {A} (l : list A) : is_nil l = false -> l <> [].
Proof. destruct l; [discriminate | discriminate]. Qed.
Lemma negb_false b : negb b = false -> b = true. Proof. destruct b; auto. Qed.
Lemma existsb_false {A} (f : A -> bool) l : existsb f l = false -> Forall (fun x => f x = false) l.
Proof.
  induction l as [|x r IH]; cbn; intros H; [constructor|].
  apply orb_false_iff in H as [H1 H2]. constructor; auto.
Qed.

(* ---------------------------------------------------------------- arithmetic rules *)
Lemma min_fee_val dev pp size : wf_params pp = true ->
  min_fee_u32 dev pp size = Ok (p_minfee_b pp + p_minfee_a pp * (size mod U32)).
Proof.
  unfold wf_params, in_u32. intros H. repeat (apply andb_true_iff in H as [H ?]).
  unfold min_fee_u32, mul64, add64, as_u32.
  assert (Hs : 0 <= size mod U32 < U32) by (apply Z.mod_pos_bound; unfold U32; lia).
  assert (Hm : 0 <= p_minfee_a pp * (size mod U32) <= (U32 - 1) * (U32 - 1)).
  { split; [apply Z.mul_nonneg_nonneg; lia|]. apply Z.mul_le_mono_nonneg; lia. }
  assert (Hc : (U32 - 1) * (U32 - 1) + U32 < U64) by reflexivity.
  destruct (p_minfee_a pp * (size mod U32) <? U64) eqn:E1; [|exfalso; lia].
  cbn [bind]. destruct (p_minfee_b pp + p_minfee_a pp * (size mod U32) <? U64) eqn:E2; [reflexivity|exfalso; lia].
Qed.
Lemma check_min_fee_ok dev t e code : wf_params (e_pp e) = true ->
  check_min_fee dev t (e_pp e) code = Ok tt -> R_min_fee t e.
Proof.
  intros Hw H. unfold check_min_fee in H. rewrite (min_fee_val dev _ _ Hw) in H. cbn [bind] in H.
  apply fail_if_ok in H. unfold R_min_fee. lia.
Qed.
Lemma cadd64_val a b s : cadd64 a b = Some s -> s = a + b.
Proof. unfold cadd64. destruct (a + b <? U64); intros H; inversion H; reflexivity. Qed.
Lemma cmul64_val a b s : cmul64 a b = Some s -> s = a * b.
Proof. unfold cmul64. destruct (a * b <? U64); intros H; inversion H; reflexivity. Qed.
Lemma min_lovelace_ok f t pp code (P : tout -> Prop) :
  (forall o m, f o pp = Some m -> m <= coin_of (o_val o) -> P o) ->
  check_min_lovelace_with f t pp code = Ok tt -> Forall P (t_outputs t).
Proof.
  intros HP H. unfold check_min_lovelace_with in H. apply fail_if_ok, existsb_false in H.
  eapply Forall_impl; [|exact H]. cbn. intros o Ho. destruct (f o pp) eqn:Ef; [|discriminate].
  eapply HP; [exact Ef | lia].
Qed.
Lemma ex_sums_val l : forall m s e m' s', ex_sums l m s e = Ok (m', s') ->
  m' = m + sumZ (map r_mem l) /\ s' = s + sumZ (map r_steps l).
Proof.
  induction l as [|r rest IH]; intros m s e m' s' H; cbn [ex_sums] in H.
  - inversion H; subst. cbn. lia.
  - apply bind_ok in H as (m1 & H1 & H). apply bind_ok in H as (s1 & H2 & H).
    apply ok_or_ok, cadd64_val in H1. apply ok_or_ok, cadd64_val in H2.
    apply IH in H as [-> ->]. subst. cbn [map sumZ fold_right]. unfold sumZ. lia.
Qed.
Lemma check_ex_units_ok t e pl a b : check_ex_units t (e_pp e) pl a b = Ok tt ->
  R_ex_units t e /\ R_plutus_has_redeemers t pl.
Proof.
  unfold check_ex_units, R_ex_units, R_plutus_has_redeemers. intros H. split.
  - intros l Hl. rewrite Hl in H. cbn [is_some] in H. rewrite orb_true_r in H.
    apply bind_ok_u in H as ([m s] & Hs & H). apply ex_sums_val in Hs as [-> ->].
    apply fail_if_ok, orb_false_iff in H. cbn [fst snd] in H. lia.
  - intros -> Hn. rewrite Hn in H. cbn in H. discriminate.
Qed.
Lemma outs_network_ok l n a b : outs_network l n a b = Ok tt -> Forall (fun o => exists p, o_addr o = AShelley n p) l.
Proof.
  induction l as [|o r IH]; cbn [outs_network]; intros H; [constructor|].
  destruct (o_addr o) as [net p| |] eqn:Ea; try discriminate.
  destruct (negb (net =? n)) eqn:En; [discriminate|]. apply negb_false, Z.eqb_eq in En. subst.
  constructor; [eauto | apply IH; exact H].
Qed.
Lemma check_network_ok t e a b c : check_network t e a b c = Ok tt -> R_network_ids t e.
Proof.
  unfold check_network. intros H. apply bind_ok_u in H as ([] & H1 & H2). split.
  - apply outs_network_ok in H1. exact H1.
  - intros n Hn. rewrite Hn in H2. apply fail_if_ok, negb_false, Z.eqb_eq in H2. exact H2.
Qed.
Lemma check_validity_ok t e a b : check_validity t e a b = Ok tt -> R_validity_interval t e.
Proof.
  unfold check_validity. intros H. apply bind_ok_u in H as ([] & H1 & H2). split.
  - intros lb Hl. rewrite Hl in H1. apply fail_if_ok in H1. lia.
  - intros ub Hu. rewrite Hu in H2. apply fail_if_ok in H2. lia.
Qed.
Lemma check_val_size_ok t e c : check_val_size t (e_pp e) c = Ok tt -> R_value_size t e.
Proof.
  unfold check_val_size. intros H. apply fail_if_ok, existsb_false in H.
  eapply Forall_impl; [|exact H]. cbn. intros o Ho. lia.
Qed.
Lemma check_aux_ok t c : check_aux t c = Ok tt -> R_aux_data_hash t.
Proof.
  unfold check_aux, R_aux_data_hash. destruct (t_aux_hash t), (t_aux_actual t); intros H; try discriminate; auto.
  apply fail_if_ok, negb_false, Z.eqb_eq in H. exact H.
Qed.

(* ---------------------------------------------------------------- collateral *)
Lemma coll_number_ok c pp a b : coll_number c pp a b = Ok tt -> c <> [] /\ Z.of_nat (length c) mod U32 <= p_max_collateral_inputs pp.
Proof.
  unfold coll_number. destruct c as [|x r]; cbn [is_nil]; [discriminate|]. intros H. apply fail_if_ok in H.
  split; [discriminate|]. unfold as_u32, len in H. lia.
Qed.
Lemma coll_address_ok c u own a b d : coll_address c u own a b d = Ok tt ->
  Forall (fun i => forall o, lookup false i u = Some o -> own o = true -> exists n h, u_addr o = AShelley n (PKey h)) c.
Proof.
  induction c as [|i r IH]; cbn [coll_address]; intros H; [constructor|].
  apply bind_ok_u in H as (o & Ho & H). apply ok_or_ok in Ho. apply bind_ok_u in H as ([] & H1 & H2).
  constructor; [|apply IH; exact H2].
  intros o' Ho' Hown. rewrite Ho in Ho'. inversion Ho'; subst. rewrite Hown in H1.
  apply bind_ok_u in H1 as (p & Hp & H1). apply ok_or_ok in Hp.
  destruct (u_addr o') as [n p'| |]; try discriminate. cbn in Hp. inversion Hp; subst.
  destruct p; [eauto | discriminate].
Qed.
Lemma mul128_val a b r : mul128 a b = Ok r -> r = a * b.
Proof. unfold mul128. destruct (a * b <? U128); intros H; inversion H; reflexivity. Qed.
Lemma pct_below_val paid fee pct b : pct_below paid fee pct = Ok b -> b = (paid * 100 <? fee * pct).
Proof.
  unfold pct_below. intros H. apply bind_ok in H as (l & Hl & H). apply bind_ok in H as (r & Hr & H).
  apply mul128_val in Hl, Hr. inversion H; subst. reflexivity.
Qed.
Lemma lovelace_diff_val sk f s e p : lovelace_diff sk f s e = Ok p -> p = coin_of f - coin_of s.
Proof.
  unfold lovelace_diff. destruct f, s; cbn; intros H;
    repeat match type of H with (if ?b then _ else _) = _ => destruct b end; inversion H; reflexivity.
Qed.

(* ---------------------------------------------------------------- scripts, datums, redeemers *)
Lemma forallb_In {A} (f : A -> bool) l x : forallb f l = true -> In x l -> f x = true.
Proof. rewrite forallb_forall. auto. Qed.
Lemma filter_map_In {A B} (f : A -> option B) l x y : In x l -> f x = Some y -> In y (filter_map f l).
Proof.
  induction l as [|a r IH]; cbn; [tauto|]. intros [->|Hx] Hf.
  - rewrite Hf. left; reflexivity.
  - destruct (f a); [right|]; auto.
Qed.
Lemma filter_map_inv {A B} (f : A -> option B) l y : In y (filter_map f l) -> exists x, In x l /\ f x = Some y.
Proof.
  induction l as [|a r IH]; cbn; [tauto|]. destruct (f a) eqn:E.
  - intros [->|H]; [exists a; auto | destruct (IH H) as (x & ? & ?); exists x; auto].
  - intros H. destruct (IH H) as (x & ? & ?); exists x; auto.
Qed.
Lemma script_hash_of_spec own u i o n h :
  lookup false i u = Some o -> own o = true -> u_addr o = AShelley n (PScript h) -> script_hash_of own u i = Some h.
Proof. unfold script_hash_of. intros -> -> ->. reflexivity. Qed.
Lemma script_hash_of_inv own u i h : script_hash_of own u i = Some h ->
  exists o n, lookup false i u = Some o /\ own o = true /\ u_addr o = AShelley n (PScript h).
Proof.
  unfold script_hash_of. destruct (lookup false i u) as [o|]; [|discriminate].
  destruct (own o) eqn:Eo; [|discriminate]. destruct (u_addr o) as [n p| |] eqn:Ea; cbn; intros H; try discriminate.
  destruct p; [discriminate|]. inversion H; subst. exists o, n. repeat split; assumption.
Qed.
Lemma unmarked_false needed l0 : unmarked (mark needed (fresh l0)) = false -> forall h, In h l0 -> In h needed.
Proof.
  unfold unmarked, mark, fresh. rewrite !map_map. cbn. intros H h Hh.
  apply existsb_false in H. rewrite Forall_forall in H.
  assert (Hi : In (mem_z h needed, h) (map (fun x => (false || mem_z x needed, x)) l0)).
  { apply in_map_iff. exists h. split; [reflexivity | exact Hh]. }
  apply H in Hi. cbn in Hi. apply negb_false in Hi. apply mem_z_In; exact Hi.
Qed.
Lemma mark_datum_spec h ds ds' : mark_datum h ds = Some ds' -> In h (map snd ds) /\ map snd ds' = map snd ds.
Proof.
  revert ds'; induction ds as [|[f d] r IH]; cbn [mark_datum]; intros ds' H; [discriminate|].
  destruct (d =? h) eqn:E.
  - inversion H; subst. apply Z.eqb_eq in E. subst. cbn. auto.
  - destruct (mark_datum h r) eqn:Em; [|discriminate]. inversion H; subst.
    destruct (IH _ eq_refl) as [Hi Hm]. cbn. rewrite Hm. auto.
Qed.
Lemma ptrs_coincide_ok reds needed a b : ptrs_coincide reds needed a b = Ok tt -> forall p, In p reds <-> In p needed.
Proof.
  unfold ptrs_coincide. intros H. apply bind_ok_u in H as ([] & H1 & H2).
  apply fail_if_ok, negb_false in H1. apply fail_if_ok, negb_false in H2.
  assert (Hm : forall x l, mem_ptr x l = true -> In x l).
  { intros [a1 a2] l Hx. unfold mem_ptr in Hx. apply existsb_exists in Hx as ([b1 b2] & Hb & E).
    unfold ptr_eqb in E. cbn in E. apply andb_true_iff in E as [E1 E2]. apply Z.eqb_eq in E1, E2. subst. exact Hb. }
  intros p. split; intros Hp; apply Hm; [eapply forallb_In in H1 | eapply forallb_In in H2]; eauto.
Qed.
