(* C16 model: pallas-math/src/math_dashu.rs `ref_exp_cmp` (reached through
   `FixedPrecision::exp_cmp` for `Decimal`) and the fixed-point helpers it
   calls, transcribed on unbounded Z (dashu `IBig` is arbitrary precision).

   dashu's `IBig::div_rem` truncates toward zero (remainder has the sign of the
   dividend)  ->  Z.quot / Z.rem.  The arithmetic uses the GLOBAL scale
   PRECISION = 10^34 whatever `self.precision` is, so the model takes the raw
   `data` integers of `self` and `compare`.  Transcribed from the tree at /repo
   commit f6d913e7 (error_term = |error| * bound_x; before that commit the
   signed `&error` was used).  `max_n : u64`, `bound_x : i64`
   are plain Z (no arithmetic on them can overflow: `n` only counts up to
   `max_n`, `bound_x` is converted to IBig before the multiplication). *)
From PV Require Import Lib.Base.
Open Scope Z_scope.

Definition PREC : Z := 10 ^ 34.            (* static PRECISION = TEN.pow(34) *)
Definition EPS : Z := 10 ^ (34 - 24).      (* static EPS = TEN.pow(34 - 24) *)
Definition ONE : Z := 1 * PREC.            (* static ONE = IBig::ONE * PRECISION *)

(* fn scale(rop): (a, temp) = rop.div_rem(PRECISION);
                  if rop < 0 && temp != 0 { a -= 1 }; rop = a      (= floor) *)
Definition scale (rop : Z) : Z :=
  let a := Z.quot rop PREC in
  let temp := Z.rem rop PREC in
  if (rop <? 0) && negb (temp =? 0) then a - 1 else a.

(* pub fn div(rop, x, y):
     (temp_q, temp_r) = x.div_rem(y); temp = temp_q * PRECISION;
     temp_r = temp_r * PRECISION; (temp_q, _) = temp_r.div_rem(y);
     rop = temp + temp_q                                   (= truncation) *)
Definition fdiv (x y : Z) : Z :=
  let temp_q := Z.quot x y in
  let temp_r := Z.rem x y in
  let temp := temp_q * PREC in
  let temp_r2 := temp_r * PREC in
  let temp_q2 := Z.quot temp_r2 y in
  temp + temp_q2.

Inductive est : Type := GT | LT | UNKNOWN.   (* ExpOrdering *)
Definition est_code (e : est) : Z := match e with GT => 1 | LT => 2 | UNKNOWN => 0 end.

(* ExpCmpOrdering { iterations, estimation, approx.data } *)
Record result : Type := mkResult { iterations : Z; estimation : est; approx : Z }.

(* The `while n < max_n` loop of ref_exp_cmp; one `S fuel` = one evaluation of
   the loop head.  State: rop, n, divisor, error. *)
Fixpoint cmp_loop (fuel : nat) (max_n x bound_x compare : Z) (rop n divisor error : Z) : result :=
  match fuel with
  | O => mkResult n UNKNOWN rop
  | S fuel' =>
    if negb (n <? max_n) then mkResult n UNKNOWN rop else
    let next_x := error in
    if Z.abs next_x <? Z.abs EPS then mkResult n UNKNOWN rop else     (* break *)
    let divisor' := divisor + ONE in
    let error1 := scale (error * x) in                 (* error *= x; scale(&mut error) *)
    let error' := fdiv error1 divisor' in              (* div(&mut error, &e2, &divisor) *)
    let error_term := Z.abs error' * bound_x in       (* (&error).abs() * IBig::from(bound_x) *)
    let rop' := rop + next_x in
    let upper := rop' + error_term in
    if compare >? upper then mkResult (n + 1) GT rop' else
    let lower := rop' - error_term in
    if compare <? lower then mkResult (n + 1) LT rop' else
    cmp_loop fuel' max_n x bound_x compare rop' (n + 1) divisor' error'
  end.

(* fn ref_exp_cmp(rop, max_n, x, bound_x, compare): rop = ONE; n = 0;
   divisor = ONE; error = x.  `n` grows by one per iteration, so `max_n`
   evaluations of the loop head suffice (plus none when max_n = 0). *)
Definition ref_exp_cmp (max_n x bound_x compare : Z) : result :=
  cmp_loop (Z.to_nat max_n) max_n x bound_x compare ONE 0 ONE x.
