(* C42 proofs, part 1: chunk_binary_search. *)
From PV Require Import Lib.Base Immutable.ChunkList C42.Model.
Open Scope Z_scope.

Section BinarySearch.
Variable n : Z.
Variable cmp_at : Z -> comparison.

(* bounds only: no index / subtraction panic, fuel suffices — for ANY comparator *)
Lemma bs_loop_total fuel : forall left right size,
  (Z.to_nat size < fuel)%nat -> 0 <= left <= right -> right <= n -> size = right - left ->
  match bs_loop fuel n cmp_at left right size with
  | Ok (Some t) => 0 <= t < n
  | Ok None => True
  | _ => False
  end.
Proof.
  induction fuel as [|f IH]; intros left right size Hf Hlr Hn Hs; [lia|].
  cbn [bs_loop]. destruct (0 <? size) eqn:E0.
  - assert (Hm : left <= left + size / 2 < right) by lia.
    destruct (n <=? left + size / 2) eqn:E1; [lia|].
    destruct (cmp_at (left + size / 2)).
    + lia.
    + destruct (left + size / 2 <? left) eqn:E2; [lia|]. apply IH; lia.
    + destruct (right <? left + size / 2 + 1) eqn:E2; [lia|]. apply IH; lia.
  - destruct (right <? n) eqn:E1; [lia | exact I].
Qed.

(* the comparator is "descending": once an index does not compare Less, every
   earlier index compares Greater *)
Hypothesis Hdesc : forall i j, 0 <= i < j -> j < n -> cmp_at j <> Lt -> cmp_at i = Gt.

Definition bs_inv (left right : Z) : Prop :=
  (forall i, 0 <= i < left -> cmp_at i = Gt) /\ (forall i, right <= i < n -> cmp_at i = Lt).
Definition post_some (t : Z) : Prop :=
  0 <= t < n /\ cmp_at t <> Gt /\ forall i, 0 <= i < t -> cmp_at i = Gt.
Definition post_none : Prop := forall i, 0 <= i < n -> cmp_at i = Gt.

Lemma bs_loop_spec fuel : forall left right size,
  (Z.to_nat size < fuel)%nat -> 0 <= left <= right -> right <= n -> size = right - left ->
  bs_inv left right ->
  match bs_loop fuel n cmp_at left right size with
  | Ok (Some t) => post_some t
  | Ok None => post_none
  | _ => False
  end.
Proof.
  induction fuel as [|f IH]; intros left right size Hf Hlr Hn Hs [Il Ir]; [lia|].
  cbn [bs_loop]. destruct (0 <? size) eqn:E0.
  - set (mid := left + size / 2).
    assert (Hm : left <= mid < right) by (unfold mid; lia).
    destruct (n <=? mid) eqn:E1; [lia|].
    destruct (cmp_at mid) eqn:Ec.
    + (* Equal *)
      split; [lia|]. split; [congruence|]. intros i Hi. apply (Hdesc i mid); [lia|lia|congruence].
    + (* Less: right = mid *)
      destruct (mid <? left) eqn:E2; [lia|]. apply IH; try (unfold mid in *; lia).
      split; [exact Il|]. intros i Hi.
      destruct (Z.eq_dec i mid) as [->|Hne]; [exact Ec|].
      destruct (cmp_at i) eqn:Ei; try reflexivity.
      * assert (cmp_at mid = Gt) by (apply (Hdesc mid i); [lia|lia|congruence]). congruence.
      * assert (cmp_at mid = Gt) by (apply (Hdesc mid i); [lia|lia|congruence]). congruence.
    + (* Greater: left = mid + 1 *)
      destruct (right <? mid + 1) eqn:E2; [lia|]. apply IH; try (unfold mid in *; lia).
      split; [|exact Ir]. intros i Hi.
      destruct (Z.eq_dec i mid) as [->|Hne]; [exact Ec|].
      apply (Hdesc i mid); [lia|lia|congruence].
  - assert (left = right) by lia. subst left.
    destruct (right <? n) eqn:E1.
    + split; [lia|]. split; [rewrite Ir by lia; congruence | exact Il].
    + intros i Hi. apply Il. lia.
Qed.

End BinarySearch.

(* for every list of chunks and every slot: no panic, and a found index is in range *)
Lemma chunk_binary_search_total chunks p :
  match chunk_binary_search chunks p with
  | Ok (Some t) => 0 <= t < Z.of_nat (length chunks)
  | Ok None => True
  | _ => False
  end.
Proof.
  unfold chunk_binary_search. apply bs_loop_total; lia.
Qed.
