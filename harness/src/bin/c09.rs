//! C09: ledger and network decoders never panic on untrusted bytes.
//!
//! Inputs: random bytes, every block / tx / header of test_data, hand-built protocol messages
//! of both network stacks, label sweeps `[label, ..]`, and structure-aware mutations of all
//! of them (bit flips, truncations, length-field corruption, splices, head swaps, structural
//! re-encodings). Every input goes through EVERY public decode entry point listed in
//! `entry_points()`. ORACLE: any panic (or process abort in the nesting probe) is a failure,
//! keyed `panic/<entry point>/<panic message class>`.
//!
//! Cases for the model (outcome classes 0 = Ok, 1 = Err, 2 = Panic):
//!   CAddr bs cls | CVarUint bs cls val used | CPointer bs cls | CProbe bs out
//!   | CBlock bs probe era_cls cls | CTx c_conway c_babbage c_alonzo c_byron cls era
//!   | CMsg stack proto bs cls label | CChan stack proto bs cls left | CVariant kind bs cls
#[path = "cbor_tree/mod.rs"]
mod cbor_tree;
use cbor_tree::{Item, Kind};
use pallas_addresses::{byron::ByronAddress, Address};
use pallas_codec::minicbor;
use pallas_network::miniprotocols as n1;
use pallas_network2::protocol as n2;
use pallas_primitives::{alonzo, babbage, byron, conway};
use pallas_traverse::{probe, Era, MultiEraBlock, MultiEraHeader, MultiEraOutput, MultiEraTx};
use std::collections::BTreeMap;
use std::str::FromStr;
use verif_harness::*;

type EpFn = Box<dyn Fn(&[u8]) -> Result<i64, String>>;

/// label of a message = first element of its re-encoding (independent parser)
fn label_of<T: minicbor::Encode<()>>(m: &T) -> i64 {
    match std::panic::catch_unwind(std::panic::AssertUnwindSafe(|| minicbor::to_vec(m))) {
        Ok(Ok(v)) => cbor_tree::parse(&v).ok().and_then(|r| r.at(0).and_then(|x| x.as_uint())).map(|x| x as i64).unwrap_or(-1),
        _ => -1,
    }
}

macro_rules! dec { ($t:ty) => { Box::new(|b: &[u8]| minicbor::decode::<$t>(b).map(|_| 0i64).map_err(|e| e.to_string())) as EpFn }; }
macro_rules! msg { ($t:ty) => { Box::new(|b: &[u8]| minicbor::decode::<$t>(b).map(|m| label_of(&m)).map_err(|e| e.to_string())) as EpFn }; }

fn touch_outputs(tx: &MultiEraTx) { for o in tx.outputs() { let _ = o.address(); } }

fn entry_points() -> Vec<(&'static str, EpFn)> {
    let mut v: Vec<(&'static str, EpFn)> = vec![];
    // ---- multi-era traversal
    v.push(("MultiEraBlock::decode", Box::new(|b| MultiEraBlock::decode(b).map(|x| x.era() as i64).map_err(|e| e.to_string()))));
    v.push(("MultiEraTx::decode", Box::new(|b| MultiEraTx::decode(b).map(|t| { touch_outputs(&t); t.era() as i64 }).map_err(|e| e.to_string()))));
    for (n, e) in [("MultiEraTx::decode_for_era/byron", Era::Byron), ("MultiEraTx::decode_for_era/alonzo", Era::Alonzo), ("MultiEraTx::decode_for_era/babbage", Era::Babbage), ("MultiEraTx::decode_for_era/conway", Era::Conway)] {
        v.push((n, Box::new(move |b| MultiEraTx::decode_for_era(e, b).map(|t| { touch_outputs(&t); 0 }).map_err(|e| e.to_string()))));
    }
    for (n, e) in [("MultiEraOutput::decode/byron", Era::Byron), ("MultiEraOutput::decode/alonzo", Era::Alonzo), ("MultiEraOutput::decode/babbage", Era::Babbage), ("MultiEraOutput::decode/conway", Era::Conway)] {
        v.push((n, Box::new(move |b| MultiEraOutput::decode(e, b).map(|o| { let _ = o.address(); 0 }).map_err(|e| e.to_string()))));
    }
    for (n, t, st) in [("MultiEraHeader::decode/ebb", 0u8, Some(0u8)), ("MultiEraHeader::decode/byron", 0, Some(1)), ("MultiEraHeader::decode/shelley", 1, None), ("MultiEraHeader::decode/babbage", 6, None)] {
        v.push((n, Box::new(move |b| MultiEraHeader::decode(t, st, b).map(|_| 0).map_err(|e| e.to_string()))));
    }
    // ---- era codecs
    v.push(("byron::Block", dec!((u16, byron::Block))));
    v.push(("byron::EbBlock", dec!((u16, byron::EbBlock))));
    v.push(("byron::TxPayload", dec!(byron::TxPayload)));
    v.push(("byron::Tx", dec!(byron::Tx)));
    v.push(("byron::BlockHead", dec!(byron::BlockHead)));
    v.push(("alonzo::Block", dec!((u16, alonzo::Block))));
    v.push(("alonzo::Tx", dec!(alonzo::Tx)));
    v.push(("alonzo::TransactionBody", dec!(alonzo::TransactionBody)));
    v.push(("alonzo::WitnessSet", dec!(alonzo::WitnessSet)));
    v.push(("alonzo::AuxiliaryData", dec!(alonzo::AuxiliaryData)));
    v.push(("alonzo::PlutusData", dec!(alonzo::PlutusData)));
    v.push(("alonzo::NativeScript", dec!(alonzo::NativeScript)));
    v.push(("alonzo::Header", dec!(alonzo::Header)));
    v.push(("alonzo::TransactionOutput", dec!(alonzo::TransactionOutput)));
    v.push(("alonzo::Metadatum", dec!(alonzo::Metadatum)));
    v.push(("alonzo::Certificate", dec!(alonzo::Certificate)));
    v.push(("babbage::Block", dec!((u16, babbage::Block))));
    v.push(("babbage::Tx", dec!(babbage::Tx)));
    v.push(("babbage::TransactionBody", dec!(babbage::TransactionBody)));
    v.push(("babbage::WitnessSet", dec!(babbage::WitnessSet)));
    v.push(("babbage::TransactionOutput", dec!(babbage::TransactionOutput)));
    v.push(("babbage::Header", dec!(babbage::Header)));
    v.push(("conway::Block", dec!((u16, conway::Block))));
    v.push(("conway::Tx", dec!(conway::Tx)));
    v.push(("conway::TransactionBody", dec!(conway::TransactionBody)));
    v.push(("conway::WitnessSet", dec!(conway::WitnessSet)));
    v.push(("conway::TransactionOutput", dec!(conway::TransactionOutput)));
    v.push(("conway::Certificate", dec!(conway::Certificate)));
    v.push(("conway::GovAction", dec!(conway::GovAction)));
    v.push(("conway::ProposalProcedure", dec!(conway::ProposalProcedure)));
    v.push(("conway::Redeemers", dec!(conway::Redeemers)));
    v.push(("conway::Value", dec!(conway::Value)));
    // ---- addresses
    v.push(("Address::from_bytes", Box::new(|b| Address::from_bytes(b).map(|_| 0).map_err(|e| e.to_string()))));
    v.push(("Address::from_hex", Box::new(|b| Address::from_hex(&hex(b)).map(|_| 0).map_err(|e| e.to_string()))));
    v.push(("Address::from_str(lossy)", Box::new(|b| Address::from_str(&String::from_utf8_lossy(b)).map(|_| 0).map_err(|e| e.to_string()))));
    v.push(("Address::from_bech32(lossy)", Box::new(|b| Address::from_bech32(&String::from_utf8_lossy(b)).map(|_| 0).map_err(|e| e.to_string()))));
    v.push(("ByronAddress::from_bytes", Box::new(|b| ByronAddress::from_bytes(b).map(|a| { let _ = a.decode(); 0 }).map_err(|e| e.to_string()))));
    v.push(("ByronAddress::from_base58(lossy)", Box::new(|b| ByronAddress::from_base58(&String::from_utf8_lossy(b)).map(|_| 0).map_err(|e| e.to_string()))));
    v.push(("byron::AddressPayload", dec!(pallas_addresses::byron::AddressPayload)));
    v.push(("Pointer::parse", Box::new(|b| pallas_addresses::Pointer::parse(b).map(|_| 0).map_err(|e| e.to_string()))));
    // ---- pallas-network messages
    v.push(("n1/handshake-n2n", msg!(n1::handshake::Message<n1::handshake::n2n::VersionData>)));
    v.push(("n1/handshake-n2c", msg!(n1::handshake::Message<n1::handshake::n2c::VersionData>)));
    v.push(("n1/chainsync-header", msg!(n1::chainsync::Message<n1::chainsync::HeaderContent>)));
    v.push(("n1/chainsync-block", msg!(n1::chainsync::Message<n1::chainsync::BlockContent>)));
    v.push(("n1/chainsync-skipped", msg!(n1::chainsync::Message<n1::chainsync::SkippedContent>)));
    v.push(("n1/blockfetch", msg!(n1::blockfetch::Message)));
    v.push(("n1/txsubmission", msg!(n1::txsubmission::Message<n1::txsubmission::EraTxId, n1::txsubmission::EraTxBody>)));
    v.push(("n1/keepalive", msg!(n1::keepalive::Message)));
    v.push(("n1/peersharing", msg!(n1::peersharing::Message)));
    v.push(("n1/localstate", msg!(n1::localstate::Message)));
    v.push(("n1/txmonitor", msg!(n1::txmonitor::Message)));
    v.push(("n1/localmsgnotification", msg!(n1::localmsgnotification::Message)));
    v.push(("n1/localtxsubmission", dec!(n1::localtxsubmission::Message<n1::localtxsubmission::EraTx, n1::localtxsubmission::TxValidationError>)));
    v.push(("n1/localmsgsubmission", dec!(n1::localtxsubmission::Message<n1::localmsgsubmission::DmqMsg, n1::localmsgsubmission::DmqMsgValidationError>)));
    v.push(("n1/localstate/Request", dec!(n1::localstate::queries_v16::Request)));
    v.push(("n1/localstate/BlockQuery", dec!(n1::localstate::queries_v16::BlockQuery)));
    v.push(("n1/localstate/GovState", dec!(n1::localstate::queries_v16::GovState)));
    v.push(("n1/localstate/ProtocolParam", dec!(n1::localstate::queries_v16::ProtocolParam)));
    v.push(("n1/localstate/UTxO", dec!(n1::localstate::queries_v16::UTxO)));
    v.push(("n1/localstate/TransactionOutput", dec!(n1::localstate::queries_v16::TransactionOutput)));
    v.push(("n1/localstate/GovAction", dec!(n1::localstate::queries_v16::GovAction)));
    v.push(("n1/localstate/DRep", dec!(n1::localstate::queries_v16::DRep)));
    v.push(("n1/localstate/CommitteeAuthorization", dec!(n1::localstate::queries_v16::CommitteeAuthorization)));
    v.push(("n1/localstate/FuturePParams", dec!(n1::localstate::queries_v16::FuturePParams)));
    v.push(("n1/localstate/HotCredAuthStatus", dec!(n1::localstate::queries_v16::HotCredAuthStatus)));
    v.push(("n1/localstate/NextEpochChange", dec!(n1::localstate::queries_v16::NextEpochChange)));
    v.push(("n1/localstate/PoolParams", dec!(n1::localstate::queries_v16::PoolParams)));
    v.push(("n1/localstate/Value", dec!(n1::localstate::queries_v16::Value)));
    v.push(("n1/localtxsubmission/TxValidationError", dec!(n1::localtxsubmission::TxValidationError)));
    v.push(("n1/Point", dec!(n1::Point)));
    v.push(("n1/Tip", dec!(n1::chainsync::Tip)));
    v.push(("n1/handshake/VersionTable-n2n", dec!(n1::handshake::VersionTable<n1::handshake::n2n::VersionData>)));
    v.push(("n1/handshake/VersionTable-n2c", dec!(n1::handshake::VersionTable<n1::handshake::n2c::VersionData>)));
    v.push(("n1/handshake/RefuseReason", dec!(n1::handshake::RefuseReason)));
    // ---- pallas-network2 messages
    v.push(("n2/handshake-n2n", msg!(n2::handshake::Message<n2::handshake::n2n::VersionData>)));
    v.push(("n2/handshake-n2c", msg!(n2::handshake::Message<n2::handshake::n2c::VersionData>)));
    v.push(("n2/chainsync-header", msg!(n2::chainsync::Message<n2::chainsync::HeaderContent>)));
    v.push(("n2/chainsync-block", msg!(n2::chainsync::Message<n2::chainsync::BlockContent>)));
    v.push(("n2/blockfetch", msg!(n2::blockfetch::Message)));
    v.push(("n2/txsubmission", msg!(n2::txsubmission::Message)));
    v.push(("n2/keepalive", msg!(n2::keepalive::Message)));
    v.push(("n2/peersharing", msg!(n2::peersharing::Message)));
    v.push(("n2/leiosnotify", msg!(n2::leiosnotify::Message)));
    v.push(("n2/leiosfetch", msg!(n2::leiosfetch::Message)));
    v.push(("n2/Point", dec!(n2::Point)));
    v.push(("n2/handshake/VersionTable-n2n", dec!(n2::handshake::VersionTable<n2::handshake::n2n::VersionData>)));
    v.push(("n2/handshake/VersionTable-n2c", dec!(n2::handshake::VersionTable<n2::handshake::n2c::VersionData>)));
    // AnyMessage::from_payload on every channel the initiator understands (+ an unknown one)
    for (n, ch) in [("n2/AnyMessage/ch0", 0u16), ("n2/AnyMessage/ch2", 2), ("n2/AnyMessage/ch3", 3), ("n2/AnyMessage/ch4", 4), ("n2/AnyMessage/ch8", 8), ("n2/AnyMessage/ch10", 10), ("n2/AnyMessage/ch18", 18), ("n2/AnyMessage/ch19", 19), ("n2/AnyMessage/ch77", 77)] {
        v.push((n, Box::new(move |b| {
            use pallas_network2::Message as _;
            let mut p = b.to_vec();
            let r = pallas_network2::behavior::AnyMessage::from_payload(ch, &mut p);
            // what is left in the buffer, +1 so that 0 can mean "nothing decoded"
            match r { Some(_) => Ok(p.len() as i64 + 1), None => Err(format!("left={}", p.len())) }
        })));
    }
    v
}

fn cls<T>(o: &Out<T>) -> u8 { match o { Out::Ok(_) => 0, Out::Err(_) => 1, Out::Panic(_) => 2 } }

fn panic_class(msg: &str) -> String {
    let m = msg.to_lowercase();
    for (k, c) in [("out of range", "slice-index"), ("out of bounds", "index"), ("overflow", "overflow"), ("unwrap", "unwrap"), ("expect", "expect"),
                   ("unreachable", "unreachable"), ("not yet implemented", "todo"), ("not implemented", "unimplemented"), ("capacity", "capacity"), ("divide", "div-zero"), ("utf", "utf8"), ("char boundary", "char-boundary")] {
        if m.contains(k) { return c.to_string(); }
    }
    "other".into()
}

/// Hand-built valid messages (raw CBOR) for every protocol of both stacks.
fn message_seeds() -> Vec<Vec<u8>> {
    let h = |s: &str| hex::decode(s).unwrap();
    let hash32 = "58200101010101010101010101010101010101010101010101010101010101010101";
    let point = format!("821904d2{}", hash32);
    let tip = format!("82{}190400", point);
    let mut v = vec![
        // handshake: propose (n2n v13/v14), accept, refuse x3, query reply; n2c propose
        h("8200a20d841a2d964a09f401f40e841a2d964a09f501f4"), h("83010d841a2d964a09f401f4"), h("820283000d0e"), h("820283010d6362616400"), h("820283020d63626164"),
        h("8203a10d841a2d964a09f401f4"), h("8200a2198010821a2d964a09f4198011821a2d964a09f5"), h("8200a1198009 1a2d964a09".replace(' ', "").as_str()),
        // chainsync
        h("8100"), h("8101"), h("8107"),
        h(&format!("83028201d818458400010203{}", tip)),
        h(&format!("830282008282001a0001e240d8184401020304{}", tip)),
        h(&format!("8302d81843010203{}", tip)),
        h(&format!("8303{}{}", point, tip)), h(&format!("830380{}", tip)),
        h(&format!("820482{}80", point)), h(&format!("8305{}{}", point, tip)), h(&format!("8206{}", tip)),
        // blockfetch
        h(&format!("8300{}{}", point, point)), h("8101"), h("8102"), h("8103"), h("8204d8184401020304"), h("8105"),
        // txsubmission
        h("8106"), h("8400f50305"), h("8400f4190100190200"),
        h(&format!("82019f82820 6{}1903e8ff", hash32).replace(' ', "")), h(&format!("82018182820 5{}1903e8", hash32).replace(' ', "")),
        h(&format!("82029f8206{}ff", hash32)), h("82039f8206d818430102038205d81843010203ff"), h("8104"),
        // keepalive
        h("8200190539"), h("8201190539"), h("8102"),
        // peersharing
        h("82000a"), h("82019f83001a7f000001190bb986011a000000011a000000021a000000031a00000004190bb9ff"), h("820180"), h("8102"),
        // localstate
        h(&format!("8200{}", point)), h("8108"), h("8101"), h("820200"), h("820201"), h("8203820082008101"), h("82038101"), h("820481182a"), h("8105"),
        h(&format!("8206{}", point)), h("8109"), h("8107"),
        // txmonitor
        h("8100"), h("8101"), h("82021904d2"), h("8103"), h("8105"), h("8106"), h("82068206d81843010203"),
        h(&format!("8207{}", hash32)), h("8208f5"), h("8109"), h("820a831a000100001904001819"),
        // localtxsubmission / localmsgsubmission
        h("82008206d8184401020304"), h("8101"), h("820263626164"), h("8103"),
        // localmsgnotification
        h("8100f4"), h("8100f5"), h("82019f0102ff"), h("82028001"), h("8103"),
        // leios (shapes guessed from the decoders: [label, point/array/bytes ...])
        h("8100"), h("8105"), h("8109"), h(&format!("8200{}", point)), h(&format!("8201{}", point)),
        h(&format!("8302{}a1001bff00000000000000", point)), h(&format!("8403{}a1001bff0000000000000080", point)),
        h("820144010203"), h("820381d81843010203"), h("82048101"),
    ];
    // n2c VersionTable / data alone
    v.push(h("a1198010821a2d964a09f4"));
    v.push(h("a10d841a2d964a09f401f4"));
    v
}

fn pool_item(rng: &mut Rng, depth: usize) -> Item {
    match rng.below(if depth == 0 { 8 } else { 12 }) {
        0 => Item::uint(rng.edge_u64()),
        1 => Item::new(Kind::NInt(cbor_tree::min_w(5), 5)),
        2 => Item::bytes(&rng.bytes(32)),
        3 => { let n = rng.below(6) as usize; Item::bytes(&rng.bytes(n)) }
        4 => Item::new(Kind::Simple(0, *rng.pick(&[20u64, 21, 22, 23]))),
        5 => { let n = rng.below(8) as usize; Item::new(Kind::Tag(1, 24, Box::new(Item::bytes(&rng.bytes(n))))) }
        6 => Item::new(Kind::Text(0, b"abc".to_vec())),
        7 => Item::uint(rng.below(12)),
        8 => { let n = rng.below(4) as usize; Item::array((0..n).map(|_| pool_item(rng, depth - 1)).collect()) }
        9 => { let n = rng.below(3) as usize; Item::new(Kind::Array(None, (0..n).map(|_| pool_item(rng, depth - 1)).collect())) }
        10 => { let n = rng.below(3) as usize; Item::new(Kind::Map(Some(0), (0..n).map(|i| (Item::uint(i as u64 + rng.below(3)), pool_item(rng, depth - 1))).collect())) }
        _ => Item::array(vec![Item::uint(rng.below(100000)), Item::bytes(&rng.bytes(32))]),
    }
}

struct Run { eps: Vec<(&'static str, EpFn)>, panics: BTreeMap<String, u64>, oks: BTreeMap<&'static str, u64>, errs: BTreeMap<&'static str, u64>, calls: u64,
             idx: usize, skip: std::collections::BTreeSet<(usize, String)>, skip_eps: std::collections::BTreeSet<String>, progress: Option<std::fs::File> }

impl Run {
    /// run every entry point; returns the outcomes of the modelled ones by name
    fn all(&mut self, b: &[u8], origin: &str) -> BTreeMap<&'static str, (u8, i64, String)> {
        let mut res = BTreeMap::new();
        // tell the supervisor which input is in flight (it is replayed entry point by entry point if this process dies)
        if let Some(f) = self.progress.as_mut() {
            use std::io::{Seek, Write};
            let _ = f.seek(std::io::SeekFrom::Start(0));
            let line = format!("{}\n{}\n{}\n", self.idx, origin.replace('\n', " "), hex(b));
            let _ = f.write_all(line.as_bytes());
            let _ = f.set_len(line.len() as u64);
            let _ = f.flush();
        }
        let idx = self.idx;
        self.idx += 1;
        for (name, f) in &self.eps {
            // an entry point that killed a previous worker on this input is not called again: class 2
            let o = if self.skip_eps.contains(*name) || self.skip.contains(&(idx, name.to_string())) || self.skip.contains(&(idx, "*".to_string())) {
                res.insert(*name, (2u8, 0i64, "process abort (isolated by the supervisor)".to_string()));
                continue;
            } else { guard(|| f(b)) };
            self.calls += 1;
            let (c, info, txt) = match &o { Out::Ok(v) => (0u8, *v, String::new()), Out::Err(e) => (1, 0, e.clone()), Out::Panic(p) => (2, 0, p.clone()) };
            match c { 0 => *self.oks.entry(name).or_insert(0) += 1, 1 => *self.errs.entry(name).or_insert(0) += 1, _ => {} }
            if let Out::Panic(p) = &o {
                let key = format!("panic/{}/{}", name, panic_class(p));
                let n = self.panics.entry(key.clone()).or_insert(0);
                *n += 1;
                if *n <= 2 { emit_oracle_fail(&key, &format!("entry={} origin={} input={} panic={}", name, origin, hex(&b[..b.len().min(4000)]), p)); }
            }
            res.insert(*name, (c, info, txt));
        }
        res
    }
}

const MSG_EPS: [(&str, u8, u8); 19] = [
    ("n1/handshake-n2n", 1, 0), ("n1/chainsync-header", 1, 1), ("n1/blockfetch", 1, 2), ("n1/txsubmission", 1, 3), ("n1/keepalive", 1, 4),
    ("n1/peersharing", 1, 5), ("n1/localstate", 1, 6), ("n1/txmonitor", 1, 7), ("n1/localmsgnotification", 1, 8), ("n1/chainsync-block", 1, 1), ("n1/handshake-n2c", 1, 0),
    ("n2/handshake-n2n", 2, 0), ("n2/chainsync-header", 2, 1), ("n2/blockfetch", 2, 2), ("n2/txsubmission", 2, 3), ("n2/keepalive", 2, 4),
    ("n2/peersharing", 2, 5), ("n2/leiosnotify", 2, 9), ("n2/leiosfetch", 2, 10),
];
static mut PANIC_RESERVE: usize = 8;
const MODELLED: [&str; 8] = ["Address::from_bytes", "Pointer::parse", "MultiEraBlock::decode", "MultiEraTx::decode", "conway::Tx", "babbage::Tx", "alonzo::Tx", "byron::TxPayload"];
const VARIANT_EPS: [&str; 6] = ["n1/localstate/DRep", "n1/localstate/CommitteeAuthorization", "n1/localstate/FuturePParams", "n1/localstate/GovAction", "n1/localstate/HotCredAuthStatus", "n1/localstate/NextEpochChange"];
const CHAN_EPS: [(&str, u8); 9] = [("n2/AnyMessage/ch0", 0), ("n2/AnyMessage/ch2", 1), ("n2/AnyMessage/ch3", 2), ("n2/AnyMessage/ch4", 3), ("n2/AnyMessage/ch8", 4), ("n2/AnyMessage/ch10", 5), ("n2/AnyMessage/ch18", 9), ("n2/AnyMessage/ch19", 10), ("n2/AnyMessage/ch77", 99)];

fn emit_model_cases(rng: &mut Rng, b: &[u8], tag: &str, res: &BTreeMap<&'static str, (u8, i64, String)>, budget: &mut usize, force: bool) {
    // an input on which a modelled entry point panicked always goes to the model (reserve of 200 cases)
    let panicked = res.iter().any(|(n, r)| r.0 == 2 && (MODELLED.contains(n) || n.starts_with("n1/") || n.starts_with("n2/")));
    let force = force || panicked;
    if panicked && *budget == 0 && b.len() <= 700 { unsafe { if PANIC_RESERVE > 0 { PANIC_RESERVE -= 1; *budget = 30; } } }
    if *budget == 0 || b.len() > 700 { return; }
    // one or two modelled views per input, chosen at random (all of them when `force`)
    let pick = rng.below(6);
    let mut out = |t: &str, term: String| { if *budget > 0 { emit_case(&format!("{}/{}", t, tag), &term); *budget -= 1; } };
    if force || pick == 0 {
        let (c, _, _) = &res["Address::from_bytes"]; out("address", format!("(CAddr {} {})", coq_bytes(b), c));
        let (c, _, _) = &res["Pointer::parse"]; out("pointer", format!("(CPointer {} {})", coq_bytes(b), c));
        let mut cur = std::io::Cursor::new(b);
        let o = guard(|| pallas_addresses::varuint::read(&mut cur).map_err(|e| e.to_string()));
        let (c, val) = match &o { Out::Ok(v) => (0, *v), Out::Err(_) => (1, 0), Out::Panic(_) => (2, 0) };
        out("varuint", format!("(CVarUint {} {} {} {})", coq_bytes(b), c, val, cur.position()));
    }
    if force || pick == 1 || pick == 2 {
        let p = match probe::block_era(b) { probe::Outcome::EpochBoundary => 0i64, probe::Outcome::Matched(e) => e as i64 + 1, probe::Outcome::Inconclusive => -1 };
        out("probe", format!("(CProbe {} {})", coq_bytes(b), coq_z(p)));
        let era_ep = match p { 0 => Some("byron::EbBlock"), 1 => Some("byron::Block"), 2..=5 => Some("alonzo::Block"), 6 => Some("babbage::Block"), 7 => Some("conway::Block"), _ => None };
        let era_cls = era_ep.map(|e| res[e].0).unwrap_or(1);
        out("block-dispatch", format!("(CBlock {} {} {} {})", coq_bytes(b), coq_z(p), era_cls, res["MultiEraBlock::decode"].0));
        let (c, era, _) = &res["MultiEraTx::decode"];
        out("tx-dispatch", format!("(CTx {} {} {} {} {} {})", res["conway::Tx"].0, res["babbage::Tx"].0, res["alonzo::Tx"].0, res["byron::TxPayload"].0, c, era));
    }
    if force || pick >= 3 {
        for (name, stack, proto) in MSG_EPS.iter() {
            if !force && rng.below(4) != 0 { continue; }
            let (c, label, _) = &res[name];
            out(&format!("msg-{}", name), format!("(CMsg {} {} {} {} {})", stack, proto, coq_bytes(b), c, coq_z(*label)));
        }
        for (kind, name) in VARIANT_EPS.iter().enumerate() {
            if !force && rng.below(3) != 0 { continue; }
            out(&format!("variant-{}", name), format!("(CVariant {} {} {})", kind, coq_bytes(b), res[name].0));
        }
        for (name, proto) in CHAN_EPS.iter() {
            if !force && rng.below(4) != 0 { continue; }
            let (c, left, _) = &res[name];
            // c = 0: a message was decoded, left-1 bytes remain; c = 1: nothing decoded
            out(&format!("chan-{}", name), format!("(CChan 2 {} {} {} {})", proto, coq_bytes(b), c, if *c == 0 { left - 1 } else { 0 }));
        }
    }
}

/// panic-site inventory of the anchored decoder files (non-test part): textual counts
fn inventory(repo: &str) {
    let modelled = ["pallas-addresses/src/lib.rs", "pallas-addresses/src/varuint.rs", "pallas-traverse/src/probe.rs", "pallas-traverse/src/block.rs", "pallas-traverse/src/tx.rs", "pallas-traverse/src/header.rs"];
    let mut files: Vec<String> = modelled.iter().map(|s| s.to_string()).collect();
    for d in ["pallas-network/src/miniprotocols", "pallas-network2/src/protocol", "pallas-addresses/src", "pallas-codec/src", "pallas-primitives/src"] {
        let mut stack = vec![format!("{}/{}", repo, d)];
        while let Some(p) = stack.pop() {
            let Ok(rd) = std::fs::read_dir(&p) else { continue };
            for e in rd.filter_map(|e| e.ok()) {
                let path = e.path(); let s = path.to_string_lossy().to_string();
                if path.is_dir() { stack.push(s); } else if s.ends_with(".rs") { let rel = s[repo.len() + 1..].to_string(); if !files.contains(&rel) { files.push(rel); } }
            }
        }
    }
    files.sort();
    let pats: [(&str, &[&str]); 6] = [("unwrap", &[".unwrap()"]), ("expect", &[".expect("]), ("macro_panic", &["panic!(", "unreachable!(", "todo!(", "unimplemented!(", "assert!(", "assert_eq!("]),
        ("as_cast", &[" as u8", " as u16", " as u32", " as u64", " as usize", " as i64", " as i32", " as i8", " as i16"]), ("index", &["[0..", "[1..", "[28..", "..]", "[i]", "[idx]", "[0]", "[1]"]), ("copy_from_slice", &["copy_from_slice("])];
    let (mut tm, mut tn) = (BTreeMap::<&str, u64>::new(), BTreeMap::<&str, u64>::new());
    for f in &files {
        let Ok(src) = std::fs::read_to_string(format!("{}/{}", repo, f)) else { continue };
        let code = match src.find("#[cfg(test)]") { Some(i) => &src[..i], None => &src[..] };
        let is_m = modelled.contains(&f.as_str());
        for (k, ps) in pats.iter() {
            let n: usize = code.lines().filter(|l| !l.trim_start().starts_with("//")).map(|l| ps.iter().map(|p| l.matches(p).count()).sum::<usize>()).sum();
            *(if is_m { &mut tm } else { &mut tn }).entry(k).or_insert(0) += n as u64;
        }
    }
    for (k, n) in &tm { emit_stat(&format!("panic_sites_modelled_files_{}", k), *n); }
    for (k, n) in &tn { emit_stat(&format!("panic_sites_unmodelled_files_{}", k), *n); }
    emit_stat("inventory_files_modelled", modelled.len() as u64);
    emit_stat("inventory_files_total", files.len() as u64);
}

/// child mode: decode a deeply nested input on a 2 MiB stack (tokio's default); a stack
/// overflow kills the child with a signal, which the parent reports
fn nest_child(ep: &str, depth: usize) {
    let mut b = vec![];
    match ep {
        "plutus-list" => { b.extend(std::iter::repeat(0x81u8).take(depth)); b.push(0x01); }
        "plutus-constr" => { for _ in 0..depth { b.extend_from_slice(&[0xd8, 0x79, 0x81]); } b.push(0x01); }
        "native-script" => { for _ in 0..depth { b.extend_from_slice(&[0x82, 0x01, 0x81]); } b.extend_from_slice(&[0x82, 0x04, 0x01]); }
        "metadatum" => { b.extend(std::iter::repeat(0x81u8).take(depth)); b.push(0x01); }
        "skip" => { b.extend(std::iter::repeat(0x81u8).take(depth)); b.push(0x01); }
        _ => {}
    }
    let ep = ep.to_string();
    let h = std::thread::Builder::new().stack_size(2 * 1024 * 1024).spawn(move || {
        let _ = std::panic::catch_unwind(|| match ep.as_str() {
            "plutus-list" | "plutus-constr" => { let _ = minicbor::decode::<alonzo::PlutusData>(&b); }
            "native-script" => { let _ = minicbor::decode::<alonzo::NativeScript>(&b); }
            "metadatum" => { let _ = minicbor::decode::<alonzo::Metadatum>(&b); }
            _ => { let _ = minicbor::decode::<n1::chainsync::SkippedContent>(&b); }
        });
    }).unwrap();
    let _ = h.join();
}

fn extra_val(args: &Args, key: &str) -> Option<String> { args.extra.iter().position(|x| x == key).and_then(|i| args.extra.get(i + 1).cloned()) }

/// Supervisor: the implementation only ever runs in child processes. A worker that dies (abort on
/// allocation failure, stack overflow, double panic ...) is an ORACLE_FAIL, not a harness failure:
/// the input in flight is replayed entry point by entry point in further children to find the
/// culprit(s), which the next worker skips.
fn supervise(args: &Args) {
    let exe = std::env::current_exe().expect("current_exe");
    let dir = format!("{}/.cache/c09-{}", std::env::var("VERIF_DIR").unwrap_or("/verif".to_string()), std::process::id());
    std::fs::create_dir_all(&dir).expect("scratch dir");
    let progress = format!("{}/progress", dir);
    let input_file = format!("{}/input", dir);
    let base: Vec<String> = vec!["--seed".into(), args.seed.to_string(), "--n".into(), args.n.to_string(), "--tier".into(), args.tier.clone()];
    let mut skip: Vec<(usize, String)> = vec![];
    let mut per_ep: BTreeMap<String, u32> = BTreeMap::new();
    let mut aborts: Vec<(String, String)> = vec![];
    let n_eps = entry_points().len();
    let names: Vec<&'static str> = entry_points().into_iter().map(|e| e.0).collect();
    let mut final_out: Option<Vec<u8>> = None;
    let mut restarts = 0u64;
    for _attempt in 0..80 {
        let skip_eps: Vec<String> = per_ep.iter().filter(|(_, n)| **n >= 3).map(|(k, _)| k.clone()).collect();
        let mut cmd = std::process::Command::new(&exe);
        cmd.args(&base).arg("--worker").arg("--progress").arg(&progress)
            .arg("--skip").arg(skip.iter().map(|(i, e)| format!("{}={}", i, e)).collect::<Vec<_>>().join(";"))
            .arg("--skip-eps").arg(skip_eps.join(";"));
        if args.oracle_only { cmd.arg("--oracle-only"); }
        let out = cmd.stdout(std::process::Stdio::piped()).stderr(std::process::Stdio::null()).output().expect("spawn worker");
        if out.status.success() { final_out = Some(out.stdout); break; }
        restarts += 1;
        // the worker died: which input was in flight?
        let prog = std::fs::read_to_string(&progress).unwrap_or_default();
        let mut it = prog.lines();
        let (Some(k), Some(origin), Some(hx)) = (it.next().and_then(|x| x.parse::<usize>().ok()), it.next(), it.next()) else {
            aborts.push(("abort/harness/no-progress".into(), format!("worker died ({:?}) before reporting an input", out.status))); break };
        let bytes = hex::decode(hx).unwrap_or_default();
        std::fs::write(&input_file, &bytes).expect("write input");
        let mut found = false;
        for e in 0..n_eps {
            if skip.contains(&(k, names[e].to_string())) { continue; }
            let st = std::process::Command::new(&exe).arg("--probe-one").arg(e.to_string()).arg(&input_file)
                .stdout(std::process::Stdio::null()).stderr(std::process::Stdio::null()).status();
            let died = match &st { Ok(s) => !s.success(), Err(_) => false };
            if died {
                found = true;
                skip.push((k, names[e].to_string()));
                *per_ep.entry(names[e].to_string()).or_insert(0) += 1;
                aborts.push((format!("abort/{}", names[e]), format!("entry={} origin={} input={} the process running this decode call died: {:?} (allocation failure, stack overflow or abort)", names[e], origin, &hx[..hx.len().min(8000)], st)));
            }
        }
        if !found {
            skip.push((k, "*".to_string()));
            aborts.push(("abort/unattributed".into(), format!("origin={} input={} a worker died on this input ({:?}) but no single entry point reproduces it", origin, &hx[..hx.len().min(8000)], out.status)));
        }
    }
    let mut seen = std::collections::BTreeSet::new();
    for (k, w) in &aborts { if seen.insert(k.clone()) || seen.len() < 30 { emit_oracle_fail(k, w); } }
    match final_out {
        Some(o) => { use std::io::Write; std::io::stdout().write_all(&o).expect("stdout"); }
        None => aborts.iter().take(1).for_each(|_| emit_sample("the worker kept dying: no model cases in this run")),
    }
    emit_stat("worker_restarts", restarts);
    emit_stat("process_aborts", aborts.len() as u64);
    let _ = std::fs::remove_dir_all(&dir);
}

fn main() {
    let args = args();
    if args.extra.len() >= 3 && args.extra[0] == "--nest-child" { nest_child(&args.extra[1], args.extra[2].parse().unwrap()); return; }
    if args.extra.len() >= 3 && args.extra[0] == "--probe-one" {
        let e: usize = args.extra[1].parse().unwrap();
        let b = std::fs::read(&args.extra[2]).unwrap_or_default();
        let eps = entry_points();
        let _ = guard(|| (eps[e].1)(&b));
        return;
    }
    if !args.extra.iter().any(|x| x == "--worker") { supervise(&args); return; }
    worker(&args);
}

fn worker(args: &Args) {
    let mut rng = Rng::new(args.seed);
    let thorough = args.tier == "thorough";
    let repo = std::env::var("VERIF_REPO").unwrap_or("/repo".to_string());
    inventory(&repo);
    let dir = format!("{}/test_data", repo);
    let mut names: Vec<String> = std::fs::read_dir(&dir).expect("test_data").filter_map(|e| e.ok()).map(|e| e.file_name().to_string_lossy().to_string())
        .filter(|n| n.ends_with(".block") || n.ends_with(".tx") || n.ends_with(".header")).collect();
    names.sort();
    let mut seeds: Vec<(String, Vec<u8>)> = vec![];
    for n in &names {
        let Ok(s) = std::fs::read_to_string(format!("{}/{}", dir, n)) else { continue };
        let Ok(bytes) = hex::decode(s.trim()) else { continue };
        let too_big = bytes.len() > 120_000 && !thorough;
        // sub-artefacts: header, first bodies / witness sets / outputs, so that the small decoders see valid inputs too
        if let Ok(root) = cbor_tree::parse(&bytes) {
            if n.ends_with(".block") {
                if let Some(inner) = root.at(1) {
                    if let Some(h) = inner.at(0) { seeds.push((format!("{}#header", n), h.span(&bytes).to_vec())); }
                    for k in 1..=2 { if let Some(xs) = inner.at(k).and_then(|x| x.elems()) { for (i, x) in xs.iter().enumerate().take(2) { seeds.push((format!("{}#f{}#{}", n, k, i), x.span(&bytes).to_vec())); } } }
                    if let Some(body) = inner.at(1).and_then(|x| x.at(0)) {
                        for key in [4u64, 20] { if let Some(xs) = body.get(key).and_then(|x| x.elems_untag()) { for (i, x) in xs.iter().enumerate().take(2) { seeds.push((format!("{}#body{}#{}", n, key, i), x.span(&bytes).to_vec())); } } }
                        if let Some(outs) = body.get(1).and_then(|x| x.elems()) { for (i, o) in outs.iter().enumerate().take(2) {
                            seeds.push((format!("{}#out{}", n, i), o.span(&bytes).to_vec()));
                            let addr = o.get(0).or_else(|| o.at(0)); if let Some(Kind::Bytes(_, a)) = addr.map(|x| &x.kind) { seeds.push((format!("{}#addr{}", n, i), a.clone())); }
                        } }
                    }
                }
            }
        }
        if !too_big { seeds.push((n.clone(), bytes)); }
    }
    for (i, m) in message_seeds().into_iter().enumerate() { seeds.push((format!("msg{}", i), m)); }
    // addresses (bech32 / base58 strings as bytes, and raw)
    for s in ["addr1qx2fxv2umyhttkxyxp8x0dlpdt3k6cwng5pxj3jhsydzer3n0d3vllmyqwsx5wktcd8cc3sq835lu7drv2xwl2wywfgse35a3x", "stake1uyehkck0lajq8gr28t9uxnuvgcqrc6070x3k9r8048z8y5gh6ffgw",
              "addr1w8phkx6acpnf78fuvxn0mkew3l0fd058hzquvz7w36x4gtcyjy7wx", "37btjrVyb4KDXBNC4haBVPCrro8AQPHwvCMp3RFhhSVWwfFmZ6wwzSK6JK1hY6wHNmtrpTf1kdbva8TCneM2YsiXT7mrzT21EacHnPpz5YyUdj64na",
              "addr1gx2fxv2umyhttkxyxp8x0dlpdt3k6cwng5pxj3jhsydzer5pnz75xxcrzqf96k", "addr_test1vz2fxv2umyhttkxyxp8x0dlpdt3k6cwng5pxj3jhsydzerspjrlsz"] {
        seeds.push((format!("addrstr:{}", &s[..8]), s.as_bytes().to_vec()));
        if let Ok(a) = Address::from_str(s) { seeds.push((format!("addrraw:{}", &s[..8]), a.to_vec())); }
    }
    // corpus: minimised past failures (hex, one input per line), replayed first
    let cdir = format!("{}/corpus/C09", std::env::var("VERIF_DIR").unwrap_or("/verif".to_string()));
    if let Ok(rd) = std::fs::read_dir(&cdir) {
        let mut fs: Vec<_> = rd.filter_map(|e| e.ok()).map(|e| e.path()).filter(|p| p.extension().map(|x| x == "hex").unwrap_or(false)).collect();
        fs.sort();
        let mut k = 0;
        for f in fs { for line in std::fs::read_to_string(&f).unwrap_or_default().lines() {
            let l = line.trim(); if l.is_empty() || l.starts_with('#') { continue; }
            if let Ok(b) = hex::decode(l) { seeds.insert(k, (format!("corpus{}", k), b)); k += 1; }
        } }
        emit_stat("corpus_inputs", k as u64);
    }
    emit_stat("seed_inputs", seeds.len() as u64);

    let mut skip = std::collections::BTreeSet::new();
    for part in extra_val(args, "--skip").unwrap_or_default().split(';') { if let Some((i, e)) = part.split_once('=') { if let Ok(i) = i.parse::<usize>() { skip.insert((i, e.to_string())); } } }
    let skip_eps: std::collections::BTreeSet<String> = extra_val(args, "--skip-eps").unwrap_or_default().split(';').filter(|x| !x.is_empty()).map(|x| x.to_string()).collect();
    let progress = extra_val(args, "--progress").and_then(|p| std::fs::OpenOptions::new().create(true).write(true).open(p).ok());
    let mut run = Run { eps: entry_points(), panics: BTreeMap::new(), oks: BTreeMap::new(), errs: BTreeMap::new(), calls: 0, idx: 0, skip, skip_eps, progress };
    emit_stat("entry_points", run.eps.len() as u64);
    let mut budget = if args.oracle_only { 0 } else { args.n };
    let mut inputs = 0u64;
    // 1. every seed as it is
    for (name, b) in &seeds {
        let res = run.all(b, name); inputs += 1;
        if b.len() <= 300 { let mut bd = if budget > 0 { 40.min(budget) } else { 0 }; let before = bd; emit_model_cases(&mut rng, b, "seed", &res, &mut bd, true); budget -= before - bd; }
    }
    // 2. deterministic boundary inputs
    let mut fixed: Vec<Vec<u8>> = vec![vec![], vec![0x82], vec![0x82, 0x00], vec![0x82, 0x18], vec![0x9f], vec![0xff], vec![0x82, 0x07, 0x80], vec![0x9b, 0xff, 0xff, 0xff, 0xff, 0xff, 0xff, 0xff, 0xff], vec![0x5b, 0xff, 0xff, 0xff, 0xff, 0xff, 0xff, 0xff, 0xff, 0x00], vec![0xbb, 0xff, 0xff, 0xff, 0xff, 0xff, 0xff, 0xff, 0xff, 0x00],
        vec![0x82, 0x00, 0x9b, 0xff, 0xff, 0xff, 0xff, 0xff, 0xff, 0xff, 0xff], vec![0x7b, 0xff, 0xff, 0xff, 0xff, 0xff, 0xff, 0xff, 0xff]];
    for hdr in 0..=255u8 { for len in [0usize, 1, 27, 28, 29, 30, 55, 56, 57, 58] { let mut b = vec![hdr]; b.extend(std::iter::repeat(0x80 | (len as u8 & 0x7f)).take(len)); fixed.push(b); } }
    for k in 0..12 { fixed.push(vec![0xff; k]); fixed.push(vec![0x80 + k as u8; 9]); fixed.push(std::iter::repeat(0xffu8).take(k).chain([0x7f]).collect()); }
    for b in &fixed { let res = run.all(b, "boundary"); inputs += 1; let any_panic = res.values().any(|r| r.0 == 2); if any_panic || (budget > 0 && rng.below(8) == 0) { emit_model_cases(&mut rng, b, "boundary", &res, &mut budget, false); } }
    // 2b. targeted corruptions of every seed message and of the small artefacts: huge declared lengths on every
    //     container head, repeated map keys, texts with multi-byte characters around typical truncation limits
    let texts = cbor_tree::nasty_texts();
    for (name, text) in [("addr1", "1".repeat(133)), ("addr1b", "1".repeat(200)), ("addr1c", format!("{}{}", "1".repeat(120), "Ae2tdPwUPEZFRbyhz3cpfC2CumGzNkFBN2L42rcUc2yjQpEkxDbkPodpMAi")),
                         ("addr1d", format!("{}{}", "1".repeat(100), "z".repeat(60))), ("addr1e", "z".repeat(200)), ("addr1f", "1".repeat(132)), ("addr1g", format!("{}2", "1".repeat(131)))] {
        let res = run.all(text.as_bytes(), name); inputs += 1;
        if res.values().any(|r| r.0 == 2) { emit_model_cases(&mut rng, text.as_bytes(), "base58-ones", &res, &mut budget, false); }
    }
    for t in &texts {
        // as a bare (non-CBOR) text: the localtxsubmission rejection fallback reads the whole buffer as UTF-8
        let res = run.all(t, "bare-text"); inputs += 1;
        if budget > 0 && rng.below(6) == 0 || res.values().any(|r| r.0 == 2) { emit_model_cases(&mut rng, t, "bare-text", &res, &mut budget, false); }
        // and as a CBOR text item inside the messages that carry text
        for wrap in [vec![0x82u8, 0x02], vec![0x82, 0x02, 0x83, 0x01, 0x0d], vec![0x82, 0x02, 0x83, 0x02, 0x0d], vec![0x82, 0x01], vec![0x81]] {
            let mut b = wrap.clone(); cbor_tree::Item::new(Kind::Text(cbor_tree::min_w(t.len() as u64), t.clone())).write(&mut b);
            let res = run.all(&b, "text-in-message"); inputs += 1;
            if res.values().any(|r| r.0 == 2) { emit_model_cases(&mut rng, &b, "text-in-message", &res, &mut budget, false); }
        }
    }
    for si in 0..seeds.len() {
        let (name, base) = (seeds[si].0.clone(), seeds[si].1.clone());
        let is_msg = name.starts_with("msg") || name.starts_with("corpus");
        if !is_msg && base.len() > 3000 { continue; }
        let Ok(root) = cbor_tree::parse(&base) else { continue };
        let mut heads = vec![]; cbor_tree::container_heads(&root, &base, &mut heads);
        let cap = if is_msg { 40 } else if thorough { 12 } else { 3 };
        // messages: every head; artefacts: the outermost heads plus a few random ones
        let mut chosen: Vec<usize> = (0..heads.len().min(if is_msg { cap } else { 2 })).collect();
        while chosen.len() < cap.min(heads.len()) { let k = rng.below(heads.len() as u64) as usize; if !chosen.contains(&k) { chosen.push(k); } }
        for k in chosen {
            let (st, hl, mj) = heads[k];
            for l in cbor_tree::HUGE_LENS.iter() {
                if !is_msg && !thorough && rng.below(2) == 0 { continue; }
                let b = cbor_tree::with_declared_len(&base, st, hl, mj, *l);
                let res = run.all(&b, &format!("{}+huge-len", name)); inputs += 1;
                if (budget > 0 && rng.below(10) == 0) || res.values().any(|r| r.0 == 2) { emit_model_cases(&mut rng, &b, "huge-len", &res, &mut budget, false); }
            }
        }
        for b in cbor_tree::duplicate_key_mutants(&mut rng, &root, if is_msg { 8 } else { 2 }) {
            let res = run.all(&b, &format!("{}+dup-key", name)); inputs += 1;
            if (budget > 0 && rng.below(6) == 0) || res.values().any(|r| r.0 == 2) { emit_model_cases(&mut rng, &b, "dup-key", &res, &mut budget, false); }
        }
        let t = &texts[rng.below(texts.len() as u64) as usize];
        for b in cbor_tree::text_mutants(&root, t, 3).into_iter().chain(cbor_tree::text_mutants(&root, &texts[8 * 7], 2)) {
            let res = run.all(&b, &format!("{}+text", name)); inputs += 1;
            if (budget > 0 && rng.below(6) == 0) || res.values().any(|r| r.0 == 2) { emit_model_cases(&mut rng, &b, "text", &res, &mut budget, false); }
        }
    }
    // the handshake version table: repeated version numbers, huge tables
    for hx in ["8200a207820 1f407820 1f4", "8200a20d841a2d964a09f401f40d841a2d964a09f401f4", "8203a20d841a2d964a09f401f40d841a2d964a09f401f4", "8200bbffffffffffffffff", "8203bbffffffffffffffff", "8200bb0000000100000000",
               "8200ba00ffffff0d841a2d964a09f401f4", "a20d841a2d964a09f401f40d841a2d964a09f401f4", "bbffffffffffffffff", "8200a2198010821a2d964a09f4198010821a2d964a09f4"] {
        let b = hex::decode(hx.replace(' ', "")).unwrap();
        let res = run.all(&b, "version-table"); inputs += 1;
        if budget > 0 { emit_model_cases(&mut rng, &b, "version-table", &res, &mut budget, false); }
    }
    // 3. label sweeps
    for label in 0..=12u64 { for arity in 1..=4usize { for _ in 0..(if thorough { 12 } else { 3 }) {
        let mut xs = vec![Item::uint(label)]; for _ in 1..arity { xs.push(pool_item(&mut rng, 2)); }
        let it = if rng.below(5) == 0 { Item::new(Kind::Array(None, xs)) } else { Item::array(xs) };
        let b = it.to_vec(); let res = run.all(&b, "label-sweep"); inputs += 1;
        if budget > 0 || res.values().any(|r| r.0 == 2) { emit_model_cases(&mut rng, &b, "label-sweep", &res, &mut budget, false); }
    } } }
    // 4. random bytes
    for _ in 0..(if thorough { 20000 } else { 1500 }) {
        let len = match rng.below(4) { 0 => rng.below(4), 1 => rng.below(16), 2 => rng.range(28, 60), _ => rng.below(200) } as usize;
        let mut b = rng.bytes(len);
        if !b.is_empty() && rng.bool() { b[0] = *rng.pick(&[0x82u8, 0x83, 0x84, 0x9f, 0xa1, 0xd8, 0x81, 0x85, 0x00, 0x61, 0x71, 0x41, 0xe1, 0xf1, 0x82, 0x82]); if b.len() > 1 && rng.bool() { b[1] = rng.below(12) as u8; } }
        let res = run.all(&b, "random"); inputs += 1;
        if budget > 0 || res.values().any(|r| r.0 == 2) { emit_model_cases(&mut rng, &b, "random", &res, &mut budget, false); }
    }
    // 5. mutations of the seeds
    let rounds = if thorough { 60 } else { 6 };
    for si in 0..seeds.len() {
        let (name, base) = (&seeds[si].0.clone(), seeds[si].1.clone());
        let per = if base.len() > 20_000 { rounds / 3 + 1 } else { rounds };
        for _ in 0..per {
            let mut b = base.clone();
            let mut tags: Vec<&'static str> = vec![];
            if rng.below(4) == 0 {
                if let Ok(mut root) = cbor_tree::parse(&b) { let k = 1 + rng.below(3) as usize; tags.extend(cbor_tree::mutate(&mut rng, &mut root, k)); b = root.to_vec(); }
            }
            let k = if tags.is_empty() { 1 + rng.below(3) } else { rng.below(2) };
            let other = seeds[rng.below(seeds.len() as u64) as usize].1.clone();
            for _ in 0..k { tags.push(cbor_tree::corrupt(&mut rng, &mut b, &other)); }
            tags.sort(); tags.dedup();
            let res = run.all(&b, &format!("{}+{}", name, tags.join("+"))); inputs += 1;
            if budget > 0 || res.values().any(|r| r.0 == 2) { emit_model_cases(&mut rng, &b, &format!("mut-{}", tags.first().unwrap_or(&"none")), &res, &mut budget, false); }
        }
    }
    // 6. nesting probe (separate process: a stack overflow cannot be caught)
    let exe = std::env::current_exe().unwrap();
    for ep in ["plutus-list", "plutus-constr", "native-script", "metadatum", "skip"] {
        for depth in [1_000usize, 5_000, 16_000, 60_000] {
            if !thorough && depth > 16_000 { continue; }
            let st = std::process::Command::new(&exe).args(["--nest-child", ep, &depth.to_string()]).status();
            let crashed = match st { Ok(s) => !s.success(), Err(_) => false };
            emit_stat(&format!("nest_{}_{}_crashed", ep, depth), crashed as u64);
            if crashed { emit_oracle_fail(&format!("abort/stack-overflow/{}", ep), &format!("{} levels of nesting (input of {} bytes) abort the process on a 2 MiB thread stack: {:?}", depth, depth * 3, st)); break; }
        }
    }
    emit_stat("inputs", inputs);
    emit_stat("decode_calls", run.calls);
    emit_stat("distinct_panic_keys", run.panics.len() as u64);
    for (k, n) in &run.panics { emit_stat(&format!("count_{}", k), *n); }
    let never_ok: Vec<&&str> = run.eps.iter().map(|(n, _)| n).filter(|n| !run.oks.contains_key(*n)).collect();
    emit_stat("entry_points_never_ok", never_ok.len() as u64);
    for n in never_ok { emit_sample(&format!("entry point never returned Ok: {}", n)); }
}
