(* C05 model: ledger identity hashes are taken over the original on-wire bytes.

   Transcribed from
     pallas-codec/src/utils.rs        KeepRaw (Decode: all[start..end]; Encode: raw unless empty)
     pallas-crypto/src/hash/hasher.rs Hasher::{hash, hash_tagged, hash_cbor, hash_tagged_cbor}
     pallas-traverse/src/hashes.rs    OriginalHash / ComputeHash per artefact
     pallas-traverse/src/{block,header,tx,probe,witnesses}.rs   dispatch and accessors
     pallas-primitives  Block / Tx / TxPayload / WitnessSet layouts (derive array / map structs)

   The decoder state is the remaining input (as in [Cbor.Api]); the slice
   [all[start..end]] that KeepRaw captures is then the prefix of the input at
   [start] whose length is the number of bytes the inner decoder consumed:
   [consumed bs r].

   The hash function is a Section variable [H outlen msg] (Blake2b in the real
   code; [Run.v] instantiates it with the Gallina Blake2b of [Crypto.Blake2b]).
   Typed payload decoders are modelled as "one CBOR item + a view of it"
   ([typed]); inside the structural decoders below the payload type accepts
   every well-formed item (the era codecs themselves are C06's business), so
   the structural model accepts a superset of what pallas accepts and must
   agree with it on everything pallas accepts. *)
From PV Require Import Lib.Base Cbor.Item Cbor.Enc Cbor.Dec Cbor.Api.
Open Scope Z_scope.

(* ------------------------------------------------------------------ KeepRaw *)
(* all[start..end] where [bs] is the input at [start] and [r] the input at [end] *)
Definition consumed (bs r : list Z) : list Z := firstn (length bs - length r) bs.

Record keepraw (T : Type) : Type := KR { kr_raw : list Z; kr_inner : T }.
Arguments KR {T} _ _.
Arguments kr_raw {T} _.
Arguments kr_inner {T} _.

(* impl Decode for KeepRaw<T>: start = position; inner = decode; end = position *)
Definition kr_decode {T} (dec : list Z -> dres (T * list Z)) (bs : list Z) : dres (keepraw T * list Z) :=
  dbind (dec bs) (fun '(v, r) => DOk (KR (consumed bs r) v, r)).

(* impl Encode for KeepRaw<T>: raw bytes unless they are empty (value built in memory) *)
Definition kr_encode {T} (enc : T -> list Z) (k : keepraw T) : list Z :=
  match kr_raw k with [] => enc (kr_inner k) | _ :: _ => kr_raw k end.

(* a typed decoder: one CBOR item, then the type's own acceptance / interpretation *)
Definition typed {T} (view : item -> option T) (bs : list Z) : dres (T * list Z) :=
  dbind (decode bs) (fun '(i, r) => match view i with Some v => DOk (v, r) | None => DErr end).

(* the artefacts that have an OriginalHash impl in hashes.rs *)
Inductive artefact : Type :=
| AByronEbbHead      (* KeepRaw<byron::EbbHead>:   hash_cbor(&(0, self)) *)
| AByronBlockHead    (* KeepRaw<byron::BlockHead>: hash_cbor(&(1, self)) *)
| AByronTx           (* KeepRaw<byron::Tx>:        hash(raw) *)
| AHeader            (* KeepRaw<alonzo::Header> / KeepRaw<babbage::Header>: hash(raw) *)
| ATxBody            (* KeepRaw<{alonzo,babbage,conway}::TransactionBody>: hash(raw) *)
| APlutusData        (* KeepRaw<PlutusData>: hash(raw) *)
| ANativeScript.     (* KeepRaw<NativeScript>: Hasher<224>::hash_tagged(raw, 0) *)

Definition digest_len (a : artefact) : Z := match a with ANativeScript => 28 | _ => 32 end.

(* the bytes hashed in front of the wire bytes *)
Definition prefix (a : artefact) : list Z :=
  match a with
  | AByronEbbHead => [130; 0]      (* 82 00 : array(2), 0 *)
  | AByronBlockHead => [130; 1]    (* 82 01 *)
  | ANativeScript => [0]           (* script language tag *)
  | _ => []
  end.

Section Hashes.
  Variable H : Z -> list Z -> list Z.     (* digest length in bytes, message *)

  (* Hasher::<N>::hash / hash_tagged / hash_cbor / hash_tagged_cbor (the streaming
     equalities are C10's hash_cbor_spec etc.); [e] = the bytes minicbor writes *)
  Definition hash (n : Z) (bs : list Z) : list Z := H n bs.
  Definition hash_tagged (n : Z) (bs : list Z) (t : Z) : list Z := H n (t :: bs).
  Definition hash_cbor (n : Z) (e : list Z) : list Z := H n e.
  Definition hash_tagged_cbor (n : Z) (e : list Z) (t : Z) : list Z := H n (t :: e).

  Section Typed.
    Context {T : Type}.
    Variable enc : T -> list Z.           (* T's minicbor Encode: the canonical re-encoding *)

    (* encoding of the tuple (tag, x): array(2), tag as i32, x *)
    Definition enc_pair (t : Z) (e : list Z) : list Z := e_array 2 ++ e_int t ++ e.

    (* impl OriginalHash for KeepRaw<..> *)
    Definition original_hash (a : artefact) (k : keepraw T) : list Z :=
      match a with
      | AByronEbbHead => hash_cbor 32 (enc_pair 0 (kr_encode enc k))
      | AByronBlockHead => hash_cbor 32 (enc_pair 1 (kr_encode enc k))
      | ANativeScript => hash_tagged 28 (kr_raw k) 0
      | AByronTx | AHeader | ATxBody | APlutusData => hash 32 (kr_raw k)
      end.

    (* impl ComputeHash for the plain value (re-encodes) *)
    Definition compute_hash (a : artefact) (v : T) : list Z :=
      match a with
      | AByronEbbHead => hash_cbor 32 (enc_pair 0 (enc v))
      | AByronBlockHead => hash_cbor 32 (enc_pair 1 (enc v))
      | ANativeScript => hash_tagged_cbor 28 (enc v) 0
      | AByronTx | AHeader | ATxBody | APlutusData => hash_cbor 32 (enc v)
      end.
  End Typed.

  (* -------------------------------------------------------------- structure *)
  (* KeepRaw<T> where T's acceptance is abstracted to "any well-formed item" *)
  Definition kr_item : list Z -> dres (keepraw item * list Z) := kr_decode decode.

  (* inside the structural model the re-encoder is never reached (raw is never
     empty after a decode); any function will do *)
  Definition no_enc (i : item) : list Z := encode_item i.
  Definition ohash (a : artefact) (k : keepraw item) : list Z := original_hash no_enc a k.

  (* a derive(Decode) array struct / Vec / MaybeIndefArray whose elements are all captured:
     d.array()? then n elements, or elements until the break *)
  Definition dec_fields (bs : list Z) : dres (list (keepraw item) * list Z) := d_vec kr_item bs.

  (* the elements of the array whose encoding is the captured slice of [k] *)
  Definition elems (k : keepraw item) : dres (list (keepraw item)) := dmap fst (dec_fields (kr_raw k)).
  Definition nth_elem (n : nat) (k : keepraw item) : dres (keepraw item) :=
    dbind (elems k) (fun fs => match nth_error fs n with Some f => DOk f | None => DErr end).

  Fixpoint map_dres {A B} (f : A -> dres B) (l : list A) : dres (list B) :=
    match l with
    | [] => DOk []
    | x :: t => dbind (f x) (fun y => dbind (map_dres f t) (fun ys => DOk (y :: ys)))
    end.

  (* a derive(Decode) map struct (#[cbor(map)]): d.map()? then (i64 key, value) entries *)
  Definition dec_entries (bs : list Z) : dres (list (keepraw Z * keepraw item) * list Z) :=
    dbind (d_map bs) (fun '(l, r) =>
      match l with
      | Some n => seq_loop (pair_dec (kr_decode d_i64) kr_item) (budget r) n r
      | None => until_loop (pair_dec (kr_decode d_i64) kr_item) (budget r) r
      end).
  (* a repeated key overwrites the field: the last occurrence wins *)
  Definition lookup_last (key : Z) (es : list (keepraw Z * keepraw item)) : option (keepraw item) :=
    fold_left (fun acc e => if kr_inner (fst e) =? key then Some (snd e) else acc) es None.
  Definition field (key : Z) (k : keepraw item) : dres (option (keepraw item)) :=
    dmap (fun p => lookup_last key (fst p)) (dec_entries (kr_raw k)).

  (* Vec<KeepRaw<T>> (alonzo, babbage) or NonEmptySet<KeepRaw<T>> (conway: optional tag 258) *)
  Definition set_elems (allow_tag : bool) (k : keepraw item) : dres (list (keepraw item)) :=
    dbind (d_datatype (kr_raw k)) (fun t =>
      if allow_tag && ctype_eqb t TTag then
        dbind (d_tag (kr_raw k)) (fun '(tg, r) =>
          if tg =? 258 then dmap fst (dec_fields r) else DErr)
      else elems k).
  Definition opt_set_elems (allow_tag : bool) (o : option (keepraw item)) : dres (list (keepraw item)) :=
    match o with None => DOk [] | Some k => set_elems allow_tag k end.

  (* what the check observes of a transaction *)
  Record tx_hashes : Type := TxH { txh_id : list Z; txh_datums : list (list Z); txh_scripts : list (list Z) }.

  (* {alonzo,babbage,conway}::Tx = [ KeepRaw body, KeepRaw witness_set, bool, Nullable<KeepRaw aux> ];
     MultiEraTx::hash = transaction_body.original_hash();
     plutus_data() / native_scripts() = witness-set fields 4 / 1 *)
  Definition dec_tx (conway : bool) (bs : list Z) : dres tx_hashes :=
    dbind (dec_fields bs) (fun '(fs, _) =>
      match fs with
      | body :: wits :: _ =>
        dbind (field 1 wits) (fun ns =>
        dbind (field 4 wits) (fun pd =>
        dbind (opt_set_elems conway ns) (fun nsl =>
        dbind (opt_set_elems conway pd) (fun pdl =>
          DOk (TxH (ohash ATxBody body) (map (ohash APlutusData) pdl) (map (ohash ANativeScript) nsl))))))
      | _ => DErr
      end).

  (* byron::TxPayload = [ KeepRaw tx, KeepRaw witnesses ] *)
  Definition dec_byron_tx (bs : list Z) : dres tx_hashes :=
    dbind (dec_fields bs) (fun '(fs, _) =>
      match fs with
      | tx :: _ :: _ => DOk (TxH (ohash AByronTx tx) [] [])
      | _ => DErr
      end).

  (* probe::block_era: Token::Array(2) then Token::U8(0..=7) *)
  Definition probe (bs : list Z) : option Z :=
    match d_array bs with
    | DOk (Some n, r0) =>
      if n =? 2 then
        match d_datatype r0 with
        | DOk t => if ctype_eqb t TU8 then
                     match d_u8 r0 with DOk (v, _) => if v <=? 7 then Some v else None | _ => None end
                   else None
        | _ => None
        end
      else None
    | _ => None
    end.

  (* which OriginalHash impl the era tag selects *)
  Definition header_kind (tag : Z) : artefact :=
    if tag =? 0 then AByronEbbHead else if tag =? 1 then AByronBlockHead else AHeader.
  Definition tx_kind (tag : Z) : artefact := if tag <=? 1 then AByronTx else ATxBody.

  (* MultiEraBlock::decode: (u16, Block) with Block = [ KeepRaw header, bodies / body, .. ];
     result = (block hash, tx ids in order) *)
  Definition dec_block (bs : list Z) : dres (list Z * list (list Z)) :=
    match probe bs with
    | None => DErr
    | Some tag =>
      dbind (d_array bs) (fun '(n, r0) =>
      match n with
      | Some n =>
        if n =? 2 then
          dbind (d_u16 r0) (fun '(_, r1) =>
          dbind (dec_fields r1) (fun '(fs, _) =>
            match fs with
            | hdr :: f1 :: _ =>
              if tag =? 0 then DOk (ohash (header_kind tag) hdr, [])
              else if tag =? 1 then
                (* byron::BlockBody = [ tx_payload : MaybeIndefArray<TxPayload>, ssc, dlg, upd ] *)
                dbind (nth_elem 0 f1) (fun payloads =>
                dbind (elems payloads) (fun ps =>
                dbind (map_dres (nth_elem 0) ps) (fun txs =>
                  DOk (ohash (header_kind tag) hdr, map (ohash (tx_kind tag)) txs))))
              else
                dbind (elems f1) (fun bodies =>
                  DOk (ohash (header_kind tag) hdr, map (ohash (tx_kind tag)) bodies))
            | _ => DErr
            end))
        else DErr
      | None => DErr
      end)
    end.

  (* MultiEraHeader::decode(tag, subtag, cbor).hash():
     kind 0 = byron EBB (tag 0, subtag 0), 1 = byron main (tag 0, other subtag), 2 = tags >= 1 *)
  Definition dec_header (kind : Z) (bs : list Z) : dres (list Z) :=
    dbind (kr_item bs) (fun '(k, _) =>
      DOk (ohash (if kind =? 0 then AByronEbbHead else if kind =? 1 then AByronBlockHead else AHeader) k)).

  (* a stand-alone KeepRaw<PlutusData> / KeepRaw<NativeScript> *)
  Definition dec_datum (bs : list Z) : dres (list Z) :=
    dbind (kr_item bs) (fun '(k, _) => DOk (ohash APlutusData k)).
  Definition dec_script (bs : list Z) : dres (list Z) :=
    dbind (kr_item bs) (fun '(k, _) => DOk (ohash ANativeScript k)).
End Hashes.

(* ------------------------------------------------- Constr tag 102 (hand-written) *)
(* pallas-primitives/src/plutus_data.rs, impl Decode for Constr<A>, the tag-102 branch:
   tag; array header; constructor (u64); fields (MaybeIndefArray<A>, here: one item);
   after the repair the header must be 2 or indefinite, and an indefinite array is closed
   by consuming the break ([datatype()? == Break] holds exactly for the byte ff). *)
Definition dec_constr102 (bs : list Z) : dres ((Z * item) * list Z) :=
  dbind (d_tag bs) (fun '(t, r0) =>
    if t =? 102 then
      dbind (d_array r0) (fun '(len, r1) =>
        if match len with None => true | Some n => n =? 2 end then
          dbind (d_u64 r1) (fun '(c, r2) =>
          dbind (decode r2) (fun '(fields, r3) =>
            match len with
            | Some _ => DOk ((c, fields), r3)
            | None =>
              match r3 with
              | [] => DEoi
              | b :: r4 => if b =? break_byte then DOk ((c, fields), r4) else DErr
              end
            end))
        else DErr)
    else DErr).

(* the same branch before the repair: [d.array()?;] with the length dropped *)
Definition dec_constr102_old (bs : list Z) : dres ((Z * item) * list Z) :=
  dbind (d_tag bs) (fun '(t, r0) =>
    if t =? 102 then
      dbind (d_array r0) (fun '(_, r1) =>
        dbind (d_u64 r1) (fun '(c, r2) =>
        dbind (decode r2) (fun '(fields, r3) => DOk ((c, fields), r3))))
    else DErr).

(* ------------------------------------------------------------ specification *)
(* [s] occurs in [bs] as a contiguous slice *)
Definition slice_of (s bs : list Z) : Prop := exists pre post, bs = pre ++ s ++ post.

(* the captured bytes are exactly the encoding of the decoded item *)
Definition raw_ok (k : keepraw item) : Prop :=
  kr_raw k = encode_item (kr_inner k) /\ wf_item (kr_inner k) = true.

(* a reported hash is H over (prefix ++ a contiguous slice of the input that is
   exactly the encoding of a well-formed item) *)
Definition hashed_slice (H : Z -> list Z -> list Z) (a : artefact) (bs h : list Z) : Prop :=
  exists k, raw_ok k /\ slice_of (kr_raw k) bs /\ h = H (digest_len a) (prefix a ++ kr_raw k).

