(* C28, delayed confirmations (Async schedules): frame / commutation lemmas of the specification steps, pending-list folds. *)
From PV Require Import Lib.Base P2p.Proto P2p.Initiator P2p.Spec C28.Model.
Open Scope Z_scope.

Fixpoint fold_cstep (w : pspec) (ms : list msg) : option pspec :=
  match ms with [] => Some w | m :: r => match cstep w m with Some w' => fold_cstep w' r | None => None end end.
Lemma fold_cstep_app w a b : fold_cstep w (a ++ b) = match fold_cstep w a with Some w' => fold_cstep w' b | None => None end.
Proof. revert w; induction a as [|m r IH]; intros w; cbn [app fold_cstep]; [reflexivity|]. destruct (cstep w m); [apply IH | reflexivity]. Qed.

Ltac crush H := repeat match type of H with
  | guard ?b _ = Some _ => unfold guard in H; destruct b eqn:?; [|discriminate H]
  | match ?x with _ => _ end = Some _ => destruct x eqn:?; try discriminate H
  end.

(* a permitted non-handshake client message leaves the handshake field alone and needs acceptance *)
Lemma cstep_hs w a w1 : cstep w a = Some w1 -> proto_of a <> 0 -> w_hs w1 = w_hs w /\ accepted w = true.
Proof.
  intros H N. destruct a; cbn [cstep] in H; try discriminate; cbn [proto_of] in N; try lia;
    unfold guard in H;
    match type of H with (if ?b then _ else _) = _ => destruct b eqn:G; [|discriminate] end;
    crush H; inversion H; subst; cbn; split; try reflexivity;
    unfold accepted, ps_negotiated, leios_negotiated in *; destruct (w_hs w); try discriminate; reflexivity.
Qed.

(* S1: a different protocol's client step does not disable a client message *)
Lemma cstep_frame w a w1 b w2 :
  cstep w a = Some w1 -> proto_of a <> proto_of b -> proto_of a <> 0 -> cstep w b = Some w2 -> exists w3, cstep w1 b = Some w3.
Proof.
  intros Ha N NZ Hb.
  destruct a; cbn [cstep] in Ha; try discriminate; cbn [proto_of] in NZ; try lia;
    unfold guard in Ha; match type of Ha with (if ?g then _ else _) = _ => destruct g eqn:G; [|discriminate] end;
    crush Ha; inversion Ha; subst; clear Ha;
    destruct b; cbn [cstep] in Hb |- *; try discriminate; cbn [proto_of] in N; try lia;
    unfold guard, accepted, ps_negotiated, leios_negotiated in *;
    cbn [w_hs w_ka w_ps w_bf w_cs w_tx w_ln w_lf ww_hs ww_ka ww_ps ww_bf ww_cs ww_tx ww_ln ww_lf] in *;
    repeat match type of Hb with
    | (if ?g then _ else _) = Some _ => destruct g eqn:?; [|discriminate Hb]
    | match ?x with _ => _ end = Some _ => destruct x eqn:?; try discriminate Hb
    end; eauto.
Qed.

Ltac pull_fin :=
  eexists; split; [reflexivity|];
  cbn [cstep]; unfold guard, accepted, ps_negotiated, leios_negotiated;
  cbn [w_hs w_ka w_ps w_bf w_cs w_tx w_ln w_lf ww_hs ww_ka ww_ps ww_bf ww_cs ww_tx ww_ln ww_lf];
  repeat match goal with H : _ = _ |- _ => rewrite H end; try reflexivity.

(* S2: a server step after a pending client step of another protocol can be pulled in front of it *)
Lemma sstep_pull w a w1 m w1' :
  cstep w a = Some w1 -> sstep w1 m = Some w1' -> proto_of a <> proto_of m ->
  exists w', sstep w m = Some w' /\ cstep w' a = Some w1'.
Proof.
  intros Ha Hm N.
  destruct a; cbn [cstep] in Ha; try discriminate;
    unfold guard in Ha;
    repeat match type of Ha with
    | (if ?g then _ else _) = Some _ => destruct g eqn:?; [|discriminate Ha]
    | match ?x with _ => _ end = Some _ => destruct x eqn:?; try discriminate Ha
    end; inversion Ha; subst; clear Ha;
    destruct m; cbn [sstep] in Hm |- *; try discriminate; cbn [proto_of] in N; try lia;
    unfold guard, accepted, ps_negotiated, leios_negotiated in *;
    cbn [w_hs w_ka w_ps w_bf w_cs w_tx w_ln w_lf ww_hs ww_ka ww_ps ww_bf ww_cs ww_tx ww_ln ww_lf] in *;
    repeat match type of Hm with
    | (if ?g then _ else _) = Some _ => destruct g eqn:?; [|discriminate Hm]
    | match ?x with _ => _ end = Some _ => destruct x eqn:?; try discriminate Hm
    end; inversion Hm; subst; clear Hm;
    try congruence; pull_fin.
Qed.

Definition protos (l : list msg) : list Z := map proto_of l.

Lemma fold_no_hs : forall P wb w, accepted wb = true -> fold_cstep wb P = Some w ->
  Forall (fun a => proto_of a <> 0) P /\ w_hs w = w_hs wb.
Proof.
  induction P as [|a r IH]; intros wb w A H; cbn [fold_cstep] in H.
  - inversion H; subst. split; [constructor | reflexivity].
  - destruct (cstep wb a) as [w1|] eqn:C; [|discriminate].
    assert (N : proto_of a <> 0).
    { intros Z0. destruct a; cbn [proto_of] in Z0; try discriminate; cbn [cstep] in C; try discriminate.
      unfold accepted in A. destruct (w_hs wb); discriminate. }
    destruct (cstep_hs _ _ _ C N) as [Hh _].
    assert (A1 : accepted w1 = true) by (unfold accepted in *; rewrite Hh; exact A).
    destruct (IH w1 w A1 H) as [F E]. split; [constructor; assumption | congruence].
Qed.

Lemma fold_frame : forall P wb w b wx, fold_cstep wb P = Some w -> Forall (fun a => proto_of a <> 0) P ->
  ~ In (proto_of b) (protos P) -> cstep wb b = Some wx -> exists w3, cstep w b = Some w3.
Proof.
  induction P as [|a r IH]; intros wb w b wx H F N C; cbn [fold_cstep] in H.
  - inversion H; subst. eauto.
  - destruct (cstep wb a) as [w1|] eqn:Ca; [|discriminate]. inversion F as [|? ? Na Fr]; subst.
    assert (Nab : proto_of a <> proto_of b) by (intros E; apply N; left; exact E).
    destruct (cstep_frame _ _ _ _ _ Ca Nab Na C) as (w3 & C3).
    eapply IH; [exact H | exact Fr | intros I; apply N; right; exact I | exact C3].
Qed.

Lemma fold_pull : forall P wb w m wn, fold_cstep wb P = Some w -> sstep w m = Some wn ->
  ~ In (proto_of m) (protos P) -> exists wbn, sstep wb m = Some wbn /\ fold_cstep wbn P = Some wn.
Proof.
  induction P as [|a r IH]; intros wb w m wn H S N; cbn [fold_cstep] in H.
  - inversion H; subst. exists wn. split; [exact S | reflexivity].
  - destruct (cstep wb a) as [w1|] eqn:Ca; [|discriminate].
    destruct (IH w1 w m wn H S) as (w1n & S1 & F1); [intros I; apply N; right; exact I|].
    assert (Nam : proto_of a <> proto_of m) by (intros E; apply N; left; exact E).
    destruct (sstep_pull _ _ _ _ _ Ca S1 Nam) as (wbn & Sb & Cb).
    exists wbn. split; [exact Sb|]. cbn [fold_cstep]. rewrite Cb. exact F1.
Qed.

Lemma flat_inj : forall a b : list (Z * Z), flat a = flat b -> a = b.
Proof.
  induction a as [|[x y] r IH]; intros [|[x2 y2] r2] H; cbn in H; try discriminate; [reflexivity|].
  inversion H; subst. f_equal. apply IH. assumption.
Qed.
Lemma msg_code_inj a b : msg_code a = msg_code b -> a = b.
Proof.
  destruct a; destruct b; cbn [msg_code]; intros H; try discriminate H; try reflexivity;
    try (inversion H; subst; reflexivity).
  inversion H as [H1]. apply flat_inj in H1. subst. reflexivity.
Qed.
