From Coq Require Import Permutation Sorting.Sorted.
From PV Require Import Lib.Base C25.Model.
Open Scope Z_scope.

(* ---- equality on version data ---- *)
Lemma opt_eqb_Z_spec a b : opt_eqb Z.eqb a b = true <-> a = b.
Proof.
  destruct a, b; cbn; split; intros H; try easy.
  - apply Z.eqb_eq in H. congruence.
  - inversion H. apply Z.eqb_refl.
Qed.
Lemma opt_eqb_bool_spec a b : opt_eqb Bool.eqb a b = true <-> a = b.
Proof.
  destruct a, b; cbn; split; intros H; try easy.
  - apply eqb_prop in H. congruence.
  - inversion H. apply eqb_reflx.
Qed.
Lemma vdata_eqb_spec a b : vdata_eqb a b = true <-> a = b.
Proof.
  destruct a as [[[m1 i1] p1] q1], b as [[[m2 i2] p2] q2]. unfold vdata_eqb.
  rewrite !andb_true_iff, Z.eqb_eq, opt_eqb_Z_spec, opt_eqb_bool_spec. split.
  - intros [[[H1 H2] H3] H4]. apply eqb_prop in H2. congruence.
  - intros H; inversion H; subst. repeat split. apply eqb_reflx.
Qed.

(* ---- association lists ---- *)
Lemma in_keys (t : vtable) k d : In (k, d) t -> In k (keys t).
Proof. intros H. unfold keys. apply in_map_iff. exists (k, d). split; [reflexivity | exact H]. Qed.

Lemma keys_in (t : vtable) k : In k (keys t) -> exists d, In (k, d) t.
Proof. unfold keys. intros H. apply in_map_iff in H as [[k' d] [E H]]. cbn in E. subst. eauto. Qed.

Lemma nodup_keys_fun (t : vtable) k a b : NoDup (keys t) -> In (k, a) t -> In (k, b) t -> a = b.
Proof.
  induction t as [|[k' d] r IH]; cbn [keys map fst In]; intros Hn Ha Hb; [contradiction|].
  inversion Hn as [|? ? Hni Hnr]; subst.
  destruct Ha as [Ha|Ha], Hb as [Hb|Hb].
  - congruence.
  - inversion Ha; subst. exfalso. apply Hni. exact (in_keys r k b Hb).
  - inversion Hb; subst. exfalso. apply Hni. exact (in_keys r k a Ha).
  - exact (IH Hnr Ha Hb).
Qed.

(* ---- the descending stable sort ---- *)
Definition desc (l : vtable) : Prop := StronglySorted (fun x y => fst y <= fst x) l.

Lemma insert_desc_perm x l : Permutation (insert_desc x l) (x :: l).
Proof.
  induction l as [|y r IH]; cbn [insert_desc]; [reflexivity|].
  destruct (fst y <? fst x); [reflexivity|].
  rewrite IH. apply perm_swap.
Qed.

Lemma insert_desc_sorted x l : desc l -> desc (insert_desc x l).
Proof.
  unfold desc. induction l as [|y r IH]; cbn [insert_desc]; intros Hs.
  - constructor; constructor.
  - inversion Hs as [|? ? Hr Hall]; subst.
    destruct (fst y <? fst x) eqn:E.
    + constructor; [exact Hs|]. constructor; [lia|].
      rewrite Forall_forall in *. intros z Hz. specialize (Hall z Hz). lia.
    + constructor; [apply IH, Hr|].
      rewrite Forall_forall in *. intros z Hz.
      apply (Permutation_in _ (insert_desc_perm x r)) in Hz. destruct Hz as [<-|Hz]; [lia | apply Hall, Hz].
Qed.

Lemma sort_fold_perm t : forall acc, Permutation (fold_left (fun a x => insert_desc x a) t acc) (t ++ acc).
Proof.
  induction t as [|x r IH]; intros acc; cbn [fold_left app]; [reflexivity|].
  rewrite IH. rewrite insert_desc_perm. symmetry. apply Permutation_middle.
Qed.
Lemma sort_fold_sorted t : forall acc, desc acc -> desc (fold_left (fun a x => insert_desc x a) t acc).
Proof.
  induction t as [|x r IH]; intros acc Ha; cbn [fold_left]; [exact Ha|].
  apply IH, insert_desc_sorted, Ha.
Qed.

Lemma sort_desc_perm t : Permutation (sort_desc t) t.
Proof. unfold sort_desc. rewrite sort_fold_perm, app_nil_r. reflexivity. Qed.
Lemma sort_desc_sorted t : desc (sort_desc t).
Proof. apply sort_fold_sorted. constructor. Qed.

Lemma sort_desc_in t x : In x (sort_desc t) <-> In x t.
Proof.
  split; intros H.
  - exact (Permutation_in _ (sort_desc_perm t) H).
  - exact (Permutation_in _ (Permutation_sym (sort_desc_perm t)) H).
Qed.
Lemma sort_desc_keys t k : In k (keys (sort_desc t)) <-> In k (keys t).
Proof.
  split; intros H; apply keys_in in H as [d H].
  - apply (proj1 (sort_desc_in t _)) in H. exact (in_keys _ _ _ H).
  - apply (proj2 (sort_desc_in t _)) in H. exact (in_keys _ _ _ H).
Qed.

(* ---- old stack: the two loops ---- *)
Lemma scan_client_some n d client r :
  scan_client n d client = Some r ->
  exists cd, In (n, cd) client /\ r = if vdata_eqb d cd then Accept n d else Refused n.
Proof.
  induction client as [|[cn cd] rest IH]; cbn [scan_client]; [discriminate|].
  destruct (n =? cn) eqn:E.
  - intros H; inversion H; subst. assert (n = cn) by lia. subst. exists cd. split; [left; reflexivity | reflexivity].
  - intros H. destruct (IH H) as (cd' & Hin & Hr). exists cd'. split; [right; exact Hin | exact Hr].
Qed.

Lemma scan_client_none n d client : scan_client n d client = None <-> ~ In n (keys client).
Proof.
  induction client as [|[cn cd] rest IH]; cbn [scan_client keys map fst In]; [tauto|].
  destruct (n =? cn) eqn:E.
  - split; [discriminate|]. intros H. exfalso. apply H. left. lia.
  - rewrite IH. unfold keys. split; intros H; [intros [F|F]; [lia | exact (H F)] | tauto].
Qed.

Lemma scan_versions_some versions client r :
  scan_versions versions client = Some r ->
  exists pre n d post, versions = pre ++ (n, d) :: post /\
    (forall k, In k (keys pre) -> ~ In k (keys client)) /\ scan_client n d client = Some r.
Proof.
  induction versions as [|[n d] rest IH]; cbn [scan_versions]; [discriminate|].
  destruct (scan_client n d client) as [x|] eqn:E.
  - intros H; inversion H; subst. exists [], n, d, rest. repeat split; [|exact E]. intros k [].
  - intros H. destruct (IH H) as (pre & n' & d' & post & -> & Hpre & Hs).
    exists ((n, d) :: pre), n', d', post. repeat split; [|exact Hs].
    cbn [keys map fst In]. intros k [<-|Hk]; [apply scan_client_none in E; exact E | apply Hpre, Hk].
Qed.

Lemma scan_versions_none versions client :
  scan_versions versions client = None -> forall k, In k (keys versions) -> ~ In k (keys client).
Proof.
  induction versions as [|[n d] rest IH]; cbn [scan_versions keys map fst In]; [intros _ k []|].
  destruct (scan_client n d client) as [x|] eqn:E; [discriminate|].
  intros H k [<-|Hk]; [apply scan_client_none in E; exact E | exact (IH H k Hk)].
Qed.

Lemma desc_split pre x post : desc (pre ++ x :: post) -> forall y, In y post -> fst y <= fst x.
Proof.
  unfold desc. induction pre as [|p pre IH]; cbn [app]; intros Hs y Hy.
  - inversion Hs as [|? ? _ Hall]; subst. rewrite Forall_forall in Hall. apply Hall, Hy.
  - inversion Hs; subst. apply IH; assumption.
Qed.

(* the decisive fact: the first server version (in descending order) that the
   client also offers is the highest common version *)
Lemma old_hit server client r :
  scan_versions (sort_desc server) client = Some r ->
  exists n d cd, In (n, d) server /\ In (n, cd) client /\ highest_common server client n /\
                 r = if vdata_eqb d cd then Accept n d else Refused n.
Proof.
  intros H. destruct (scan_versions_some _ _ _ H) as (pre & n & d & post & Hv & Hpre & Hs).
  destruct (scan_client_some _ _ _ _ Hs) as (cd & Hcd & Hr).
  assert (Hin : In (n, d) server).
  { apply sort_desc_in. rewrite Hv. apply in_or_app. right. left. reflexivity. }
  exists n, d, cd. repeat split; try assumption.
  - exact (in_keys _ _ _ Hin).
  - exact (in_keys _ _ _ Hcd).
  - intros w [Hws Hwc]. apply sort_desc_keys in Hws. rewrite Hv in Hws.
    unfold keys in Hws. rewrite map_app in Hws. cbn [map fst] in Hws.
    apply in_app_or in Hws as [Hw|[Hw|Hw]].
    + exfalso. exact (Hpre w Hw Hwc).
    + lia.
    + apply in_map_iff in Hw as [y [<- Hy]].
      pose proof (sort_desc_sorted server) as Hd. rewrite Hv in Hd.
      exact (desc_split pre (n, d) post Hd y Hy).
Qed.

Lemma old_accept_proof s c v d :
  negotiate_old s c = Accept v d -> In (v, d) s /\ In (v, d) c /\ highest_common s c v.
Proof.
  unfold negotiate_old. destruct (scan_versions (sort_desc s) c) as [r|] eqn:E; [|discriminate].
  intros ->. destruct (old_hit _ _ _ E) as (n & d' & cd & Hs & Hc & Hh & Hr).
  destruct (vdata_eqb d' cd) eqn:Eq; inversion Hr; subst.
  apply vdata_eqb_spec in Eq. subst. repeat split; assumption || apply Hh.
Qed.

Lemma old_refused_proof s c v :
  negotiate_old s c = Refused v ->
  highest_common s c v /\ exists d cd, In (v, d) s /\ In (v, cd) c /\ d <> cd.
Proof.
  unfold negotiate_old. destruct (scan_versions (sort_desc s) c) as [r|] eqn:E; [|discriminate].
  intros ->. destruct (old_hit _ _ _ E) as (n & d' & cd & Hs & Hc & Hh & Hr).
  destruct (vdata_eqb d' cd) eqn:Eq; inversion Hr; subst.
  split; [exact Hh|]. exists d', cd. repeat split; try assumption.
  intros F. apply vdata_eqb_spec in F. congruence.
Qed.

Lemma desc_keys_sorted l : desc l -> StronglySorted (fun a b => b <= a) (keys l).
Proof.
  unfold desc, keys. induction 1 as [|x r Hr IH Hall]; cbn [map]; constructor.
  - exact IH.
  - rewrite Forall_forall in *. intros z Hz. apply in_map_iff in Hz as [y [<- Hy]]. apply Hall, Hy.
Qed.

Lemma old_mismatch_proof s c l :
  negotiate_old s c = Mismatch l ->
  disjoint s c /\ Permutation l (keys s) /\ StronglySorted (fun a b => b <= a) l.
Proof.
  unfold negotiate_old. destruct (scan_versions (sort_desc s) c) as [r|] eqn:E.
  - intros ->. destruct (old_hit _ _ _ E) as (n & d' & cd & _ & _ & _ & Hr). destruct (vdata_eqb d' cd); discriminate.
  - intros H; inversion H; subst. split; [|split].
    + intros v [Hs Hc]. apply sort_desc_keys in Hs. exact (scan_versions_none _ _ E v Hs Hc).
    + unfold keys. apply Permutation_map, sort_desc_perm.
    + apply desc_keys_sorted, sort_desc_sorted.
Qed.

Lemma old_disjoint_proof s c : disjoint s c -> negotiate_old s c = Mismatch (keys (sort_desc s)).
Proof.
  intros Hd. unfold negotiate_old. destruct (scan_versions (sort_desc s) c) as [r|] eqn:E; [|reflexivity].
  destruct (old_hit _ _ _ E) as (n & _ & _ & _ & _ & [Hc _] & _). exfalso. exact (Hd n Hc).
Qed.

Lemma highest_unique a b v w : highest_common a b v -> highest_common a b w -> v = w.
Proof. intros [Hv Hv'] [Hw Hw']. specialize (Hv' w Hw). specialize (Hw' v Hv). lia. Qed.

Lemma old_complete_proof s c v d :
  NoDup (keys s) -> NoDup (keys c) -> highest_common s c v -> In (v, d) s -> In (v, d) c ->
  negotiate_old s c = Accept v d.
Proof.
  intros Hns Hnc Hh Hs Hc. destruct (negotiate_old s c) as [v' d'|v'|l] eqn:E.
  - apply old_accept_proof in E as (Hs' & _ & Hh'). pose proof (highest_unique _ _ _ _ Hh Hh'). subst v'.
    rewrite (nodup_keys_fun s v d d' Hns Hs Hs'). reflexivity.
  - apply old_refused_proof in E as (Hh' & d0 & cd & Hs' & Hc' & Hne).
    pose proof (highest_unique _ _ _ _ Hh Hh'). subst v'.
    rewrite <- (nodup_keys_fun s v d d0 Hns Hs Hs') in Hne.
    rewrite <- (nodup_keys_fun c v d cd Hnc Hc Hc') in Hne. contradiction.
  - apply old_mismatch_proof in E as (Hd & _). exfalso. exact (Hd v (proj1 Hh)).
Qed.

(* ---- new stack ---- *)
Lemma contains_key_spec t n : contains_key t n = true <-> In n (keys t).
Proof.
  unfold contains_key, keys. rewrite existsb_exists, in_map_iff. split.
  - intros [x [Hx E]]. exists x. split; [lia | exact Hx].
  - intros [x [E Hx]]. exists x. split; [exact Hx | lia].
Qed.

Lemma lookup_some t n d : lookup t n = Some d -> In (n, d) t.
Proof.
  induction t as [|[k d'] r IH]; cbn [lookup]; [discriminate|].
  destruct (k =? n) eqn:E.
  - intros H; inversion H; subst. left. f_equal. lia.
  - intros H. right. apply IH, H.
Qed.
Lemma lookup_none t n : lookup t n = None -> ~ In n (keys t).
Proof.
  induction t as [|[k d'] r IH]; cbn [lookup keys map fst In]; [tauto|].
  destruct (k =? n) eqn:E; [discriminate|]. intros H [F|F]; [lia | exact (IH H F)].
Qed.

Definition mbk_step (acc : option (Z * vdata)) (x : Z * vdata) : option (Z * vdata) :=
  match acc with None => Some x | Some a => if fst a <=? fst x then Some x else Some a end.

Lemma mbk_fold l : forall acc,
  match fold_left mbk_step l acc with
  | Some m => (Some m = acc \/ In m l) /\ (forall y, In y l -> fst y <= fst m) /\
              (forall a, acc = Some a -> fst a <= fst m)
  | None => acc = None /\ l = []
  end.
Proof.
  induction l as [|x r IH]; intros acc; cbn [fold_left].
  - destruct acc as [a|]; [|split; reflexivity]. repeat split; [left; reflexivity | intros y [] | intros a' H; inversion H; lia].
  - specialize (IH (mbk_step acc x)). destruct (fold_left mbk_step r (mbk_step acc x)) as [m|].
    + destruct IH as (H1 & H2 & H3). unfold mbk_step in *.
      destruct acc as [a|].
      * destruct (fst a <=? fst x) eqn:E.
        -- specialize (H3 x eq_refl). repeat split.
           ++ destruct H1 as [H1|H1]; [inversion H1; subst; right; left; reflexivity | right; right; exact H1].
           ++ intros y [<-|Hy]; [exact H3 | apply H2, Hy].
           ++ intros a' Ha; inversion Ha; subst. lia.
        -- specialize (H3 a eq_refl). repeat split.
           ++ destruct H1 as [H1|H1]; [left; exact H1 | right; right; exact H1].
           ++ intros y [<-|Hy]; [lia | apply H2, Hy].
           ++ intros a' Ha; inversion Ha; subst. exact H3.
      * specialize (H3 x eq_refl). repeat split.
        -- destruct H1 as [H1|H1]; [inversion H1; subst; right; left; reflexivity | right; right; exact H1].
        -- intros y [<-|Hy]; [exact H3 | apply H2, Hy].
        -- intros a' Ha; discriminate.
    + destruct IH as [H _]. unfold mbk_step in H. destruct acc as [a|]; [destruct (fst a <=? fst x)|]; discriminate.
Qed.

Lemma max_by_key_some l m : max_by_key l = Some m -> In m l /\ forall y, In y l -> fst y <= fst m.
Proof.
  unfold max_by_key. pose proof (mbk_fold l None) as H. unfold mbk_step in H.
  intros E. rewrite E in H. destruct H as ([H|H] & H2 & _); [discriminate|]. split; assumption.
Qed.
Lemma max_by_key_none l : max_by_key l = None -> l = [].
Proof.
  unfold max_by_key. pose proof (mbk_fold l None) as H. unfold mbk_step in H.
  intros E. rewrite E in H. apply H.
Qed.

Lemma new_hit s p num pd :
  max_by_key (filter (fun kv => contains_key s (fst kv)) p) = Some (num, pd) ->
  In (num, pd) p /\ highest_common s p num.
Proof.
  intros H. apply max_by_key_some in H as [Hin Hmax].
  apply filter_In in Hin as [Hp Hk]. cbn [fst] in Hk. apply contains_key_spec in Hk.
  split; [exact Hp|]. split; [split; [exact Hk | exact (in_keys _ _ _ Hp)]|].
  intros w [Hws Hwp]. apply keys_in in Hwp as [wd Hwd].
  specialize (Hmax (w, wd)). cbn [fst] in Hmax. apply Hmax.
  apply filter_In. split; [exact Hwd|]. cbn [fst]. apply contains_key_spec, Hws.
Qed.

Lemma new_no_panic_proof s p : exists r, negotiate_new s p = Ok r.
Proof.
  unfold negotiate_new.
  destruct (max_by_key (filter (fun kv => contains_key s (fst kv)) p)) as [[num pd]|] eqn:E; [|eauto].
  apply new_hit in E as [_ [[Hk _] _]].
  destruct (lookup s num) as [od|] eqn:El.
  - destruct (negb (magic pd =? magic od)); eauto.
  - exfalso. exact (lookup_none _ _ El Hk).
Qed.

Lemma new_accept_proof s p v d :
  negotiate_new s p = Ok (Accept v d) ->
  In (v, d) s /\ (exists pd, In (v, pd) p /\ magic pd = magic d) /\ highest_common s p v.
Proof.
  unfold negotiate_new.
  destruct (max_by_key (filter (fun kv => contains_key s (fst kv)) p)) as [[num pd]|] eqn:E; [|discriminate].
  apply new_hit in E as [Hp Hh].
  destruct (lookup s num) as [od|] eqn:El; [|discriminate].
  destruct (negb (magic pd =? magic od)) eqn:Em; intros H; inversion H; subst.
  split; [exact (lookup_some _ _ _ El)|]. split; [|exact Hh]. exists pd. split; [exact Hp | lia].
Qed.

Lemma new_refused_proof s p v :
  negotiate_new s p = Ok (Refused v) ->
  highest_common s p v /\ exists d pd, In (v, d) s /\ In (v, pd) p /\ magic pd <> magic d.
Proof.
  unfold negotiate_new.
  destruct (max_by_key (filter (fun kv => contains_key s (fst kv)) p)) as [[num pd]|] eqn:E; [|discriminate].
  apply new_hit in E as [Hp Hh].
  destruct (lookup s num) as [od|] eqn:El; [|discriminate].
  destruct (negb (magic pd =? magic od)) eqn:Em; intros H; inversion H; subst.
  split; [exact Hh|]. exists od, pd. repeat split; [exact (lookup_some _ _ _ El) | exact Hp | lia].
Qed.

Lemma new_mismatch_proof s p l :
  negotiate_new s p = Ok (Mismatch l) -> disjoint s p /\ l = keys s.
Proof.
  unfold negotiate_new.
  destruct (max_by_key (filter (fun kv => contains_key s (fst kv)) p)) as [[num pd]|] eqn:E.
  - destruct (lookup s num) as [od|]; [|discriminate]. destruct (negb (magic pd =? magic od)); discriminate.
  - intros H; inversion H; subst. split; [|reflexivity].
    apply max_by_key_none in E. intros v [Hs Hp]. apply keys_in in Hp as [pd Hpd].
    assert (Hf : In (v, pd) (filter (fun kv => contains_key s (fst kv)) p)).
    { apply filter_In. split; [exact Hpd|]. cbn [fst]. apply contains_key_spec, Hs. }
    rewrite E in Hf. contradiction.
Qed.

Lemma new_disjoint_proof s p : disjoint s p -> negotiate_new s p = Ok (Mismatch (keys s)).
Proof.
  intros Hd. destruct (new_no_panic_proof s p) as [r Hr]. rewrite Hr. destruct r as [v d|v|l].
  - apply new_accept_proof in Hr as (_ & _ & [Hc _]). exfalso. exact (Hd v Hc).
  - apply new_refused_proof in Hr as ([Hc _] & _). exfalso. exact (Hd v Hc).
  - apply new_mismatch_proof in Hr as [_ ->]. reflexivity.
Qed.

Lemma new_complete_proof s p v d pd :
  NoDup (keys s) -> NoDup (keys p) -> highest_common s p v -> In (v, d) s -> In (v, pd) p ->
  magic pd = magic d -> negotiate_new s p = Ok (Accept v d).
Proof.
  intros Hns Hnp Hh Hs Hp Hm. destruct (new_no_panic_proof s p) as [r Hr]. rewrite Hr. destruct r as [v' d'|v'|l].
  - apply new_accept_proof in Hr as (Hs' & _ & Hh'). pose proof (highest_unique _ _ _ _ Hh Hh'). subst v'.
    rewrite (nodup_keys_fun s v d d' Hns Hs Hs'). reflexivity.
  - apply new_refused_proof in Hr as (Hh' & d0 & pd0 & Hs' & Hp' & Hne).
    pose proof (highest_unique _ _ _ _ Hh Hh'). subst v'.
    rewrite <- (nodup_keys_fun s v d d0 Hns Hs Hs') in Hne.
    rewrite <- (nodup_keys_fun p v pd pd0 Hnp Hp Hp') in Hne. contradiction.
  - apply new_mismatch_proof in Hr as (Hd & _). exfalso. exact (Hd v (proj1 Hh)).
Qed.
