(* C32: the two known classes of inputs on which the unchanged code violates the
   property (KNOWN_FINDINGS.json keys `byron-slot-mod-epoch-length-ge-slots-per-epoch`
   and `testnet-wallclock-step-1598399-1598400`).  Kept apart from Model.v because
   it names a generated network constructor. *)
From PV Require Import Lib.Base Generated.Wellknown C32.Model.
Open Scope Z_scope.

Definition byron_known_class (g : genesis) (slot : Z) : Prop :=
  slot < shelley_known_slot g /\ slot mod byron_epoch_length g >= byron_slots_per_epoch g.
Definition Known (n : network) (slot : Z) : Prop :=
  byron_known_class (genesis_of n) slot \/ (n = Testnet /\ slot = 1598399).
