(* C41 correspondence.
   case = (initial built tx, operation list, what the implementation did).
   A signer is represented by the pair (public key, signature it produces on this
   transaction's id) -- Ed25519 is external to the model. *)
From PV Require Export Lib.Base C41.Model.
Open Scope Z_scope.

Definition SKc : Type := (key * sg)%type.
Definition rop : Type := op SKc.
Definition pk_c (sk : SKc) : key := fst sk.
Definition sign_c (sk : SKc) (_ : Z) : sg := snd sk.

(* observation: signature map sorted by key, witness list in order, body bytes, id *)
Definition obs : Type := (list entry * list entry * option bytesZ * Z)%type.
(* initial state: era is Conway?, tx_bytes decode?, body bytes, id *)
Definition case : Type := ((bool * bool * bytesZ * Z) * list rop * outcome obs)%type.

Fixpoint ins (e : entry) (l : list entry) : list entry :=
  match l with
  | [] => [e]
  | x :: r => if fst e <=? fst x then e :: l else x :: ins e r
  end.
Definition sort_entries (l : list entry) : list entry := fold_right ins [] l.

Definition observe (b : built) : obs :=
  (sort_entries (sig_list b), wit_list b, body_of b, tx_hash b).

Definition init (i : bool * bool * bytesZ * Z) : built :=
  let '(era, ok, bd, h) := i in
  mkBuilt era h (if ok then Some (mkTx bd None 0) else None) None.

Definition model_out (i : bool * bool * bytesZ * Z) (ops : list rop) : outcome obs :=
  match run SKc pk_c sign_c ops (init i) with
  | Ok b => Ok (observe b)
  | Err e => Err e
  | Panic p => Panic p
  end.

Definition entry_eqb (a b : entry) : bool := (fst a =? fst b) && (snd a =? snd b).
Definition bytesZ_eqb (a b : bytesZ) : bool := (fst a =? fst b) && (snd a =? snd b).
Definition obs_eqb (a b : obs) : bool :=
  let '(s1, w1, b1, h1) := a in
  let '(s2, w2, b2, h2) := b in
  list_eqb entry_eqb s1 s2 && list_eqb entry_eqb w1 w2 &&
  match b1, b2 with
  | Some x, Some y => bytesZ_eqb x y
  | None, None => true
  | _, _ => false
  end && (h1 =? h2).
Definition out_eqb (a b : outcome obs) : bool :=
  match a, b with
  | Ok x, Ok y => obs_eqb x y
  | Err x, Err y => x =? y
  | Panic x, Panic y => x =? y
  | _, _ => false
  end.

Definition case_out (c : case) : outcome obs :=
  let '(i, ops, _) := c in model_out i ops.
Definition case_ok (c : case) : bool :=
  let '(i, ops, o) := c in out_eqb (model_out i ops) o.
