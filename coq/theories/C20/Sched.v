(* C20, schedule level: the multiplexer as a small-step transition system.

   One direction of a connection (pallas-network/src/multiplexer.rs):

     agents --enqueue_chunk--> [ingress mpsc, cap INGRESS_MSG_QUEUE_BUFFER]     (Muxer.2, ONE queue
         shared by all agents through clone_sender(); an agent blocks in send().await when it is full)
     Muxer::tick: recv() one (protocol, payload), write_segment = header ++ payload appended to the bearer
     bearer: a FIFO byte stream; bytes written are "in flight" and become readable in arbitrary fragments
     Demuxer::tick: read_exact(8) -> Header::from -> read_exact(payload_len) -> demux:
         egress.get(protocol): Some(sender) => sender.send(payload).await   (BLOCKS while that agent's
                                              bounded queue, cap EGRESS_MSG_QUEUE_BUFFER, is full)
                               None => warn, drop
     agents --dequeue_chunk--> pop their egress queue at arbitrary times

   Every step is chosen by an arbitrary scheduler: a schedule is a [list choice]
   and [exec] runs it ([None] = the chosen step is not enabled in that state).
   [sent] and [delivered] are history variables (what each agent has enqueued /
   dequeued so far); they are not read by any step. *)
From PV Require Import Lib.Base C20.Model.
Open Scope Z_scope.

Record config : Type := {
  cap_in : nat;                 (* INGRESS_MSG_QUEUE_BUFFER (100 in the code) *)
  cap_out : nat;                (* EGRESS_MSG_QUEUE_BUFFER (100 in the code) *)
  subscribed : Z -> bool;       (* ids present in the demuxer's egress map *)
  lossy : bool                  (* false = the code (send().await); true = the try_send variant *)
}.

(* where the demuxer's tick is *)
Inductive dstate : Type :=
| DIdle                                  (* waiting for 8 header bytes *)
| DHeader (p : Z) (n : nat)              (* header read: waiting for n payload bytes of protocol p *)
| DHolding (p : Z) (payload : list Z).   (* segment read: in demux(), possibly blocked in send().await *)

Record state : Type := {
  sent : Z -> list (list Z);             (* history: chunks enqueued so far with wire id .. *)
  delivered : Z -> list (list Z);        (* history: chunks dequeued so far by the listener on id .. *)
  ingress : list (Z * list Z);           (* the muxer's queue *)
  inflight : list Z;                     (* bearer bytes written, not yet readable *)
  arrived : list Z;                      (* bearer bytes readable, not yet consumed by read_exact *)
  dmx : dstate;
  egress : Z -> list (list Z)            (* per-subscriber queues *)
}.

Definition init : state :=
  {| sent := fun _ => []; delivered := fun _ => []; ingress := []; inflight := []; arrived := [];
     dmx := DIdle; egress := fun _ => [] |}.

Inductive choice : Type :=
| CEnqueue (id : Z) (chunk : list Z)     (* an agent's enqueue_chunk completes *)
| CMux (ts : Z)                          (* Muxer::tick with clock value ts *)
| CArrive (n : nat)                      (* n more bytes (n >= 1) become readable *)
| CDemux                                 (* the demuxer's next action *)
| CDequeue (id : Z).                     (* the listener on id: dequeue_chunk completes *)

Definition is_enqueue (c : choice) : bool := match c with CEnqueue _ _ => true | _ => false end.

Definition exec_step (cfg : config) (st : state) (c : choice) : option state :=
  match c with
  | CEnqueue id x =>
    if (length (ingress st) <? cap_in cfg)%nat then
      Some {| sent := upd (sent st) id (sent st id ++ [x]); delivered := delivered st;
              ingress := ingress st ++ [(id, x)]; inflight := inflight st; arrived := arrived st;
              dmx := dmx st; egress := egress st |}
    else None
  | CMux ts =>
    match ingress st with
    | [] => None
    | (id, x) :: r =>
      Some {| sent := sent st; delivered := delivered st; ingress := r;
              inflight := inflight st ++ frame (ts, id, x); arrived := arrived st;
              dmx := dmx st; egress := egress st |}
    end
  | CArrive n =>
    if ((1 <=? n) && (n <=? length (inflight st)))%nat then
      Some {| sent := sent st; delivered := delivered st; ingress := ingress st;
              inflight := skipn n (inflight st); arrived := arrived st ++ firstn n (inflight st);
              dmx := dmx st; egress := egress st |}
    else None
  | CDemux =>
    match dmx st with
    | DIdle =>
      if (length (arrived st) <? 8)%nat then None else
      match header_decode (firstn 8 (arrived st)) with
      | Ok h =>
        Some {| sent := sent st; delivered := delivered st; ingress := ingress st;
                inflight := inflight st; arrived := skipn 8 (arrived st);
                dmx := DHeader (h_protocol h) (Z.to_nat (h_len h)); egress := egress st |}
      | _ => None
      end
    | DHeader p n =>
      if (length (arrived st) <? n)%nat then None else
      Some {| sent := sent st; delivered := delivered st; ingress := ingress st;
              inflight := inflight st; arrived := skipn n (arrived st);
              dmx := DHolding p (firstn n (arrived st)); egress := egress st |}
    | DHolding p x =>
      let idle := {| sent := sent st; delivered := delivered st; ingress := ingress st;
                     inflight := inflight st; arrived := arrived st; dmx := DIdle; egress := egress st |} in
      if subscribed cfg p then
        if (length (egress st p) <? cap_out cfg)%nat then
          Some {| sent := sent st; delivered := delivered st; ingress := ingress st;
                  inflight := inflight st; arrived := arrived st; dmx := DIdle;
                  egress := upd (egress st) p (egress st p ++ [x]) |}
        else if lossy cfg then Some idle      (* try_send: Err(Full) ignored, chunk gone *)
        else None                             (* send().await: blocked until a slot is free *)
      else Some idle                          (* "message for unregistered protocol" *)
    end
  | CDequeue id =>
    match egress st id with
    | [] => None
    | x :: r =>
      Some {| sent := sent st; delivered := upd (delivered st) id (delivered st id ++ [x]);
              ingress := ingress st; inflight := inflight st; arrived := arrived st;
              dmx := dmx st; egress := upd (egress st) id r |}
    end
  end.

Fixpoint exec (cfg : config) (st : state) (sched : list choice) : option state :=
  match sched with
  | [] => Some st
  | c :: r => match exec_step cfg st c with Some st' => exec cfg st' r | None => None end
  end.

(* the property's domain: chunks of at most 65535 bytes, u16 ids, u32 clock *)
Definition choice_wf (c : choice) : Prop :=
  match c with
  | CEnqueue id x => u16 id /\ len x <= 65535
  | CMux ts => u32 ts
  | _ => True
  end.

(* ---- what is in flight, read off the state alone ---- *)
(* segments on the bearer: the one the demuxer is reading / holding, then the unread bytes *)
Definition bearer_segments (st : state) : list (Z * list Z) :=
  let bytes := arrived st ++ inflight st in
  match dmx st with
  | DIdle => fst (parse bytes)
  | DHeader p n => (p, firstn n bytes) :: fst (parse (skipn n bytes))
  | DHolding p x => (p, x) :: fst (parse bytes)
  end.

(* chunks of wire id [id] between enqueue and dequeue, oldest first *)
Definition in_flight (id : Z) (st : state) : list (list Z) :=
  egress st id ++ delivered_to id (bearer_segments st) ++ delivered_to id (ingress st).

(* safety: per channel nothing is lost, duplicated, reordered or cross-delivered *)
Definition safe (cfg : config) (st : state) : Prop :=
  forall id, if subscribed cfg id
             then delivered st id ++ in_flight id st = sent st id
             else delivered st id = [] /\ egress st id = [].

(* something is still on its way *)
Definition pending (st : state) : Prop :=
  ingress st <> [] \/ inflight st <> [] \/ arrived st <> [] \/ dmx st <> DIdle \/ exists id, egress st id <> [].

(* ---- the code's configuration ---- *)
Definition plexer_cfg (subs : list Z) : config :=
  {| cap_in := 100; cap_out := 100; subscribed := fun id => existsb (fun s => s =? id) subs; lossy := false |}.
Definition plexer_cfg_try_send (subs : list Z) : config :=
  {| cap_in := 100; cap_out := 100; subscribed := fun id => existsb (fun s => s =? id) subs; lossy := true |}.

(* a slow consumer on id 2: 101 empty chunks are sent and reach the demuxer before the first dequeue *)
Definition slow_consumer_schedule : list choice :=
  concat (repeat [CEnqueue 2 []; CMux 0; CArrive 8; CDemux; CDemux; CDemux] 101) ++ repeat (CDequeue 2) 100.
