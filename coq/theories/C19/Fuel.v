(* C19: the fuel of the two field loops is never the reason for an error, for
   any skip that consumes input (as minicbor's does: it reads at least one byte
   or fails). *)
From PV Require Import Lib.Base Cbor.Item Cbor.Enc Cbor.Dec Cbor.HeadLaws Cbor.Laws Cbor.Api.
From PV Require Import C19.Model.
Open Scope Z_scope.

Section Fuel.
Variable skip : list Z -> dres (list Z).
Hypothesis skip_consumes : forall bs r, skip bs = DOk r -> (length r < length bs)%nat.

Lemma head_consumes m w n r : arg_fits w n -> (length r < length (enc_head m w n ++ r))%nat.
Proof.
  intros H. destruct (enc_head_first m w n H) as (b & t & -> & _). cbn. rewrite app_length. lia.
Qed.

Lemma action_consumes i f bs f' r : field_action skip i f bs = DOk (f', r) -> (length r < length bs)%nat.
Proof.
  unfold field_action. destruct (i =? 0).
  - unfold dec_payload. intros H. apply dbind_ok in H as ([v r1] & H1 & H).
    apply dbind_ok in H1 as ([t r0] & Ht & Hb).
    apply d_tag_sound in Ht as (w & -> & Hf). apply d_bytes_sound in Hb as (w2 & -> & Hf2 & _).
    inversion H; subst. pose proof (head_consumes MajTag w t (enc_head MajBytes w2 (len v) ++ v ++ r) Hf).
    pose proof (head_consumes MajBytes w2 (len v) (v ++ r) Hf2). rewrite !app_length in *. lia.
  - destruct (i =? 1).
    + intros H. apply dbind_ok in H as ([v r1] & H1 & H). inversion H; subst.
      apply d_uint_sound in H1 as (w & -> & Hf & _). apply head_consumes, Hf.
    + intros H. apply dbind_ok in H as (r1 & H1 & H). inversion H; subst. apply skip_consumes, H1.
Qed.

Lemma fields_def_fuel f1 : forall f2 i n fl bs, (length bs < f1)%nat -> (length bs < f2)%nat ->
  fields_def skip f1 i n fl bs = fields_def skip f2 i n fl bs.
Proof.
  induction f1 as [|f1 IH]; intros f2 i n fl bs H1 H2; [lia|].
  destruct f2 as [|f2]; [lia|]. cbn [fields_def]. destruct (n <=? i); [reflexivity|].
  destruct (field_action skip i fl bs) as [[f' r]| |] eqn:E; cbn [dbind]; try reflexivity.
  apply action_consumes in E. apply IH; lia.
Qed.

Lemma fields_indef_fuel f1 : forall f2 i fl bs, (length bs < f1)%nat -> (length bs < f2)%nat ->
  fields_indef skip f1 i fl bs = fields_indef skip f2 i fl bs.
Proof.
  induction f1 as [|f1 IH]; intros f2 i fl bs H1 H2; [lia|].
  destruct f2 as [|f2]; [lia|]. cbn [fields_indef].
  destruct (d_datatype bs) as [t| |]; cbn [dbind]; try reflexivity.
  destruct (ctype_eqb t TBreak); [reflexivity|].
  destruct (field_action skip i fl bs) as [[f' r]| |] eqn:E; cbn [dbind]; try reflexivity.
  apply action_consumes in E. apply IH; lia.
Qed.

End Fuel.

Lemma skip_item_consumes bs r : skip_item bs = DOk r -> (length r < length bs)%nat.
Proof.
  unfold skip_item. intros H.
  assert (G : dbind (decode bs) (fun '(_, r0) => DOk r0) = DOk r -> (length r < length bs)%nat).
  { intros H'. apply dbind_ok in H' as ([i r'] & Hd & H'). inversion H'; subst.
    apply decode_sound in Hd as [-> Hw]. pose proof (encode_item_nonempty i Hw).
    destruct (encode_item i); [congruence|]. cbn. rewrite app_length. lia. }
  destruct bs as [|b t]; [apply G, H|].
  destruct (Z.eq_dec b 255) as [->|Hb].
  - inversion H; subst. cbn. lia.
  - apply G. destruct b as [|p|p]; try exact H.
    do 8 (destruct p as [p|p|]; try exact H). congruence.
Qed.
