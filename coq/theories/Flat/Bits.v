(* Bit-list abstraction of byte buffers, and the primitive bit facts of the flat
   encoder / decoder, each proved by a complete finite sweep (vm_compute over the
   whole finite domain, lifted with forallb_forall). *)
From PV Require Import Lib.Base Flat.Model Flat.Encoder.
Open Scope Z_scope.

(* most significant bit first, as the codec writes them *)
Definition byte_bits (b : Z) : list bool :=
  [Z.testbit b 7; Z.testbit b 6; Z.testbit b 5; Z.testbit b 4;
   Z.testbit b 3; Z.testbit b 2; Z.testbit b 1; Z.testbit b 0].
Definition bytes_bits (l : list Z) : list bool := flat_map byte_bits l.
Definition bits_byte (l : list bool) : Z :=
  fold_left (fun acc (b : bool) => 2 * acc + (if b then 1 else 0)) l 0.

Lemma byte_bits_length b : length (byte_bits b) = 8%nat.
Proof. reflexivity. Qed.

Lemma bytes_bits_length l : length (bytes_bits l) = (8 * length l)%nat.
Proof. unfold bytes_bits. induction l as [|a l IH]; [reflexivity|]. cbn [flat_map]. rewrite app_length, IH, byte_bits_length. cbn [length]. lia. Qed.

Lemma bytes_bits_app a b : bytes_bits (a ++ b) = bytes_bits a ++ bytes_bits b.
Proof. apply flat_map_app. Qed.

Lemma bytes_bits_cons a l : bytes_bits (a :: l) = byte_bits a ++ bytes_bits l.
Proof. reflexivity. Qed.

Lemma skipn_add {A} a b (l : list A) : skipn (a + b) l = skipn b (skipn a l).
Proof.
  revert l. induction a as [|a IH]; intros l; [reflexivity|].
  destruct l as [|x l]; [rewrite !skipn_nil; reflexivity|]. cbn [Nat.add skipn]. apply IH.
Qed.

Lemma skipn_bytes_bits p l : skipn (8 * p) (bytes_bits l) = bytes_bits (skipn p l).
Proof.
  revert l. induction p as [|p IH]; intros l; [reflexivity|].
  destruct l as [|a l]; [rewrite !skipn_nil; reflexivity|].
  replace (8 * S p)%nat with (8 + 8 * p)%nat by lia.
  rewrite bytes_bits_cons, skipn_add. cbn [skipn]. rewrite <- IH.
  unfold byte_bits. cbn [app skipn]. reflexivity.
Qed.

Lemma firstn_skipn_app {A} n u (X Y : list A) :
  (u + n <= length X)%nat -> firstn n (skipn u (X ++ Y)) = firstn n (skipn u X).
Proof.
  intros H. rewrite skipn_app. rewrite firstn_app.
  replace (n - length (skipn u X))%nat with 0%nat by (rewrite skipn_length; lia).
  cbn [firstn]. apply app_nil_r.
Qed.

Lemma skipn_nth_cons {A} (d : A) i l : (i < length l)%nat -> skipn i l = nth i l d :: skipn (S i) l.
Proof.
  revert l. induction i as [|i IH]; intros [|a l] H; cbn in *; try lia; [reflexivity|].
  apply IH. lia.
Qed.

Lemma list_eqb_bool_spec l1 l2 : list_eqb Bool.eqb l1 l2 = true <-> l1 = l2.
Proof.
  revert l2; induction l1 as [|x r IH]; intros [|y r2]; cbn; split; intros H; try easy.
  - apply andb_true_iff in H as [H1 H2]. apply Bool.eqb_prop in H1. apply IH in H2. congruence.
  - inversion H; subst. rewrite Bool.eqb_reflx. cbn. apply IH. reflexivity.
Qed.

(* finite sweeps *)
Lemma sweep lo n (P : Z -> bool) :
  forallb P (zrangeZ lo n) = true -> forall x, lo <= x < lo + n -> P x = true.
Proof. intros H x Hx. rewrite forallb_forall in H. apply H, zrangeZ_In, Hx. Qed.

(* byte_bits is injective on bytes *)
Lemma bits_byte_sweep : forallb (fun b => bits_byte (byte_bits b) =? b) (zrangeZ 0 256) = true.
Proof. vm_cast_no_check (eq_refl true). Qed.
Lemma bits_byte_byte_bits b : 0 <= b < 256 -> bits_byte (byte_bits b) = b.
Proof. intros H. apply Z.eqb_eq. apply (sweep 0 256 _ bits_byte_sweep). lia. Qed.
Lemma byte_bits_inj a b : 0 <= a < 256 -> 0 <= b < 256 -> byte_bits a = byte_bits b -> a = b.
Proof. intros Ha Hb H. rewrite <- (bits_byte_byte_bits a Ha), <- (bits_byte_byte_bits b Hb), H. reflexivity. Qed.

(* ---------- decoder primitives ---------- *)

(* Decoder::bit: buffer[pos] & (128 >> used_bits) > 0 is bit number used_bits *)
Definition d_bit_chk (u a : Z) : bool :=
  Bool.eqb (Z.land a (Z.shiftr 128 u) >? 0) (nth (Z.to_nat u) (byte_bits a) false).
Lemma d_bit_sweep : forallb (fun u => forallb (d_bit_chk u) (zrangeZ 0 256)) (zrangeZ 0 8) = true.
Proof. vm_cast_no_check (eq_refl true). Qed.
Lemma d_bit_spec u a : 0 <= u < 8 -> 0 <= a < 256 ->
  (Z.land a (Z.shiftr 128 u) >? 0) = nth (Z.to_nat u) (byte_bits a) false.
Proof.
  intros Hu Ha. apply Bool.eqb_prop.
  pose proof (sweep 0 8 _ d_bit_sweep u ltac:(lia)) as H. cbn beta in H.
  apply (sweep 0 256 _ H). lia.
Qed.

(* Decoder::bits8(8): (buffer[pos] << used) | (buffer[pos+1] >> (8 - used)) is the 8-bit window at offset used *)
Definition win8 (u a b : Z) : Z := Z.lor (Z.shiftl a u mod 256) (Z.shiftr b (8 - u)).
Definition d_win8_chk (u a b : Z) : bool :=
  let x := win8 u a b in
  (0 <=? x) && (x <? 256) &&
  list_eqb Bool.eqb (byte_bits x) (firstn 8 (skipn (Z.to_nat u) (byte_bits a ++ byte_bits b))).
Lemma d_win8_sweep :
  forallb (fun u => forallb (fun a => forallb (d_win8_chk u a) (zrangeZ 0 256)) (zrangeZ 0 256)) (zrangeZ 0 8) = true.
Proof. vm_cast_no_check (eq_refl true). Qed.
Lemma d_win8_spec u a b : 0 <= u < 8 -> 0 <= a < 256 -> 0 <= b < 256 ->
  0 <= win8 u a b < 256 /\
  byte_bits (win8 u a b) = firstn 8 (skipn (Z.to_nat u) (byte_bits a ++ byte_bits b)).
Proof.
  intros Hu Ha Hb.
  pose proof (sweep 0 8 _ d_win8_sweep u ltac:(lia)) as H1. cbn beta in H1.
  pose proof (sweep 0 256 _ H1 a ltac:(lia)) as H2. cbn beta in H2.
  pose proof (sweep 0 256 _ H2 b ltac:(lia)) as H3. unfold d_win8_chk in H3. cbn zeta in H3.
  apply andb_true_iff in H3 as [H3 H4]. apply list_eqb_bool_spec in H4. split; [lia | exact H4].
Qed.

(* keeping the first n bits of a byte = shifting right by 8 - n *)
Definition d_top_chk (n x : Z) : bool :=
  let y := Z.shiftr x (8 - n) in
  (0 <=? y) && (y <? 2 ^ n) &&
  list_eqb Bool.eqb (skipn (Z.to_nat (8 - n)) (byte_bits y)) (firstn (Z.to_nat n) (byte_bits x)).
Lemma d_top_sweep : forallb (fun n => forallb (d_top_chk n) (zrangeZ 0 256)) (zrangeZ 1 8) = true.
Proof. vm_cast_no_check (eq_refl true). Qed.
Lemma d_top_spec n x : 1 <= n <= 8 -> 0 <= x < 256 ->
  0 <= Z.shiftr x (8 - n) < 2 ^ n /\
  skipn (Z.to_nat (8 - n)) (byte_bits (Z.shiftr x (8 - n))) = firstn (Z.to_nat n) (byte_bits x).
Proof.
  intros Hn Hx.
  pose proof (sweep 1 8 _ d_top_sweep n ltac:(lia)) as H1. cbn beta in H1.
  pose proof (sweep 0 256 _ H1 x ltac:(lia)) as H2. unfold d_top_chk in H2. cbn zeta in H2.
  apply andb_true_iff in H2 as [H2 H3]. apply list_eqb_bool_spec in H3. split; [lia | exact H3].
Qed.

(* a value below 2^n has 8 - n leading zero bits *)
Definition d_low_chk (n y : Z) : bool :=
  if y <? 2 ^ n then list_eqb Bool.eqb (firstn (Z.to_nat (8 - n)) (byte_bits y)) (repeat false (Z.to_nat (8 - n)))
  else true.
Lemma d_low_sweep : forallb (fun n => forallb (d_low_chk n) (zrangeZ 0 256)) (zrangeZ 1 8) = true.
Proof. vm_cast_no_check (eq_refl true). Qed.
Lemma d_low_spec n y : 1 <= n <= 8 -> 0 <= y < 2 ^ n ->
  firstn (Z.to_nat (8 - n)) (byte_bits y) = repeat false (Z.to_nat (8 - n)).
Proof.
  intros Hn Hy.
  assert (y < 256). { assert (2 ^ n <= 2 ^ 8) by (apply Z.pow_le_mono_r; lia). lia. }
  pose proof (sweep 1 8 _ d_low_sweep n ltac:(lia)) as H1. cbn beta in H1.
  pose proof (sweep 0 256 _ H1 y ltac:(lia)) as H2. unfold d_low_chk in H2.
  replace (y <? 2 ^ n) with true in H2 by lia. apply list_eqb_bool_spec in H2. exact H2.
Qed.

Lemma low_bits_inj n y z : 1 <= n <= 8 -> 0 <= y < 2 ^ n -> 0 <= z < 2 ^ n ->
  skipn (Z.to_nat (8 - n)) (byte_bits y) = skipn (Z.to_nat (8 - n)) (byte_bits z) -> y = z.
Proof.
  intros Hn Hy Hz H.
  assert (2 ^ n <= 256). { change 256 with (2 ^ 8). apply Z.pow_le_mono_r; lia. }
  apply byte_bits_inj; try lia.
  rewrite <- (firstn_skipn (Z.to_nat (8 - n)) (byte_bits y)), <- (firstn_skipn (Z.to_nat (8 - n)) (byte_bits z)).
  rewrite H, (d_low_spec n y), (d_low_spec n z); auto.
Qed.

(* word: word8 & 127, word8 & 128 *)
Definition d_w7_chk (w : Z) : bool :=
  (Z.land w 127 =? w mod 128) && Bool.eqb (Z.land w 128 >? 0) (128 <=? w).
Lemma d_w7_sweep : forallb d_w7_chk (zrangeZ 0 256) = true.
Proof. vm_cast_no_check (eq_refl true). Qed.
Lemma d_w7_spec w : 0 <= w < 256 -> Z.land w 127 = w mod 128 /\ (Z.land w 128 >? 0) = (128 <=? w).
Proof.
  intros Hw. pose proof (sweep 0 256 _ d_w7_sweep w ltac:(lia)) as H. unfold d_w7_chk in H.
  apply andb_true_iff in H as [H1 H2]. apply Bool.eqb_prop in H2. split; [lia | exact H2].
Qed.

(* ---------- encoder state abstraction ---------- *)

Definition ebits (s : enc) : list bool :=
  bytes_bits (e_buf s) ++ firstn (Z.to_nat (e_used s)) (byte_bits (e_cur s)).
Definition einv (s : enc) : Prop :=
  0 <= e_used s < 8 /\ 0 <= e_cur s < 256 /\ e_cur s mod 2 ^ (8 - e_used s) = 0 /\ bytes_wf (e_buf s).
Definition einvb (u c : Z) : bool :=
  (0 <=? u) && (u <? 8) && (0 <=? c) && (c <? 256) && (c mod 2 ^ (8 - u) =? 0).

Lemma einvb_spec s : einv s <-> einvb (e_used s) (e_cur s) = true /\ bytes_wf (e_buf s).
Proof. unfold einv, einvb. split; [intros (?&?&?&?); split; [lia|auto] | intros (H&?); repeat split; auto; lia]. Qed.

(* [f] only appends to the buffer: it commutes with a buffer prefix *)
Definition pre (p : list Z) (s : enc) : enc := mkEnc (p ++ e_buf s) (e_used s) (e_cur s).
Definition omap {A B} (f : A -> B) (o : outcome A) : outcome B :=
  match o with Ok a => Ok (f a) | Err e => Err e | Panic p => Panic p end.
Definition prefix_ok (f : enc -> outcome enc) : Prop := forall p s, f (pre p s) = omap (pre p) (f s).

(* all (used, current) pairs allowed by the invariant: current = k * 2^(8-used), k < 2^used *)
Definition sweep_uc (P : Z -> Z -> bool) : bool :=
  forallb (fun u => forallb (fun k => P u (k * 2 ^ (8 - u))) (zrangeZ 0 (2 ^ u))) (zrangeZ 0 8).
Lemma sweep_uc_spec P : sweep_uc P = true -> forall u c, einvb u c = true -> P u c = true.
Proof.
  intros H u c Hi. unfold einvb in Hi. unfold sweep_uc in H.
  pose proof (sweep 0 8 _ H u ltac:(lia)) as H1. cbn beta in H1.
  assert (Hp : 0 < 2 ^ (8 - u)) by (apply Z.pow_pos_nonneg; lia).
  assert (Hc : c = (c / 2 ^ (8 - u)) * 2 ^ (8 - u)).
  { assert (c mod 2 ^ (8 - u) = 0) by lia. pose proof (Z.div_mod c (2 ^ (8 - u))). lia. }
  assert (Hk : 0 <= c / 2 ^ (8 - u) < 2 ^ u).
  { split; [apply Z.div_pos; lia|]. apply Z.div_lt_upper_bound; [lia|].
    rewrite <- Z.pow_add_r by lia. replace (8 - u + u) with 8 by lia. change (2 ^ 8) with 256. lia. }
  pose proof (sweep 0 (2 ^ u) _ H1 (c / 2 ^ (8 - u)) ltac:(lia)) as H2. cbn beta in H2.
  rewrite <- Hc in H2. exact H2.
Qed.

(* the check swept for every bit-level encoder step, from the empty buffer *)
Definition step_chk (f : enc -> outcome enc) (bits : list bool) (u c : Z) : bool :=
  match f (mkEnc [] u c) with
  | Ok s' => list_eqb Bool.eqb (ebits s') (firstn (Z.to_nat u) (byte_bits c) ++ bits)
             && einvb (e_used s') (e_cur s') && bytes_wfb (e_buf s')
  | _ => false
  end.

Lemma step_lift f bits s :
  prefix_ok f -> step_chk f bits (e_used s) (e_cur s) = true -> einv s ->
  exists s', f s = Ok s' /\ ebits s' = ebits s ++ bits /\ einv s'.
Proof.
  intros Hp Hc Hs. apply einvb_spec in Hs as [Hb Hw]. unfold step_chk in Hc.
  destruct (f (mkEnc [] (e_used s) (e_cur s))) as [s0|e|p] eqn:E; try discriminate.
  apply andb_true_iff in Hc as [Hc H3]. apply andb_true_iff in Hc as [H1 H2].
  apply list_eqb_bool_spec in H1. apply bytes_wfb_spec in H3.
  exists (pre (e_buf s) s0). split; [|split].
  - specialize (Hp (e_buf s) (mkEnc [] (e_used s) (e_cur s))). rewrite E in Hp. cbn [omap] in Hp.
    rewrite <- Hp. unfold pre. cbn [e_buf e_used e_cur]. rewrite app_nil_r. destruct s; reflexivity.
  - unfold ebits, pre in *. cbn [e_buf e_used e_cur] in *. rewrite bytes_bits_app, <- !app_assoc.
    f_equal. exact H1.
  - apply einvb_spec. unfold pre. cbn [e_buf e_used e_cur]. split; [exact H2|].
    unfold bytes_wf in *. apply Forall_app. split; assumption.
Qed.

(* bits of the filler at offset u: 0…01 up to the byte boundary *)
Definition filler_bits (u : Z) : list bool := repeat false (Z.to_nat (7 - u)) ++ [true].
(* bits(n, v): the n low bits of v *)
Definition low_bits (n v : Z) : list bool := skipn (Z.to_nat (8 - n)) (byte_bits v).

Lemma e_bool_sweep : forallb (fun b : bool => sweep_uc (step_chk (enc_bool b) [b])) [true; false] = true.
Proof. vm_cast_no_check (eq_refl true). Qed.
Lemma e_u8_sweep : forallb (fun x => sweep_uc (step_chk (enc_u8 x) (byte_bits x))) (zrangeZ 0 256) = true.
Proof. vm_cast_no_check (eq_refl true). Qed.
Lemma e_filler_sweep : sweep_uc (fun u => step_chk enc_filler (filler_bits u) u) = true.
Proof. vm_cast_no_check (eq_refl true). Qed.
(* bits(n, v) for every 1 <= n <= 8 and v < 2^n *)
Lemma e_bits_sweep : forallb (fun n => forallb (fun v => sweep_uc (step_chk (enc_bits n v) (low_bits n v))) (zrangeZ 0 (2 ^ n))) (zrangeZ 1 8) = true.
Proof. vm_cast_no_check (eq_refl true). Qed.
