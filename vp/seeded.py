#!/usr/bin/env python3
"""Run the registered checks against a seeded property-breaking change.

  vp/seeded.py <name> [--inplace] [--tier quick] [--props C01,C02]

seeded/<name>/{patch.diff, meta.json[, demo files]}.  Default: a scratch git
worktree of /repo under /tmp gets the patch and the check runs with
--repo <worktree> (safe while other work uses /repo).  --inplace: apply to
/repo itself (git -C /repo apply), run, and undo straight afterwards
(git -C /repo checkout -- .), as the brief prescribes for final confirmation.
Writes seeded/<name>/result.json.
"""
import json, os, subprocess, sys, shutil, time
V = os.path.dirname(os.path.dirname(os.path.abspath(__file__)))

def sh(cmd, **kw):
    p = subprocess.run(cmd, stdout=subprocess.PIPE, stderr=subprocess.STDOUT, text=True, **kw)
    return p.returncode, p.stdout

def main():
    name = sys.argv[1]
    inplace = "--inplace" in sys.argv
    tier = sys.argv[sys.argv.index("--tier") + 1] if "--tier" in sys.argv else "quick"
    d = os.path.join(V, "seeded", name)
    meta = json.load(open(os.path.join(d, "meta.json")))
    props = [meta["property"]] + meta.get("also_run", [])
    if "--props" in sys.argv:
        props = sys.argv[sys.argv.index("--props") + 1].split(",")
    patch = os.path.join(d, "patch.diff")
    results = {}
    if inplace:
        rc, out = sh(["git", "-C", "/repo", "status", "--porcelain", "--untracked-files=no"])
        if out.strip():
            sys.exit("/repo has uncommitted changes; refusing")
        rc, out = sh(["git", "-C", "/repo", "apply", patch])
        if rc != 0:
            sys.exit("patch does not apply: " + out)
        repo = "/repo"
    else:
        # fixed path: the cargo target dir of this path is reused across seeded runs (run them one at a time);
        # remove it at the end with vp/clean_scratch.py /tmp/seeded-wt
        slot = sys.argv[sys.argv.index("--slot") + 1] if "--slot" in sys.argv else ""
        repo = "/tmp/seeded-wt" + slot
        sh(["git", "-C", "/repo", "worktree", "remove", "--force", repo])
        for _try in range(20):
            rc, out = sh(["git", "-C", "/repo", "worktree", "add", "--detach", repo, "HEAD"])
            if rc == 0:
                break
            sh(["git", "-C", "/repo", "worktree", "prune"])
            time.sleep(3)
        if rc != 0:
            sys.exit(out)
        rc, out = sh(["git", "-C", repo, "apply", patch])
        if rc != 0:
            sh(["git", "-C", "/repo", "worktree", "remove", "--force", repo])
            sys.exit("patch does not apply: " + out)
    try:
        for p in props:
            t0 = time.time()
            rc, out = sh([os.path.join(V, "check"), p, "--tier", tier, "--repo", repo], cwd=V)
            vio = [l for l in out.split("\n") if l.startswith("VIOLATION")]
            results[p] = {"exit": rc, "violation_lines": vio, "tail": out[-1500:], "wall_s": round(time.time() - t0, 1)}
            print("%s on seeded/%s: exit %d %s" % (p, name, rc, vio[:1]))
    finally:
        if inplace:
            sh(["git", "-C", "/repo", "checkout", "--", "."])
        else:
            sh(["git", "-C", "/repo", "worktree", "remove", "--force", repo])
    out = "result.json"
    if "--rerun" in sys.argv or inplace:
        # first-run results are kept; a re-run after the check was strengthened (or the final in-place
        # confirmation on /repo) is recorded separately
        out = "result_inplace.json" if inplace else "result_rerun.json"
    json.dump({"seeded": name, "mode": "inplace" if inplace else "worktree", "tier": tier, "results": results},
              open(os.path.join(d, out), "w"), indent=1)

main()
