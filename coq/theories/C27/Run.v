(* C27 correspondence.  A case is a promotion config and a history; every step
   records the event (housekeeping with the two hash iteration orders the
   implementation was about to use), the outputs drained from the real
   InitiatorBehavior after the call, the four promotion sets (sorted), an
   optional snapshot of every tracked peer, and whether the call panicked. *)
From PV Require Export Lib.Base P2p.Proto P2p.Initiator P2p.Replay.
Open Scope Z_scope.

Definition case : Type := ((Z * Z * Z * Z) * list step_rec).
Definition case_ok (c : case) : bool := replay (mk_cfg (fst c)) init (snd c).
Definition case_out (c : case) := trace (mk_cfg (fst c)) init (snd c).
