(* Boolean equalities used by the correspondence runners of C01 and C02. *)
From PV Require Export Lib.Base Flat.Model.
Open Scope Z_scope.

Fixpoint dval_eqb (a b : dval) : bool :=
  match a, b with
  | DUnit, DUnit => true
  | DBool x, DBool y => Bool.eqb x y
  | DU8 x, DU8 y | DWord x, DWord y | DInt x, DInt y | DChar x, DChar y | DBits x, DBits y => x =? y
  | DBytes x, DBytes y | DUtf8 x, DUtf8 y | DString x, DString y => list_eqb Z.eqb x y
  | DList x, DList y =>
    (fix go (l1 l2 : list dval) : bool :=
       match l1, l2 with
       | [], [] => true
       | u :: r1, v :: r2 => dval_eqb u v && go r1 r2
       | _, _ => false
       end) x y
  | _, _ => false
  end.

Definition outcome_eqb {A} (eqb : A -> A -> bool) (a b : outcome A) : bool :=
  match a, b with
  | Ok x, Ok y => eqb x y
  | Err x, Err y => x =? y
  | Panic x, Panic y => x =? y
  | _, _ => false
  end.

