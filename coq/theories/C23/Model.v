(* C23 — model of the client/server agents of pallas-network/src/miniprotocols (definitions only).
   Acceptance is decided by the tables REGENERATED from the source (Generated/AgentTables.v:
   has_agency, assert_outbound_state, assert_inbound_state); the state updates of the public
   high-level methods are transcribed by hand below (one entry per method, from reading each
   client.rs / server.rs):

     send_message(msg)  = assert_agency_is_ours; assert_outbound_state(msg); put msg on the wire
     recv_message()     = assert_agency_is_theirs; read one message; assert_inbound_state(msg)
     MSend  m n         : send_message(m)?; state := n
     MSendIf r m n      : if state = r { send_message(m)?; state := n }; Ok(())
     MRecv g branches   : [if state <> g { return Err }] match recv_message()? { v => state := n | _ => Err }
     MSendRecv m mid br : send_message(m)?; state := mid; match recv_message()? { v => state := n | _ => Err }
   A next state "" means "the method does not assign the state". *)
From PV Require Import Lib.Base C24.Spec Generated.AgentTables.
From Coq Require Import String Ascii.
Open Scope string_scope.

Inductive method :=
| MSend (name msg next : string)
| MSendIf (name req msg next : string)
| MRecv (name : string) (guard : option string) (branches : list (string * string))
| MSendRecv (name msg mid : string) (branches : list (string * string)).

Definition method_name (m : method) : string :=
  match m with MSend n _ _ | MSendIf n _ _ _ | MRecv n _ _ | MSendRecv n _ _ _ => n end.

Record agent := {
  ag_table : agent_table;
  ag_spec : proto_spec;
  ag_role : agency;                 (* Client or Server *)
  ag_methods : list method;
  ag_low_send : bool;               (* send_message is public *)
  ag_low_recv : bool                (* recv_message is public *)
}.

(* ---------------------------------------------------------- table lookups *)
Fixpoint lookup1 (s : string) (l : list (string * bool)) : bool :=
  match l with [] => false | (s', b) :: r => if String.eqb s s' then b else lookup1 s r end.
Fixpoint lookup2 (s m : string) (l : list (string * string * bool)) : bool :=
  match l with
  | [] => false
  | (s', m', b) :: r => if String.eqb s s' && String.eqb m m' then b else lookup2 s m r
  end.

Definition has_agency (t : agent_table) (s : string) : bool := lookup1 s (at_agency t).
Definition outbound (t : agent_table) (s m : string) : bool := lookup2 s m (at_outbound t).
Definition inbound (t : agent_table) (s m : string) : bool := lookup2 s m (at_inbound t).
Definition can_send (t : agent_table) (s m : string) : bool := has_agency t s && outbound t s m.
Definition can_recv (t : agent_table) (s m : string) : bool := negb (has_agency t s) && inbound t s m.

(* a delivered message class may carry a data qualifier after '!' (e.g. "ResponseKeepAlive!cookie"
   = a response whose cookie differs from the request's); the tables see the part before it *)
Fixpoint base (m : string) : string :=
  match m with
  | EmptyString => EmptyString
  | String c r => if Ascii.eqb c "!"%char then EmptyString else String c (base r)
  end.

(* ------------------------------------------------------------------- steps *)
Inductive op := Call (name delivered : string) | LowSend (m : string) | LowRecv (m : string).

Record step_out := { so_ok : bool; so_sent : option string; so_recvd : option string; so_state : string }.
Definition rej (s : string) : step_out := {| so_ok := false; so_sent := None; so_recvd := None; so_state := s |}.
Definition or_stay (n s : string) : string := if String.eqb n "" then s else n.

Fixpoint find_method (name : string) (l : list method) : option method :=
  match l with
  | [] => None
  | m :: r => if String.eqb name (method_name m) then Some m else find_method name r
  end.

Definition do_send (t : agent_table) (s m next : string) : step_out :=
  if can_send t s m
  then {| so_ok := true; so_sent := Some m; so_recvd := None; so_state := or_stay next s |}
  else rej s.

Definition do_recv (t : agent_table) (s d : string) (br : list (string * string)) : option string :=
  if can_recv t s (base d) then
    match assoc d br with Some n => Some (or_stay n s) | None => None end
  else None.

Definition step (a : agent) (s : string) (o : op) : step_out :=
  let t := ag_table a in
  match o with
  | LowSend m =>
      if ag_low_send a && can_send t s m
      then {| so_ok := true; so_sent := Some m; so_recvd := None; so_state := s |} else rej s
  | LowRecv d =>
      if ag_low_recv a && can_recv t s (base d)
      then {| so_ok := true; so_sent := None; so_recvd := Some d; so_state := s |} else rej s
  | Call name d =>
      match find_method name (ag_methods a) with
      | None => rej s
      | Some (MSend _ m next) => do_send t s m next
      | Some (MSendIf _ req m next) =>
          if String.eqb s req then do_send t s m next
          else {| so_ok := true; so_sent := None; so_recvd := None; so_state := s |}
      | Some (MRecv _ g br) =>
          if match g with Some g' => String.eqb s g' | None => true end then
            match do_recv t s d br with
            | Some n => {| so_ok := true; so_sent := None; so_recvd := Some d; so_state := n |}
            | None => rej s
            end
          else rej s
      | Some (MSendRecv _ m mid br) =>
          if can_send t s m then
            match do_recv t mid d br with
            | Some n => {| so_ok := true; so_sent := Some m; so_recvd := Some d; so_state := n |}
            | None => {| so_ok := false; so_sent := Some m; so_recvd := None; so_state := mid |}
            end
          else rej s
      end
  end.

(* run: one observation per executed operation; stops after an operation that was rejected
   without putting anything on the wire *)
Definition obs : Type := (bool * string * string).     (* ok, message put on the wire ("" none), state after *)
Definition obs_of (r : step_out) : obs :=
  (so_ok r, match so_sent r with Some m => m | None => "" end, so_state r).

Fixpoint run_obs (a : agent) (s : string) (ops : list op) : list obs :=
  match ops with
  | [] => []
  | o :: r => let x := step a s o in
              obs_of x :: (if so_ok x || (match so_sent x with Some _ => true | None => false end)
                           then run_obs a (so_state x) r else [])
  end.

(* all operations accepted: the final state *)
Fixpoint model_run (a : agent) (s : string) (ops : list op) : option string :=
  match ops with
  | [] => Some s
  | o :: r => let x := step a s o in if so_ok x then model_run a (so_state x) r else None
  end.

(* wire events of a run (true = the agent sent it), including those of a last, rejected operation *)
Definition events_of (r : step_out) : list (bool * string) :=
  match so_sent r with Some m => [(true, m)] | None => [] end ++
  match so_recvd r with Some m => [(false, m)] | None => [] end.
Fixpoint events (a : agent) (s : string) (ops : list op) : list (bool * string) :=
  match ops with
  | [] => []
  | o :: r => let x := step a s o in
              events_of x ++ (if so_ok x then events a (so_state x) r else [])
  end.

(* --------------------------------------- the agents (methods from the source) *)
Definition mk t sp role ms ls lr : agent :=
  {| ag_table := t; ag_spec := sp; ag_role := role; ag_methods := ms; ag_low_send := ls; ag_low_recv := lr |}.

Definition blockfetch_client := mk blockfetch_client_table blockfetch_spec Client
  [ MSend "send_request_range" "RequestRange" "Busy";
    MRecv "recv_while_busy" None [("StartBatch", "Streaming"); ("NoBlocks", "Idle")];
    MRecv "recv_while_streaming" None [("Block", ""); ("BatchDone", "Idle")];
    MSend "send_done" "ClientDone" "Done" ] true true.
Definition blockfetch_server := mk blockfetch_server_table blockfetch_spec Server
  [ MSend "send_start_batch" "StartBatch" "Streaming";
    MSend "send_no_blocks" "NoBlocks" "Idle";
    MSend "send_block" "Block" "";
    MSend "send_batch_done" "BatchDone" "Idle";
    MRecv "recv_while_idle" None [("RequestRange", "Busy"); ("ClientDone", "Done")] ] true true.

Definition chainsync_client := mk chainsync_client_table chainsync_spec Client
  [ MSend "send_find_intersect" "FindIntersect" "Intersect";
    MRecv "recv_intersect_response" None [("IntersectFound", "Idle"); ("IntersectNotFound", "Idle")];
    MSend "send_request_next" "RequestNext" "CanAwait";
    MRecv "recv_while_can_await" None [("AwaitReply", "MustReply"); ("RollForward", "Idle"); ("RollBackward", "Idle")];
    MRecv "recv_while_must_reply" None [("RollForward", "Idle"); ("RollBackward", "Idle")];
    MSend "send_done" "Done" "Done" ] true true.
Definition chainsync_server := mk chainsync_server_table chainsync_spec Server
  [ MRecv "recv_while_idle" None [("FindIntersect", "Intersect"); ("RequestNext", "CanAwait"); ("Done", "Done")];
    MSend "send_intersect_not_found" "IntersectNotFound" "Idle";
    MSend "send_intersect_found" "IntersectFound" "Idle";
    MSend "send_roll_forward" "RollForward" "Idle";
    MSend "send_roll_backward" "RollBackward" "Idle";
    MSend "send_await_reply" "AwaitReply" "MustReply" ] true false.

Definition handshake_client := mk handshake_client_table handshake_spec Client
  [ MSend "send_propose" "Propose" "Confirm";
    MRecv "recv_while_confirm" None [("Accept", "Done"); ("Refuse", "Done"); ("QueryReply", "Done")] ] true true.
Definition handshake_server := mk handshake_server_table handshake_spec Server
  [ MRecv "receive_proposed_versions" None [("Propose", "Confirm")];
    MSend "accept_version" "Accept" "Done";
    MSend "refuse" "Refuse" "Done" ] true true.

Definition keepalive_client := mk keepalive_client_table keepalive_spec Client
  [ MSend "send_keepalive_request" "KeepAlive" "Server";
    MRecv "recv_keepalive_response" None [("ResponseKeepAlive", "Client")] ] true true.
Definition keepalive_server := mk keepalive_server_table keepalive_spec Server
  [ MRecv "recv_keepalive_request" None [("KeepAlive", "Server"); ("Done", "Done")];
    MSendIf "send_keepalive_response" "Server" "ResponseKeepAlive" "Client" ] true true.

Definition peersharing_client := mk peersharing_client_table peersharing_spec Client
  [ MSend "send_share_request" "ShareRequest" "Busy";
    MRecv "recv_peer_addresses" None [("SharePeers", "Idle")];
    MSend "send_done" "Done" "Done" ] true true.
Definition peersharing_server := mk peersharing_server_table peersharing_spec Server
  [ MRecv "recv_share_request" None [("ShareRequest", "Busy"); ("Done", "Done")];
    MSend "send_peer_addresses" "SharePeers" "Idle" ] true true.

Definition txsubmission_client := mk txsubmission_client_table txsubmission_spec Client
  [ MSend "send_init" "Init" "Idle";
    MSend "reply_tx_ids" "ReplyTxIds" "Idle";
    MSend "reply_txs" "ReplyTxs" "Idle";
    MRecv "next_request" None [("RequestTxIds(true)", "TxIdsBlocking"); ("RequestTxIds(false)", "TxIdsNonBlocking");
                               ("RequestTxs", "Txs")];
    MSend "send_done" "Done" "Done" ] true true.
Definition txsubmission_server := mk txsubmission_server_table txsubmission_spec Server
  [ MRecv "wait_for_init" (Some "Init") [("Init", "Idle")];
    MSend "request_tx_ids_blocking" "RequestTxIds(true)" "TxIdsBlocking";
    MSend "request_tx_ids_non_blocking" "RequestTxIds(false)" "TxIdsNonBlocking";
    MSend "request_txs" "RequestTxs" "Txs";
    MRecv "receive_next_reply" None [("ReplyTxIds", "Idle"); ("ReplyTxs", "Idle"); ("Done", "Done")] ] true true.

Definition localstate_client := mk localstate_client_table localstate_spec Client
  [ MSend "send_acquire" "Acquire" "Acquiring";
    MSend "send_reacquire" "ReAcquire" "Acquiring";
    MSend "send_release" "Release" "Idle";
    MSend "send_done" "Done" "Done";
    MRecv "recv_while_acquiring" None [("Acquired", "Acquired"); ("Failure", "Idle")];
    MSend "send_query" "Query" "Querying";
    MRecv "recv_while_querying" None [("Result", "Acquired")] ] true true.
Definition localstate_server := mk localstate_server_table localstate_spec Server
  [ MSend "send_failure" "Failure" "Idle";
    MSend "send_acquired" "Acquired" "Acquired";
    MSend "send_result" "Result" "Acquired";
    MRecv "recv_while_idle" None [("Acquire", "Acquiring"); ("Done", "Done")];
    MRecv "recv_while_acquired" None [("ReAcquire", "Acquiring"); ("Query", "Querying"); ("Release", "Idle")] ] true true.

Definition localtxsubmission_client := mk localtxsubmission_client_table localtxsubmission_spec Client
  [ MSend "send_submit_tx" "SubmitTx" "Busy";
    MRecv "recv_submit_tx_response" None [("AcceptTx", "Idle"); ("RejectTx", "Idle")];
    MSend "terminate_gracefully" "Done" "Done" ] false false.
Definition localtxsubmission_server := mk localtxsubmission_server_table localtxsubmission_spec Server
  [ MSend "send_submit_tx_response_accepted" "AcceptTx" "Idle";
    MSend "send_submit_tx_response_rejected" "RejectTx" "Idle";
    MRecv "recv_next_request" None [("SubmitTx", "Busy"); ("Done", "Done")] ] false false.

Definition txmonitor_client := mk txmonitor_client_table txmonitor_spec Client
  [ MSendRecv "acquire" "Acquire" "Acquiring" [("Acquired", "Acquired")];
    MSendRecv "query_has_tx" "RequestHasTx" "Busy" [("ResponseHasTx(true)", "Acquired"); ("ResponseHasTx(false)", "Acquired")];
    MSendRecv "query_next_tx" "RequestNextTx" "Busy" [("ResponseNextTx", "Acquired")];
    MSendRecv "query_size_and_capacity" "RequestSizeAndCapacity" "Busy" [("ResponseSizeAndCapacity", "Acquired")];
    MSend "release" "Release" "Idle" ] true true.

Definition agents : list agent :=
  [ blockfetch_client; blockfetch_server; chainsync_client; chainsync_server;
    handshake_client; handshake_server; keepalive_client; keepalive_server;
    peersharing_client; peersharing_server; txsubmission_client; txsubmission_server;
    localstate_client; localstate_server; localtxsubmission_client; localtxsubmission_server;
    txmonitor_client ].

Definition role_name (r : agency) : string :=
  match r with Client => "client" | Server => "server" | Nobody => "nobody" end.

Fixpoint find_agent (proto role : string) (l : list agent) : option agent :=
  match l with
  | [] => None
  | a :: r => if String.eqb proto (at_proto (ag_table a)) && String.eqb role (at_role (ag_table a))
              then Some a else find_agent proto role r
  end.
