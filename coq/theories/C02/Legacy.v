(* C02, history: the three Decoder methods as they were BEFORE the `fix:` commits
   6b099aa3 (bool), fd1479a6 (word), 4b39bb23 (bits8) in /repo, and the inputs on
   which they panicked (these are the replay inputs kept in corpus/C02 and the
   deterministic boundary cases of harness/src/bin/c02.rs). Not part of the
   model of the current code. [debug] = overflow checks on. *)
From PV Require Import Lib.Base Flat.Model.
Open Scope Z_scope.

(* let current_byte = self.buffer[self.pos]; let b = 0 != (current_byte & (128 >> self.used_bits)); ... *)
Definition dec_bool_legacy : M bool :=
  s <- get ;;
  a <- lift (idx (d_buf s) (d_pos s)) ;;
  m <- lift (shr8 128 (d_used s)) ;;
  incr_bit ;;;
  ret (negb (0 =? Z.land a m)).

(* u8 >> s without overflow checks: the amount is masked to 3 bits *)
Definition shr8_any (debug : bool) (x s : Z) : outcome Z :=
  if debug then shr8 x s else Ok (Z.shiftr x (s mod 8)).
Definition shl64_any (debug : bool) (x s : Z) : outcome Z :=
  if debug then shl64 x s else Ok (Z.shiftl x (s mod 64) mod 2 ^ 64).

Definition dec_bits8_legacy (debug : bool) (n : Z) : M Z :=
  if n >? 8 then fail E_NUMBITS else
  ensure_bits n ;;;
  s <- get ;;
  unused <- lift (sub_usize 8 (d_used s)) ;;
  lz <- lift (sub_usize 8 n) ;;
  a <- lift (idx (d_buf s) (d_pos s)) ;;
  t <- lift (shl8 a (d_used s)) ;;
  r <- lift (shr8_any debug t lz) ;;
  x <- (if n >? unused then
          b <- lift (idx (d_buf s) (d_pos s + 1)) ;;
          q <- lift (shr8 b (unused + lz)) ;;
          ret (Z.lor r q)
        else ret r) ;;
  drop_bits n ;;;
  ret x.

(* final_word |= (word7 as usize) << shl; *)
Fixpoint word_loop_legacy (debug : bool) (fuel : nat) (final shl : Z) : M Z :=
  match fuel with
  | O => fail E_FUEL
  | S f =>
      w8 <- dec_bits8 8 ;;
      let w7 := Z.land w8 127 in
      t <- lift (shl64_any debug w7 shl) ;;
      let final' := Z.lor final t in
      if Z.land w8 128 >? 0 then word_loop_legacy debug f final' (shl + 7) else ret final'
  end.
Definition dec_word_legacy (debug : bool) : M Z := s <- get ;; word_loop_legacy debug (dec_fuel s) 0 0.

Lemma legacy_decoder_panics :
  fst (dec_bool_legacy (mk_dec [])) = Panic P_INDEX /\
  fst (dec_word_legacy true (mk_dec (repeat 255 10 ++ [1]))) = Panic P_SHIFT /\
  (* without overflow checks the 11th group is silently shifted by 70 mod 64 *)
  fst (dec_word_legacy false (mk_dec (repeat 255 10 ++ [1]))) = Ok (2 ^ 64 - 1) /\
  fst (dec_bits8_legacy true 0 (mk_dec [255])) = Panic P_SHIFT /\
  fst (dec_bits8_legacy false 0 (mk_dec [])) = Panic P_INDEX.
Proof. vm_compute. repeat split. Qed.

(* the repaired methods on the same inputs *)
Lemma repaired_on_legacy_inputs :
  fst (dec_bool (mk_dec [])) = Err E_END /\
  fst (dec_word (mk_dec (repeat 255 10 ++ [1]))) = Err E_MSG /\
  fst (dec_bits8 0 (mk_dec [255])) = Ok 0 /\
  fst (dec_bits8 0 (mk_dec [])) = Ok 0.
Proof. vm_compute. repeat split. Qed.
