(* CBOR core — decoder. Structural recursion on fuel (nesting depth) and, for
   the element loops, on a counter bounded by the input length; no axioms.
   The decoder checks that every byte it consumes is in [0,256), so the laws
   in [Laws.v] need no side condition on the input. *)
From PV Require Import Lib.Base Cbor.Item Cbor.Enc.
Open Scope Z_scope.

Inductive dres (A : Type) : Type :=
| DOk (a : A)
| DEoi          (* the input ended inside the item (minicbor: end_of_input) *)
| DErr.         (* malformed (minicbor: type mismatch / overflow / utf8 / message) *)
Arguments DOk {A} a.
Arguments DEoi {A}.
Arguments DErr {A}.

Definition dbind {A B} (x : dres A) (f : A -> dres B) : dres B :=
  match x with DOk a => f a | DEoi => DEoi | DErr => DErr end.
Definition dmap {A B} (f : A -> B) (x : dres A) : dres B :=
  match x with DOk a => DOk (f a) | DEoi => DEoi | DErr => DErr end.

(* take exactly n bytes *)
Definition take (n : Z) (bs : list Z) : dres (list Z * list Z) :=
  if len bs <? n then DEoi
  else let k := Z.to_nat n in
       let h := firstn k bs in
       if bytes_wfb h then DOk (h, skipn k bs) else DErr.

Inductive harg : Type :=
| HArg (w : width) (n : Z)   (* additional information 0..27 *)
| HIndef.                    (* additional information 31 *)

Definition width_of_info (info : Z) : option width :=
  if info <? 24 then Some W0 else if info =? 24 then Some W8 else if info =? 25 then Some W16
  else if info =? 26 then Some W32 else if info =? 27 then Some W64 else None.

(* one head: initial byte and argument bytes *)
Definition dec_head (bs : list Z) : dres (major * harg * list Z) :=
  match bs with
  | [] => DEoi
  | b :: r =>
    if negb (byteb b) then DErr else
    let m := major_of_code (b / 32) in
    let info := b mod 32 in
    if info <? 24 then DOk (m, HArg W0 info, r)
    else if info =? 31 then DOk (m, HIndef, r)
    else match width_of_info info with
         | None => DErr     (* 28, 29, 30: reserved *)
         | Some w =>
           dbind (take (Z.of_nat (width_nbytes w)) r) (fun '(a, r') => DOk (m, HArg w (be_val a), r'))
         end
  end.

(* ---- generic element loops (reusable with any payload decoder) ---- *)
Section Loops.
  Context {A : Type} (dec : list Z -> dres (A * list Z)).

  (* n elements; k is a step budget (S (length bs) always suffices, because
     every element consumes at least one byte) *)
  Fixpoint seq_loop (k : nat) (n : Z) (bs : list Z) : dres (list A * list Z) :=
    if n <=? 0 then DOk ([], bs) else
    match k with
    | O => DErr
    | S k' =>
      dbind (dec bs) (fun '(x, r) =>
      dbind (seq_loop k' (n - 1) r) (fun '(xs, r') => DOk (x :: xs, r')))
    end.

  (* elements until the break byte *)
  Fixpoint until_loop (k : nat) (bs : list Z) : dres (list A * list Z) :=
    match k with
    | O => DErr
    | S k' =>
      match bs with
      | [] => DEoi
      | b :: r =>
        if b =? break_byte then DOk ([], r) else
        dbind (dec bs) (fun '(x, r1) =>
        dbind (until_loop k' r1) (fun '(xs, r') => DOk (x :: xs, r')))
      end
    end.
End Loops.

Definition pair_dec {A B} (dk : list Z -> dres (A * list Z)) (dv : list Z -> dres (B * list Z))
  (bs : list Z) : dres ((A * B) * list Z) :=
  dbind (dk bs) (fun '(k, r) => dbind (dv r) (fun '(v, r') => DOk ((k, v), r'))).

(* the error produced by minicbor's [Error::type_mismatch(self.type_of(b)?)] after the byte [b] was
   consumed ([r] = the input after [b]): end_of_input when [type_of] must peek past the end (0x38..0x3b) *)
Definition mismatch {A} (b : Z) (r : list Z) : dres A :=
  if (56 <=? b) && (b <=? 59) then match r with _ :: _ :: _ => DErr | _ => DEoi end else DErr.

(* one chunk of an indefinite byte/text string: a definite string of the same major type
   (Decoder::bytes / Decoder::str: the major type is tested on the initial byte, before the
   length argument is read) *)
Definition dec_chunk (m : major) (bs : list Z) : dres ((width * list Z) * list Z) :=
  match bs with
  | [] => DEoi
  | b :: r0 =>
    if negb (byteb b) then DErr
    else if major_eqb (major_of_code (b / 32)) m && negb (b mod 32 =? 31) then
      dbind (dec_head bs) (fun '(_, h, r) =>
        match h with
        | HArg w n =>
          dbind (take n r) (fun '(s, r') =>
            if major_eqb m MajText && negb (utf8_valid s) then DErr else DOk ((w, s), r'))
        | HIndef => DErr
        end)
    else mismatch b r0
  end.

Definition budget (bs : list Z) : nat := S (length bs).

Fixpoint decode_item (fuel : nat) (bs : list Z) {struct fuel} : dres (item * list Z) :=
  match fuel with
  | O => DErr
  | S f =>
    dbind (dec_head bs) (fun '(m, h, r) =>
      match h with
      | HArg w n =>
        match m with
        | MajUInt => DOk (UInt w n, r)
        | MajNInt => DOk (NInt w n, r)
        | MajBytes => dbind (take n r) (fun '(b, r') => DOk (Bytes w b, r'))
        | MajText =>
          dbind (take n r) (fun '(b, r') => if utf8_valid b then DOk (Text w b, r') else DErr)
        | MajArray =>
          dbind (seq_loop (decode_item f) (budget r) n r) (fun '(xs, r') => DOk (Array w xs, r'))
        | MajMap =>
          dbind (seq_loop (pair_dec (decode_item f) (decode_item f)) (budget r) n r)
                (fun '(kvs, r') => DOk (Map w kvs, r'))
        | MajTag => dbind (decode_item f r) (fun '(x, r') => DOk (Tag w n x, r'))
        | MajSimple => DOk (Simple w n, r)
        end
      | HIndef =>
        match m with
        | MajBytes =>
          dbind (until_loop (dec_chunk MajBytes) (budget r) r) (fun '(cs, r') => DOk (BytesIndef cs, r'))
        | MajText =>
          dbind (until_loop (dec_chunk MajText) (budget r) r) (fun '(cs, r') => DOk (TextIndef cs, r'))
        | MajArray =>
          dbind (until_loop (decode_item f) (budget r) r) (fun '(xs, r') => DOk (ArrayIndef xs, r'))
        | MajMap =>
          dbind (until_loop (pair_dec (decode_item f) (decode_item f)) (budget r) r)
                (fun '(kvs, r') => DOk (MapIndef kvs, r'))
        | _ => DErr   (* 1f, 3f, df: reserved; ff: a break where an item is expected *)
        end
      end)
  end.

(* fuel-free entry point: the nesting depth of an item is at most the number of its bytes *)
Definition decode (bs : list Z) : dres (item * list Z) := decode_item (budget bs) bs.

(* the whole input is exactly one item *)
Definition decode_all (bs : list Z) : dres item :=
  dbind (decode bs) (fun '(i, r) => match r with [] => DOk i | _ => DErr end).
