//! C26: chainsync RollbackBuffer vs a chain-suffix list.
//! case := (ops, [(out, size, latest, oldest) after every op], final peek() contents)
//! Oracle (independent of the Coq model): a plain Vec<Point> reference kept in
//! step; after every operation the real buffer must hold exactly the reference
//! points, roll_back must keep the prefix up to the first occurrence / empty on
//! a miss, pop must return the oldest len-depth points in order.
use pallas_network::miniprotocols::chainsync::{RollbackBuffer, RollbackEffect};
use pallas_network::miniprotocols::Point;
use verif_harness::*;

#[derive(Clone, Debug)]
enum Op { Fwd(Point), Back(Point), Pop(usize), Pos(Point) }

fn coq_point(p: &Point) -> String {
    match p { Point::Origin => "PO".into(), Point::Specific(s, h) => format!("(PS {} {})", s, coq_bytes(h)) }
}
fn coq_op(o: &Op) -> String {
    match o {
        Op::Fwd(p) => format!("(Fwd {})", coq_point(p)),
        Op::Back(p) => format!("(Back {})", coq_point(p)),
        Op::Pop(d) => format!("(Pop {})", d),
        Op::Pos(p) => format!("(Pos {})", coq_point(p)),
    }
}
fn show_ops(ops: &[Op]) -> String { coq_list(ops, coq_op) }

/// first index by an explicit loop (the oracle's own notion of "the point is buffered")
fn first_index(v: &[Point], p: &Point) -> Option<usize> {
    let mut i = 0;
    while i < v.len() {
        let same = match (&v[i], p) {
            (Point::Origin, Point::Origin) => true,
            (Point::Specific(a, x), Point::Specific(b, y)) => a == b && x.as_slice() == y.as_slice(),
            _ => false,
        };
        if same { return Some(i); }
        i += 1;
    }
    None
}

fn run_seq(ops: &[Op], tag: &str, oracle_only: bool) {
    let mut buf = RollbackBuffer::new();
    let mut reference: Vec<Point> = vec![];
    let mut obs: Vec<String> = vec![];
    let mut done = 0usize;
    for (k, o) in ops.iter().enumerate() {
        let fail = |key: &str, what: String| {
            emit_oracle_fail(key, &format!("ops={} failing-op-index={} {}", show_ops(&ops[..=k]), k, what));
        };
        let before = reference.clone();
        let out: String;
        let r = guard_total(|| match o {
            Op::Fwd(p) => { buf.roll_forward(p.clone()); (0u8, vec![], None) }
            Op::Back(p) => match buf.roll_back(p) {
                RollbackEffect::Handled => (1, vec![], None),
                RollbackEffect::OutOfScope => (2, vec![], None),
            },
            Op::Pop(d) => (3, buf.pop_with_depth(*d), None),
            Op::Pos(p) => (4, vec![], buf.position(p)),
        });
        let (kind, popped, pos) = match r {
            Out::Ok(v) => v,
            Out::Err(e) | Out::Panic(e) => { fail("panic", format!("panicked: {}", e)); break; }
        };
        match o {
            Op::Fwd(p) => {
                reference.push(p.clone());
                out = "OFwd".into();
            }
            Op::Back(p) => {
                match first_index(&before, p) {
                    Some(i) => {
                        reference.truncate(i + 1);
                        if kind != 1 { fail("roll_back-hit", format!("point {:?} is buffered at {} but roll_back reported OutOfScope", p, i)); }
                    }
                    None => {
                        reference.clear();
                        if kind != 2 { fail("roll_back-miss", format!("point {:?} is not buffered but roll_back reported Handled", p)); }
                    }
                }
                out = format!("(OBack {})", coq_bool(kind == 1));
            }
            Op::Pop(d) => {
                let ready = before.len().saturating_sub(*d);
                let expect: Vec<Point> = reference.drain(0..ready).collect();
                if popped != expect {
                    fail("pop", format!("pop_with_depth({}) on {:?} returned {:?}, expected {:?}", d, before, popped, expect));
                }
                out = format!("(OPop {})", coq_list(&popped, coq_point));
            }
            Op::Pos(p) => {
                let e = first_index(&before, p);
                if pos != e { fail("position", format!("position({:?}) on {:?} = {:?}, expected {:?}", p, before, pos, e)); }
                out = format!("(OPos {})", coq_opt(&pos, |i| i.to_string()));
            }
        }
        // contents and accessors after the operation
        let contents: Vec<Point> = buf.peek().cloned().collect();
        if contents != reference {
            let key = match o {
                Op::Fwd(_) => "roll_forward",
                Op::Back(p) => if first_index(&before, p).is_some() { "roll_back-hit" } else { "roll_back-miss" },
                Op::Pop(_) => "pop",
                Op::Pos(_) => "position",
            };
            fail(key, format!("buffer holds {:?}, chain-suffix reference holds {:?}", contents, reference));
            // resynchronise so that later operations are still judged one by one
            reference = contents.clone();
        }
        let (sz, la, ol) = (buf.size(), buf.latest().cloned(), buf.oldest().cloned());
        if sz != contents.len() || la.as_ref() != contents.last() || ol.as_ref() != contents.first() {
            fail("accessors", format!("size={} latest={:?} oldest={:?} but contents={:?}", sz, la, ol, contents));
        }
        obs.push(format!("({},{},{},{})", out, sz, coq_opt(&la, coq_point), coq_opt(&ol, coq_point)));
        done = k + 1;
    }
    if !oracle_only {
        let fin: Vec<Point> = buf.peek().cloned().collect();
        emit_case(tag, &format!("({},[{}],{})", show_ops(&ops[..done]), obs.join(";"), coq_list(&fin, coq_point)));
    }
}

fn alphabet(rng: &mut Rng, k: usize) -> Vec<Point> {
    // points that differ only in the slot, only in the hash, in hash length; Origin
    let pool = vec![
        Point::Origin,
        Point::Specific(1, vec![1]),
        Point::Specific(1, vec![2]),
        Point::Specific(2, vec![1]),
        Point::Specific(2, vec![]),
        Point::Specific(0, vec![]),
        Point::Specific(1, vec![1, 0]),
        Point::Specific(u64::MAX, vec![255; 4]),
        Point::Specific(3, vec![7, 7, 7]),
        Point::Specific(256, vec![1]),
    ];
    let mut idx: Vec<usize> = (0..pool.len()).collect();
    for i in (1..idx.len()).rev() { let j = rng.below(i as u64 + 1) as usize; idx.swap(i, j); }
    idx.truncate(k.max(1).min(pool.len()));
    idx.into_iter().map(|i| pool[i].clone()).collect()
}

fn depth(rng: &mut Rng, len: usize) -> usize {
    match rng.below(10) {
        0 => 0,
        1 => len,
        2 => len + 1,
        3 => len.saturating_sub(1),
        4 => usize::MAX - rng.below(2) as usize,
        5 => 1usize << 63,
        _ => rng.below(len as u64 + 3) as usize,
    }
}

fn seq_len(rng: &mut Rng) -> usize {
    match rng.below(8) { 0 => 200, 1 => rng.range(1, 6) as usize, 2 | 3 => rng.range(6, 40) as usize, _ => rng.range(40, 200) as usize }
}

fn main() {
    let args = args();
    let mut rng = Rng::new(args.seed);
    // fixed boundary scenarios first
    let a = Point::Specific(1, vec![1]);
    let b = Point::Specific(1, vec![2]);
    let c = Point::Specific(2, vec![1]);
    run_seq(&[], "trivial-empty", args.oracle_only);
    run_seq(&[Op::Back(a.clone()), Op::Pop(0), Op::Pop(usize::MAX), Op::Pos(a.clone())], "fixed-on-empty", args.oracle_only);
    run_seq(&[Op::Fwd(a.clone()), Op::Fwd(b.clone()), Op::Fwd(c.clone()), Op::Fwd(a.clone()), Op::Pos(a.clone()), Op::Back(a.clone()), Op::Pop(0)], "fixed-duplicate-rollback", args.oracle_only);
    run_seq(&[Op::Fwd(a.clone()), Op::Fwd(b.clone()), Op::Fwd(c.clone()), Op::Back(c.clone()), Op::Back(b.clone()), Op::Pop(1), Op::Pop(1), Op::Back(a.clone())], "fixed-rollback-to-tip", args.oracle_only);
    run_seq(&[Op::Fwd(a.clone()), Op::Fwd(b.clone()), Op::Fwd(c.clone()), Op::Pop(3), Op::Pop(4), Op::Pop(2), Op::Pos(a.clone()), Op::Pos(c.clone())], "fixed-pop-boundaries", args.oracle_only);

    for i in 0..args.n {
        let n = seq_len(&mut rng);
        let mut ops: Vec<Op> = Vec::with_capacity(n);
        let mut len_est = 0usize; // rough buffer length, only to aim the depths
        let tag;
        match rng.below(5) {
            0 => {
                // a real chain: unique points, forward mostly, rollbacks to recent points, confirmations popped
                tag = "chain-like";
                let mut next = rng.below(1000);
                let mut chain: Vec<Point> = vec![];
                for _ in 0..n {
                    match rng.below(10) {
                        0 | 1 if !chain.is_empty() => {
                            let back = rng.below(chain.len().min(6) as u64) as usize;
                            let p = chain[chain.len() - 1 - back].clone();
                            chain.truncate(chain.len() - back);
                            ops.push(Op::Back(p));
                        }
                        2 => { let d = rng.below(8) as usize; ops.push(Op::Pop(d)); }
                        3 => { ops.push(Op::Back(Point::Specific(next + 5, vec![9]))); chain.clear(); }
                        4 if !chain.is_empty() => { let p = rng.pick(&chain).clone(); ops.push(Op::Pos(p)); }
                        _ => {
                            next += 1 + rng.below(3);
                            let p = Point::Specific(next, (next as u32).to_be_bytes().to_vec());
                            chain.push(p.clone());
                            ops.push(Op::Fwd(p));
                        }
                    }
                }
            }
            k => {
                let asz = match k { 1 => 2, 2 => 4, 3 => rng.range(3, 6) as usize, _ => rng.range(6, 10) as usize };
                tag = match k { 1 => "alphabet-2", 2 => "alphabet-4", 3 => "alphabet-3..6", _ => "alphabet-6..10" };
                let al = alphabet(&mut rng, asz);
                let (wf, wb, wp) = match rng.below(3) { 0 => (50, 20, 15), 1 => (70, 10, 10), _ => (35, 30, 20) };
                for _ in 0..n {
                    let r = rng.below(100);
                    let p = rng.pick(&al).clone();
                    if r < wf { ops.push(Op::Fwd(p)); len_est += 1; }
                    else if r < wf + wb { ops.push(Op::Back(p)); len_est = len_est / 2; }
                    else if r < wf + wb + wp { let d = depth(&mut rng, len_est); ops.push(Op::Pop(d)); len_est = len_est.min(d); }
                    else { ops.push(Op::Pos(p)); }
                }
            }
        }
        if i < 3 { emit_sample(&format!("{} ops={}", tag, show_ops(&ops[..ops.len().min(12)]))); }
        run_seq(&ops, tag, args.oracle_only);
    }
}
