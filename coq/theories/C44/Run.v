From PV Require Import Lib.Base C44.Model.
Open Scope Z_scope.

Section leq.
  Context {A : Type} (eqb : A -> A -> bool).
  Fixpoint leqb (l1 l2 : list A) : bool :=
    match l1, l2 with
    | [], [] => true
    | x :: r1, y :: r2 => eqb x y && leqb r1 r2
    | _, _ => false
    end.
End leq.
Definition bytes_eqb := list_eqb Z.eqb.
Definition ubig_eqb (a b : ubig) : bool :=
  match a, b with
  | UNone, UNone => true
  | UInt x, UInt y => x =? y
  | UBigU x, UBigU y => bytes_eqb x y
  | UBigN x, UBigN y => bytes_eqb x y
  | _, _ => false
  end.
Fixpoint udata_eqb (a b : udata) : bool :=
  match a, b with
  | UEmpty, UEmpty => true
  | UConstr t1 a1 f1, UConstr t2 a2 f2 => (t1 =? t2) && (a1 =? a2) && leqb udata_eqb f1 f2
  | UMap k1, UMap k2 => leqb (fun p q => udata_eqb (fst p) (fst q) && udata_eqb (snd p) (snd q)) k1 k2
  | UArr x1, UArr x2 => leqb udata_eqb x1 x2
  | UBig b1, UBig b2 => ubig_eqb b1 b2
  | UBytes b1, UBytes b2 => bytes_eqb b1 b2
  | _, _ => false
  end.
Definition masset_eqb (a b : masset) := bytes_eqb (fst a) (fst b) && ubig_eqb (snd a) (snd b).
Definition mout_eqb (a b : mout) : bool :=
  let '(a1, c1, m1) := a in let '(a2, c2, m2) := b in
  bytes_eqb a1 a2 && ubig_eqb c1 c2 &&
  list_eqb (fun p q => bytes_eqb (fst p) (fst q) && list_eqb masset_eqb (snd p) (snd q)) m1 m2.
Definition mtx_eqb (a b : mtx) : bool :=
  bytes_eqb (m_hash a) (m_hash b) && list_eqb txin_eqb (m_inputs a) (m_inputs b) &&
  list_eqb mout_eqb (m_outputs a) (m_outputs b) && ubig_eqb (m_fee a) (m_fee b) &&
  (m_start a =? m_start b) && (m_ttl a =? m_ttl b) && Bool.eqb (m_ok a) (m_ok b).

Inductive case :=
| CDatum (ver : Z) (p : pdata) (u : udata)
| CU64 (ver : Z) (v : Z) (u : ubig)
| CTx (ver : Z) (r : rtx) (m : mtx).

Inductive out := ODatum (u : udata) | OBig (b : ubig) | OTx (m : mtx).
Definition case_out (c : case) : out :=
  match c with
  | CDatum _ p _ => ODatum (map_datum p)
  | CU64 _ v _ => OBig (u64_to_bigint v)
  | CTx _ r _ => OTx (map_tx r)
  end.
Definition case_ok (c : case) : bool :=
  match c with
  | CDatum _ p u => udata_eqb (map_datum p) u
  | CU64 _ v u => ubig_eqb (u64_to_bigint v) u
  | CTx _ r m => mtx_eqb (map_tx r) m
  end.
