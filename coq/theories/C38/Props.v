(* C38 - property theorems only. Statements are pinned by vp/check.py. *)
From PV Require Import Lib.Base C33.Model C33.ModelPA C38.Model C38.Proofs C38.Proofs2.
Open Scope Z_scope.

(* A transaction that phase-1 validation accepts satisfies every rule of its era (C38.Model.all_rules:
   inputs non-empty / in the UTxO, collateral and reference inputs in the UTxO, validity interval,
   minimum fee, minimum ada per output, value size, network ids, transaction size, execution-unit
   budget, collateral count and kind (and amount / annotation), minting-policy witnesses, script
   witnesses and no extraneous scripts, datum witnesses, redeemer coverage, auxiliary-data hash,
   script-integrity hash, language availability) - so breaking any single rule forces a rejection. *)
Theorem accept_implies_all_rules : forall dev t u e,
  wf_params (e_pp e) = true -> validate dev t u e = Ok tt -> all_rules t u e.
Proof. exact accept_all_rules. Qed.

(* contrapositive, the form the mutation tie exercises *)
Theorem broken_rule_rejected : forall dev t u e,
  wf_params (e_pp e) = true -> ~ all_rules t u e -> validate dev t u e <> Ok tt.
Proof. intros dev t u e Hw Hn Hv. apply Hn. eapply accept_all_rules; eauto. Qed.

Theorem accept_implies_rules_conway : forall dev t u e,
  wf_params (e_pp e) = true -> t_era t = 6 -> validate dev t u e = Ok tt -> rules_pa true t u e.
Proof. intros dev t u e Hw Et Hv. pose proof (accept_all_rules dev t u e Hw Hv) as H. unfold all_rules in H. rewrite Et in H. exact H. Qed.
Theorem accept_implies_rules_babbage : forall dev t u e,
  wf_params (e_pp e) = true -> t_era t = 5 -> validate dev t u e = Ok tt -> rules_pa false t u e.
Proof. intros dev t u e Hw Et Hv. pose proof (accept_all_rules dev t u e Hw Hv) as H. unfold all_rules in H. rewrite Et in H. exact H. Qed.
Theorem accept_implies_rules_alonzo : forall dev t u e,
  wf_params (e_pp e) = true -> t_era t = 4 -> validate dev t u e = Ok tt -> rules_alonzo t u e.
Proof. intros dev t u e Hw Et Hv. pose proof (accept_all_rules dev t u e Hw Hv) as H. unfold all_rules in H. rewrite Et in H. exact H. Qed.

(* non-vacuity: an accepted Conway transaction exists in the model *)
Definition ex_uout : uout := Build_uout EConway 6 false (AShelley 1 (PKey 5)) (VCoin 1000) DNone None 0 [].
Definition ex_out : tout := Build_tout false (AShelley 1 (PKey 5)) (VCoin 900) 1 DNone false.
Definition ex_tx : tx :=
  Build_tx 6 100 [(1, 0)] [ex_out] 100 None None None None None None None None None None None []
           None None (Some [Build_vkw 32 64 5 true]) None None None None None None None (Build_cstate [] [] [] [] [] [] []) None [] [].
Definition ex_env : env :=
  Build_env (Build_params 6 0 0 16384 0 0 0 1 5000 150 3 0 0 true true true 0 0 0 0) 764824073 5 1 true 0 0.
Example accepted_example :
  wf_params (e_pp ex_env) = true /\ validate true ex_tx [((false, 1, 0), ex_uout)] ex_env = Ok tt.
Proof. split; reflexivity. Qed.
