(* C17 correspondence: one constructor per observed operation; the recorded
   implementation output is compared with the model's. Strings are byte lists. *)
From PV Require Import Lib.Base Fixed.Model C17.Model.
Open Scope Z_scope.

Inductive case : Type :=
(* op: 0 add, 1 sub, 2 mul, 3 div, 4 neg (b unused), 5 abs (b unused); default precision;
   res = data of the result (Panic 1 for a zero divisor) *)
| CArith (op a b : Z) (res : outcome Z)
(* op: 0 round, 1 floor, 2 ceil, 3 trunc at precision p *)
| CRound (op p d res : Z)
(* partial_cmp (-1/0/1, 2 = None) and == *)
| CCmp (p1 d1 p2 d2 res : Z) (eq : bool)
(* to_string *)
| CDisplay (p d : Z) (s : list Z)
(* from_str(s, p): data or Err 1 *)
| CFromStr (s : list Z) (res : outcome Z)
(* From<i64> / From<u64> *)
| CFromInt (n res : Z).

Definition outcome_eqb (a b : outcome Z) : bool :=
  match a, b with
  | Ok x, Ok y => x =? y
  | Err x, Err y => x =? y
  | Panic x, Panic y => x =? y
  | _, _ => false
  end.

Definition arith (op a b : Z) : outcome Z :=
  if op =? 0 then Ok (dec_add a b) else if op =? 1 then Ok (dec_sub a b)
  else if op =? 2 then Ok (dec_mul a b) else if op =? 3 then dec_div a b
  else if op =? 4 then Ok (dec_neg a) else Ok (dec_abs a).
Definition rounding (op p d : Z) : Z :=
  if op =? 0 then dec_round p d else if op =? 1 then dec_floor p d
  else if op =? 2 then dec_ceil p d else dec_trunc p d.

Inductive out : Type := OZ (o : outcome Z) | OS (s : list Z) | OC (c : Z) (e : bool).
Definition case_out (c : case) : out :=
  match c with
  | CArith op a b _ => OZ (arith op a b)
  | CRound op p d _ => OZ (Ok (rounding op p d))
  | CCmp p1 d1 p2 d2 _ _ => OC (dec_cmp p1 d1 p2 d2) (dec_eqb p1 d1 p2 d2)
  | CDisplay p d _ => OS (display p d)
  | CFromStr s _ => OZ (from_str s)
  | CFromInt n _ => OZ (Ok (dec_of_int n))
  end.
Definition case_ok (c : case) : bool :=
  match c with
  | CArith op a b res => outcome_eqb (arith op a b) res
  | CRound op p d res => rounding op p d =? res
  | CCmp p1 d1 p2 d2 res e => (dec_cmp p1 d1 p2 d2 =? res) && Bool.eqb (dec_eqb p1 d1 p2 d2) e
  | CDisplay p d s => list_eqb Z.eqb (display p d) s
  | CFromStr s res => outcome_eqb (from_str s) res
  | CFromInt n res => dec_of_int n =? res
  end.
