(* C24 — hand model of every `State::apply` of pallas-network2/src/protocol, with the
   data the states carry, transcribed branch for branch (definitions only).
   Payloads: u8/u16/u32/u64/u128 as Z, byte strings / raw CBOR as list Z,
   HashMap/BTreeMap as key-sorted association lists.
   Error classes (protocol::Error): 1 AgencyIsOurs, 2 AgencyIsTheirs, 3 InvalidInbound,
   4 InvalidOutbound, 5 Other. *)
From PV Require Import Lib.Base.
From Coq Require Import String.
Open Scope Z_scope.

Definition E_InvalidInbound : Z := 3.
Definition E_InvalidOutbound : Z := 4.

(* protocol::common::Point (also EbId) *)
Inductive point := Origin | Specific (slot : Z) (hash : list Z).
(* chainsync::Tip(Point, u64) *)
Definition tip : Type := point * Z.

(* ---------------------------------------------------------------- keepalive *)
Module KA.
  Inductive client_state := Empty | Response (cookie : Z).
  Inductive msg := MKeepAlive (cookie : Z) | MResponseKeepAlive (cookie : Z) | MDone.
  Inductive state := SClient (c : client_state) | SServer (cookie : Z) | SDone.
  Definition init : state := SClient Empty.

  Definition apply (s : state) (m : msg) : outcome state :=
    match s with
    | SClient _ => match m with
                   | MKeepAlive x => Ok (SServer x)
                   | MDone => Ok SDone
                   | _ => Err E_InvalidOutbound
                   end
    | SServer _ => match m with
                   | MResponseKeepAlive x => Ok (SClient (Response x))
                   | _ => Err E_InvalidInbound
                   end
    | SDone => Err E_InvalidOutbound
    end.

  Definition class (s : state) : string :=
    match s with SClient _ => "Client" | SServer _ => "Server" | SDone => "Done" end.
  Definition variant (m : msg) : string :=
    match m with MKeepAlive _ => "KeepAlive" | MResponseKeepAlive _ => "ResponseKeepAlive" | MDone => "Done" end.
End KA.

(* -------------------------------------------------------------- peersharing *)
Module PS.
  (* PeerAddress::V4(Ipv4Addr as u32 bits, port) | V6(Ipv6Addr as u128 bits, port) *)
  Inductive peer := V4 (addr port : Z) | V6 (addr port : Z).
  Inductive idle_state := Empty | Response (peers : list peer).
  Inductive msg := MShareRequest (amount : Z) | MSharePeers (peers : list peer) | MDone.
  Inductive state := SIdle (i : idle_state) | SBusy (amount : Z) | SDone.
  Definition init : state := SIdle Empty.

  Definition apply (s : state) (m : msg) : outcome state :=
    match s with
    | SIdle _ => match m with
                 | MShareRequest x => Ok (SBusy x)
                 | MDone => Ok SDone
                 | _ => Err E_InvalidOutbound
                 end
    | SBusy _ => match m with
                 | MSharePeers x => Ok (SIdle (Response x))
                 | _ => Err E_InvalidInbound
                 end
    | SDone => Err E_InvalidOutbound
    end.

  Definition class (s : state) : string :=
    match s with SIdle _ => "Idle" | SBusy _ => "Busy" | SDone => "Done" end.
  Definition variant (m : msg) : string :=
    match m with MShareRequest _ => "ShareRequest" | MSharePeers _ => "SharePeers" | MDone => "Done" end.
End PS.

(* --------------------------------------------------------------- blockfetch *)
Module BF.
  Definition range : Type := point * point.
  Inductive msg := MRequestRange (r : range) | MClientDone | MStartBatch | MNoBlocks
                 | MBlock (body : list Z) | MBatchDone.
  Inductive state := SIdle | SBusy (r : range) | SStreaming (last : option (list Z)) | SDone.
  Definition init : state := SIdle.

  Definition apply (s : state) (m : msg) : outcome state :=
    match s with
    | SIdle => match m with
               | MRequestRange r => Ok (SBusy r)
               | MClientDone => Ok SDone
               | _ => Err E_InvalidOutbound
               end
    | SBusy _ => match m with
                 | MNoBlocks => Ok SIdle
                 | MStartBatch => Ok (SStreaming None)
                 | _ => Err E_InvalidInbound
                 end
    | SStreaming _ => match m with
                      | MBlock body => Ok (SStreaming (Some body))
                      | MBatchDone => Ok SIdle
                      | _ => Err E_InvalidInbound
                      end
    | SDone => Err E_InvalidOutbound
    end.

  Definition class (s : state) : string :=
    match s with SIdle => "Idle" | SBusy _ => "Busy" | SStreaming _ => "Streaming" | SDone => "Done" end.
  Definition variant (m : msg) : string :=
    match m with
    | MRequestRange _ => "RequestRange" | MClientDone => "ClientDone" | MStartBatch => "StartBatch"
    | MNoBlocks => "NoBlocks" | MBlock _ => "Block" | MBatchDone => "BatchDone"
    end.
End BF.

(* ---------------------------------------------------------------- chainsync *)
Module CS.
  (* generic content C: run with C = Vec<u8> *)
  Definition content : Type := list Z.
  Inductive msg :=
  | MRequestNext | MAwaitReply
  | MRollForward (c : content) (t : tip) | MRollBackward (p : point) (t : tip)
  | MFindIntersect (ps : list point)
  | MIntersectFound (p : point) (t : tip) | MIntersectNotFound (t : tip)
  | MDone.
  Inductive data :=
  | New | Intersection (p : point) (t : tip) | NoIntersection (t : tip)
  | Content (c : content) (t : tip) | Rollback (p : point) (t : tip) | Drained.
  Inductive state := SIdle (d : data) | SCanAwait | SMustReply | SIntersect (ps : list point) | SDone.
  Definition init : state := SIdle New.

  (* impl From<Data<C>> for State<C> *)
  Definition into (d : data) : state := SIdle d.

  Definition apply (s : state) (m : msg) : outcome state :=
    match s with
    | SIdle _ => match m with
                 | MFindIntersect x => Ok (SIntersect x)
                 | MRequestNext => Ok SCanAwait
                 | MDone => Ok SDone
                 | _ => Err E_InvalidInbound
                 end
    | SIntersect _ => match m with
                      | MIntersectFound p t => Ok (into (Intersection p t))
                      | MIntersectNotFound t => Ok (into (NoIntersection t))
                      | _ => Err E_InvalidInbound
                      end
    | SCanAwait => match m with
                   | MRollForward c t => Ok (into (Content c t))
                   | MRollBackward p t => Ok (into (Rollback p t))
                   | MAwaitReply => Ok SMustReply
                   | _ => Err E_InvalidInbound
                   end
    | SMustReply => match m with
                    | MRollForward c t => Ok (into (Content c t))
                    | MRollBackward p t => Ok (into (Rollback p t))
                    | _ => Err E_InvalidInbound
                    end
    | SDone => Err E_InvalidInbound
    end.

  Definition class (s : state) : string :=
    match s with
    | SIdle _ => "Idle" | SCanAwait => "CanAwait" | SMustReply => "MustReply"
    | SIntersect _ => "Intersect" | SDone => "Done"
    end.
  Definition variant (m : msg) : string :=
    match m with
    | MRequestNext => "RequestNext" | MAwaitReply => "AwaitReply" | MRollForward _ _ => "RollForward"
    | MRollBackward _ _ => "RollBackward" | MFindIntersect _ => "FindIntersect"
    | MIntersectFound _ _ => "IntersectFound" | MIntersectNotFound _ => "IntersectNotFound"
    | MDone => "Done"
    end.
End CS.

(* ---------------------------------------------------------------- handshake *)
Module HS.
  (* generic version data D: run with D = u64. VersionTable: HashMap<u64, D>, key-sorted. *)
  Definition vtable : Type := list (Z * Z).
  Inductive refuse :=
  | VersionMismatch (vs : list Z)
  | HandshakeDecodeError (v : Z) (text : list Z)
  | Refused (v : Z) (text : list Z).
  Inductive msg := MPropose (t : vtable) | MAccept (v : Z) (d : Z) | MRefuse (r : refuse) | MQueryReply (t : vtable).
  Inductive done_state := Accepted (v : Z) (d : Z) | Rejected (r : refuse) | DQueryReply (t : vtable).
  Inductive state := SPropose | SConfirm (t : vtable) | SDone (d : done_state).
  Definition init : state := SPropose.

  Definition apply (s : state) (m : msg) : outcome state :=
    match s with
    | SPropose => match m with
                  | MPropose x => Ok (SConfirm x)
                  | _ => Err E_InvalidOutbound
                  end
    | SConfirm _ => match m with
                    | MAccept x y => Ok (SDone (Accepted x y))
                    | MRefuse x => Ok (SDone (Rejected x))
                    | MQueryReply x => Ok (SDone (DQueryReply x))
                    | _ => Err E_InvalidInbound
                    end
    | SDone _ => Err E_InvalidInbound
    end.

  Definition class (s : state) : string :=
    match s with SPropose => "Propose" | SConfirm _ => "Confirm" | SDone _ => "Done" end.
  Definition variant (m : msg) : string :=
    match m with MPropose _ => "Propose" | MAccept _ _ => "Accept" | MRefuse _ => "Refuse" | MQueryReply _ => "QueryReply" end.
End HS.

(* ------------------------------------------------------------- txsubmission *)
Module TX.
  Definition era_tx_id : Type := Z * list Z.          (* EraTxId(u16, Vec<u8>) *)
  Definition era_tx_body : Type := Z * list Z.        (* EraTxBody(u16, Vec<u8>) *)
  Definition tx_id_and_size : Type := era_tx_id * Z.  (* TxIdAndSize(EraTxId, u32) *)
  Inductive msg :=
  | MInit
  | MRequestTxIds (blocking : bool) (ack req : Z)
  | MReplyTxIds (ids : list tx_id_and_size)
  | MRequestTxs (ids : list era_tx_id)
  | MReplyTxs (txs : list era_tx_body)
  | MDone.
  Inductive state := SInit | SIdle | STxIdsNonBlocking | STxIdsBlocking | STxs (txs : list era_tx_body) | SDone.
  Definition init : state := SInit.

  Definition apply (s : state) (m : msg) : outcome state :=
    match s with
    | SInit => match m with
               | MInit => Ok SIdle
               | _ => Err E_InvalidInbound
               end
    | SIdle => match m with
               | MRequestTxIds _ _ _ => Ok STxIdsBlocking
               | MRequestTxs _ => Ok (STxs [])
               | _ => Err E_InvalidInbound
               end
    | STxIdsNonBlocking => match m with
                           | MReplyTxIds _ => Ok STxIdsNonBlocking
                           | _ => Err E_InvalidInbound
                           end
    | STxIdsBlocking => match m with
                        | MReplyTxIds _ => Ok STxIdsBlocking
                        | _ => Err E_InvalidInbound
                        end
    | STxs _ => match m with
                | MReplyTxs txs => Ok (STxs txs)
                | _ => Err E_InvalidInbound
                end
    | SDone => Err E_InvalidInbound
    end.

  Definition class (s : state) : string :=
    match s with
    | SInit => "Init" | SIdle => "Idle" | STxIdsNonBlocking => "TxIdsNonBlocking"
    | STxIdsBlocking => "TxIdsBlocking" | STxs _ => "Txs" | SDone => "Done"
    end.
  Definition variant (m : msg) : string :=
    match m with
    | MInit => "Init"
    | MRequestTxIds true _ _ => "RequestTxIds(true)"
    | MRequestTxIds false _ _ => "RequestTxIds(false)"
    | MReplyTxIds _ => "ReplyTxIds" | MRequestTxs _ => "RequestTxs" | MReplyTxs _ => "ReplyTxs"
    | MDone => "Done"
    end.
End TX.

(* -------------------------------------------------------------- leiosnotify *)
Module LN.
  Inductive msg :=
  | MRequestNext
  | MBlockAnnouncement (header : list Z)
  | MBlockOffer (p : point) (size : Z)
  | MBlockTxsOffer (p : point)
  | MVotes (vs : list (list Z))
  | MDone.
  Inductive notification :=
  | BlockAnnouncement (header : list Z) | BlockOffer (p : point) (size : Z)
  | BlockTxsOffer (p : point) | Votes (vs : list (list Z)).
  Inductive state := SIdle (n : option notification) | SBusy | SDone.
  Definition init : state := SIdle None.

  Definition apply (s : state) (m : msg) : outcome state :=
    match s with
    | SIdle _ => match m with
                 | MRequestNext => Ok SBusy
                 | MDone => Ok SDone
                 | _ => Err E_InvalidOutbound
                 end
    | SBusy => match m with
               | MBlockAnnouncement h => Ok (SIdle (Some (BlockAnnouncement h)))
               | MBlockOffer p s => Ok (SIdle (Some (BlockOffer p s)))
               | MBlockTxsOffer p => Ok (SIdle (Some (BlockTxsOffer p)))
               | MVotes v => Ok (SIdle (Some (Votes v)))
               | _ => Err E_InvalidInbound
               end
    | SDone => Err E_InvalidOutbound
    end.

  Definition class (s : state) : string :=
    match s with SIdle _ => "Idle" | SBusy => "Busy" | SDone => "Done" end.
  Definition variant (m : msg) : string :=
    match m with
    | MRequestNext => "RequestNext" | MBlockAnnouncement _ => "BlockAnnouncement"
    | MBlockOffer _ _ => "BlockOffer" | MBlockTxsOffer _ => "BlockTxsOffer" | MVotes _ => "Votes"
    | MDone => "Done"
    end.
End LN.

(* --------------------------------------------------------------- leiosfetch *)
Module LF.
  Definition bitmaps : Type := list (Z * Z).           (* Bitmaps(BTreeMap<u16, u64>) *)
  Inductive msg :=
  | MBlockRequest (p : point)
  | MBlock (b : list Z)
  | MBlockTxsRequest (p : point) (b : bitmaps)
  | MBlockTxs (p : point) (b : bitmaps) (txs : list (list Z))
  | MDone.
  Inductive response := RBlock (b : list Z) | RBlockTxs (txs : list (list Z)).
  Inductive state :=
  | SIdle (r : option (point * response))
  | SAwaitingBlock (eb : point)
  | SAwaitingBlockTxs (eb : point) (b : bitmaps)
  | SDone.
  Definition init : state := SIdle None.

  Definition apply (s : state) (m : msg) : outcome state :=
    match s with
    | SIdle _ => match m with
                 | MBlockRequest p => Ok (SAwaitingBlock p)
                 | MBlockTxsRequest p b => Ok (SAwaitingBlockTxs p b)
                 | MDone => Ok SDone
                 | _ => Err E_InvalidOutbound
                 end
    | SAwaitingBlock eb => match m with
                           | MBlock b => Ok (SIdle (Some (eb, RBlock b)))
                           | _ => Err E_InvalidInbound
                           end
    | SAwaitingBlockTxs eb _ => match m with
                                | MBlockTxs _ _ txs => Ok (SIdle (Some (eb, RBlockTxs txs)))
                                | _ => Err E_InvalidInbound
                                end
    | SDone => Err E_InvalidOutbound
    end.

  Definition class (s : state) : string :=
    match s with
    | SIdle _ => "Idle" | SAwaitingBlock _ => "AwaitingBlock"
    | SAwaitingBlockTxs _ _ => "AwaitingBlockTxs" | SDone => "Done"
    end.
  Definition variant (m : msg) : string :=
    match m with
    | MBlockRequest _ => "BlockRequest" | MBlock _ => "Block" | MBlockTxsRequest _ _ => "BlockTxsRequest"
    | MBlockTxs _ _ _ => "BlockTxs" | MDone => "Done"
    end.
End LF.

(* ------------------------------------------------------------- generic view *)
Inductive proto := PBlockFetch | PChainSync | PHandshake | PKeepAlive | PLeiosFetch
                 | PLeiosNotify | PPeerSharing | PTxSubmission.
Definition all_protos : list proto :=
  [PBlockFetch; PChainSync; PHandshake; PKeepAlive; PLeiosFetch; PLeiosNotify; PPeerSharing; PTxSubmission].

Definition pname (p : proto) : string :=
  match p with
  | PBlockFetch => "blockfetch" | PChainSync => "chainsync" | PHandshake => "handshake"
  | PKeepAlive => "keepalive" | PLeiosFetch => "leiosfetch" | PLeiosNotify => "leiosnotify"
  | PPeerSharing => "peersharing" | PTxSubmission => "txsubmission"
  end.

Definition state (p : proto) : Type :=
  match p with
  | PBlockFetch => BF.state | PChainSync => CS.state | PHandshake => HS.state | PKeepAlive => KA.state
  | PLeiosFetch => LF.state | PLeiosNotify => LN.state | PPeerSharing => PS.state | PTxSubmission => TX.state
  end.
Definition msg (p : proto) : Type :=
  match p with
  | PBlockFetch => BF.msg | PChainSync => CS.msg | PHandshake => HS.msg | PKeepAlive => KA.msg
  | PLeiosFetch => LF.msg | PLeiosNotify => LN.msg | PPeerSharing => PS.msg | PTxSubmission => TX.msg
  end.

Definition apply (p : proto) : state p -> msg p -> outcome (state p) :=
  match p with
  | PBlockFetch => BF.apply | PChainSync => CS.apply | PHandshake => HS.apply | PKeepAlive => KA.apply
  | PLeiosFetch => LF.apply | PLeiosNotify => LN.apply | PPeerSharing => PS.apply | PTxSubmission => TX.apply
  end.
Definition class (p : proto) : state p -> string :=
  match p with
  | PBlockFetch => BF.class | PChainSync => CS.class | PHandshake => HS.class | PKeepAlive => KA.class
  | PLeiosFetch => LF.class | PLeiosNotify => LN.class | PPeerSharing => PS.class | PTxSubmission => TX.class
  end.
Definition variant (p : proto) : msg p -> string :=
  match p with
  | PBlockFetch => BF.variant | PChainSync => CS.variant | PHandshake => HS.variant | PKeepAlive => KA.variant
  | PLeiosFetch => LF.variant | PLeiosNotify => LN.variant | PPeerSharing => PS.variant | PTxSubmission => TX.variant
  end.
Definition init (p : proto) : state p :=
  match p with
  | PBlockFetch => BF.init | PChainSync => CS.init | PHandshake => HS.init | PKeepAlive => KA.init
  | PLeiosFetch => LF.init | PLeiosNotify => LN.init | PPeerSharing => PS.init | PTxSubmission => TX.init
  end.

(* a run: apply the messages in order, stop at the first error: (index, class) *)
Inductive run_result (A : Type) := RunOk (final : A) | RunErr (index : Z) (code : Z).
Arguments RunOk {A} final.
Arguments RunErr {A} index code.

Fixpoint run_from {A M} (ap : A -> M -> outcome A) (i : Z) (s : A) (ms : list M) : run_result A :=
  match ms with
  | [] => RunOk s
  | m :: r => match ap s m with
              | Ok s' => run_from ap (i + 1) s' r
              | Err e => RunErr i e
              | Panic _ => RunErr i (-1)
              end
  end.
Definition apply_seq (p : proto) (s : state p) (ms : list (msg p)) : run_result (state p) :=
  run_from (apply p) 0 s ms.
