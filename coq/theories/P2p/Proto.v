(* P2p/Proto.v — shared by C27/C28/C29.
   Abstract messages of the eight mini-protocols multiplexed by
   pallas-network2's `AnyMessage`, the per-protocol state types and the
   `State::apply` functions of pallas-network2/src/protocol/*.rs, transcribed
   arm for arm.  Payloads are reduced to the integers the behaviours look at
   (versions, cookies, point / range / block identifiers).  `apply` returns
   None where the Rust returns Err (which `apply_msg` turns into
   `violation = true`).  Definitions only. *)
From PV Require Import Lib.Base.
Open Scope Z_scope.

Inductive msg : Type :=
(* handshake: Propose(version table as (version, network magic)), Accept(version, peer_sharing), Refuse(kind), QueryReply *)
| HsPropose (vs : list (Z * Z)) | HsAccept (v ps : Z) | HsRefuse (k : Z) | HsQueryReply
(* keepalive *)
| KaKeepAlive (c : Z) | KaResponse (c : Z) | KaDone
(* peersharing *)
| PsRequest (n : Z) | PsPeers (l : list Z) | PsDone
(* blockfetch *)
| BfRequestRange (r : Z) | BfClientDone | BfStartBatch | BfNoBlocks | BfBlock (b : Z) | BfBatchDone
(* chainsync *)
| CsRequestNext | CsAwaitReply | CsRollForward (h : Z) | CsRollBackward (p : Z)
| CsFindIntersect (k : Z) | CsIntersectFound (p : Z) | CsIntersectNotFound | CsDone
(* txsubmission *)
| TxInit | TxRequestTxIds | TxReplyTxIds | TxRequestTxs | TxReplyTxs (n : Z) | TxDone
(* leios-notify *)
| LnRequestNext | LnAnnouncement (x : Z) | LnOffer (x : Z) | LnTxsOffer (x : Z) | LnVotes (x : Z) | LnDone
(* leios-fetch *)
| LfBlockRequest (p : Z) | LfBlock (x : Z) | LfBlockTxsRequest (p : Z) | LfBlockTxs (x : Z) | LfDone.

(* protocol (= channel) of a message: the CHANNEL_ID constants *)
Definition proto_of (m : msg) : Z :=
  match m with
  | HsPropose _ | HsAccept _ _ | HsRefuse _ | HsQueryReply => 0
  | KaKeepAlive _ | KaResponse _ | KaDone => 8
  | PsRequest _ | PsPeers _ | PsDone => 10
  | BfRequestRange _ | BfClientDone | BfStartBatch | BfNoBlocks | BfBlock _ | BfBatchDone => 3
  | CsRequestNext | CsAwaitReply | CsRollForward _ | CsRollBackward _
  | CsFindIntersect _ | CsIntersectFound _ | CsIntersectNotFound | CsDone => 2
  | TxInit | TxRequestTxIds | TxReplyTxIds | TxRequestTxs | TxReplyTxs _ | TxDone => 4
  | LnRequestNext | LnAnnouncement _ | LnOffer _ | LnTxsOffer _ | LnVotes _ | LnDone => 18
  | LfBlockRequest _ | LfBlock _ | LfBlockTxsRequest _ | LfBlockTxs _ | LfDone => 19
  end.

(* injective flat code, used only to compare messages in the runner *)
Definition flat (l : list (Z * Z)) : list Z := flat_map (fun p => [fst p; snd p]) l.
Definition msg_code (m : msg) : list Z :=
  match m with
  | HsPropose vs => 0 :: 0 :: flat vs | HsAccept v ps => [0; 1; v; ps] | HsRefuse k => [0; 2; k] | HsQueryReply => [0; 3]
  | KaKeepAlive c => [8; 0; c] | KaResponse c => [8; 1; c] | KaDone => [8; 2]
  | PsRequest n => [10; 0; n] | PsPeers l => 10 :: 1 :: l | PsDone => [10; 2]
  | BfRequestRange r => [3; 0; r] | BfClientDone => [3; 1] | BfStartBatch => [3; 2] | BfNoBlocks => [3; 3]
  | BfBlock b => [3; 4; b] | BfBatchDone => [3; 5]
  | CsRequestNext => [2; 0] | CsAwaitReply => [2; 1] | CsRollForward h => [2; 2; h] | CsRollBackward p => [2; 3; p]
  | CsFindIntersect k => [2; 4; k] | CsIntersectFound p => [2; 5; p] | CsIntersectNotFound => [2; 6] | CsDone => [2; 7]
  | TxInit => [4; 0] | TxRequestTxIds => [4; 1] | TxReplyTxIds => [4; 2] | TxRequestTxs => [4; 3]
  | TxReplyTxs n => [4; 4; n] | TxDone => [4; 5]
  | LnRequestNext => [18; 0] | LnAnnouncement x => [18; 1; x] | LnOffer x => [18; 2; x] | LnTxsOffer x => [18; 3; x]
  | LnVotes x => [18; 4; x] | LnDone => [18; 5]
  | LfBlockRequest p => [19; 0; p] | LfBlock x => [19; 1; x] | LfBlockTxsRequest p => [19; 2; p]
  | LfBlockTxs x => [19; 3; x] | LfDone => [19; 4]
  end.

(* ---- handshake (protocol/handshake/mod.rs) ---- *)
Inductive hs_state := HsSPropose | HsSConfirm (vs : list (Z * Z)) | HsSAccepted (v ps : Z) | HsSRejected (k : Z) | HsSQueryReply.
Definition hs_apply (s : hs_state) (m : msg) : option hs_state :=
  match s with
  | HsSPropose => match m with HsPropose x => Some (HsSConfirm x) | _ => None end
  | HsSConfirm _ => match m with
                    | HsAccept x y => Some (HsSAccepted x y)
                    | HsRefuse x => Some (HsSRejected x)
                    | HsQueryReply => Some HsSQueryReply
                    | _ => None end
  | _ => None
  end.

(* ---- keepalive ---- *)
Inductive ka_state := KaSClient (resp : option Z) | KaSServer (c : Z) | KaSDone.
Definition ka_apply (s : ka_state) (m : msg) : option ka_state :=
  match s with
  | KaSClient _ => match m with KaKeepAlive x => Some (KaSServer x) | KaDone => Some KaSDone | _ => None end
  | KaSServer _ => match m with KaResponse x => Some (KaSClient (Some x)) | _ => None end
  | KaSDone => None
  end.

(* ---- peersharing ---- *)
Inductive ps_state := PsSIdle (resp : option (list Z)) | PsSBusy (n : Z) | PsSDone.
Definition ps_apply (s : ps_state) (m : msg) : option ps_state :=
  match s with
  | PsSIdle _ => match m with PsRequest x => Some (PsSBusy x) | PsDone => Some PsSDone | _ => None end
  | PsSBusy _ => match m with PsPeers x => Some (PsSIdle (Some x)) | _ => None end
  | PsSDone => None
  end.

(* ---- blockfetch ---- *)
Inductive bf_state := BfSIdle | BfSBusy (r : Z) | BfSStreaming (b : option Z) | BfSDone.
Definition bf_apply (s : bf_state) (m : msg) : option bf_state :=
  match s with
  | BfSIdle => match m with BfRequestRange r => Some (BfSBusy r) | BfClientDone => Some BfSDone | _ => None end
  | BfSBusy _ => match m with BfNoBlocks => Some BfSIdle | BfStartBatch => Some (BfSStreaming None) | _ => None end
  | BfSStreaming _ => match m with BfBlock b => Some (BfSStreaming (Some b)) | BfBatchDone => Some BfSIdle | _ => None end
  | BfSDone => None
  end.

(* ---- chainsync ---- *)
Inductive cs_data := CdNew | CdIntersection (p : Z) | CdNoIntersection | CdContent (h : Z) | CdRollback (p : Z) | CdDrained.
Inductive cs_state := CsSIdle (d : cs_data) | CsSCanAwait | CsSMustReply | CsSIntersect (k : Z) | CsSDone.
Definition cs_apply (s : cs_state) (m : msg) : option cs_state :=
  match s with
  | CsSIdle _ => match m with
                 | CsFindIntersect x => Some (CsSIntersect x)
                 | CsRequestNext => Some CsSCanAwait
                 | CsDone => Some CsSDone
                 | _ => None end
  | CsSIntersect _ => match m with
                      | CsIntersectFound p => Some (CsSIdle (CdIntersection p))
                      | CsIntersectNotFound => Some (CsSIdle CdNoIntersection)
                      | _ => None end
  | CsSCanAwait => match m with
                   | CsRollForward c => Some (CsSIdle (CdContent c))
                   | CsRollBackward p => Some (CsSIdle (CdRollback p))
                   | CsAwaitReply => Some CsSMustReply
                   | _ => None end
  | CsSMustReply => match m with
                    | CsRollForward c => Some (CsSIdle (CdContent c))
                    | CsRollBackward p => Some (CsSIdle (CdRollback p))
                    | _ => None end
  | CsSDone => None
  end.
Definition cs_is_new (s : cs_state) : bool := match s with CsSIdle CdNew => true | _ => false end.
Definition cs_is_idle (s : cs_state) : bool := match s with CsSIdle _ => true | _ => false end.
(* State::drain *)
Definition cs_drain (s : cs_state) : cs_state * option cs_data :=
  match s with CsSIdle d => (CsSIdle CdDrained, Some d) | _ => (s, None) end.

(* ---- txsubmission ---- *)
Inductive tx_state := TxSInit | TxSIdle | TxSIdsNonBlocking | TxSIdsBlocking | TxSTxs (n : Z) | TxSDone.
Definition tx_apply (s : tx_state) (m : msg) : option tx_state :=
  match s with
  | TxSInit => match m with TxInit => Some TxSIdle | _ => None end
  | TxSIdle => match m with TxRequestTxIds => Some TxSIdsBlocking | TxRequestTxs => Some (TxSTxs 0) | _ => None end
  | TxSIdsNonBlocking => match m with TxReplyTxIds => Some TxSIdsNonBlocking | _ => None end
  | TxSIdsBlocking => match m with TxReplyTxIds => Some TxSIdsBlocking | _ => None end
  | TxSTxs _ => match m with TxReplyTxs n => Some (TxSTxs n) | _ => None end
  | TxSDone => None
  end.

(* ---- leios-notify: a notification is (kind 1..4, payload) ---- *)
Inductive ln_state := LnSIdle (n : option (Z * Z)) | LnSBusy | LnSDone.
Definition ln_apply (s : ln_state) (m : msg) : option ln_state :=
  match s with
  | LnSIdle _ => match m with LnRequestNext => Some LnSBusy | LnDone => Some LnSDone | _ => None end
  | LnSBusy => match m with
               | LnAnnouncement h => Some (LnSIdle (Some (1, h)))
               | LnOffer p => Some (LnSIdle (Some (2, p)))
               | LnTxsOffer p => Some (LnSIdle (Some (3, p)))
               | LnVotes v => Some (LnSIdle (Some (4, v)))
               | _ => None end
  | LnSDone => None
  end.
Definition ln_drain (s : ln_state) : ln_state * option (Z * Z) :=
  match s with LnSIdle n => (LnSIdle None, n) | _ => (s, None) end.

(* ---- leios-fetch: a response is (eb, (kind 0 = Block | 1 = BlockTxs, payload)) ---- *)
Inductive lf_state := LfSIdle (r : option (Z * (Z * Z))) | LfSAwaitBlock (p : Z) | LfSAwaitTxs (p : Z) | LfSDone.
Definition lf_apply (s : lf_state) (m : msg) : option lf_state :=
  match s with
  | LfSIdle _ => match m with
                 | LfBlockRequest p => Some (LfSAwaitBlock p)
                 | LfBlockTxsRequest p => Some (LfSAwaitTxs p)
                 | LfDone => Some LfSDone
                 | _ => None end
  | LfSAwaitBlock eb => match m with LfBlock b => Some (LfSIdle (Some (eb, (0, b)))) | _ => None end
  | LfSAwaitTxs eb => match m with LfBlockTxs x => Some (LfSIdle (Some (eb, (1, x)))) | _ => None end
  | LfSDone => None
  end.
Definition lf_drain (s : lf_state) : lf_state * option (Z * (Z * Z)) :=
  match s with LfSIdle r => (LfSIdle None, r) | _ => (s, None) end.

(* ---- ConnectionState (behavior/mod.rs) ---- *)
Inductive conn_state := CNew | CConnecting | CConnected | CInitialized | CDisconnected | CErrored.
Definition conn_code (c : conn_state) : Z :=
  match c with CNew => 0 | CConnecting => 1 | CConnected => 2 | CInitialized => 3 | CDisconnected => 4 | CErrored => 5 end.

(* ---- outputs of a behaviour (BehaviorOutput) ---- *)
Inductive output :=
| OConnect (p : Z) | ODisconnect (p : Z) | OSend (p : Z) (m : msg)
| OEvent (p : Z) (kind : Z) (args : list Z).
Definition output_code (o : output) : list Z :=
  match o with
  | OConnect p => [1; p] | ODisconnect p => [2; p]
  | OSend p m => 3 :: p :: msg_code m
  | OEvent p k a => 4 :: p :: k :: a
  end.

(* state classes reported by the harness (prefix of the Debug rendering) *)
Definition hs_code (s : hs_state) : Z :=
  match s with HsSPropose => 0 | HsSConfirm _ => 1 | HsSAccepted _ _ => 2 | HsSRejected _ => 3 | HsSQueryReply => 4 end.
Definition ka_code (s : ka_state) : Z :=
  match s with KaSClient None => 0 | KaSClient (Some _) => 1 | KaSServer _ => 2 | KaSDone => 3 end.
Definition ps_code (s : ps_state) : Z :=
  match s with PsSIdle None => 0 | PsSIdle (Some _) => 1 | PsSBusy _ => 2 | PsSDone => 3 end.
Definition bf_code (s : bf_state) : Z :=
  match s with BfSIdle => 0 | BfSBusy _ => 1 | BfSStreaming None => 2 | BfSStreaming (Some _) => 3 | BfSDone => 4 end.
Definition cs_code (s : cs_state) : Z :=
  match s with
  | CsSIdle CdNew => 0 | CsSIdle (CdIntersection _) => 1 | CsSIdle CdNoIntersection => 2 | CsSIdle (CdContent _) => 3
  | CsSIdle (CdRollback _) => 4 | CsSIdle CdDrained => 5 | CsSCanAwait => 6 | CsSMustReply => 7 | CsSIntersect _ => 8 | CsSDone => 9
  end.
Definition tx_code (s : tx_state) : Z :=
  match s with TxSInit => 0 | TxSIdle => 1 | TxSIdsNonBlocking => 2 | TxSIdsBlocking => 3 | TxSTxs _ => 4 | TxSDone => 5 end.
Definition ln_code (s : ln_state) : Z :=
  match s with LnSIdle None => 0 | LnSIdle (Some _) => 1 | LnSBusy => 2 | LnSDone => 3 end.
Definition lf_code (s : lf_state) : Z :=
  match s with LfSIdle None => 0 | LfSIdle (Some _) => 1 | LfSAwaitBlock _ => 2 | LfSAwaitTxs _ => 3 | LfSDone => 4 end.
