//! Shared by harness bins c33 and c38: the accepted fixtures of /repo/pallas-validate/tests.
//! Each `successful_*` test is turned into a function that builds (tx, UTxO set, environment,
//! certificate state) exactly as the test does and hands them to a callback.
use pallas_traverse::Era;
/// `system_start` is not read by phase-1 validation; the harness crate has no `chrono`
/// dependency, so a value of that type is obtained through pallas-validate's own API.
macro_rules! _byron_pp { () => { pallas_validate::utils::ByronProtParams {
    block_version: (1, 0, 0), start_time: 1506203091, script_version: 0, slot_duration: 20000,
    max_block_size: 2000000, max_header_size: 2000000, max_tx_size: 4096, max_proposal_size: 700,
    mpc_thd: 0, heavy_del_thd: 0, update_vote_thd: 0, update_proposal_thd: 0, update_implicit: 0,
    soft_fork_rule: (0, 0, 0), summand: 155381, multiplier: 44, unlock_stake_epoch: 0 } } }
macro_rules! _sys_start { () => {
    pallas_validate::utils::MultiEraProtocolParameters::Byron(_byron_pp!()).system_start()
} }
pub enum AnyTx<'a, 'b> {
    Byron(&'a pallas_primitives::byron::TxPayload<'b>),
    AC(&'a pallas_primitives::alonzo::Tx<'b>, Era),
    Babbage(&'a pallas_primitives::babbage::Tx<'b>),
    Conway(&'a pallas_primitives::conway::Tx<'b>),
}
// GENERATED ONCE from /repo/pallas-validate/tests/*.rs by a script (fixture builders copied verbatim;
// GENERATED ONCE from /repo/pallas-validate/tests/*.rs by a script (fixture builders copied verbatim;
// the `match validate_txs(..)` tail of each successful_* test replaced by a callback). Do not edit by hand.

#[allow(unused, deprecated)]
pub mod common {
use pallas_codec::{
    minicbor::{self, bytes::ByteVec},
    utils::TagWrap,
};
use pallas_primitives::{
    alonzo::{TransactionBody, TransactionOutput, Tx as AlonzoTx, Value},
    babbage::Tx as BabbageTx,
    byron::{Address, Tx, TxOut, TxPayload},
    conway::Tx as ConwayTx,
};
use pallas_traverse::{Era, MultiEraInput, MultiEraOutput};
use pallas_validate::utils::UTxOs;
use pallas_validate::utils::{EraCbor, TxoRef, UtxoMap};
use std::{borrow::Cow, iter::zip, vec::Vec};

use pallas_codec::utils::{Bytes, CborWrap};
use pallas_crypto::hash::Hash;

// Type aliases to reduce complexity
pub type BabbageTxOutInfo<'a> = (
    String, // address in string format
    Value,
    Option<pallas_primitives::babbage::DatumOption<'a>>,
    Option<CborWrap<pallas_primitives::babbage::ScriptRef<'a>>>,
);

pub type ConwayTxOutInfo<'a> = (
    String, // address in string format
    pallas_primitives::conway::Value,
    Option<pallas_primitives::conway::DatumOption<'a>>,
    Option<CborWrap<pallas_primitives::conway::ScriptRef<'a>>>,
);

pub type ConwayTxOutInfoMut<'a> = (
    String, // address in string format
    pallas_primitives::conway::Value,
    Option<pallas_codec::utils::KeepRaw<'a, pallas_primitives::conway::DatumOption<'a>>>,
    Option<CborWrap<pallas_primitives::conway::ScriptRef<'a>>>,
    Vec<u8>, // Placeholder for CBOR data.
);

pub type AlonzoCollateralInfo = (
    String, // address in string format
    Value,
    Option<Hash<32>>,
);

pub type BabbageCollateralInfo<'a> = (
    String, // address in string format
    Value,
    Option<pallas_primitives::babbage::DatumOption<'a>>,
    Option<CborWrap<pallas_primitives::babbage::ScriptRef<'a>>>,
);

pub type ConwayCollateralInfo<'a> = (
    String, // address in string format
    pallas_primitives::conway::Value,
    Option<pallas_primitives::conway::DatumOption<'a>>,
    Option<CborWrap<pallas_primitives::conway::ScriptRef<'a>>>,
);

pub type ConwayCollateralInfoMut<'a> = (
    String, // address in string format
    pallas_primitives::conway::Value,
    Option<pallas_codec::utils::KeepRaw<'a, pallas_primitives::conway::DatumOption<'a>>>,
    Option<CborWrap<pallas_primitives::conway::ScriptRef<'a>>>,
    Vec<u8>, // Placeholder for CBOR data.
);

pub type BabbageRefInputInfo<'a> = (
    String, // address in string format
    Value,
    Option<pallas_primitives::babbage::DatumOption<'a>>,
    Option<CborWrap<pallas_primitives::babbage::ScriptRef<'a>>>,
);

pub type ConwayRefInputInfo<'a> = (
    String, // address in string format
    pallas_primitives::conway::Value,
    Option<pallas_primitives::conway::DatumOption<'a>>,
    Option<CborWrap<pallas_primitives::conway::ScriptRef<'a>>>,
);

pub type ConwayRefInputInfoMut<'a> = (
    String, // address in string format
    pallas_primitives::conway::Value,
    Option<pallas_codec::utils::KeepRaw<'a, pallas_primitives::conway::DatumOption<'a>>>,
    Option<CborWrap<pallas_primitives::conway::ScriptRef<'a>>>,
    Vec<u8>, // Placeholder for CBOR data.
);

pub fn cbor_to_bytes(input: &str) -> Vec<u8> {
    hex::decode(input).unwrap()
}

pub fn minted_tx_from_cbor(tx_cbor: &[u8]) -> AlonzoTx<'_> {
    pallas_codec::minicbor::decode::<AlonzoTx>(tx_cbor).unwrap()
}

pub fn babbage_minted_tx_from_cbor(tx_cbor: &[u8]) -> BabbageTx<'_> {
    pallas_codec::minicbor::decode::<BabbageTx>(tx_cbor).unwrap()
}

pub fn conway_minted_tx_from_cbor(tx_cbor: &[u8]) -> ConwayTx<'_> {
    pallas_codec::minicbor::decode::<ConwayTx>(tx_cbor).unwrap()
}

pub fn minted_tx_payload_from_cbor(tx_cbor: &[u8]) -> TxPayload<'_> {
    pallas_codec::minicbor::decode::<TxPayload>(tx_cbor).unwrap()
}

pub fn mk_utxo_for_byron_tx<'a>(tx: &Tx, tx_outs_info: &[(String, u64)]) -> UTxOs<'a> {
    let mut utxos: UTxOs = UTxOs::new();
    for (tx_in, (address_payload, amount)) in zip(tx.inputs.clone().to_vec(), tx_outs_info) {
        let input_tx_out_addr: Address = match hex::decode(address_payload) {
            Ok(addr_bytes) => Address {
                payload: TagWrap(ByteVec::from(addr_bytes)),
                crc: 3430631884,
            },
            _ => panic!("Unable to decode input address"),
        };
        let tx_out: TxOut = TxOut {
            address: input_tx_out_addr,
            amount: *amount,
        };
        let multi_era_in: MultiEraInput = MultiEraInput::Byron(Box::new(Cow::Owned(tx_in)));
        let multi_era_out: MultiEraOutput = MultiEraOutput::Byron(Box::new(Cow::Owned(tx_out)));
        utxos.insert(multi_era_in, multi_era_out);
    }
    utxos
}

pub fn mk_utxo_for_alonzo_compatible_tx<'a>(
    tx_body: &TransactionBody,
    tx_outs_info: &[(
        String, // address in string format
        Value,
        Option<Hash<32>>,
    )],
) -> UTxOs<'a> {
    let mut utxos: UTxOs = UTxOs::new();
    for (tx_in, (address, amount, datum_hash)) in zip(tx_body.inputs.clone(), tx_outs_info) {
        let multi_era_in: MultiEraInput =
            MultiEraInput::AlonzoCompatible(Box::new(Cow::Owned(tx_in)));
        let address_bytes: Bytes = match hex::decode(address) {
            Ok(bytes_vec) => Bytes::from(bytes_vec),
            _ => panic!("Unable to decode input address"),
        };
        let tx_out: TransactionOutput = TransactionOutput {
            address: address_bytes,
            amount: amount.clone(),
            datum_hash: *datum_hash,
        };
        let multi_era_out: MultiEraOutput =
            MultiEraOutput::AlonzoCompatible(Box::new(Cow::Owned(tx_out)), Era::Alonzo);
        utxos.insert(multi_era_in, multi_era_out);
    }
    utxos
}

pub fn mk_utxo_for_babbage_tx<'a>(
    tx_body: &pallas_primitives::babbage::TransactionBody,
    tx_outs_info: &'a [BabbageTxOutInfo<'a>],
) -> UTxOs<'a> {
    let mut utxos: UTxOs = UTxOs::new();
    for (tx_in, (addr, val, datum_opt, script_ref)) in zip(tx_body.inputs.clone(), tx_outs_info) {
        let multi_era_in: MultiEraInput =
            MultiEraInput::AlonzoCompatible(Box::new(Cow::Owned(tx_in)));
        let address_bytes: Bytes = match hex::decode(addr) {
            Ok(bytes_vec) => Bytes::from(bytes_vec),
            _ => panic!("Unable to decode input address"),
        };
        let tx_out: pallas_primitives::babbage::TransactionOutput =
            pallas_primitives::babbage::TransactionOutput::PostAlonzo(
                pallas_primitives::babbage::PostAlonzoTransactionOutput {
                    address: address_bytes,
                    value: val.clone(),
                    datum_option: datum_opt.clone().map(|x| x.into()),
                    script_ref: script_ref.clone(),
                }
                .into(),
            );
        let multi_era_out: MultiEraOutput = MultiEraOutput::Babbage(Box::new(Cow::Owned(tx_out)));
        utxos.insert(multi_era_in, multi_era_out);
    }
    utxos
}

pub fn mk_utxo_for_conway_tx<'a>(
    tx_body: &pallas_primitives::conway::TransactionBody,
    tx_outs_info: &'a [ConwayTxOutInfo<'a>],
) -> UTxOs<'a> {
    let mut utxos: UTxOs = UTxOs::new();

    for (tx_in, (addr, val, datum_opt, script_ref)) in
        zip(tx_body.inputs.clone().to_vec(), tx_outs_info)
    {
        let multi_era_in: MultiEraInput =
            MultiEraInput::AlonzoCompatible(Box::new(Cow::Owned(tx_in)));
        let address_bytes: Bytes = match hex::decode(addr) {
            Ok(bytes_vec) => Bytes::from(bytes_vec),
            _ => panic!("Unable to decode input address"),
        };
        let tx_out: pallas_primitives::conway::TransactionOutput =
            pallas_primitives::conway::TransactionOutput::PostAlonzo(
                pallas_primitives::conway::PostAlonzoTransactionOutput {
                    address: address_bytes,
                    value: val.clone(),
                    datum_option: datum_opt.clone().map(|x| x.into()),
                    script_ref: script_ref.clone(),
                }
                .into(),
            );
        let multi_era_out: MultiEraOutput = MultiEraOutput::Conway(Box::new(Cow::Owned(tx_out)));
        utxos.insert(multi_era_in, multi_era_out);
    }
    utxos
}

pub fn mk_codec_safe_utxo_for_conway_tx<'a>(
    tx_body: &pallas_primitives::conway::TransactionBody,
    tx_outs_info: &'a mut Vec<ConwayTxOutInfoMut<'a>>,
) -> UTxOs<'a> {
    let mut utxos: UTxOs = UTxOs::new();

    for (tx_in, (addr, val, datum_opt, script_ref, cbor)) in
        zip(tx_body.inputs.clone().to_vec(), tx_outs_info)
    {
        let multi_era_in: MultiEraInput =
            MultiEraInput::AlonzoCompatible(Box::new(Cow::Owned(tx_in)));
        let address_bytes: Bytes = match hex::decode(addr) {
            Ok(bytes_vec) => Bytes::from(bytes_vec),
            _ => panic!("Unable to decode input address"),
        };
        let post_alonzo = pallas_primitives::conway::PostAlonzoTransactionOutput {
            address: address_bytes,
            value: val.clone(),
            datum_option: datum_opt.clone(),
            script_ref: script_ref.clone(),
        };
        *cbor = minicbor::to_vec(post_alonzo).unwrap();
        let post_alonzo = minicbor::decode::<
            pallas_codec::utils::KeepRaw<
                'a,
                pallas_primitives::conway::PostAlonzoTransactionOutput,
            >,
        >(cbor)
        .unwrap();
        let tx_out = pallas_primitives::conway::TransactionOutput::PostAlonzo(post_alonzo);
        let multi_era_out: MultiEraOutput = MultiEraOutput::Conway(Box::new(Cow::Owned(tx_out)));
        utxos.insert(multi_era_in, multi_era_out);
    }
    utxos
}

pub fn mk_utxo_for_eval(utxos: UTxOs) -> UtxoMap {
    let mut eval_utxos: UtxoMap = UtxoMap::new();

    for (tx_in, tx_out) in utxos {
        eval_utxos.insert(TxoRef::from(&tx_in), EraCbor::from(tx_out));
    }
    eval_utxos
}

pub fn add_collateral_alonzo(
    tx_body: &TransactionBody,
    utxos: &mut UTxOs<'_>,
    collateral_info: &[AlonzoCollateralInfo],
) {
    match &tx_body.collateral {
        Some(collaterals) => {
            for (tx_in, (address, amount, datum_hash)) in zip(collaterals, collateral_info) {
                let address_bytes: Bytes = match hex::decode(address) {
                    Ok(bytes_vec) => Bytes::from(bytes_vec),
                    _ => panic!("Unable to decode input address"),
                };
                let tx_out: TransactionOutput = TransactionOutput {
                    address: address_bytes,
                    amount: amount.clone(),
                    datum_hash: *datum_hash,
                };
                let multi_era_in: MultiEraInput =
                    MultiEraInput::AlonzoCompatible(Box::new(Cow::Owned(tx_in.clone())));
                let multi_era_out: MultiEraOutput =
                    MultiEraOutput::AlonzoCompatible(Box::new(Cow::Owned(tx_out)), Era::Alonzo);
                utxos.insert(multi_era_in, multi_era_out);
            }
        }
        None => panic!("Adding collateral to UTxO failed due to an empty list of collaterals"),
    }
}

pub fn add_collateral_babbage<'a>(
    tx_body: &pallas_primitives::babbage::TransactionBody,
    utxos: &mut UTxOs<'a>,
    collateral_info: &'a [BabbageCollateralInfo<'a>],
) {
    match &tx_body.collateral {
        Some(collaterals) => {
            if collaterals.is_empty() {
                panic!("UTxO addition error - collateral input missing")
            } else {
                for (tx_in, (addr, val, datum_opt, script_ref)) in
                    zip(collaterals.clone(), collateral_info)
                {
                    let multi_era_in: MultiEraInput =
                        MultiEraInput::AlonzoCompatible(Box::new(Cow::Owned(tx_in)));
                    let address_bytes: Bytes = match hex::decode(addr) {
                        Ok(bytes_vec) => Bytes::from(bytes_vec),
                        _ => panic!("Unable to decode input address"),
                    };
                    let tx_out: pallas_primitives::babbage::TransactionOutput =
                        pallas_primitives::babbage::TransactionOutput::PostAlonzo(
                            pallas_primitives::babbage::PostAlonzoTransactionOutput {
                                address: address_bytes,
                                value: val.clone(),
                                datum_option: datum_opt.clone().map(|x| x.into()),
                                script_ref: script_ref.clone(),
                            }
                            .into(),
                        );
                    let multi_era_out: MultiEraOutput =
                        MultiEraOutput::Babbage(Box::new(Cow::Owned(tx_out)));
                    utxos.insert(multi_era_in, multi_era_out);
                }
            }
        }
        None => panic!("UTxO addition error - collateral input missing"),
    }
}

pub fn add_collateral_conway<'a>(
    tx_body: &pallas_primitives::conway::TransactionBody,
    utxos: &mut UTxOs<'a>,
    collateral_info: &'a [ConwayCollateralInfo<'a>],
) {
    match &tx_body.collateral {
        Some(collaterals) => {
            if collaterals.is_empty() {
                panic!("UTxO addition error - collateral input missing")
            } else {
                for (tx_in, (addr, val, datum_opt, script_ref)) in
                    zip(collaterals.clone().to_vec(), collateral_info)
                {
                    let multi_era_in: MultiEraInput =
                        MultiEraInput::AlonzoCompatible(Box::new(Cow::Owned(tx_in)));
                    let address_bytes: Bytes = match hex::decode(addr) {
                        Ok(bytes_vec) => Bytes::from(bytes_vec),
                        _ => panic!("Unable to decode input address"),
                    };
                    let tx_out: pallas_primitives::conway::TransactionOutput =
                        pallas_primitives::conway::TransactionOutput::PostAlonzo(
                            pallas_primitives::conway::PostAlonzoTransactionOutput {
                                address: address_bytes,
                                value: val.clone(),
                                datum_option: datum_opt.clone().map(|x| x.into()),
                                script_ref: script_ref.clone(),
                            }
                            .into(),
                        );
                    let multi_era_out: MultiEraOutput =
                        MultiEraOutput::Conway(Box::new(Cow::Owned(tx_out)));
                    utxos.insert(multi_era_in, multi_era_out);
                }
            }
        }
        None => panic!("UTxO addition error - collateral input missing"),
    }
}

pub fn add_codec_safe_collateral_conway<'a>(
    tx_body: &pallas_primitives::conway::TransactionBody,
    utxos: &mut UTxOs<'a>,
    collateral_info: &'a mut Vec<ConwayCollateralInfoMut<'a>>,
) {
    match &tx_body.collateral {
        Some(collaterals) => {
            if collaterals.is_empty() {
                panic!("UTxO addition error - collateral input missing")
            } else {
                for (tx_in, (addr, val, datum_opt, script_ref, cbor)) in
                    zip(collaterals.clone().to_vec(), collateral_info)
                {
                    let multi_era_in: MultiEraInput =
                        MultiEraInput::AlonzoCompatible(Box::new(Cow::Owned(tx_in)));
                    let address_bytes: Bytes = match hex::decode(addr) {
                        Ok(bytes_vec) => Bytes::from(bytes_vec),
                        _ => panic!("Unable to decode input address"),
                    };
                    let post_alonzo = pallas_primitives::conway::PostAlonzoTransactionOutput {
                        address: address_bytes,
                        value: val.clone(),
                        datum_option: datum_opt.clone(),
                        script_ref: script_ref.clone(),
                    };
                    *cbor = minicbor::to_vec(post_alonzo).unwrap();
                    let post_alonzo = minicbor::decode::<
                        pallas_codec::utils::KeepRaw<
                            'a,
                            pallas_primitives::conway::PostAlonzoTransactionOutput,
                        >,
                    >(cbor)
                    .unwrap();
                    let tx_out =
                        pallas_primitives::conway::TransactionOutput::PostAlonzo(post_alonzo);
                    let multi_era_out: MultiEraOutput =
                        MultiEraOutput::Conway(Box::new(Cow::Owned(tx_out)));
                    utxos.insert(multi_era_in, multi_era_out);
                }
            }
        }
        None => panic!("UTxO addition error - collateral input missing"),
    }
}

pub fn add_ref_input_babbage<'a>(
    tx_body: &pallas_primitives::babbage::TransactionBody,
    utxos: &mut UTxOs<'a>,
    ref_input_info: &'a [BabbageRefInputInfo<'a>],
) {
    match &tx_body.reference_inputs {
        Some(ref_inputs) => {
            if ref_inputs.is_empty() {
                panic!("UTxO addition error - reference input missing")
            } else {
                for (tx_in, (addr, val, datum_opt, script_ref)) in
                    zip(ref_inputs.clone(), ref_input_info)
                {
                    let multi_era_in: MultiEraInput =
                        MultiEraInput::AlonzoCompatible(Box::new(Cow::Owned(tx_in)));
                    let address_bytes: Bytes = match hex::decode(addr) {
                        Ok(bytes_vec) => Bytes::from(bytes_vec),
                        _ => panic!("Unable to decode input address"),
                    };
                    let tx_out: pallas_primitives::babbage::TransactionOutput =
                        pallas_primitives::babbage::TransactionOutput::PostAlonzo(
                            pallas_primitives::babbage::PostAlonzoTransactionOutput {
                                address: address_bytes,
                                value: val.clone(),
                                datum_option: datum_opt.clone().map(|x| x.into()),
                                script_ref: script_ref.clone(),
                            }
                            .into(),
                        );
                    let multi_era_out: MultiEraOutput =
                        MultiEraOutput::Babbage(Box::new(Cow::Owned(tx_out)));
                    utxos.insert(multi_era_in, multi_era_out);
                }
            }
        }
        None => panic!("UTxO addition error - reference input missing"),
    }
}

pub fn add_ref_input_conway<'a>(
    tx_body: &pallas_primitives::conway::TransactionBody,
    utxos: &mut UTxOs<'a>,
    ref_input_info: &'a [ConwayRefInputInfo<'a>],
) {
    match &tx_body.reference_inputs {
        Some(ref_inputs) => {
            if ref_inputs.is_empty() {
                panic!("UTxO addition error - reference input missing")
            } else {
                for (tx_in, (addr, val, datum_opt, script_ref)) in
                    zip(ref_inputs.clone().to_vec(), ref_input_info)
                {
                    let multi_era_in: MultiEraInput =
                        MultiEraInput::AlonzoCompatible(Box::new(Cow::Owned(tx_in)));
                    let address_bytes: Bytes = match hex::decode(addr) {
                        Ok(bytes_vec) => Bytes::from(bytes_vec),
                        _ => panic!("Unable to decode input address"),
                    };
                    let tx_out: pallas_primitives::conway::TransactionOutput =
                        pallas_primitives::conway::TransactionOutput::PostAlonzo(
                            pallas_primitives::conway::PostAlonzoTransactionOutput {
                                address: address_bytes,
                                value: val.clone(),
                                datum_option: datum_opt.clone().map(|x| x.into()),
                                script_ref: script_ref.clone(),
                            }
                            .into(),
                        );
                    let multi_era_out: MultiEraOutput =
                        MultiEraOutput::Conway(Box::new(Cow::Owned(tx_out)));
                    utxos.insert(multi_era_in, multi_era_out);
                }
            }
        }
        None => panic!("UTxO addition error - reference input missing"),
    }
}

pub fn add_codec_safe_ref_input_conway<'a>(
    tx_body: &pallas_primitives::conway::TransactionBody,
    utxos: &mut UTxOs<'a>,
    ref_input_info: &'a mut Vec<ConwayRefInputInfoMut<'a>>,
) {
    match &tx_body.reference_inputs {
        Some(ref_inputs) => {
            if ref_inputs.is_empty() {
                panic!("UTxO addition error - reference input missing")
            } else {
                for (tx_in, (addr, val, datum_opt, script_ref, cbor)) in
                    zip(ref_inputs.clone().to_vec(), ref_input_info)
                {
                    let multi_era_in: MultiEraInput =
                        MultiEraInput::AlonzoCompatible(Box::new(Cow::Owned(tx_in)));
                    let address_bytes: Bytes = match hex::decode(addr) {
                        Ok(bytes_vec) => Bytes::from(bytes_vec),
                        _ => panic!("Unable to decode input address"),
                    };
                    let post_alonzo = pallas_primitives::conway::PostAlonzoTransactionOutput {
                        address: address_bytes,
                        value: val.clone(),
                        datum_option: datum_opt.clone(),
                        script_ref: script_ref.clone(),
                    };
                    *cbor = minicbor::to_vec(post_alonzo).unwrap();
                    let post_alonzo = minicbor::decode::<
                        pallas_codec::utils::KeepRaw<
                            'a,
                            pallas_primitives::conway::PostAlonzoTransactionOutput,
                        >,
                    >(cbor)
                    .unwrap();
                    let tx_out =
                        pallas_primitives::conway::TransactionOutput::PostAlonzo(post_alonzo);
                    let multi_era_out: MultiEraOutput =
                        MultiEraOutput::Conway(Box::new(Cow::Owned(tx_out)));
                    utxos.insert(multi_era_in, multi_era_out);
                }
            }
        }
        None => panic!("UTxO addition error - reference input missing"),
    }
}

}

#[allow(unused, deprecated)]
pub mod byron_fx {
    use super::AnyTx;
    use super::common::{cbor_to_bytes, minted_tx_payload_from_cbor, mk_utxo_for_byron_tx};
    use pallas_validate::{
        
        utils::{
            ByronError, ByronProtParams, CertState, Environment, MultiEraProtocolParameters, UTxOs,
            ValidationError::*,
        },
    };
    use pallas_codec::{
        minicbor::{
            decode::{Decode, Decoder},
            encode,
        },
        utils::{CborWrap, MaybeIndefArray},
    };
    use pallas_primitives::byron::{Twit, Tx, TxOut, TxPayload, Witnesses};
    use pallas_traverse::MultiEraTx;
    use std::vec::Vec;
    macro_rules! hardcoded_environment_values {
        ($($key:ident = $value:expr),*) => {
            {
                #[allow(unused_mut)]
                let mut pparams = ByronProtParams {
                    block_version: (1, 0, 0),
                    start_time: 1506203091,
                    script_version: 0,
                    slot_duration: 20000,
                    max_block_size: 2000000,
                    max_header_size: 2000000,
                    max_tx_size: 4096,
                    max_proposal_size: 700,
                    mpc_thd: 20000000000000,
                    heavy_del_thd: 300000000000,
                    update_vote_thd: 1000000000000,
                    update_proposal_thd: 100000000000000,
                    update_implicit: 10000,
                    soft_fork_rule: (900000000000000, 600000000000000, 50000000000000),
                    summand: 155381,
                    multiplier: 44,
                    unlock_stake_epoch: 18446744073709551615,
                };

                $(
                    pparams.$key = $value;
                )*

                Environment {
                    prot_params: MultiEraProtocolParameters::Byron(pparams),
                    prot_magic: 764824073,
                    block_slot: 6341,
                    network_id: 1,
                    acnt: None,
                }
            }
        }
    }
        // Transaction hash:
    // a9e4413a5fb61a7a43c7df006ffcaaf3f2ffc9541f54757023968c5a8f8294fd
    pub fn successful_mainnet_tx_with_genesis_utxos(k: &mut dyn FnMut(AnyTx, &UTxOs, &Environment, &CertState)) {
        let cbor_bytes: Vec<u8> = cbor_to_bytes(include_str!("/repo/test_data/byron2.tx"));
        let mtxp: TxPayload = minted_tx_payload_from_cbor(&cbor_bytes);
        let metx: MultiEraTx = MultiEraTx::from_byron(&mtxp);
        let utxos: UTxOs = mk_utxo_for_byron_tx(
            &mtxp.transaction,
            &[(
                String::from("83581CDC7E4DD6A44886816DEC9A4B2021056A8FCAF500C09E316028F2985FA002"),
                19999000000,
            )],
        );
        let env: Environment = hardcoded_environment_values!();
        let mut cert_state: CertState = CertState::default();
        k(AnyTx::Byron(&mtxp), &utxos, &env, &cert_state);
    }

        // Transaction hash:
    // a06e5a0150e09f8983be2deafab9e04afc60d92e7110999eb672c903343f1e26
    pub fn successful_mainnet_tx(k: &mut dyn FnMut(AnyTx, &UTxOs, &Environment, &CertState)) {
        let cbor_bytes: Vec<u8> = cbor_to_bytes(include_str!("/repo/test_data/byron1.tx"));
        let mtxp: TxPayload = minted_tx_payload_from_cbor(&cbor_bytes);
        let metx: MultiEraTx = MultiEraTx::from_byron(&mtxp);
        let utxos: UTxOs = mk_utxo_for_byron_tx(
            &mtxp.transaction,
            &[(
                String::from(
                    "83581cff66e7549ee0706abe5ce63ba325f792f2c1145d918baf563db2b457a101581e581cca3e553c9c63c5927480e7434620200eb3a162ef0b6cf6f671ba925100",
                ),
                19999000000,
            )],
        );
        let env: Environment = hardcoded_environment_values!();
        let mut cert_state: CertState = CertState::default();
        k(AnyTx::Byron(&mtxp), &utxos, &env, &cert_state);
    }

}

#[allow(unused, deprecated)]
pub mod shelley_fx {
    use super::AnyTx;
    use super::common::*;
    use pallas_addresses::{Address, Network, ShelleyAddress};
    use pallas_codec::{
        minicbor::{
            decode::{Decode, Decoder},
            encode,
        },
        utils::Bytes,
    };
    use pallas_crypto::hash::Hash;
    use pallas_primitives::alonzo::{
        Certificate, Nonce, NonceVariant, PoolKeyhash, PoolMetadata, RationalNumber, Relay,
        StakeCredential, TransactionBody, TransactionOutput, Tx, VKeyWitness, Value, WitnessSet,
    };
    use pallas_traverse::{Era, MultiEraTx};
    use pallas_validate::utils::PoolParam;
    use pallas_validate::{
        
        utils::{
            AccountState, CertState, Environment, MultiEraProtocolParameters, ShelleyMAError,
            ShelleyProtParams, UTxOs, ValidationError::*,
        },
    };
    use std::str::FromStr;
    macro_rules! hardcoded_environment_values {
        ($($key:ident = $value:expr),*) => {
            {
                #[allow(unused_mut)]
                let mut pparams = ShelleyProtParams {
                    system_start: _sys_start!(),
                    epoch_length: 432000,
                    slot_length: 1,
                    minfee_b: 155381,
                    minfee_a: 44,
                    max_block_body_size: 65536,
                    max_transaction_size: 4096,
                    max_block_header_size: 1100,
                    key_deposit: 2000000,
                    pool_deposit: 500000000,
                    maximum_epoch: 18,
                    desired_number_of_stake_pools: 150,
                    pool_pledge_influence: RationalNumber {
                        // FIX: this is a made-up value.
                        numerator: 1,
                        denominator: 1,
                    },
                    expansion_rate: RationalNumber {
                        // FIX: this is a made-up value.
                        numerator: 1,
                        denominator: 1,
                    },
                    treasury_growth_rate: RationalNumber {
                        // FIX: this is a made-up value.
                        numerator: 1,
                        denominator: 1,
                    },
                    decentralization_constant: RationalNumber {
                        numerator: 1,
                        denominator: 1,
                    },
                    extra_entropy: Nonce {
                        variant: NonceVariant::NeutralNonce,
                        hash: None,
                    },
                    protocol_version: (0, 2),
                    min_utxo_value: 1000000,
                    min_pool_cost: 340000000,
                };

                $(
                    pparams.$key = $value;
                )*

                Environment {
                    prot_params: MultiEraProtocolParameters::Shelley(pparams),
                    prot_magic: 764824073,
                    block_slot: 5281340,
                    network_id: 1,
                    acnt: Some(AccountState {
                        treasury: 261_254_564_000_000,
                        reserves: 0,
                    }),
                }
            }
        }
    }
        // Transaction hash:
    // 50eba65e73c8c5f7b09f4ea28cf15dce169f3d1c322ca3deff03725f51518bb2
    pub fn successful_mainnet_shelley_tx(k: &mut dyn FnMut(AnyTx, &UTxOs, &Environment, &CertState)) {
        let cbor_bytes: Vec<u8> = cbor_to_bytes(include_str!("/repo/test_data/shelley1.tx"));
        let mtx: Tx = minted_tx_from_cbor(&cbor_bytes);
        let metx: MultiEraTx = MultiEraTx::from_alonzo_compatible(&mtx, Era::Shelley);
        let utxos: UTxOs = mk_utxo_for_alonzo_compatible_tx(
            &mtx.transaction_body,
            &[(
                String::from(
                    "0129bb156d52d014bb444a14138cbee36044c6faed37d0c2d49d2358315c465cbf8c5536970e8a29bb7adcda0d663b20007d481813694c64ef",
                ),
                Value::Coin(2332267427205),
                None,
            )],
        );

        let env: Environment = hardcoded_environment_values!();
        let mut cert_state: CertState = CertState::default();
        k(AnyTx::AC(&mtx, metx.era()), &utxos, &env, &cert_state);
    }

        // Transaction hash:
    // 4a3f86762383f1d228542d383ae7ac89cf75cf7ff84dec8148558ea92b0b92d0
    pub fn successful_mainnet_shelley_tx_with_script(k: &mut dyn FnMut(AnyTx, &UTxOs, &Environment, &CertState)) {
        let cbor_bytes: Vec<u8> = cbor_to_bytes(include_str!("/repo/test_data/shelley2.tx"));
        let mtx: Tx = minted_tx_from_cbor(&cbor_bytes);
        let metx: MultiEraTx = MultiEraTx::from_alonzo_compatible(&mtx, Era::Shelley);
        let utxos: UTxOs = mk_utxo_for_alonzo_compatible_tx(
            &mtx.transaction_body,
            &[(
                String::from("7165c197d565e88a20885e535f93755682444d3c02fd44dd70883fe89e"),
                Value::Coin(2000000),
                None,
            )],
        );

        let env: Environment = hardcoded_environment_values!();
        let mut cert_state: CertState = CertState::default();
        k(AnyTx::AC(&mtx, metx.era()), &utxos, &env, &cert_state);
    }

        // Same as successful_mainnet_shelley_tx_with_script, but changing "All" to
    // "any" and deleting one key-witness pair
    pub fn successful_mainnet_shelley_tx_with_changed_script(k: &mut dyn FnMut(AnyTx, &UTxOs, &Environment, &CertState)) {
        let cbor_bytes: Vec<u8> = cbor_to_bytes(include_str!("/repo/test_data/shelley4.tx"));
        let mut mtx: Tx = minted_tx_from_cbor(&cbor_bytes);
        // Delete one VKey witness.
        let mut tx_wits: WitnessSet = mtx.transaction_witness_set.unwrap().clone();
        let wit: VKeyWitness = tx_wits.vkeywitness.unwrap().remove(1);
        tx_wits.vkeywitness = Some(Vec::from([wit]));
        let mut tx_buf: Vec<u8> = Vec::new();
        match encode(tx_wits, &mut tx_buf) {
            Ok(_) => (),
            Err(err) => panic!("Unable to encode Tx ({err:?})"),
        };
        mtx.transaction_witness_set =
            Decode::decode(&mut Decoder::new(tx_buf.as_slice()), &mut ()).unwrap();
        let metx: MultiEraTx = MultiEraTx::from_alonzo_compatible(&mtx, Era::Shelley);
        let utxos: UTxOs = mk_utxo_for_alonzo_compatible_tx(
            &mtx.transaction_body,
            &[(
                String::from("711245ed0e86bc58578e4b06958d5b0ef856ed42e5ee8fa811e0745aba"),
                Value::Coin(2000000),
                None,
            )],
        );

        let env: Environment = hardcoded_environment_values!();
        let mut cert_state: CertState = CertState::default();
        k(AnyTx::AC(&mtx, metx.era()), &utxos, &env, &cert_state);
    }

        // Transaction hash:
    // c220e20cc480df9ce7cd871df491d7390c6a004b9252cf20f45fc3c968535b4a
    pub fn successful_mainnet_shelley_tx_with_metadata(k: &mut dyn FnMut(AnyTx, &UTxOs, &Environment, &CertState)) {
        let cbor_bytes: Vec<u8> = cbor_to_bytes(include_str!("/repo/test_data/shelley3.tx"));
        let mtx: Tx = minted_tx_from_cbor(&cbor_bytes);
        let metx: MultiEraTx = MultiEraTx::from_alonzo_compatible(&mtx, Era::Shelley);
        let utxos: UTxOs = mk_utxo_for_alonzo_compatible_tx(
            &mtx.transaction_body,
            &[(
                String::from("61c96001f4a4e10567ac18be3c47663a00a858f51c56779e94993d30ef"),
                Value::Coin(10000000),
                None,
            )],
        );

        let env: Environment = hardcoded_environment_values!();
        let mut cert_state: CertState = CertState::default();
        k(AnyTx::AC(&mtx, metx.era()), &utxos, &env, &cert_state);
    }

        // Transaction hash:
    // b7b1046d1787ac6917f5bb5841e73b3f4bef8f0a6bf692d05ef18e1db9c3f519
    pub fn successful_mainnet_mary_tx_with_minting(k: &mut dyn FnMut(AnyTx, &UTxOs, &Environment, &CertState)) {
        let cbor_bytes: Vec<u8> = cbor_to_bytes(include_str!("/repo/test_data/mary1.tx"));
        let mtx: Tx = minted_tx_from_cbor(&cbor_bytes);
        let metx: MultiEraTx = MultiEraTx::from_alonzo_compatible(&mtx, Era::Mary);
        let utxos: UTxOs = mk_utxo_for_alonzo_compatible_tx(
            &mtx.transaction_body,
            &[(
                String::from("611489ac0c22c04abc9c6de7f95d71e1ba2c95c9b4e2f6f2900f682285"),
                Value::Coin(3500000),
                None,
            )],
        );

        let env: Environment = hardcoded_environment_values!();
        let mut cert_state: CertState = CertState::default();
        k(AnyTx::AC(&mtx, metx.era()), &utxos, &env, &cert_state);
    }

        // Transaction hash:
    // ce8ba608357e31695ce7be1a4a9875f43b3fd264f106e455e870714f149af925
    pub fn successful_mainnet_mary_tx_with_pool_reg(k: &mut dyn FnMut(AnyTx, &UTxOs, &Environment, &CertState)) {
        let cbor_bytes: Vec<u8> = cbor_to_bytes(include_str!("/repo/test_data/mary2.tx"));
        let mtx: Tx = minted_tx_from_cbor(&cbor_bytes);
        let metx: MultiEraTx = MultiEraTx::from_alonzo_compatible(&mtx, Era::Mary);
        let utxos: UTxOs = mk_utxo_for_alonzo_compatible_tx(
            &mtx.transaction_body,
            &[(
                String::from(
                    "018e8f7a7073b8a95a4c1f1cf412b1042fca4945b89eb11754b3481b29fb2b631db76384f64dd94b47f97fc8c2a206764c17a1de7da2f70e83",
                ),
                Value::Coin(1_507_817_955),
                None,
            )],
        );

        let env: Environment = hardcoded_environment_values!();
        let mut cert_state: CertState = CertState::default();
        let hash =
            Hash::from_str("FB2B631DB76384F64DD94B47F97FC8C2A206764C17A1DE7DA2F70E83").unwrap();
        cert_state
            .dstate
            .rewards
            .insert(StakeCredential::AddrKeyhash(hash), 0);

        k(AnyTx::AC(&mtx, metx.era()), &utxos, &env, &cert_state);
    }

    const MARY3_UTXO: &str = "014faace6b1de3b825da7c7f4308917822049cdedb5868f7623f892d4e39cf0461807b986a6477205e376dac280d7f150eb497025f67c49757";
        // Transaction hash:
    // cc6a92cc0f4ea326439bac6b18bc7b424470c508a99b9aebc8fafc027d906465
    pub fn successful_mainnet_mary_tx_with_stk_deleg(k: &mut dyn FnMut(AnyTx, &UTxOs, &Environment, &CertState)) {
        let cbor_bytes: Vec<u8> = cbor_to_bytes(include_str!("/repo/test_data/mary3.tx"));
        let mtx: Tx = minted_tx_from_cbor(&cbor_bytes);
        let metx: MultiEraTx = MultiEraTx::from_alonzo_compatible(&mtx, Era::Mary);
        let utxos: UTxOs = mk_utxo_for_alonzo_compatible_tx(
            &mtx.transaction_body,
            &[(String::from(MARY3_UTXO), Value::Coin(627_760_000), None)],
        );

        let mut cert_state: CertState = CertState::default();
        cert_state
            .pstate
            .pool_params
            .insert(mary2_pool_operator(), mary2_pool_param());
        k(AnyTx::AC(&mtx, metx.era()), &utxos, &mary3_env(), &cert_state);
    }

    fn mary2_pool_operator() -> PoolKeyhash {
        Hash::from_str("59EBE72AE96462018FBE04633100F90B3066688D85F00F3BD254707F").unwrap()
    }
    // Params for the pool registered in `successful_mainnet_mary_tx_with_pool_reg`
    fn mary2_pool_param() -> PoolParam {
        PoolParam {
            vrf_keyhash: Hash::from_str(
                "1EFB798F239B9B02DEB4636A3AB1962AF43512595FCB82276E11971E684E49B7",
            )
            .unwrap(),
            pledge: 1000000000,
            cost: 340000000,
            margin: RationalNumber {
                numerator: 3,
                denominator: 100,
            },
            reward_account: hex::decode(
                "E1FB2B631DB76384F64DD94B47F97FC8C2A206764C17A1DE7DA2F70E83",
            )
            .unwrap()
            .into(),
            pool_owners: Vec::from([Hash::from_str(
                "FB2B631DB76384F64DD94B47F97FC8C2A206764C17A1DE7DA2F70E83",
            )
            .unwrap()]),
            relays: [Relay::SingleHostAddr(
                Some(3001),
                Some(hex::decode("C22614BB").unwrap().into()),
                None,
            )]
            .to_vec(),
            pool_metadata: Some(PoolMetadata {
                url: "https://cardapool.com/a.json".to_string(),
                hash: "01F708549816C9A075FF96E9682C11A5F5C7F4E147862A663BDEECE0716AB76E"
                    .to_string()
                    .try_into()
                    .unwrap(),
            }),
        }
    }
    fn mary3_env() -> Environment {
        let acnt = AccountState {
            treasury: 374_930_989_230_000,
            reserves: 12_618_536_190_580_000,
        };

        Environment {
            prot_params: MultiEraProtocolParameters::Shelley(ShelleyProtParams {
                system_start: _sys_start!(),
                epoch_length: 432000,
                slot_length: 1,
                minfee_b: 155381,
                minfee_a: 44,
                max_block_body_size: 65536,
                max_transaction_size: 16384,
                max_block_header_size: 1100,
                key_deposit: 2_000_000,
                pool_deposit: 500_000_000,
                maximum_epoch: 18,
                desired_number_of_stake_pools: 500,
                pool_pledge_influence: RationalNumber {
                    numerator: 3,
                    denominator: 10,
                },
                expansion_rate: RationalNumber {
                    numerator: 3,
                    denominator: 1000,
                },
                treasury_growth_rate: RationalNumber {
                    numerator: 2,
                    denominator: 10,
                },
                decentralization_constant: RationalNumber {
                    numerator: 0,
                    denominator: 1,
                },
                extra_entropy: Nonce {
                    variant: NonceVariant::NeutralNonce,
                    hash: None,
                },
                protocol_version: (4, 0),
                min_utxo_value: 1_000_000,
                min_pool_cost: 340_000_000,
            }),
            prot_magic: 764824073,
            block_slot: 29_035_358,
            network_id: 1,
            acnt: Some(acnt),
        }
    }
        // Transaction hash:
    // 99f621beaacefc14ad8912b777422600e707f75bf619b2af20e918b0fe53f882
    // A total of 10_797_095_002 lovelace is drawn from the Treasury.
    pub fn successful_mainnet_allegra_tx_with_mir(k: &mut dyn FnMut(AnyTx, &UTxOs, &Environment, &CertState)) {
        let cbor_bytes: Vec<u8> = cbor_to_bytes(include_str!("/repo/test_data/allegra1.tx"));
        let mtx: Tx = minted_tx_from_cbor(&cbor_bytes);
        let metx: MultiEraTx = MultiEraTx::from_alonzo_compatible(&mtx, Era::Mary);
        let utxos: UTxOs = mk_utxo_for_alonzo_compatible_tx(
            &mtx.transaction_body,
            &[(
                String::from("61b651c2062463499961b9cd594da399a5ec910fceb5c63f9eb55a224a"),
                Value::Coin(96_400_000),
                None,
            )],
        );

        let mut env: Environment = hardcoded_environment_values!(max_transaction_size = 16384);
        env.block_slot = 19282133;

        let mut cert_state: CertState = CertState::default();
        k(AnyTx::AC(&mtx, metx.era()), &utxos, &env, &cert_state);
    }

}

#[allow(unused, deprecated)]
pub mod alonzo_fx {
    use super::AnyTx;
    use pallas_primitives::MaybeIndefArray;
    use super::common::*;
    use pallas_addresses::{Address, Network, ShelleyAddress, ShelleyPaymentPart};
    use pallas_codec::{
        minicbor::{
            decode::{Decode, Decoder},
            encode,
        },
        utils::{Bytes, KeepRaw},
    };
    use pallas_primitives::alonzo::{
        AddrKeyhash, ExUnitPrices, ExUnits, Language, NativeScript, NetworkId, Nonce, NonceVariant,
        PlutusData, RationalNumber, Redeemer, RedeemerTag, TransactionBody, TransactionOutput, Tx,
        VKeyWitness, Value, WitnessSet,
    };
    use pallas_traverse::{Era, MultiEraInput, MultiEraOutput, MultiEraTx};
    use pallas_validate::{
        
        utils::{
            AccountState, AlonzoError, AlonzoProtParams, CertState, Environment,
            MultiEraProtocolParameters, UTxOs, ValidationError::*,
        },
    };
    use std::borrow::Cow;
        // Transaction hash:
    // 704b3b9c96f44cd5676e5dcb5dc0bb2555c66427625ccefe620101665da86868
    pub fn successful_mainnet_tx(k: &mut dyn FnMut(AnyTx, &UTxOs, &Environment, &CertState)) {
        let cbor_bytes: Vec<u8> = cbor_to_bytes(include_str!("/repo/test_data/alonzo1.tx"));
        let mtx: Tx = minted_tx_from_cbor(&cbor_bytes);
        let metx: MultiEraTx = MultiEraTx::from_alonzo_compatible(&mtx, Era::Alonzo);
        let utxos: UTxOs = mk_utxo_for_alonzo_compatible_tx(
            &mtx.transaction_body,
            &[(
                String::from(
                    "018c9ae79bca586ac36dcfdbbf4d2826c685a6969411c338c14973cc7f7bdb37706cd03711fe64747f8cfcfd574c7445cc0378781e77a8cc00",
                ),
                Value::Coin(1549646822),
                None,
            )],
        );

        let acnt = AccountState {
            treasury: 261_254_564_000_000,
            reserves: 0,
        };

        let env: Environment = Environment {
            prot_params: MultiEraProtocolParameters::Alonzo(mk_params_epoch_334()),
            prot_magic: 764824073,
            block_slot: 44237276,
            network_id: 1,
            acnt: Some(acnt),
        };
        let mut cert_state: CertState = CertState::default();
        k(AnyTx::AC(&mtx, Era::Alonzo), &utxos, &env, &cert_state);
    }

        // Transaction hash:
    // 65160f403d2c7419784ae997d32b93a6679d81468af8173ccd7949df6704f7ba
    pub fn successful_mainnet_tx_with_plutus_script(k: &mut dyn FnMut(AnyTx, &UTxOs, &Environment, &CertState)) {
        let cbor_bytes: Vec<u8> = cbor_to_bytes(include_str!("/repo/test_data/alonzo2.tx"));
        let mtx: Tx = minted_tx_from_cbor(&cbor_bytes);
        let metx: MultiEraTx = MultiEraTx::from_alonzo_compatible(&mtx, Era::Alonzo);
        let mut utxos: UTxOs = mk_utxo_for_alonzo_compatible_tx(
            &mtx.transaction_body,
            &[
                (
                    // (tx hash, tx output index):
                    // (117325a52d60be3a1e4072af39d9e630bf61ce59d315d6c1bf4c4d140f8066ea, 0)
                    String::from("714a59ebd93ea53d1bbf7f82232c7b012700a0cf4bb78d879dabb1a20a"),
                    Value::Multiasset(
                        1724100,
                        [(
                            "b001076b34a87e7d48ec46703a6f50f93289582ad9bdbeff7f1e3295"
                                .parse()
                                .unwrap(),
                            [(
                                Bytes::from(hex::decode("4879706562656173747332343233").unwrap()),
                                1,
                            )]
                            .into(),
                        )]
                        .into(),
                    ),
                    Some(
                        hex::decode(
                            "0C125EDC771B9E590D96B3C7B01CC24F906BD552CECE6D861BFA5F23281E0BBE",
                        )
                        .unwrap()
                        .as_slice()
                        .into(),
                    ),
                ),
                (
                    // (tx hash, tx output index):
                    // (d2f9764fa93ae5bcabbb65c7a2f97d1e31188064ae3d2ba1462114453928dd99, 0)
                    String::from(
                        "01c81ffcbc08ff49965d74f90c391541ff1cc2b043ffe41c81d840be8729f2ae5ed49a1734823ba37fd09923f5f7d494ae0efa23dd98ce02da",
                    ),
                    Value::Coin(20292207),
                    None,
                ),
                (
                    // (tx hash, tx output index):
                    // (9fab354c2825376a943e505d13a3861e4d9ad3e177028d7bb2bbabce5453fa11, 0)
                    String::from(
                        "01c81ffcbc08ff49965d74f90c391541ff1cc2b043ffe41c81d840be8729f2ae5ed49a1734823ba37fd09923f5f7d494ae0efa23dd98ce02da",
                    ),
                    Value::Coin(20292207),
                    None,
                ),
                (
                    // (tx hash, tx output index):
                    // (3077a999b1d22cb1a4e5ee485adbde6a4596704a96384fbc9727028b8b28ba47, 0)
                    String::from(
                        "01c81ffcbc08ff49965d74f90c391541ff1cc2b043ffe41c81d840be8729f2ae5ed49a1734823ba37fd09923f5f7d494ae0efa23dd98ce02da",
                    ),
                    Value::Coin(29792207),
                    None,
                ),
                (
                    // (tx hash, tx output index):
                    // (b231aca45a38add7378d2ed7a0822626fee3396821e8791a5af5926807db962d, 0)
                    String::from(
                        "01c81ffcbc08ff49965d74f90c391541ff1cc2b043ffe41c81d840be8729f2ae5ed49a1734823ba37fd09923f5f7d494ae0efa23dd98ce02da",
                    ),
                    Value::Coin(29792207),
                    None,
                ),
                (
                    // (tx hash, tx output index):
                    // (11579a841b3c7a64aa057c9adf993ef42520570450499b0a724c7ef706b2a435, 0)
                    String::from(
                        "01c81ffcbc08ff49965d74f90c391541ff1cc2b043ffe41c81d840be8729f2ae5ed49a1734823ba37fd09923f5f7d494ae0efa23dd98ce02da",
                    ),
                    Value::Coin(61233231),
                    None,
                ),
                (
                    // (tx hash, tx output index):
                    // (b857f98162b753d117464c499d53bbbfec5aa38b94bd624e295a7e3fddc77130, 0)
                    String::from(
                        "01c81ffcbc08ff49965d74f90c391541ff1cc2b043ffe41c81d840be8729f2ae5ed49a1734823ba37fd09923f5f7d494ae0efa23dd98ce02da",
                    ),
                    Value::Coin(20292207),
                    None,
                ),
            ],
        );
        add_collateral_alonzo(
            &mtx.transaction_body,
            &mut utxos,
            &[(
                String::from(
                    "01c81ffcbc08ff49965d74f90c391541ff1cc2b043ffe41c81d840be8729f2ae5ed49a1734823ba37fd09923f5f7d494ae0efa23dd98ce02da",
                ),
                Value::Coin(5000000),
                None,
            )],
        );

        let acnt = AccountState {
            treasury: 261_254_564_000_000,
            reserves: 0,
        };

        let env: Environment = Environment {
            prot_params: MultiEraProtocolParameters::Alonzo(mk_params_epoch_300()),
            prot_magic: 764824073,
            block_slot: 58924928,
            network_id: 1,
            acnt: Some(acnt),
        };
        let mut cert_state: CertState = CertState::default();
        k(AnyTx::AC(&mtx, Era::Alonzo), &utxos, &env, &cert_state);
    }

        // Transaction hash:
    // e55dd217f14615f91b1ac5a31ee75ef1b7397cd5ded298fa38b38e0915dd77a2
    pub fn successful_mainnet_tx_with_minting(k: &mut dyn FnMut(AnyTx, &UTxOs, &Environment, &CertState)) {
        let cbor_bytes: Vec<u8> = cbor_to_bytes(include_str!("/repo/test_data/alonzo3.tx"));
        let mtx: Tx = minted_tx_from_cbor(&cbor_bytes);
        let metx: MultiEraTx = MultiEraTx::from_alonzo_compatible(&mtx, Era::Alonzo);
        let utxos: UTxOs = mk_utxo_for_alonzo_compatible_tx(
            &mtx.transaction_body,
            &[(
                String::from("612e137a27a74aca6caff726fb9da65c371ad2d7f1cc8645648fcc11d1"),
                Value::Coin(100107582),
                None,
            )],
        );

        let acnt = AccountState {
            treasury: 261_254_564_000_000,
            reserves: 0,
        };

        let env: Environment = Environment {
            prot_params: MultiEraProtocolParameters::Alonzo(mk_params_epoch_300()),
            prot_magic: 764824073,
            block_slot: 6447035,
            network_id: 1,
            acnt: Some(acnt),
        };
        let mut cert_state: CertState = CertState::default();
        k(AnyTx::AC(&mtx, Era::Alonzo), &utxos, &env, &cert_state);
    }

        // Transaction hash:
    // 8b6debb3340e5dac098ddb25fa647a99de12a6c1987c98b17ae074d6917dba16
    pub fn successful_mainnet_tx_with_metadata(k: &mut dyn FnMut(AnyTx, &UTxOs, &Environment, &CertState)) {
        let cbor_bytes: Vec<u8> = cbor_to_bytes(include_str!("/repo/test_data/alonzo4.tx"));
        let mtx: Tx = minted_tx_from_cbor(&cbor_bytes);
        let metx: MultiEraTx = MultiEraTx::from_alonzo_compatible(&mtx, Era::Alonzo);
        let utxos: UTxOs = mk_utxo_for_alonzo_compatible_tx(
            &mtx.transaction_body,
            &[(
                String::from(
                    "01f64b141bfa7761c00a48a137b15d433af02c9275dbf52ea95566b59cb4f05ecc9fd8c9066ef7fd907db854c76caf6462b132ce133dc7cc44",
                ),
                Value::Coin(3224834468),
                None,
            )],
        );

        let acnt = AccountState {
            treasury: 261_254_564_000_000,
            reserves: 0,
        };

        let env: Environment = Environment {
            prot_params: MultiEraProtocolParameters::Alonzo(mk_params_epoch_300()),
            prot_magic: 764824073,
            block_slot: 6447038,
            network_id: 1,
            acnt: Some(acnt),
        };
        let mut cert_state: CertState = CertState::default();
        k(AnyTx::AC(&mtx, Era::Alonzo), &utxos, &env, &cert_state);
    }

    fn mk_params_epoch_334() -> AlonzoProtParams {
        AlonzoProtParams {
            system_start: _sys_start!(),
            epoch_length: 432000,
            slot_length: 1,
            minfee_a: 44,
            minfee_b: 155381,
            max_block_body_size: 65536,
            max_transaction_size: 16384,
            max_block_header_size: 1100,
            key_deposit: 2000000,
            pool_deposit: 500000000,
            maximum_epoch: 18,
            desired_number_of_stake_pools: 500,
            pool_pledge_influence: RationalNumber {
                numerator: 3,
                denominator: 10,
            },
            expansion_rate: RationalNumber {
                numerator: 3,
                denominator: 1000,
            },
            treasury_growth_rate: RationalNumber {
                numerator: 2,
                denominator: 10,
            },
            decentralization_constant: RationalNumber {
                numerator: 0,
                denominator: 1,
            },
            extra_entropy: Nonce {
                variant: NonceVariant::NeutralNonce,
                hash: None,
            },
            protocol_version: (6, 0),
            min_pool_cost: 340000000,
            ada_per_utxo_byte: 34482,
            cost_models_for_script_languages: [(
                Language::PlutusV1,
                vec![
                    197209, 0, 1, 1, 396231, 621, 0, 1, 150000, 1000, 0, 1, 150000, 32, 2477736,
                    29175, 4, 29773, 100, 29773, 100, 29773, 100, 29773, 100, 29773, 100, 29773,
                    100, 100, 100, 29773, 100, 150000, 32, 150000, 32, 150000, 32, 150000, 1000, 0,
                    1, 150000, 32, 150000, 1000, 0, 8, 148000, 425507, 118, 0, 1, 1, 150000, 1000,
                    0, 8, 150000, 112536, 247, 1, 150000, 10000, 1, 136542, 1326, 1, 1000, 150000,
                    1000, 1, 150000, 32, 150000, 32, 150000, 32, 1, 1, 150000, 1, 150000, 4,
                    103599, 248, 1, 103599, 248, 1, 145276, 1366, 1, 179690, 497, 1, 150000, 32,
                    150000, 32, 150000, 32, 150000, 32, 150000, 32, 150000, 32, 148000, 425507,
                    118, 0, 1, 1, 61516, 11218, 0, 1, 150000, 32, 148000, 425507, 118, 0, 1, 1,
                    148000, 425507, 118, 0, 1, 1, 2477736, 29175, 4, 0, 82363, 4, 150000, 5000, 0,
                    1, 150000, 32, 197209, 0, 1, 1, 150000, 32, 150000, 32, 150000, 32, 150000, 32,
                    150000, 32, 150000, 32, 150000, 32, 3345831, 1, 1,
                ],
            )]
            .into(),
            execution_costs: ExUnitPrices {
                mem_price: RationalNumber {
                    numerator: 577,
                    denominator: 10000,
                },
                step_price: RationalNumber {
                    numerator: 721,
                    denominator: 10000000,
                },
            },
            max_tx_ex_units: ExUnits {
                mem: 10000000,
                steps: 10000000000,
            },
            max_block_ex_units: ExUnits {
                mem: 50000000,
                steps: 40000000000,
            },
            max_value_size: 5000,
            collateral_percentage: 150,
            max_collateral_inputs: 3,
        }
    }
    fn mk_params_epoch_300() -> AlonzoProtParams {
        AlonzoProtParams {
            system_start: _sys_start!(),
            epoch_length: 432000,
            slot_length: 1,
            minfee_a: 44,
            minfee_b: 155381,
            max_block_body_size: 81920,
            max_transaction_size: 16384,
            max_block_header_size: 1100,
            key_deposit: 2000000,
            pool_deposit: 500000000,
            maximum_epoch: 18,
            desired_number_of_stake_pools: 500,
            pool_pledge_influence: RationalNumber {
                numerator: 3,
                denominator: 10,
            },
            expansion_rate: RationalNumber {
                numerator: 3,
                denominator: 1000,
            },
            treasury_growth_rate: RationalNumber {
                numerator: 2,
                denominator: 10,
            },
            decentralization_constant: RationalNumber {
                numerator: 0,
                denominator: 1,
            },
            extra_entropy: Nonce {
                variant: NonceVariant::NeutralNonce,
                hash: None,
            },
            protocol_version: (6, 0),
            min_pool_cost: 340000000,
            ada_per_utxo_byte: 34482,
            cost_models_for_script_languages: [(
                Language::PlutusV1,
                vec![
                    197209, 0, 1, 1, 396231, 621, 0, 1, 150000, 1000, 0, 1, 150000, 32, 2477736,
                    29175, 4, 29773, 100, 29773, 100, 29773, 100, 29773, 100, 29773, 100, 29773,
                    100, 100, 100, 29773, 100, 150000, 32, 150000, 32, 150000, 32, 150000, 1000, 0,
                    1, 150000, 32, 150000, 1000, 0, 8, 148000, 425507, 118, 0, 1, 1, 150000, 1000,
                    0, 8, 150000, 112536, 247, 1, 150000, 10000, 1, 136542, 1326, 1, 1000, 150000,
                    1000, 1, 150000, 32, 150000, 32, 150000, 32, 1, 1, 150000, 1, 150000, 4,
                    103599, 248, 1, 103599, 248, 1, 145276, 1366, 1, 179690, 497, 1, 150000, 32,
                    150000, 32, 150000, 32, 150000, 32, 150000, 32, 150000, 32, 148000, 425507,
                    118, 0, 1, 1, 61516, 11218, 0, 1, 150000, 32, 148000, 425507, 118, 0, 1, 1,
                    148000, 425507, 118, 0, 1, 1, 2477736, 29175, 4, 0, 82363, 4, 150000, 5000, 0,
                    1, 150000, 32, 197209, 0, 1, 1, 150000, 32, 150000, 32, 150000, 32, 150000, 32,
                    150000, 32, 150000, 32, 150000, 32, 3345831, 1, 1,
                ],
            )]
            .into(),
            execution_costs: ExUnitPrices {
                mem_price: RationalNumber {
                    numerator: 577,
                    denominator: 10000,
                },
                step_price: RationalNumber {
                    numerator: 721,
                    denominator: 10000000,
                },
            },
            max_tx_ex_units: ExUnits {
                mem: 14000000,
                steps: 10000000000,
            },
            max_block_ex_units: ExUnits {
                mem: 62000000,
                steps: 40000000000,
            },
            max_value_size: 5000,
            collateral_percentage: 150,
            max_collateral_inputs: 3,
        }
    }
}

#[allow(unused, deprecated)]
pub mod babbage_fx {
    use super::AnyTx;
    use super::common::*;
    use pallas_primitives::MaybeIndefArray;
    use pallas_addresses::{Address, Network, ShelleyAddress, ShelleyPaymentPart};
    use pallas_codec::minicbor::{
        decode,
        decode::{Decode, Decoder},
        encode, to_vec,
    };
    use pallas_codec::utils::{Bytes, CborWrap, KeepRaw};
    use pallas_primitives::babbage::{
        CostModels, DatumOption, ExUnitPrices, ExUnits, NetworkId, Nonce, NonceVariant, PlutusData,
        PlutusScript, PostAlonzoTransactionOutput, RationalNumber, Redeemer, RedeemerTag,
        ScriptRef, TransactionBody, TransactionOutput, Tx, Value, WitnessSet,
    };
    use pallas_traverse::{MultiEraInput, MultiEraOutput, MultiEraTx};
    use pallas_validate::{
        
        utils::{
            AccountState, BabbageProtParams, CertState, Environment, MultiEraProtocolParameters,
            PostAlonzoError, UTxOs, ValidationError::*, values_are_equal,
        },
    };
    use std::borrow::Cow;
    use std::ops::Deref;
        // Transaction hash:
    // b17d685c42e714238c1fb3abcd40e5c6291ebbb420c9c69b641209607bd00c7d
    pub fn successful_mainnet_tx(k: &mut dyn FnMut(AnyTx, &UTxOs, &Environment, &CertState)) {
        let cbor_bytes: Vec<u8> = cbor_to_bytes(include_str!("/repo/test_data/babbage3.tx"));
        let mtx: Tx = babbage_minted_tx_from_cbor(&cbor_bytes);
        let metx: MultiEraTx = MultiEraTx::from_babbage(&mtx);
        let tx_outs_info: &[BabbageTxOutInfo] = &[(
            String::from(
                "011be1f490912af2fc39f8e3637a2bade2ecbebefe63e8bfef10989cd6f593309a155b0ebb45ff830747e61f98e5b77feaf7529ce9df351382",
            ),
            Value::Coin(103324335),
            None,
            None,
        )];
        let utxos: UTxOs = mk_utxo_for_babbage_tx(&mtx.transaction_body, tx_outs_info);
        let acnt = AccountState {
            treasury: 261_254_564_000_000,
            reserves: 0,
        };

        let env: Environment = Environment {
            prot_params: MultiEraProtocolParameters::Babbage(mk_mainnet_params_epoch_365()),
            prot_magic: 764824073,
            block_slot: 72316896,
            network_id: 1,
            acnt: Some(acnt),
        };
        let mut cert_state: CertState = CertState::default();
        k(AnyTx::Babbage(&mtx), &utxos, &env, &cert_state);
    }

        // Transaction hash:
    // f33d6f7eb877132af7307e385bb24a7d2c12298c8ac0b1460296748810925ccc
    pub fn successful_mainnet_tx_with_plutus_v1_script(k: &mut dyn FnMut(AnyTx, &UTxOs, &Environment, &CertState)) {
        let cbor_bytes: Vec<u8> = cbor_to_bytes(include_str!("/repo/test_data/babbage4.tx"));
        let mtx: Tx = babbage_minted_tx_from_cbor(&cbor_bytes);
        let metx: MultiEraTx = MultiEraTx::from_babbage(&mtx);
        let tx_outs_info: &[BabbageTxOutInfo] = &[
            (
                String::from(
                    "11a55f409501bf65805bb0dc76f6f9ae90b61e19ed870bc0025681360881728e7ed4cf324e1323135e7e6d931f01e30792d9cdf17129cb806d",
                ),
                Value::Coin(25000000),
                Some(DatumOption::Hash(
                    hex::decode("3e8c4b1d396bb8132e5097f5a2f012d97900cbc496a3745db4226cea4cb66465")
                        .unwrap()
                        .as_slice()
                        .into(),
                )),
                None,
            ),
            (
                String::from(
                    "01f1e126304308006938d2e8571842ff87302fff95a037b3fd838451b8b3c9396d0680d912487139cb7fc85aa279ea70e8cdacee4c6cae40fd",
                ),
                Value::Multiasset(
                    1795660,
                    [(
                        "787f0c946b98153500edc0a753e65457250544da8486b17c85708135"
                            .parse()
                            .unwrap(),
                        [(
                            Bytes::from(
                                hex::decode("506572666563744c6567656e64617279446572705365616c")
                                    .unwrap(),
                            ),
                            1,
                        )]
                        .into(),
                    )]
                    .into(),
                ),
                None,
                None,
            ),
        ];
        let mut utxos: UTxOs = mk_utxo_for_babbage_tx(&mtx.transaction_body, tx_outs_info);
        let collateral_info: &[BabbageCollateralInfo] = &[(
            String::from(
                "01f1e126304308006938d2e8571842ff87302fff95a037b3fd838451b8b3c9396d0680d912487139cb7fc85aa279ea70e8cdacee4c6cae40fd",
            ),
            Value::Coin(5000000),
            None,
            None,
        )];
        add_collateral_babbage(&mtx.transaction_body, &mut utxos, collateral_info);
        let acnt = AccountState {
            treasury: 261_254_564_000_000,
            reserves: 0,
        };

        let env: Environment = Environment {
            prot_params: MultiEraProtocolParameters::Babbage(mk_mainnet_params_epoch_365()),
            prot_magic: 764824073,
            block_slot: 72317003,
            network_id: 1,
            acnt: Some(acnt),
        };
        let mut cert_state: CertState = CertState::default();
        k(AnyTx::Babbage(&mtx), &utxos, &env, &cert_state);
    }

        // Transaction hash:
    // ac96a0a2dfdb876b237a8ae674eadab453fd146fb97b221cfd29a1812046fa36
    pub fn successful_mainnet_tx_with_plutus_v2_script(k: &mut dyn FnMut(AnyTx, &UTxOs, &Environment, &CertState)) {
        let cbor_bytes: Vec<u8> = cbor_to_bytes(include_str!("/repo/test_data/babbage7.tx"));
        let mtx: Tx = babbage_minted_tx_from_cbor(&cbor_bytes);
        let metx: MultiEraTx = MultiEraTx::from_babbage(&mtx);
        let tx_outs_info: &[BabbageTxOutInfo] = &[
            (
                String::from(
                    "119068A7A3F008803EDAC87AF1619860F2CDCDE40C26987325ACE138AD81728E7ED4CF324E1323135E7E6D931F01E30792D9CDF17129CB806D",
                ),
                Value::Multiasset(
                    1318860,
                    [(
                        "95ab9a125c900c14cf7d39093e3577b0c8e39c9f7548a8301a28ee2d"
                            .parse()
                            .unwrap(),
                        [(
                            Bytes::from(hex::decode("4164614964696f7431313235").unwrap()),
                            1,
                        )]
                        .into(),
                    )]
                    .into(),
                ),
                Some(DatumOption::Hash(
                    hex::decode("d75ad82787a8d45b85c156c97736d2c6525d6b3a09b5d6297d1b45c6a63bccd3")
                        .unwrap()
                        .as_slice()
                        .into(),
                )),
                None,
            ),
            (
                String::from(
                    "01A7D37F1D43D1197A994D95B3CE15D9AF3B4697CC7CDF9BCD1F81688D3499AC08066B36BC6C2D86A21243B940E84DBE5CAC3FAB5F76AB9229",
                ),
                Value::Coin(231630402),
                None,
                None,
            ),
        ];
        let mut utxos: UTxOs = mk_utxo_for_babbage_tx(&mtx.transaction_body, tx_outs_info);
        let collateral_info: &[BabbageCollateralInfo] = &[(
            String::from(
                "01a7d37f1d43d1197a994d95b3ce15d9af3b4697cc7cdf9bcd1f81688d3499ac08066b36bc6c2d86a21243b940e84dbe5cac3fab5f76ab9229",
            ),
            Value::Coin(5000000),
            None,
            None,
        )];
        add_collateral_babbage(&mtx.transaction_body, &mut utxos, collateral_info);
        let ref_input_info: &[BabbageRefInputInfo] = &[(
            String::from("119068a7a3f008803edac87af1619860f2cdcde40c26987325ace138ad81728e7ed4cf324e1323135e7e6d931f01e30792d9cdf17129cb806d"),
            Value::Coin(40000000),
            None,
            Some(CborWrap(ScriptRef::PlutusV2Script(PlutusScript::<2>(Bytes::from(hex::decode("5909fe010000323232323232323232323232323232323232323232323232323232323232323232323232323232323232323232323232222323232533535533357346064606a0062646464642466002008004a666ae68c0d8c0e00044c848c004008c078d5d0981b8008191baa357426ae88c0d80154ccd5cd1819981b0008991919191919191919191919191919191919191919190919999999999980080b80a8098088078068058048038028018011aba135744004666068eb88004d5d08009aba2002357420026ae88008cc0c9d71aba1001357440046ae84004d5d10011aba1001357440046ae84004d5d10011aba1001357440046ae84004d5d10011981300f1aba1001357440046ae84004d5d1181b001198111192999ab9a30353038001132321233001003002301d357426ae88c0e0008c078d5d0981b8008191baa00135742606a0020606ea8d5d0981a001817911a8011111111111111a80691919299aa99a998149aa99a80109815a481035054380022100203d00303903a03a1533501213302549101350033302330340362350012232333027303803a235001223500122533533302b0440040062153353333026303e040223500222533500321533533303104a0030062153353302b0010031303f3305722533500104c221350022253353305100200a100313304d33047002001300600300215335330370010031303f333302d04b0043370200200600409209008e60720020044266060920102313000333573466e20ccd54c0fc104c0a8cc0f1c024000400266aa608008246a00209600200809208e266ae712410231310004813357389201023132000470023335530360393501b0403501b04233355303603922533535002222253353302200800413038003042213303d001002100103f010333301c303403622350022253353303c00b002100313333020303803a235001222533533302a0210030012133330260220043355303e03f235001223303d002333500120012235002223500322330433370000800466aa608e09046a002446608c004666a0024002e008004ccc0c013400c0048004ccc09c11000c0040084cccc09408400c00800400c0040f140044cc0952410134003330233034036235001223303b00a0025001153353355303403523500122350012222302c533350021303104821001213304e2253350011303404a221350022253353304800200710011300600300c0011302a49010136002213355303603723500122350012222302e533350021303304a2100121330502253350011303604c221350022253353304a00200710011300600300e0033335530310342253353353530283500203f03d203f253353303c001330482253350011302e044221350022253353303000200a135302f001223350022303504b20011300600301003b1302c4901013300133037002001100103a00d1120011533573892010350543500165333573460640020502a666ae68c0c400409c0b8c0ccdd50019baa00133019223355301f020235001223301e002335530220232350012233021002333500137009000380233700002900000099aa980f81011a800911980f001199a800919aa981181211a8009119811001180880080091199806815001000919aa981181211a80091198110011809000800999804012801000812111919807198021a8018139a801013a99a9a80181490a99a8011099a801119a80111980400100091101711119a80210171112999ab9a3370e00c0062a666ae68cdc38028010998068020008158158120a99a80090120121a8008141119a801119a8011198128010009014119a801101411981280100091199ab9a3370e00400204604a44446666aa00866032444600660040024002006002004444466aa603803a46a0024466036004666a0024002052400266600a0080026603c66030006004046444666aa603003603866aa603403646a00244660320046010002666aa6030036446a00444a66a666aa603a03e60106603444a66a00404a200204e46a002446601400400a00c200626604000800604200266aa603403646a00244660320046605e44a66a002260160064426a00444a66a6601800401022444660040140082600c00600800446602644666a0060420040026a00204242444600600842444600200844604e44a66a0020364426a00444a66a6601000400e2602a0022600c0064466aa0046602000603600244a66a004200202e44a66a00202e266ae7000806c8c94ccd5cd180f9811000899190919800801801198079192999ab9a3022302500113232123300100300233301075c464a666ae68c094c0a00044c8cc0514cd4cc028005200110011300e4901022d330033301375c464a66a660180029000080089808249022d3200375a0026ae84d5d118140011bad35742604e0020446ea8004d5d09aba23025002300c35742604800203e6ea8004d5d09aba23022002375c6ae84c084004070dd500091199ab9a3371200400203202e46a002444400844a666ae68cdc79a80100b1a80080b0999ab9a3370e6a0040306a00203002a02e024464a666ae68c06cc0780044c8c8c8c8c8c8c8c848cccc00402401c00c008d5d09aba20045333573466e1d2004001132122230020043574260460042a666ae68c0880044c84888c004010dd71aba1302300215333573460420022244400603c60460026ea8d5d08009aba200233300a75c66014eb9d69aba100135744603c004600a6ae84c074004060dd50009299ab9c001162325333573460326038002264646424660020060046eb4d5d09aba2301d003533357346034603a00226eb8d5d0980e00080b9baa35742603600202c6ea80048c94ccd5cd180c180d80089919191909198008028012999ab9a301b00113232300953335734603c00226464646424466600200c0080066eb4d5d09aba2002375a6ae84004d5d118100019bad35742603e0042a666ae68c0740044c8488c00800cc020d5d0980f80100d180f8009baa35742603a0042a666ae68c070004044060c074004dd51aba135744603600460066ae84c068004054dd5000919192999ab9a30190011321223001003375c6ae84c06800854ccd5cd180c00089909118010019bae35742603400402a60340026ea80048488c00800c888cc06888cccd55cf800900911919807198041803980e8009803180e00098021aba2003357420040166eac0048848cc00400c00888cc05c88cccd55cf800900791980518029aba10023003357440040106eb0004c05088448894cd40044008884cc014008ccd54c01c028014010004c04c88448894cd40044d400c040884ccd4014040c010008ccd54c01c024014010004c0488844894cd4004024884cc020c010008cd54c01801c0100044800488488cc00401000cc03c8894cd40080108854cd4cc02000800c01c4cc01400400c4014400888ccd5cd19b8f0020010030051001220021001220011533573892010350543100164901022d31004901013700370e90001b874800955cf2ab9d2323001001223300330020020011").unwrap()))))),
        )];
        add_ref_input_babbage(&mtx.transaction_body, &mut utxos, ref_input_info);
        let acnt = AccountState {
            treasury: 261_254_564_000_000,
            reserves: 0,
        };

        let env: Environment = Environment {
            prot_params: MultiEraProtocolParameters::Babbage(mk_mainnet_params_epoch_380()),
            prot_magic: 764824073,
            block_slot: 78797255,
            network_id: 1,
            acnt: Some(acnt),
        };
        let mut cert_state: CertState = CertState::default();
        k(AnyTx::Babbage(&mtx), &utxos, &env, &cert_state);
    }

        // Transaction hash:
    // 69d925ee5327bf98cbea8cb3aee3274abb5053d10bf2c51a4fd018f15904ec8e
    pub fn successful_preview_tx_with_plutus_v2_script(k: &mut dyn FnMut(AnyTx, &UTxOs, &Environment, &CertState)) {
        let cbor_bytes: Vec<u8> = cbor_to_bytes(include_str!("/repo/test_data/babbage12.tx"));
        let mtx: Tx = babbage_minted_tx_from_cbor(&cbor_bytes);
        let metx: MultiEraTx = MultiEraTx::from_babbage(&mtx);
        let tx_outs_info: &[BabbageTxOutInfo] = &[
            (
                String::from("60b5f82aaebdc942bb0c8774dc712338b82e5133fe69ebbc3b6312098e"),
                Value::Coin(20000000),
                None,
                None,
            ),
            (
                String::from("708D73F125395466F1D68570447E4F4B87CD633C6728F3802B2DCFCA20"),
                Value::Multiasset(
                    2000000,
                    [(
                        "7F5AC1926607F0D6C000E088CEA67A1EDFDF5CB21F8B7F73412319B0"
                            .parse()
                            .unwrap(),
                        [(
                            Bytes::from(
                                hex::decode(
                                    "B5F82AAEBDC942BB0C8774DC712338B82E5133FE69EBBC3B6312098E",
                                )
                                .unwrap(),
                            ),
                            1,
                        )]
                        .into(),
                    )]
                    .into(),
                ),
                Some(DatumOption::Hash(
                    hex::decode("923918E403BF43C34B4EF6B48EB2EE04BABED17320D8D1B9FF9AD086E86F44EC")
                        .unwrap()
                        .as_slice()
                        .into(),
                )),
                None,
            ),
        ];
        let mut utxos: UTxOs = mk_utxo_for_babbage_tx(&mtx.transaction_body, tx_outs_info);
        let collateral_info: &[BabbageCollateralInfo] = &[(
            String::from("60b5f82aaebdc942bb0c8774dc712338b82e5133fe69ebbc3b6312098e"),
            Value::Coin(20000000),
            None,
            None,
        )];
        add_collateral_babbage(&mtx.transaction_body, &mut utxos, collateral_info);
        let acnt = AccountState {
            treasury: 261_254_564_000_000,
            reserves: 0,
        };

        let env: Environment = Environment {
            prot_params: MultiEraProtocolParameters::Babbage(mk_preview_params_epoch_30()),
            prot_magic: 2,
            block_slot: 2592005,
            network_id: 0,
            acnt: Some(acnt),
        };
        let mut cert_state: CertState = CertState::default();
        k(AnyTx::Babbage(&mtx), &utxos, &env, &cert_state);
    }

        // Transaction hash:
    // 1825d08e4496cca673fd9e47898b92cf97fdc293a40cf5cff99c5b123b364384
    pub fn successful_preprod_tx_with_plutus_v2_script(k: &mut dyn FnMut(AnyTx, &UTxOs, &Environment, &CertState)) {
        let cbor_bytes: Vec<u8> = cbor_to_bytes(include_str!("/repo/test_data/babbage13.tx"));
        let mtx: Tx = babbage_minted_tx_from_cbor(&cbor_bytes);
        let metx: MultiEraTx = MultiEraTx::from_babbage(&mtx);
        let plutus_data_cbor: Vec<u8> = hex::decode(
            "D8799FD8799F1A1DCD650019300BFF1B0000018B2B449D97581C28B3E2B8259FAABB566361635C4F8BBF31FE1388B15565F917C33C85FF"
        ).unwrap();
        let tx_outs_info: &[BabbageTxOutInfo] = &[
            (
                String::from(
                    "30DAB18165AE50399C5E477E0CFB38D0B35B32C75F7EB150EBC7874A5EDAB18165AE50399C5E477E0CFB38D0B35B32C75F7EB150EBC7874A5E",
                ),
                Value::Multiasset(
                    2000000,
                    [(
                        "CCFC2EFE9C1C360EF60D7D2E35CDD359FAD373A62A8905345F8A8BC4"
                            .parse()
                            .unwrap(),
                        [(
                            Bytes::from(hex::decode("4F7261636C65546872656164546F6B656E").unwrap()),
                            1,
                        )]
                        .into(),
                    )]
                    .into(),
                ),
                Some(DatumOption::Data(CborWrap(
                    KeepRaw::<PlutusData>::decode(&mut Decoder::new(&plutus_data_cbor), &mut ())
                        .unwrap(),
                ))),
                None,
            ),
            (
                String::from(
                    "0028B3E2B8259FAABB566361635C4F8BBF31FE1388B15565F917C33C85700D57DE08040F55793195E7ED87E693DBFCF4A62CF3597B1BC93567",
                ),
                Value::Coin(86112645),
                None,
                None,
            ),
        ];
        let mut utxos: UTxOs = mk_utxo_for_babbage_tx(&mtx.transaction_body, tx_outs_info);
        let collateral_info: &[BabbageCollateralInfo] = &[(
            String::from(
                "0028B3E2B8259FAABB566361635C4F8BBF31FE1388B15565F917C33C85700D57DE08040F55793195E7ED87E693DBFCF4A62CF3597B1BC93567",
            ),
            Value::Coin(70884589),
            None,
            None,
        )];
        add_collateral_babbage(&mtx.transaction_body, &mut utxos, collateral_info);
        let acnt = AccountState {
            treasury: 261_254_564_000_000,
            reserves: 0,
        };

        let env: Environment = Environment {
            prot_params: MultiEraProtocolParameters::Babbage(mk_preprod_params_epoch_100()),
            prot_magic: 1,
            block_slot: 41558438,
            network_id: 0,
            acnt: Some(acnt),
        };
        let mut cert_state: CertState = CertState::default();
        k(AnyTx::Babbage(&mtx), &utxos, &env, &cert_state);
    }

        // Transaction hash:
    // 8702b0a5835c16663101f68295e33e3b3868c487f736d3c8a0a4246242675a15
    pub fn successful_mainnet_tx_with_minting(k: &mut dyn FnMut(AnyTx, &UTxOs, &Environment, &CertState)) {
        let cbor_bytes: Vec<u8> = cbor_to_bytes(include_str!("/repo/test_data/babbage5.tx"));
        let mtx: Tx = babbage_minted_tx_from_cbor(&cbor_bytes);
        let metx: MultiEraTx = MultiEraTx::from_babbage(&mtx);
        let tx_outs_info: &[BabbageTxOutInfo] = &[
            (
                String::from("719b85d5e8611945505f078aeededcbed1d6ca11053f61e3f9d999fe44"),
                Value::Multiasset(
                    2034438,
                    [
                        (
                            "D195CA7DB29F0F13A00CAC7FCA70426FF60BAD4E1E87D3757FAE8484"
                                .parse()
                                .unwrap(),
                            [(
                                Bytes::from(
                                    hex::decode("323738333331333737")
                                        .unwrap(),
                                ),
                                1,
                            )].into(),
                        ),
                        (
                            "E4214B7CCE62AC6FBBA385D164DF48E157EAE5863521B4B67CA71D86"
                                .parse()
                                .unwrap(),
                            [(
                                Bytes::from(
                                    hex::decode("39B9B709AC8605FC82116A2EFC308181BA297C11950F0F350001E28F0E50868B")
                                        .unwrap(),
                                ),
                                42555569,
                            )].into(),
                        ),
                    ].into(),
                ),
                Some(DatumOption::Hash(
                    hex::decode("BB6F798DF7709327DB5BEB6C7A20BA5F170DE1841DDC38F98E192CD36E857B22")
                        .unwrap()
                        .as_slice()
                        .into(),
                )),
                None,
            ),
            (
                String::from("0121316dbc84420a5ee7461438483564c41fae876029319b3ee641fe4422339411d2df4c9c7c50b3d8f88db98d475e9d1bccd4244b412fbe5e"),
                Value::Multiasset(
                    197714998,
                    [(
                        "29D222CE763455E3D7A09A665CE554F00AC89D2E99A1A83D267170C6"
                            .parse()
                            .unwrap(),
                        [(
                            Bytes::from(
                                hex::decode("4D494E")
                                    .unwrap(),
                            ),
                            4913396066,
                        )].into(),
                    )].into(),
                ),
                None,
                None,
            ),
        ];
        let mut utxos: UTxOs = mk_utxo_for_babbage_tx(&mtx.transaction_body, tx_outs_info);
        let collateral_info: &[BabbageCollateralInfo] = &[(
            String::from(
                "0121316dbc84420a5ee7461438483564c41fae876029319b3ee641fe4422339411d2df4c9c7c50b3d8f88db98d475e9d1bccd4244b412fbe5e",
            ),
            Value::Coin(5000000),
            None,
            None,
        )];
        add_collateral_babbage(&mtx.transaction_body, &mut utxos, collateral_info);
        let acnt = AccountState {
            treasury: 261_254_564_000_000,
            reserves: 0,
        };

        let env: Environment = Environment {
            prot_params: MultiEraProtocolParameters::Babbage(mk_mainnet_params_epoch_365()),
            prot_magic: 764824073,
            block_slot: 72316896,
            network_id: 1,
            acnt: Some(acnt),
        };
        let mut cert_state: CertState = CertState::default();
        k(AnyTx::Babbage(&mtx), &utxos, &env, &cert_state);
    }

        // Transaction hash:
    // 7ae8cbe887d5d4cdaa51bce93d296206d4fcc77963e65fad3a64d0e6df672260
    pub fn successful_mainnet_tx_with_metadata(k: &mut dyn FnMut(AnyTx, &UTxOs, &Environment, &CertState)) {
        let cbor_bytes: Vec<u8> = cbor_to_bytes(include_str!("/repo/test_data/babbage6.tx"));
        let mtx: Tx = babbage_minted_tx_from_cbor(&cbor_bytes);
        let metx: MultiEraTx = MultiEraTx::from_babbage(&mtx);
        let tx_outs_info: &[BabbageTxOutInfo] = &[
            (
                String::from(
                    "11A55F409501BF65805BB0DC76F6F9AE90B61E19ED870BC0025681360881728E7ED4CF324E1323135E7E6D931F01E30792D9CDF17129CB806D",
                ),
                Value::Multiasset(
                    1689618,
                    [(
                        "dc8f23301b0e3d71af9ac5d1559a060271aa6cf56ac98bdaeea19e18"
                            .parse()
                            .unwrap(),
                        [(Bytes::from(hex::decode("303734").unwrap()), 1)].into(),
                    )]
                    .into(),
                ),
                Some(DatumOption::Hash(
                    hex::decode("d5b534d58e737861bac5135b5242297b3465c146cc0ddae0bd52547c52305ee7")
                        .unwrap()
                        .as_slice()
                        .into(),
                )),
                None,
            ),
            (
                String::from(
                    "01EDA33318624ADE03D53B7E954713D9E69440891F0D02E823267B610D6018DC6C7989A46EC26822425A3D2BAC60EEC2682A022740361ED957",
                ),
                Value::Coin(5000000),
                None,
                None,
            ),
        ];
        let mut utxos: UTxOs = mk_utxo_for_babbage_tx(&mtx.transaction_body, tx_outs_info);
        let collateral_info: &[BabbageCollateralInfo] = &[(
            String::from(
                "01eda33318624ade03d53b7e954713d9e69440891f0d02e823267b610d6018dc6c7989a46ec26822425a3d2bac60eec2682a022740361ed957",
            ),
            Value::Coin(5000000),
            None,
            None,
        )];
        add_collateral_babbage(&mtx.transaction_body, &mut utxos, collateral_info);
        let acnt = AccountState {
            treasury: 261_254_564_000_000,
            reserves: 0,
        };

        let env: Environment = Environment {
            prot_params: MultiEraProtocolParameters::Babbage(mk_mainnet_params_epoch_365()),
            prot_magic: 764824073,
            block_slot: 72316896,
            network_id: 1,
            acnt: Some(acnt),
        };
        let mut cert_state: CertState = CertState::default();
        k(AnyTx::Babbage(&mtx), &utxos, &env, &cert_state);
    }

    fn mk_mainnet_params_epoch_365() -> BabbageProtParams {
        BabbageProtParams {
            system_start: _sys_start!(),
            epoch_length: 432000,
            slot_length: 1,
            minfee_a: 44,
            minfee_b: 155381,
            max_block_body_size: 90112,
            max_transaction_size: 16384,
            max_block_header_size: 1100,
            key_deposit: 2000000,
            pool_deposit: 500000000,
            maximum_epoch: 18,
            desired_number_of_stake_pools: 500,
            pool_pledge_influence: RationalNumber {
                numerator: 3,
                denominator: 10,
            },
            expansion_rate: RationalNumber {
                numerator: 3,
                denominator: 1000,
            },
            treasury_growth_rate: RationalNumber {
                numerator: 2,
                denominator: 10,
            },
            decentralization_constant: RationalNumber {
                numerator: 0,
                denominator: 1,
            },
            extra_entropy: Nonce {
                variant: NonceVariant::NeutralNonce,
                hash: None,
            },
            protocol_version: (7, 0),
            min_pool_cost: 340000000,
            ada_per_utxo_byte: 4310,
            cost_models_for_script_languages: CostModels {
                plutus_v1: Some(vec![
                    197209, 0, 1, 1, 396231, 621, 0, 1, 150000, 1000, 0, 1, 150000, 32, 2477736,
                    29175, 4, 29773, 100, 29773, 100, 29773, 100, 29773, 100, 29773, 100, 29773,
                    100, 100, 100, 29773, 100, 150000, 32, 150000, 32, 150000, 32, 150000, 1000, 0,
                    1, 150000, 32, 150000, 1000, 0, 8, 148000, 425507, 118, 0, 1, 1, 150000, 1000,
                    0, 8, 150000, 112536, 247, 1, 150000, 10000, 1, 136542, 1326, 1, 1000, 150000,
                    1000, 1, 150000, 32, 150000, 32, 150000, 32, 1, 1, 150000, 1, 150000, 4,
                    103599, 248, 1, 103599, 248, 1, 145276, 1366, 1, 179690, 497, 1, 150000, 32,
                    150000, 32, 150000, 32, 150000, 32, 150000, 32, 150000, 32, 148000, 425507,
                    118, 0, 1, 1, 61516, 11218, 0, 1, 150000, 32, 148000, 425507, 118, 0, 1, 1,
                    148000, 425507, 118, 0, 1, 1, 2477736, 29175, 4, 0, 82363, 4, 150000, 5000, 0,
                    1, 150000, 32, 197209, 0, 1, 1, 150000, 32, 150000, 32, 150000, 32, 150000, 32,
                    150000, 32, 150000, 32, 150000, 32, 3345831, 1, 1,
                ]),

                plutus_v2: None,
            },
            execution_costs: ExUnitPrices {
                mem_price: RationalNumber {
                    numerator: 577,
                    denominator: 10000,
                },
                step_price: RationalNumber {
                    numerator: 721,
                    denominator: 10000000,
                },
            },
            max_tx_ex_units: ExUnits {
                mem: 14000000,
                steps: 10000000000,
            },
            max_block_ex_units: ExUnits {
                mem: 62000000,
                steps: 40000000000,
            },
            max_value_size: 5000,
            collateral_percentage: 150,
            max_collateral_inputs: 3,
        }
    }
    fn mk_mainnet_params_epoch_380() -> BabbageProtParams {
        BabbageProtParams {
            system_start: _sys_start!(),
            epoch_length: 432000,
            slot_length: 1,
            minfee_a: 44,
            minfee_b: 155381,
            max_block_body_size: 90112,
            max_transaction_size: 16384,
            max_block_header_size: 1100,
            key_deposit: 2000000,
            pool_deposit: 500000000,
            maximum_epoch: 18,
            desired_number_of_stake_pools: 500,
            pool_pledge_influence: RationalNumber {
                numerator: 3,
                denominator: 10,
            },
            expansion_rate: RationalNumber {
                numerator: 3,
                denominator: 1000,
            },
            treasury_growth_rate: RationalNumber {
                numerator: 2,
                denominator: 10,
            },
            decentralization_constant: RationalNumber {
                numerator: 0,
                denominator: 1,
            },
            extra_entropy: Nonce {
                variant: NonceVariant::NeutralNonce,
                hash: None,
            },
            protocol_version: (7, 0),
            min_pool_cost: 340000000,
            ada_per_utxo_byte: 4310,
            cost_models_for_script_languages: CostModels {
                plutus_v1: Some(vec![
                    205665, 812, 1, 1, 1000, 571, 0, 1, 1000, 24177, 4, 1, 1000, 32, 117366, 10475,
                    4, 23000, 100, 23000, 100, 23000, 100, 23000, 100, 23000, 100, 23000, 100, 100,
                    100, 23000, 100, 19537, 32, 175354, 32, 46417, 4, 221973, 511, 0, 1, 89141, 32,
                    497525, 14068, 4, 2, 196500, 453240, 220, 0, 1, 1, 1000, 28662, 4, 2, 245000,
                    216773, 62, 1, 1060367, 12586, 1, 208512, 421, 1, 187000, 1000, 52998, 1,
                    80436, 32, 43249, 32, 1000, 32, 80556, 1, 57667, 4, 1000, 10, 197145, 156, 1,
                    197145, 156, 1, 204924, 473, 1, 208896, 511, 1, 52467, 32, 64832, 32, 65493,
                    32, 22558, 32, 16563, 32, 76511, 32, 196500, 453240, 220, 0, 1, 1, 69522,
                    11687, 0, 1, 60091, 32, 196500, 453240, 220, 0, 1, 1, 196500, 453240, 220, 0,
                    1, 1, 806990, 30482, 4, 1927926, 82523, 4, 265318, 0, 4, 0, 85931, 32, 205665,
                    812, 1, 1, 41182, 32, 212342, 32, 31220, 32, 32696, 32, 43357, 32, 32247, 32,
                    38314, 32, 9462713, 1021, 10,
                ]),

                plutus_v2: Some(vec![
                    205665,
                    812,
                    1,
                    1,
                    1000,
                    571,
                    0,
                    1,
                    1000,
                    24177,
                    4,
                    1,
                    1000,
                    32,
                    117366,
                    10475,
                    4,
                    23000,
                    100,
                    23000,
                    100,
                    23000,
                    100,
                    23000,
                    100,
                    23000,
                    100,
                    23000,
                    100,
                    100,
                    100,
                    23000,
                    100,
                    19537,
                    32,
                    175354,
                    32,
                    46417,
                    4,
                    221973,
                    511,
                    0,
                    1,
                    89141,
                    32,
                    497525,
                    14068,
                    4,
                    2,
                    196500,
                    453240,
                    220,
                    0,
                    1,
                    1,
                    1000,
                    28662,
                    4,
                    2,
                    245000,
                    216773,
                    62,
                    1,
                    1060367,
                    12586,
                    1,
                    208512,
                    421,
                    1,
                    187000,
                    1000,
                    52998,
                    1,
                    80436,
                    32,
                    43249,
                    32,
                    1000,
                    32,
                    80556,
                    1,
                    57667,
                    4,
                    1000,
                    10,
                    197145,
                    156,
                    1,
                    197145,
                    156,
                    1,
                    204924,
                    473,
                    1,
                    208896,
                    511,
                    1,
                    52467,
                    32,
                    64832,
                    32,
                    65493,
                    32,
                    22558,
                    32,
                    16563,
                    32,
                    76511,
                    32,
                    196500,
                    453240,
                    220,
                    0,
                    1,
                    1,
                    69522,
                    11687,
                    0,
                    1,
                    60091,
                    32,
                    196500,
                    453240,
                    220,
                    0,
                    1,
                    1,
                    196500,
                    453240,
                    220,
                    0,
                    1,
                    1,
                    1159724,
                    392670,
                    0,
                    2,
                    806990,
                    30482,
                    4,
                    1927926,
                    82523,
                    4,
                    265318,
                    0,
                    4,
                    0,
                    85931,
                    32,
                    205665,
                    812,
                    1,
                    1,
                    41182,
                    32,
                    212342,
                    32,
                    31220,
                    32,
                    32696,
                    32,
                    43357,
                    32,
                    32247,
                    32,
                    38314,
                    32,
                    20000000000,
                    20000000000,
                    9462713,
                    1021,
                    10,
                    20000000000,
                    0,
                    20000000000,
                ]),
            },
            execution_costs: ExUnitPrices {
                mem_price: RationalNumber {
                    numerator: 577,
                    denominator: 10000,
                },
                step_price: RationalNumber {
                    numerator: 721,
                    denominator: 10000000,
                },
            },
            max_tx_ex_units: ExUnits {
                mem: 14000000,
                steps: 10000000000,
            },
            max_block_ex_units: ExUnits {
                mem: 62000000,
                steps: 40000000000,
            },
            max_value_size: 5000,
            collateral_percentage: 150,
            max_collateral_inputs: 3,
        }
    }
    fn mk_preview_params_epoch_30() -> BabbageProtParams {
        BabbageProtParams {
            system_start: _sys_start!(),
            epoch_length: 432000,
            slot_length: 1,
            minfee_a: 44,
            minfee_b: 155381,
            max_block_body_size: 90112,
            max_transaction_size: 16384,
            max_block_header_size: 1100,
            key_deposit: 2000000,
            pool_deposit: 500000000,
            maximum_epoch: 18,
            desired_number_of_stake_pools: 500,
            pool_pledge_influence: RationalNumber {
                numerator: 3,
                denominator: 10,
            },
            expansion_rate: RationalNumber {
                numerator: 3,
                denominator: 1000,
            },
            treasury_growth_rate: RationalNumber {
                numerator: 2,
                denominator: 10,
            },
            decentralization_constant: RationalNumber {
                numerator: 0,
                denominator: 1,
            },
            extra_entropy: Nonce {
                variant: NonceVariant::NeutralNonce,
                hash: None,
            },
            protocol_version: (8, 0),
            min_pool_cost: 340000000,
            ada_per_utxo_byte: 4310,
            cost_models_for_script_languages: CostModels {
                plutus_v1: Some(vec![
                    205665, 812, 1, 1, 1000, 571, 0, 1, 1000, 24177, 4, 1, 1000, 32, 117366, 10475,
                    4, 23000, 100, 23000, 100, 23000, 100, 23000, 100, 23000, 100, 23000, 100, 100,
                    100, 23000, 100, 19537, 32, 175354, 32, 46417, 4, 221973, 511, 0, 1, 89141, 32,
                    497525, 14068, 4, 2, 196500, 453240, 220, 0, 1, 1, 1000, 28662, 4, 2, 245000,
                    216773, 62, 1060367, 12586, 1, 208512, 421, 1, 187000, 1000, 52998, 1, 80436,
                    32, 43249, 32, 1000, 32, 80556, 1, 57667, 4, 1000, 10, 197145, 156, 1, 197145,
                    156, 1, 204924, 473, 1, 208896, 511, 1, 52467, 32, 64832, 32, 65493, 32, 22558,
                    32, 16563, 32, 76511, 32, 196500, 453240, 220, 0, 1, 1, 69522, 11687, 0, 1,
                    60091, 32, 196500, 453240, 220, 0, 1, 1, 196500, 453240, 220, 0, 1, 1, 806990,
                    30482, 4, 1927926, 82523, 4, 265318, 0, 4, 0, 85931, 32, 205665, 812, 1, 1,
                    41182, 32, 212342, 32, 31220, 32, 32696, 32, 43357, 32, 32247, 32, 38314, 32,
                    9462713, 1021, 10,
                ]),

                plutus_v2: Some(vec![
                    205665, 812, 1, 1, 1000, 571, 0, 1, 1000, 24177, 4, 1, 1000, 32, 117366, 10475,
                    4, 23000, 100, 23000, 100, 23000, 100, 23000, 100, 23000, 100, 23000, 100, 100,
                    100, 23000, 100, 19537, 32, 175354, 32, 46417, 4, 221973, 511, 0, 1, 89141, 32,
                    497525, 14068, 4, 2, 196500, 453240, 220, 0, 1, 1, 1000, 28662, 4, 2, 245000,
                    216773, 62, 1, 1060367, 12586, 1, 208512, 421, 1, 187000, 1000, 52998, 1,
                    80436, 32, 43249, 32, 1000, 32, 80556, 1, 57667, 4, 1000, 10, 197145, 156, 1,
                    197145, 156, 1, 204924, 473, 1, 208896, 511, 1, 52467, 32, 64832, 32, 65493,
                    32, 22558, 32, 16563, 32, 76511, 32, 196500, 453240, 220, 0, 1, 1, 69522,
                    11687, 0, 1, 60091, 32, 196500, 453240, 220, 0, 1, 1, 196500, 453240, 220, 0,
                    1, 1, 1159724, 392670, 0, 2, 806990, 30482, 4, 1927926, 82523, 4, 265318, 0, 4,
                    0, 85931, 32, 205665, 812, 1, 1, 41182, 32, 212342, 32, 31220, 32, 32696, 32,
                    43357, 32, 32247, 32, 38314, 32, 35892428, 10, 9462713, 1021, 10, 38887044,
                    32947, 10,
                ]),
            },
            execution_costs: ExUnitPrices {
                mem_price: RationalNumber {
                    numerator: 577,
                    denominator: 10000,
                },
                step_price: RationalNumber {
                    numerator: 721,
                    denominator: 10000000,
                },
            },
            max_tx_ex_units: ExUnits {
                mem: 14000000,
                steps: 10000000000,
            },
            max_block_ex_units: ExUnits {
                mem: 62000000,
                steps: 40000000000,
            },
            max_value_size: 5000,
            collateral_percentage: 150,
            max_collateral_inputs: 3,
        }
    }
    fn mk_preprod_params_epoch_100() -> BabbageProtParams {
        BabbageProtParams {
            system_start: _sys_start!(),
            epoch_length: 432000,
            slot_length: 1,
            minfee_a: 44,
            minfee_b: 155381,
            max_block_body_size: 90112,
            max_transaction_size: 16384,
            max_block_header_size: 1100,
            key_deposit: 2000000,
            pool_deposit: 500000000,
            maximum_epoch: 18,
            desired_number_of_stake_pools: 500,
            pool_pledge_influence: RationalNumber {
                numerator: 3,
                denominator: 10,
            },
            expansion_rate: RationalNumber {
                numerator: 3,
                denominator: 1000,
            },
            treasury_growth_rate: RationalNumber {
                numerator: 2,
                denominator: 10,
            },
            decentralization_constant: RationalNumber {
                numerator: 0,
                denominator: 1,
            },
            extra_entropy: Nonce {
                variant: NonceVariant::NeutralNonce,
                hash: None,
            },
            protocol_version: (8, 0),
            min_pool_cost: 340000000,
            ada_per_utxo_byte: 4310,
            cost_models_for_script_languages: CostModels {
                plutus_v1: Some(vec![
                    205665, 812, 1, 1, 1000, 571, 0, 1, 1000, 24177, 4, 1, 1000, 32, 117366, 10475,
                    4, 23000, 100, 23000, 100, 23000, 100, 23000, 100, 23000, 100, 23000, 100, 100,
                    100, 23000, 100, 19537, 32, 175354, 32, 46417, 4, 221973, 511, 0, 1, 89141, 32,
                    497525, 14068, 4, 2, 196500, 453240, 220, 0, 1, 1, 1000, 28662, 4, 2, 245000,
                    216773, 62, 1, 1060367, 12586, 1, 208512, 421, 1, 187000, 1000, 52998, 1,
                    80436, 32, 43249, 32, 1000, 32, 80556, 1, 57667, 4, 1000, 10, 197145, 156, 1,
                    197145, 156, 1, 204924, 473, 1, 208896, 511, 1, 52467, 32, 64832, 32, 65493,
                    32, 22558, 32, 16563, 32, 76511, 32, 196500, 453240, 220, 0, 1, 1, 69522,
                    11687, 0, 1, 60091, 32, 196500, 453240, 220, 0, 1, 1, 196500, 453240, 220, 0,
                    1, 1, 806990, 30482, 4, 1927926, 82523, 4, 265318, 0, 4, 0, 85931, 32, 205665,
                    812, 1, 1, 41182, 32, 212342, 32, 31220, 32, 32696, 32, 43357, 32, 32247, 32,
                    38314, 32, 57996947, 18975, 10,
                ]),

                plutus_v2: Some(vec![
                    205665, 812, 1, 1, 1000, 571, 0, 1, 1000, 24177, 4, 1, 1000, 32, 117366, 10475,
                    4, 23000, 100, 23000, 100, 23000, 100, 23000, 100, 23000, 100, 23000, 100, 100,
                    100, 23000, 100, 19537, 32, 175354, 32, 46417, 4, 221973, 511, 0, 1, 89141, 32,
                    497525, 14068, 4, 2, 196500, 453240, 220, 0, 1, 1, 1000, 28662, 4, 2, 245000,
                    216773, 62, 1, 1060367, 12586, 1, 208512, 421, 1, 187000, 1000, 52998, 1,
                    80436, 32, 43249, 32, 1000, 32, 80556, 1, 57667, 4, 1000, 10, 197145, 156, 1,
                    197145, 156, 1, 204924, 473, 1, 208896, 511, 1, 52467, 32, 64832, 32, 65493,
                    32, 22558, 32, 16563, 32, 76511, 32, 196500, 453240, 220, 0, 1, 1, 69522,
                    11687, 0, 1, 60091, 32, 196500, 453240, 220, 0, 1, 1, 196500, 453240, 220, 0,
                    1, 1, 1159724, 392670, 0, 2, 806990, 30482, 4, 1927926, 82523, 4, 265318, 0, 4,
                    0, 85931, 32, 205665, 812, 1, 1, 41182, 32, 212342, 32, 31220, 32, 32696, 32,
                    43357, 32, 32247, 32, 38314, 32, 35892428, 10, 57996947, 18975, 10, 38887044,
                    32947, 10,
                ]),
            },
            execution_costs: ExUnitPrices {
                mem_price: RationalNumber {
                    numerator: 577,
                    denominator: 10000,
                },
                step_price: RationalNumber {
                    numerator: 721,
                    denominator: 10000000,
                },
            },
            max_tx_ex_units: ExUnits {
                mem: 14000000,
                steps: 10000000000,
            },
            max_block_ex_units: ExUnits {
                mem: 62000000,
                steps: 20000000000,
            },
            max_value_size: 5000,
            collateral_percentage: 150,
            max_collateral_inputs: 3,
        }
    }
}

#[allow(unused, deprecated)]
pub mod conway_fx {
    use super::AnyTx;
    use super::common::*;
    use pallas_codec::minicbor;
    use pallas_codec::minicbor::{
        decode::{Decode, Decoder},
        encode,
    };
    use pallas_codec::utils::{Bytes, CborWrap, KeepRaw};
    use pallas_primitives::conway::{
        CostModels, DatumOption, ExUnits, NetworkId, PlutusScript, RationalNumber, ScriptRef,
        TransactionBody, Tx, Value,
    };
    use pallas_primitives::{
        Set,
        conway::{DRepVotingThresholds, PoolVotingThresholds, TransactionOutput},
    };
    use pallas_traverse::MultiEraTx;
    use pallas_validate::{
        
        utils::{
            AccountState, CertState, ConwayProtParams, Environment, MultiEraProtocolParameters,
            PostAlonzoError, UTxOs, ValidationError::*, conway_values_are_equal,
        },
    };
    use std::{borrow::Cow, collections::BTreeMap};
    use pallas_addresses::{Address, ShelleyAddress, ShelleyPaymentPart};
    use pallas_primitives::{PositiveCoin, conway::PostAlonzoTransactionOutput};
    use pallas_traverse::{MultiEraInput, MultiEraOutput};
        // Transaction hash:
    // 90bd64b133e327daecfa0cc60c26f3b96fc6f0285a6d96cc122819908b3aaf93
    pub fn successful_mainnet_tx(k: &mut dyn FnMut(AnyTx, &UTxOs, &Environment, &CertState)) {
        let cbor_bytes: Vec<u8> = cbor_to_bytes(include_str!("/repo/test_data/conway3.tx"));
        let mtx: Tx = conway_minted_tx_from_cbor(&cbor_bytes);
        let metx: MultiEraTx = MultiEraTx::from_conway(&mtx);
        let tx_outs_info: &[ConwayTxOutInfo] = &[(
            String::from(
                "015c5c318d01f729e205c95eb1b02d623dd10e78ea58f72d0c13f892b2e8904edc699e2f0ce7b72be7cec991df651a222e2ae9244eb5975cba",
            ),
            Value::Coin(20000000),
            None,
            None,
        )];
        let utxos: UTxOs = mk_utxo_for_conway_tx(&mtx.transaction_body, tx_outs_info);
        let acnt = AccountState {
            treasury: 261_254_564_000_000,
            reserves: 0,
        };

        let env: Environment = Environment {
            prot_params: MultiEraProtocolParameters::Conway(mk_mainnet_params_epoch_365()),
            prot_magic: 764824073,
            block_slot: 137806612,
            network_id: 1,
            acnt: Some(acnt),
        };
        let mut cert_state: CertState = CertState::default();
        k(AnyTx::Conway(&mtx), &utxos, &env, &cert_state);
    }

        //Transaction hash:
    // b41ebebf5234b645f9b0767ac541e1d9ea680b763d9b105554ef3b41acdbd36f
    pub fn successful_preview_tx_with_plutus_v3_script(k: &mut dyn FnMut(AnyTx, &UTxOs, &Environment, &CertState)) {
        let cbor_bytes: Vec<u8> = cbor_to_bytes(include_str!("/repo/test_data/conway4.tx"));
        let mtx: Tx = conway_minted_tx_from_cbor(&cbor_bytes);
        let metx: MultiEraTx = MultiEraTx::from_conway(&mtx);
        
        let datum_bytes = cbor_to_bytes("d8799f4568656c6c6fff");
        let datum_option = DatumOption::Data(CborWrap(minicbor::decode(&datum_bytes).unwrap()));
        let datum_option = minicbor::to_vec(datum_option).unwrap();
        let datum_option: KeepRaw<'_, DatumOption> = minicbor::decode(&datum_option).unwrap();

        let mut tx_outs_info: Vec<ConwayTxOutInfoMut> = vec![
            (
                String::from(
                    "005c5c318d01f729e205c95eb1b02d623dd10e78ea58f72d0c13f892b2e8904edc699e2f0ce7b72be7cec991df651a222e2ae9244eb5975cba",
                ),
                Value::Coin(2554710123),
                None,
                None,
                Vec::new(),
            ),
            (
                String::from("70faae60072c45d121b6e58ae35c624693ee3dad9ea8ed765eb6f76f9f"),
                Value::Coin(100270605),
                Some(datum_option),
                None,
                Vec::new(),
            ),
        ];

        let mut utxos: UTxOs =
            mk_codec_safe_utxo_for_conway_tx(&mtx.transaction_body, &mut tx_outs_info);

        let mut ref_info: Vec<ConwayRefInputInfoMut> = vec![
            (
                String::from("70faae60072c45d121b6e58ae35c624693ee3dad9ea8ed765eb6f76f9f"),
                Value::Coin(1624870),
                None,
                Some(CborWrap(ScriptRef::PlutusV3Script(PlutusScript::<3>(Bytes::from(hex::decode("58a701010032323232323225333002323232323253330073370e900118041baa0011323322533300a3370e900018059baa00513232533300f30110021533300c3370e900018069baa00313371e6eb8c040c038dd50039bae3010300e37546020601c6ea800c5858dd7180780098061baa00516300c001300c300d001300937540022c6014601600660120046010004601000260086ea8004526136565734aae7555cf2ab9f5742ae89").unwrap()))))),
            Vec::new(),
            ),
        ];

        add_codec_safe_ref_input_conway(&mtx.transaction_body, &mut utxos, &mut ref_info);

        let mut collateral_info: Vec<ConwayCollateralInfoMut> = vec![(
            String::from(
                "005c5c318d01f729e205c95eb1b02d623dd10e78ea58f72d0c13f892b2e8904edc699e2f0ce7b72be7cec991df651a222e2ae9244eb5975cba",
            ),
            Value::Coin(2554439518),
            None,
            None,
            Vec::new(),
        )];
        add_codec_safe_collateral_conway(&mtx.transaction_body, &mut utxos, &mut collateral_info);
        let acnt = AccountState {
            treasury: 261_254_564_000_000,
            reserves: 0,
        };

        let env: Environment = Environment {
            prot_params: MultiEraProtocolParameters::Conway(mk_preview_params_epoch_380()),
            prot_magic: 2,
            block_slot: 74735000,
            network_id: 0,
            acnt: Some(acnt),
        };
        let mut cert_state: CertState = CertState::default();

        k(AnyTx::Conway(&mtx), &utxos, &env, &cert_state);
    }

        // Transaction hash:
    // 3e1ae85c08b610d5d03e67cf90e78980d1d2f54ffc50c21672e24180b450d354
    pub fn successful_mainnet_tx_with_plutus_v3_script(k: &mut dyn FnMut(AnyTx, &UTxOs, &Environment, &CertState)) {
        let cbor_bytes: Vec<u8> = cbor_to_bytes(include_str!("/repo/test_data/conway5.tx"));
        let mtx: Tx = conway_minted_tx_from_cbor(&cbor_bytes);
        let metx: MultiEraTx = MultiEraTx::from_conway(&mtx);
        let datum_bytes = cbor_to_bytes("d8799f4568656c6c6fff");
        let datum_option = DatumOption::Data(CborWrap(minicbor::decode(&datum_bytes).unwrap()));
        let datum_option = minicbor::to_vec(datum_option).unwrap();
        let datum_option: KeepRaw<'_, DatumOption> = minicbor::decode(&datum_option).unwrap();

        let mut tx_outs_info: Vec<ConwayTxOutInfoMut> = vec![(
            String::from("71faae60072c45d121b6e58ae35c624693ee3dad9ea8ed765eb6f76f9f"),
            Value::Coin(2000000),
            Some(datum_option),
            None,
            Vec::new(),
        )];

        let mut utxos: UTxOs =
            mk_codec_safe_utxo_for_conway_tx(&mtx.transaction_body, &mut tx_outs_info);

        let mut ref_info: Vec<ConwayRefInputInfoMut> = vec![
            (
                String::from("71faae60072c45d121b6e58ae35c624693ee3dad9ea8ed765eb6f76f9f"),
                Value::Coin(1624870),
                None,
                Some(CborWrap(ScriptRef::PlutusV3Script(PlutusScript::<3>(Bytes::from(hex::decode("58a701010032323232323225333002323232323253330073370e900118041baa0011323322533300a3370e900018059baa00513232533300f30110021533300c3370e900018069baa00313371e6eb8c040c038dd50039bae3010300e37546020601c6ea800c5858dd7180780098061baa00516300c001300c300d001300937540022c6014601600660120046010004601000260086ea8004526136565734aae7555cf2ab9f5742ae89").unwrap()))))),
                Vec::new(),
            ),
        ];

        add_codec_safe_ref_input_conway(&mtx.transaction_body, &mut utxos, &mut ref_info);

        let mut collateral_info: Vec<ConwayCollateralInfoMut> = vec![(
            String::from(
                "015c5c318d01f729e205c95eb1b02d623dd10e78ea58f72d0c13f892b2e8904edc699e2f0ce7b72be7cec991df651a222e2ae9244eb5975cba",
            ),
            Value::Coin(49731771),
            None,
            None,
            Vec::new(),
        )];
        add_codec_safe_collateral_conway(&mtx.transaction_body, &mut utxos, &mut collateral_info);

        let acnt = AccountState {
            treasury: 261_254_564_000_000,
            reserves: 0,
        };

        let env: Environment = Environment {
            prot_params: MultiEraProtocolParameters::Conway(mk_mainnet_params_epoch_380()),
            prot_magic: 764824073,
            block_slot: 149807950,
            network_id: 1,
            acnt: Some(acnt),
        };
        let mut cert_state: CertState = CertState::default();

        k(AnyTx::Conway(&mtx), &utxos, &env, &cert_state);
    }

    fn mk_mainnet_params_epoch_365() -> ConwayProtParams {
        ConwayProtParams {
            system_start: _sys_start!(),
            epoch_length: 432000,
            slot_length: 1,
            minfee_a: 44,
            minfee_b: 155381,
            max_block_body_size: 90112,
            max_transaction_size: 16384,
            max_block_header_size: 1100,
            key_deposit: 2000000,
            pool_deposit: 500000000,
            maximum_epoch: 18,
            desired_number_of_stake_pools: 500,
            pool_pledge_influence: RationalNumber {
                numerator: 3,
                denominator: 10,
            },
            expansion_rate: RationalNumber {
                numerator: 3,
                denominator: 1000,
            },
            treasury_growth_rate: RationalNumber {
                numerator: 2,
                denominator: 10,
            },
            protocol_version: (7, 0),
            min_pool_cost: 340000000,
            ada_per_utxo_byte: 4310,
            cost_models_for_script_languages: CostModels {
                plutus_v1: Some(vec![
                    197209, 0, 1, 1, 396231, 621, 0, 1, 150000, 1000, 0, 1, 150000, 32, 2477736,
                    29175, 4, 29773, 100, 29773, 100, 29773, 100, 29773, 100, 29773, 100, 29773,
                    100, 100, 100, 29773, 100, 150000, 32, 150000, 32, 150000, 32, 150000, 1000, 0,
                    1, 150000, 32, 150000, 1000, 0, 8, 148000, 425507, 118, 0, 1, 1, 150000, 1000,
                    0, 8, 150000, 112536, 247, 1, 150000, 10000, 1, 136542, 1326, 1, 1000, 150000,
                    1000, 1, 150000, 32, 150000, 32, 150000, 32, 1, 1, 150000, 1, 150000, 4,
                    103599, 248, 1, 103599, 248, 1, 145276, 1366, 1, 179690, 497, 1, 150000, 32,
                    150000, 32, 150000, 32, 150000, 32, 150000, 32, 150000, 32, 148000, 425507,
                    118, 0, 1, 1, 61516, 11218, 0, 1, 150000, 32, 148000, 425507, 118, 0, 1, 1,
                    148000, 425507, 118, 0, 1, 1, 2477736, 29175, 4, 0, 82363, 4, 150000, 5000, 0,
                    1, 150000, 32, 197209, 0, 1, 1, 150000, 32, 150000, 32, 150000, 32, 150000, 32,
                    150000, 32, 150000, 32, 150000, 32, 3345831, 1, 1,
                ]),

                plutus_v2: None,
                plutus_v3: None,
                unknown: BTreeMap::default(),
            },
            execution_costs: pallas_primitives::ExUnitPrices {
                mem_price: RationalNumber {
                    numerator: 577,
                    denominator: 10000,
                },
                step_price: RationalNumber {
                    numerator: 721,
                    denominator: 10000000,
                },
            },
            max_tx_ex_units: ExUnits {
                mem: 14000000,
                steps: 10000000000,
            },
            max_block_ex_units: ExUnits {
                mem: 62000000,
                steps: 40000000000,
            },
            max_value_size: 5000,
            collateral_percentage: 150,
            max_collateral_inputs: 3,
            pool_voting_thresholds: PoolVotingThresholds {
                motion_no_confidence: RationalNumber {
                    numerator: 50,
                    denominator: 100,
                },
                committee_normal: RationalNumber {
                    numerator: 60,
                    denominator: 100,
                },
                committee_no_confidence: RationalNumber {
                    numerator: 40,
                    denominator: 100,
                },
                hard_fork_initiation: RationalNumber {
                    numerator: 75,
                    denominator: 100,
                },
                security_voting_threshold: RationalNumber {
                    numerator: 80,
                    denominator: 100,
                },
            },
            drep_voting_thresholds: DRepVotingThresholds {
                motion_no_confidence: RationalNumber {
                    numerator: 10,
                    denominator: 100,
                },
                committee_normal: RationalNumber {
                    numerator: 25,
                    denominator: 100,
                },
                committee_no_confidence: RationalNumber {
                    numerator: 15,
                    denominator: 100,
                },
                update_constitution: RationalNumber {
                    numerator: 50,
                    denominator: 100,
                },
                hard_fork_initiation: RationalNumber {
                    numerator: 60,
                    denominator: 100,
                },
                pp_network_group: RationalNumber {
                    numerator: 55,
                    denominator: 100,
                },
                pp_economic_group: RationalNumber {
                    numerator: 65,
                    denominator: 100,
                },
                pp_technical_group: RationalNumber {
                    numerator: 70,
                    denominator: 100,
                },
                pp_governance_group: RationalNumber {
                    numerator: 85,
                    denominator: 100,
                },
                treasury_withdrawal: RationalNumber {
                    numerator: 90,
                    denominator: 100,
                },
            },
            min_committee_size: 10,
            committee_term_limit: 5,
            governance_action_validity_period: 3600, // in seconds
            governance_action_deposit: 1000,         // arbitrary value
            drep_deposit: 2000,                      // arbitrary value
            drep_inactivity_period: 60,              // in seconds
            minfee_refscript_cost_per_byte: RationalNumber {
                numerator: 10,
                denominator: 100,
            },
        }
    }
    fn mk_mainnet_params_epoch_380() -> ConwayProtParams {
        ConwayProtParams {
            system_start: _sys_start!(),
            epoch_length: 432000,
            slot_length: 1,
            minfee_a: 44,
            minfee_b: 155381,
            max_block_body_size: 90112,
            max_transaction_size: 16384,
            max_block_header_size: 1100,
            key_deposit: 2000000,
            pool_deposit: 500000000,
            maximum_epoch: 18,
            desired_number_of_stake_pools: 500,
            pool_pledge_influence: RationalNumber {
                numerator: 3,
                denominator: 10,
            },
            expansion_rate: RationalNumber {
                numerator: 3,
                denominator: 1000,
            },
            treasury_growth_rate: RationalNumber {
                numerator: 2,
                denominator: 10,
            },
            protocol_version: (7, 0),
            min_pool_cost: 340000000,
            ada_per_utxo_byte: 4310,
            cost_models_for_script_languages: CostModels {
                plutus_v1: Some(vec![
                    205665, 812, 1, 1, 1000, 571, 0, 1, 1000, 24177, 4, 1, 1000, 32, 117366, 10475,
                    4, 23000, 100, 23000, 100, 23000, 100, 23000, 100, 23000, 100, 23000, 100, 100,
                    100, 23000, 100, 19537, 32, 175354, 32, 46417, 4, 221973, 511, 0, 1, 89141, 32,
                    497525, 14068, 4, 2, 196500, 453240, 220, 0, 1, 1, 1000, 28662, 4, 2, 245000,
                    216773, 62, 1, 1060367, 12586, 1, 208512, 421, 1, 187000, 1000, 52998, 1,
                    80436, 32, 43249, 32, 1000, 32, 80556, 1, 57667, 4, 1000, 10, 197145, 156, 1,
                    197145, 156, 1, 204924, 473, 1, 208896, 511, 1, 52467, 32, 64832, 32, 65493,
                    32, 22558, 32, 16563, 32, 76511, 32, 196500, 453240, 220, 0, 1, 1, 69522,
                    11687, 0, 1, 60091, 32, 196500, 453240, 220, 0, 1, 1, 196500, 453240, 220, 0,
                    1, 1, 806990, 30482, 4, 1927926, 82523, 4, 265318, 0, 4, 0, 85931, 32, 205665,
                    812, 1, 1, 41182, 32, 212342, 32, 31220, 32, 32696, 32, 43357, 32, 32247, 32,
                    38314, 32, 9462713, 1021, 10,
                ]),

                plutus_v2: Some(vec![
                    205665,
                    812,
                    1,
                    1,
                    1000,
                    571,
                    0,
                    1,
                    1000,
                    24177,
                    4,
                    1,
                    1000,
                    32,
                    117366,
                    10475,
                    4,
                    23000,
                    100,
                    23000,
                    100,
                    23000,
                    100,
                    23000,
                    100,
                    23000,
                    100,
                    23000,
                    100,
                    100,
                    100,
                    23000,
                    100,
                    19537,
                    32,
                    175354,
                    32,
                    46417,
                    4,
                    221973,
                    511,
                    0,
                    1,
                    89141,
                    32,
                    497525,
                    14068,
                    4,
                    2,
                    196500,
                    453240,
                    220,
                    0,
                    1,
                    1,
                    1000,
                    28662,
                    4,
                    2,
                    245000,
                    216773,
                    62,
                    1,
                    1060367,
                    12586,
                    1,
                    208512,
                    421,
                    1,
                    187000,
                    1000,
                    52998,
                    1,
                    80436,
                    32,
                    43249,
                    32,
                    1000,
                    32,
                    80556,
                    1,
                    57667,
                    4,
                    1000,
                    10,
                    197145,
                    156,
                    1,
                    197145,
                    156,
                    1,
                    204924,
                    473,
                    1,
                    208896,
                    511,
                    1,
                    52467,
                    32,
                    64832,
                    32,
                    65493,
                    32,
                    22558,
                    32,
                    16563,
                    32,
                    76511,
                    32,
                    196500,
                    453240,
                    220,
                    0,
                    1,
                    1,
                    69522,
                    11687,
                    0,
                    1,
                    60091,
                    32,
                    196500,
                    453240,
                    220,
                    0,
                    1,
                    1,
                    196500,
                    453240,
                    220,
                    0,
                    1,
                    1,
                    1159724,
                    392670,
                    0,
                    2,
                    806990,
                    30482,
                    4,
                    1927926,
                    82523,
                    4,
                    265318,
                    0,
                    4,
                    0,
                    85931,
                    32,
                    205665,
                    812,
                    1,
                    1,
                    41182,
                    32,
                    212342,
                    32,
                    31220,
                    32,
                    32696,
                    32,
                    43357,
                    32,
                    32247,
                    32,
                    38314,
                    32,
                    20000000000,
                    20000000000,
                    9462713,
                    1021,
                    10,
                    20000000000,
                    0,
                    20000000000,
                ]),
                plutus_v3: Some(vec![
                    100788, 420, 1, 1, 1000, 173, 0, 1, 1000, 59957, 4, 1, 11183, 32, 201305, 8356,
                    4, 16000, 100, 16000, 100, 16000, 100, 16000, 100, 16000, 100, 16000, 100, 100,
                    100, 16000, 100, 94375, 32, 132994, 32, 61462, 4, 72010, 178, 0, 1, 22151, 32,
                    91189, 769, 4, 2, 85848, 123203, 7305, -900, 1716, 549, 57, 85848, 0, 1, 1,
                    1000, 42921, 4, 2, 24548, 29498, 38, 1, 898148, 27279, 1, 51775, 558, 1, 39184,
                    1000, 60594, 1, 141895, 32, 83150, 32, 15299, 32, 76049, 1, 13169, 4, 22100,
                    10, 28999, 74, 1, 28999, 74, 1, 43285, 552, 1, 44749, 541, 1, 33852, 32, 68246,
                    32, 72362, 32, 7243, 32, 7391, 32, 11546, 32, 85848, 123203, 7305, -900, 1716,
                    549, 57, 85848, 0, 1, 90434, 519, 0, 1, 74433, 32, 85848, 123203, 7305, -900,
                    1716, 549, 57, 85848, 0, 1, 1, 85848, 123203, 7305, -900, 1716, 549, 57, 85848,
                    0, 1, 955506, 213312, 0, 2, 270652, 22588, 4, 1457325, 64566, 4, 20467, 1, 4,
                    0, 141992, 32, 100788, 420, 1, 1, 81663, 32, 59498, 32, 20142, 32, 24588, 32,
                    20744, 32, 25933, 32, 24623, 32, 43053543, 10, 53384111, 14333, 10, 43574283,
                    26308, 10, 16000, 100, 16000, 100, 962335, 18, 2780678, 6, 442008, 1, 52538055,
                    3756, 18, 267929, 18, 76433006, 8868, 18, 52948122, 18, 1995836, 36, 3227919,
                    12, 901022, 1, 166917843, 4307, 36, 284546, 36, 158221314, 26549, 36, 74698472,
                    36, 333849714, 1, 254006273, 72, 2174038, 72, 2261318, 64571, 4, 207616, 8310,
                    4, 1293828, 28716, 63, 0, 1, 1006041, 43623, 251, 0, 1, 100181, 726, 719, 0, 1,
                    100181, 726, 719, 0, 1, 100181, 726, 719, 0, 1, 107878, 680, 0, 1, 95336, 1,
                    281145, 18848, 0, 1, 180194, 159, 1, 1, 158519, 8942, 0, 1, 159378, 8813, 0, 1,
                    107490, 3298, 1, 106057, 655, 1, 1964219, 24520, 3,
                ]),
                unknown: BTreeMap::default(),
            },
            execution_costs: pallas_primitives::ExUnitPrices {
                mem_price: RationalNumber {
                    numerator: 577,
                    denominator: 10000,
                },
                step_price: RationalNumber {
                    numerator: 721,
                    denominator: 10000000,
                },
            },
            max_tx_ex_units: ExUnits {
                mem: 14000000,
                steps: 10000000000,
            },
            max_block_ex_units: ExUnits {
                mem: 62000000,
                steps: 40000000000,
            },
            max_value_size: 5000,
            collateral_percentage: 150,
            max_collateral_inputs: 3,
            pool_voting_thresholds: PoolVotingThresholds {
                motion_no_confidence: RationalNumber {
                    numerator: 0,
                    denominator: 1,
                },
                committee_normal: RationalNumber {
                    numerator: 0,
                    denominator: 1,
                },
                committee_no_confidence: RationalNumber {
                    numerator: 0,
                    denominator: 1,
                },
                hard_fork_initiation: RationalNumber {
                    numerator: 0,
                    denominator: 1,
                },
                security_voting_threshold: RationalNumber {
                    numerator: 0,
                    denominator: 1,
                },
            },
            drep_voting_thresholds: DRepVotingThresholds {
                motion_no_confidence: RationalNumber {
                    numerator: 0,
                    denominator: 1,
                },
                committee_normal: RationalNumber {
                    numerator: 0,
                    denominator: 1,
                },
                committee_no_confidence: RationalNumber {
                    numerator: 0,
                    denominator: 1,
                },
                update_constitution: RationalNumber {
                    numerator: 0,
                    denominator: 1,
                },
                hard_fork_initiation: RationalNumber {
                    numerator: 0,
                    denominator: 1,
                },
                pp_network_group: RationalNumber {
                    numerator: 0,
                    denominator: 1,
                },
                pp_economic_group: RationalNumber {
                    numerator: 0,
                    denominator: 1,
                },
                pp_technical_group: RationalNumber {
                    numerator: 0,
                    denominator: 1,
                },
                pp_governance_group: RationalNumber {
                    numerator: 0,
                    denominator: 1,
                },
                treasury_withdrawal: RationalNumber {
                    numerator: 0,
                    denominator: 1,
                },
            },
            min_committee_size: 0,
            committee_term_limit: 0,
            governance_action_validity_period: 0,
            governance_action_deposit: 0,
            drep_deposit: 0,
            drep_inactivity_period: 0,
            minfee_refscript_cost_per_byte: RationalNumber {
                numerator: 0,
                denominator: 1,
            },
        }
    }
    fn mk_preview_params_epoch_380() -> ConwayProtParams {
        ConwayProtParams {
            system_start: _sys_start!(),
            epoch_length: 432000,
            slot_length: 1,
            minfee_a: 44,
            minfee_b: 155381,
            max_block_body_size: 90112,
            max_transaction_size: 16384,
            max_block_header_size: 1100,
            key_deposit: 2000000,
            pool_deposit: 500000000,
            maximum_epoch: 18,
            desired_number_of_stake_pools: 500,
            pool_pledge_influence: RationalNumber {
                numerator: 3,
                denominator: 10,
            },
            expansion_rate: RationalNumber {
                numerator: 3,
                denominator: 1000,
            },
            treasury_growth_rate: RationalNumber {
                numerator: 2,
                denominator: 10,
            },
            protocol_version: (8, 0),
            min_pool_cost: 340000000,
            ada_per_utxo_byte: 4310,
            cost_models_for_script_languages: CostModels {
                plutus_v1: Some(vec![
                    205665, 812, 1, 1, 1000, 571, 0, 1, 1000, 24177, 4, 1, 1000, 32, 117366, 10475,
                    4, 23000, 100, 23000, 100, 23000, 100, 23000, 100, 23000, 100, 23000, 100, 100,
                    100, 23000, 100, 19537, 32, 175354, 32, 46417, 4, 221973, 511, 0, 1, 89141, 32,
                    497525, 14068, 4, 2, 196500, 453240, 220, 0, 1, 1, 1000, 28662, 4, 2, 245000,
                    216773, 62, 1060367, 12586, 1, 208512, 421, 1, 187000, 1000, 52998, 1, 80436,
                    32, 43249, 32, 1000, 32, 80556, 1, 57667, 4, 1000, 10, 197145, 156, 1, 197145,
                    156, 1, 204924, 473, 1, 208896, 511, 1, 52467, 32, 64832, 32, 65493, 32, 22558,
                    32, 16563, 32, 76511, 32, 196500, 453240, 220, 0, 1, 1, 69522, 11687, 0, 1,
                    60091, 32, 196500, 453240, 220, 0, 1, 1, 196500, 453240, 220, 0, 1, 1, 806990,
                    30482, 4, 1927926, 82523, 4, 265318, 0, 4, 0, 85931, 32, 205665, 812, 1, 1,
                    41182, 32, 212342, 32, 31220, 32, 32696, 32, 43357, 32, 32247, 32, 38314, 32,
                    9462713, 1021, 10,
                ]),

                plutus_v2: Some(vec![
                    205665, 812, 1, 1, 1000, 571, 0, 1, 1000, 24177, 4, 1, 1000, 32, 117366, 10475,
                    4, 23000, 100, 23000, 100, 23000, 100, 23000, 100, 23000, 100, 23000, 100, 100,
                    100, 23000, 100, 19537, 32, 175354, 32, 46417, 4, 221973, 511, 0, 1, 89141, 32,
                    497525, 14068, 4, 2, 196500, 453240, 220, 0, 1, 1, 1000, 28662, 4, 2, 245000,
                    216773, 62, 1, 1060367, 12586, 1, 208512, 421, 1, 187000, 1000, 52998, 1,
                    80436, 32, 43249, 32, 1000, 32, 80556, 1, 57667, 4, 1000, 10, 197145, 156, 1,
                    197145, 156, 1, 204924, 473, 1, 208896, 511, 1, 52467, 32, 64832, 32, 65493,
                    32, 22558, 32, 16563, 32, 76511, 32, 196500, 453240, 220, 0, 1, 1, 69522,
                    11687, 0, 1, 60091, 32, 196500, 453240, 220, 0, 1, 1, 196500, 453240, 220, 0,
                    1, 1, 1159724, 392670, 0, 2, 806990, 30482, 4, 1927926, 82523, 4, 265318, 0, 4,
                    0, 85931, 32, 205665, 812, 1, 1, 41182, 32, 212342, 32, 31220, 32, 32696, 32,
                    43357, 32, 32247, 32, 38314, 32, 35892428, 10, 9462713, 1021, 10, 38887044,
                    32947, 10,
                ]),
                plutus_v3: Some(vec![
                    100788, 420, 1, 1, 1000, 173, 0, 1, 1000, 59957, 4, 1, 11183, 32, 201305, 8356,
                    4, 16000, 100, 16000, 100, 16000, 100, 16000, 100, 16000, 100, 16000, 100, 100,
                    100, 16000, 100, 94375, 32, 132994, 32, 61462, 4, 72010, 178, 0, 1, 22151, 32,
                    91189, 769, 4, 2, 85848, 123203, 7305, -900, 1716, 549, 57, 85848, 0, 1, 1,
                    1000, 42921, 4, 2, 24548, 29498, 38, 1, 898148, 27279, 1, 51775, 558, 1, 39184,
                    1000, 60594, 1, 141895, 32, 83150, 32, 15299, 32, 76049, 1, 13169, 4, 22100,
                    10, 28999, 74, 1, 28999, 74, 1, 43285, 552, 1, 44749, 541, 1, 33852, 32, 68246,
                    32, 72362, 32, 7243, 32, 7391, 32, 11546, 32, 85848, 123203, 7305, -900, 1716,
                    549, 57, 85848, 0, 1, 90434, 519, 0, 1, 74433, 32, 85848, 123203, 7305, -900,
                    1716, 549, 57, 85848, 0, 1, 1, 85848, 123203, 7305, -900, 1716, 549, 57, 85848,
                    0, 1, 955506, 213312, 0, 2, 270652, 22588, 4, 1457325, 64566, 4, 20467, 1, 4,
                    0, 141992, 32, 100788, 420, 1, 1, 81663, 32, 59498, 32, 20142, 32, 24588, 32,
                    20744, 32, 25933, 32, 24623, 32, 43053543, 10, 53384111, 14333, 10, 43574283,
                    26308, 10, 16000, 100, 16000, 100, 962335, 18, 2780678, 6, 442008, 1, 52538055,
                    3756, 18, 267929, 18, 76433006, 8868, 18, 52948122, 18, 1995836, 36, 3227919,
                    12, 901022, 1, 166917843, 4307, 36, 284546, 36, 158221314, 26549, 36, 74698472,
                    36, 333849714, 1, 254006273, 72, 2174038, 72, 2261318, 64571, 4, 207616, 8310,
                    4, 1293828, 28716, 63, 0, 1, 1006041, 43623, 251, 0, 1, 100181, 726, 719, 0, 1,
                    100181, 726, 719, 0, 1, 100181, 726, 719, 0, 1, 107878, 680, 0, 1, 95336, 1,
                    281145, 18848, 0, 1, 180194, 159, 1, 1, 158519, 8942, 0, 1, 159378, 8813, 0, 1,
                    107490, 3298, 1, 106057, 655, 1, 1964219, 24520, 3,
                ]),
                unknown: BTreeMap::default(),
            },
            execution_costs: pallas_primitives::ExUnitPrices {
                mem_price: RationalNumber {
                    numerator: 577,
                    denominator: 10000,
                },
                step_price: RationalNumber {
                    numerator: 721,
                    denominator: 10000000,
                },
            },
            max_tx_ex_units: ExUnits {
                mem: 14000000,
                steps: 10000000000,
            },
            max_block_ex_units: ExUnits {
                mem: 62000000,
                steps: 40000000000,
            },
            max_value_size: 5000,
            collateral_percentage: 150,
            max_collateral_inputs: 3,
            pool_voting_thresholds: PoolVotingThresholds {
                motion_no_confidence: RationalNumber {
                    numerator: 0,
                    denominator: 1,
                },
                committee_normal: RationalNumber {
                    numerator: 0,
                    denominator: 1,
                },
                committee_no_confidence: RationalNumber {
                    numerator: 0,
                    denominator: 1,
                },
                hard_fork_initiation: RationalNumber {
                    numerator: 0,
                    denominator: 1,
                },
                security_voting_threshold: RationalNumber {
                    numerator: 0,
                    denominator: 1,
                },
            },
            drep_voting_thresholds: DRepVotingThresholds {
                motion_no_confidence: RationalNumber {
                    numerator: 0,
                    denominator: 1,
                },
                committee_normal: RationalNumber {
                    numerator: 0,
                    denominator: 1,
                },
                committee_no_confidence: RationalNumber {
                    numerator: 0,
                    denominator: 1,
                },
                update_constitution: RationalNumber {
                    numerator: 0,
                    denominator: 1,
                },
                hard_fork_initiation: RationalNumber {
                    numerator: 0,
                    denominator: 1,
                },
                pp_network_group: RationalNumber {
                    numerator: 0,
                    denominator: 1,
                },
                pp_economic_group: RationalNumber {
                    numerator: 0,
                    denominator: 1,
                },
                pp_technical_group: RationalNumber {
                    numerator: 0,
                    denominator: 1,
                },
                pp_governance_group: RationalNumber {
                    numerator: 0,
                    denominator: 1,
                },
                treasury_withdrawal: RationalNumber {
                    numerator: 0,
                    denominator: 1,
                },
            },
            min_committee_size: 0,
            committee_term_limit: 0,
            governance_action_validity_period: 0,
            governance_action_deposit: 0,
            drep_deposit: 0,
            drep_inactivity_period: 0,
            minfee_refscript_cost_per_byte: RationalNumber {
                numerator: 0,
                denominator: 1,
            },
        }
    }
}


pub type Fx = fn(&mut dyn FnMut(AnyTx, &pallas_validate::utils::UTxOs, &pallas_validate::utils::Environment, &pallas_validate::utils::CertState));
pub fn all_fixtures() -> Vec<(&'static str, Fx)> {
    vec![
        ("byron::mainnet_tx_with_genesis_utxos", byron_fx::successful_mainnet_tx_with_genesis_utxos as Fx),
        ("byron::mainnet_tx", byron_fx::successful_mainnet_tx as Fx),
        ("shelley::mainnet_shelley_tx", shelley_fx::successful_mainnet_shelley_tx as Fx),
        ("shelley::mainnet_shelley_tx_with_script", shelley_fx::successful_mainnet_shelley_tx_with_script as Fx),
        ("shelley::mainnet_shelley_tx_with_changed_script", shelley_fx::successful_mainnet_shelley_tx_with_changed_script as Fx),
        ("shelley::mainnet_shelley_tx_with_metadata", shelley_fx::successful_mainnet_shelley_tx_with_metadata as Fx),
        ("shelley::mainnet_mary_tx_with_minting", shelley_fx::successful_mainnet_mary_tx_with_minting as Fx),
        ("shelley::mainnet_mary_tx_with_pool_reg", shelley_fx::successful_mainnet_mary_tx_with_pool_reg as Fx),
        ("shelley::mainnet_mary_tx_with_stk_deleg", shelley_fx::successful_mainnet_mary_tx_with_stk_deleg as Fx),
        ("shelley::mainnet_allegra_tx_with_mir", shelley_fx::successful_mainnet_allegra_tx_with_mir as Fx),
        ("alonzo::mainnet_tx", alonzo_fx::successful_mainnet_tx as Fx),
        ("alonzo::mainnet_tx_with_plutus_script", alonzo_fx::successful_mainnet_tx_with_plutus_script as Fx),
        ("alonzo::mainnet_tx_with_minting", alonzo_fx::successful_mainnet_tx_with_minting as Fx),
        ("alonzo::mainnet_tx_with_metadata", alonzo_fx::successful_mainnet_tx_with_metadata as Fx),
        ("babbage::mainnet_tx", babbage_fx::successful_mainnet_tx as Fx),
        ("babbage::mainnet_tx_with_plutus_v1_script", babbage_fx::successful_mainnet_tx_with_plutus_v1_script as Fx),
        ("babbage::mainnet_tx_with_plutus_v2_script", babbage_fx::successful_mainnet_tx_with_plutus_v2_script as Fx),
        ("babbage::preview_tx_with_plutus_v2_script", babbage_fx::successful_preview_tx_with_plutus_v2_script as Fx),
        ("babbage::preprod_tx_with_plutus_v2_script", babbage_fx::successful_preprod_tx_with_plutus_v2_script as Fx),
        ("babbage::mainnet_tx_with_minting", babbage_fx::successful_mainnet_tx_with_minting as Fx),
        ("babbage::mainnet_tx_with_metadata", babbage_fx::successful_mainnet_tx_with_metadata as Fx),
        ("conway::mainnet_tx", conway_fx::successful_mainnet_tx as Fx),
        ("conway::preview_tx_with_plutus_v3_script", conway_fx::successful_preview_tx_with_plutus_v3_script as Fx),
        ("conway::mainnet_tx_with_plutus_v3_script", conway_fx::successful_mainnet_tx_with_plutus_v3_script as Fx),
    ]
}
