//! C28: the initiator never violates a protocol it speaks.
//! The real InitiatorBehavior runs in closed loop with a simulated network: every emitted Send is
//! confirmed by a Sent event (immediately = "sync" schedules, or arbitrarily later but in per-peer
//! FIFO order = "async" schedules), and a spec-conformant responder answers on the wire.
//! ORACLE (independent of the Coq model): a protocol-specification tracker per peer (`Wire`, who has
//! agency and which message is allowed, plus the version gating of the handshake); every message the
//! initiator emits must be permitted in the wire state at the moment it is emitted.
//! case := (sync, cfg, steps as in C27, first violation or None)
#[path = "p2p_common/mod.rs"]
mod p2p;
use p2p::*;
use p2p::Out;
use std::collections::HashMap;
use verif_harness::*;
use Msg::*;

// ---------------------------------------------------------------- the specification (oracle side)
#[derive(Clone, Copy, PartialEq, Debug)]
enum Hs { Propose, Confirm, Accepted(i64, i64), Refused }
#[derive(Clone, Copy, PartialEq, Debug)]
enum St3 { Idle, Busy, Done }                       // keepalive (Client/Server/Done), peersharing, leios-notify
#[derive(Clone, Copy, PartialEq, Debug)]
enum Bf { Idle, Busy, Streaming, Done }
#[derive(Clone, Copy, PartialEq, Debug)]
enum Cs { Idle, CanAwait, MustReply, Intersect, Done }
#[derive(Clone, Copy, PartialEq, Debug)]
enum Lf { Idle, AwaitBlock, AwaitTxs, Done }
#[derive(Clone, Debug)]
struct Wire { hs: Hs, ka: St3, ps: St3, bf: Bf, cs: Cs, ln: St3, lf: Lf }
impl Wire {
    fn new() -> Self { Wire { hs: Hs::Propose, ka: St3::Idle, ps: St3::Idle, bf: Bf::Idle, cs: Cs::Idle, ln: St3::Idle, lf: Lf::Idle } }
    fn accepted(&self) -> bool { matches!(self.hs, Hs::Accepted(..)) }
    fn ps_ok(&self) -> bool { matches!(self.hs, Hs::Accepted(_, ps) if ps > 0) }
    fn leios_ok(&self) -> bool { matches!(self.hs, Hs::Accepted(v, _) if v >= 15) }
    /// a message sent by the client: is it permitted now?  (advances the wire when it is)
    fn client(&mut self, m: &Msg) -> bool {
        match m {
            HsPropose(_) => { if self.hs == Hs::Propose { self.hs = Hs::Confirm; true } else { false } }
            KaKeepAlive(_) => { if self.accepted() && self.ka == St3::Idle { self.ka = St3::Busy; true } else { false } }
            KaDone => { if self.accepted() && self.ka == St3::Idle { self.ka = St3::Done; true } else { false } }
            PsRequest(_) => { if self.ps_ok() && self.ps == St3::Idle { self.ps = St3::Busy; true } else { false } }
            PsDone => { if self.ps_ok() && self.ps == St3::Idle { self.ps = St3::Done; true } else { false } }
            BfRequestRange(_) => { if self.accepted() && self.bf == Bf::Idle { self.bf = Bf::Busy; true } else { false } }
            BfClientDone => { if self.accepted() && self.bf == Bf::Idle { self.bf = Bf::Done; true } else { false } }
            CsRequestNext => { if self.accepted() && self.cs == Cs::Idle { self.cs = Cs::CanAwait; true } else { false } }
            CsFindIntersect(_) => { if self.accepted() && self.cs == Cs::Idle { self.cs = Cs::Intersect; true } else { false } }
            CsDone => { if self.accepted() && self.cs == Cs::Idle { self.cs = Cs::Done; true } else { false } }
            LnRequestNext => { if self.leios_ok() && self.ln == St3::Idle { self.ln = St3::Busy; true } else { false } }
            LnDone => { if self.leios_ok() && self.ln == St3::Idle { self.ln = St3::Done; true } else { false } }
            LfBlockRequest(_) => { if self.leios_ok() && self.lf == Lf::Idle { self.lf = Lf::AwaitBlock; true } else { false } }
            LfBlockTxsRequest(_) => { if self.leios_ok() && self.lf == Lf::Idle { self.lf = Lf::AwaitTxs; true } else { false } }
            LfDone => { if self.leios_ok() && self.lf == Lf::Idle { self.lf = Lf::Done; true } else { false } }
            _ => false, // tx-submission client messages are never emitted by this initiator; everything else is a server message
        }
    }
    /// the protocols in which the server has agency, with one permitted reply each
    fn server_moves(&self, rng: &mut Rng, npeers: i64) -> Vec<Msg> {
        let x = rng.below(6) as i64;
        let mut v = vec![];
        if self.hs == Hs::Confirm { v.push(match rng.below(10) { 0 => HsRefuse(rng.below(3) as i64), 1 => HsQueryReply, 2 => HsAccept(13, 0), 3 | 4 | 5 => HsAccept(15, 1), 6 => HsAccept(16, 2), _ => HsAccept(13, 1) }); }
        if self.accepted() {
            if self.ka == St3::Busy { v.push(KaResponse(65535)); }
            if self.ps == St3::Busy { let n = rng.below(4); v.push(PsPeers((0..n).map(|_| 1 + rng.below(npeers as u64 + 3) as i64).collect())); }
            match self.bf { Bf::Busy => v.push(if rng.chance(1, 4) { BfNoBlocks } else { BfStartBatch }), Bf::Streaming => v.push(if rng.chance(1, 2) { BfBlock(x) } else { BfBatchDone }), _ => {} }
            match self.cs {
                Cs::CanAwait => v.push(match rng.below(4) { 0 => CsAwaitReply, 1 => CsRollBackward(x), _ => CsRollForward(x) }),
                Cs::MustReply => v.push(if rng.chance(1, 3) { CsRollBackward(x) } else { CsRollForward(x) }),
                Cs::Intersect => v.push(if rng.chance(1, 6) { CsIntersectNotFound } else { CsIntersectFound(x) }),
                _ => {}
            }
            if self.ln == St3::Busy { v.push(match rng.below(4) { 0 => LnAnnouncement(x), 1 => LnOffer(x), 2 => LnTxsOffer(x), _ => LnVotes(x) }); }
            match self.lf { Lf::AwaitBlock => v.push(LfBlock(x)), Lf::AwaitTxs => v.push(LfBlockTxs(x)), _ => {} }
        }
        v
    }
    /// may a conformant server send `m` now?
    fn server_ok(&self, m: &Msg) -> bool {
        match m {
            HsAccept(..) | HsRefuse(_) | HsQueryReply => self.hs == Hs::Confirm,
            KaResponse(_) => self.accepted() && self.ka == St3::Busy,
            PsPeers(_) => self.ps_ok() && self.ps == St3::Busy,
            BfStartBatch | BfNoBlocks => self.accepted() && self.bf == Bf::Busy,
            BfBlock(_) | BfBatchDone => self.accepted() && self.bf == Bf::Streaming,
            CsAwaitReply => self.accepted() && self.cs == Cs::CanAwait,
            CsRollForward(_) | CsRollBackward(_) => self.accepted() && (self.cs == Cs::CanAwait || self.cs == Cs::MustReply),
            CsIntersectFound(_) | CsIntersectNotFound => self.accepted() && self.cs == Cs::Intersect,
            LnAnnouncement(_) | LnOffer(_) | LnTxsOffer(_) | LnVotes(_) => self.leios_ok() && self.ln == St3::Busy,
            LfBlock(_) => self.leios_ok() && self.lf == Lf::AwaitBlock,
            LfBlockTxs(_) => self.leios_ok() && self.lf == Lf::AwaitTxs,
            _ => false,
        }
    }
    fn server(&mut self, m: &Msg) {
        match m {
            HsAccept(v, ps) => self.hs = Hs::Accepted(*v, *ps),
            HsRefuse(_) | HsQueryReply => self.hs = Hs::Refused,
            KaResponse(_) => self.ka = St3::Idle,
            PsPeers(_) => self.ps = St3::Idle,
            BfStartBatch => self.bf = Bf::Streaming,
            BfNoBlocks | BfBatchDone => self.bf = Bf::Idle,
            BfBlock(_) => {}
            CsAwaitReply => self.cs = Cs::MustReply,
            CsRollForward(_) | CsRollBackward(_) | CsIntersectFound(_) | CsIntersectNotFound => self.cs = Cs::Idle,
            LnAnnouncement(_) | LnOffer(_) | LnTxsOffer(_) | LnVotes(_) => self.ln = St3::Idle,
            LfBlock(_) | LfBlockTxs(_) => self.lf = Lf::Idle,
            _ => {}
        }
    }
}
fn proto_name(m: &Msg) -> &'static str {
    match m.proto() { 0 => "handshake", 8 => "keepalive", 10 => "peersharing", 3 => "blockfetch", 2 => "chainsync", 4 => "txsubmission", 18 => "leiosnotify", _ => "leiosfetch" }
}

#[derive(Clone, Copy, PartialEq, Debug)]
enum Link { Down, Up, Err }
struct Peer { link: Link, wire: Wire, pend: Vec<Msg>, pend_step: Vec<i64>, want_connect: bool, want_disconnect: bool }
impl Peer { fn new() -> Self { Peer { link: Link::Down, wire: Wire::new(), pend: vec![], pend_step: vec![], want_connect: false, want_disconnect: false } } }

struct Sim { d: InitDriver, peers: HashMap<i64, Peer>, sync: bool, npeers: i64 }

enum Act { Cmd(Ev), ConfirmHead(i64), Reply(i64), Connected(i64), Disconnected(i64), Error(i64) }

struct Run { recs: Vec<String>, hist: Vec<String>, exec_index: i64, violation: Option<(i64, i64, Msg, bool)>, dead: bool }

impl Sim {
    fn peer(&mut self, p: i64) -> &mut Peer { self.peers.entry(p).or_insert_with(Peer::new) }
    /// apply one event to the real behaviour, run the oracle on what it emits, record the step
    fn apply(&mut self, ev: Ev, run: &mut Run, to_model: bool, snap: bool, cfg: PCfg) {
        if run.dead || run.violation.is_some() { return; }
        let is_sent = matches!(ev, Ev::Sent(..));
        run.hist.push(ev.short());
        // environment bookkeeping for the event itself
        match &ev {
            Ev::Connected(p) => { let x = self.peer(*p); x.link = Link::Up; x.wire = Wire::new(); x.pend.clear(); x.pend_step.clear(); x.want_connect = false; }
            Ev::Disconnected(p) => { let x = self.peer(*p); x.link = Link::Down; x.wire = Wire::new(); x.pend.clear(); x.pend_step.clear(); x.want_disconnect = false; }
            Ev::Error(p) => { let x = self.peer(*p); if x.link == Link::Up { x.link = Link::Err; } }
            Ev::Recv(p, ms) => { let x = self.peer(*p); for m in ms { x.wire.server(m); } }
            Ev::Sent(p, _) => { let x = self.peer(*p); if !x.pend.is_empty() { x.pend.remove(0); x.pend_step.remove(0); } }
            _ => {}
        }
        let o = self.d.step(ev);
        let i = run.exec_index;
        if o.panic.is_some() {
            run.dead = true;
            if to_model { run.recs.push(format!("({},[],([],[],[],[]),None,true)", o.ev.coq(&o.order, &o.dorder))); }
            return;
        }
        if to_model {
            let s = init_snapshot(&self.d.b);
            run.recs.push(format!("({},{},{},{},false)", o.ev.coq(&o.order, &o.dorder), coq_outs(&o.outs), s.coq_sets(),
                if snap { format!("(Some {})", s.coq_peers()) } else { "None".into() }));
        }
        // ---- the oracle: every emitted message against the wire
        let mut emitted: Vec<(i64, Msg)> = vec![];
        for out in &o.outs {
            match out {
                Out::Connect(p) => self.peer(*p).want_connect = true,
                Out::Disconnect(p) => self.peer(*p).want_disconnect = true,
                Out::Send(p, m) => {
                    let sync_mode = self.sync;
                    let x = self.peer(*p);
                    // the known class: an emission of the same protocol made in an EARLIER step is still unconfirmed
                    let unconfirmed = x.pend.iter().zip(x.pend_step.iter()).any(|(q, st)| q.proto() == m.proto() && *st < i);
                    let ok = x.wire.client(m); // a Down link has a fresh wire: only a handshake proposal is permitted there
                    if !ok {
                        let key = if unconfirmed { format!("unconfirmed-emission:{}", proto_name(m)) }
                                  else { format!("not-permitted:{}", proto_name(m)) };
                        emit_oracle_fail(&key, &format!("{} schedule cfg={:?} history=[{}] emits {:?} to peer {} but the wire is {:?} (link {:?}); unconfirmed emissions to that peer: {:?}",
                            if sync_mode { "sync" } else { "async" }, cfg, run.hist.join("; "), m, p, x.wire, x.link, x.pend));
                        run.violation = Some((i, *p, m.clone(), unconfirmed));
                        return;
                    }
                    x.pend.push(m.clone());
                    x.pend_step.push(i);
                    emitted.push((*p, m.clone()));
                }
                _ => {}
            }
        }
        if !(self.sync && is_sent) { run.exec_index += 1; }
        if self.sync && !is_sent {
            for (p, m) in emitted { self.apply(Ev::Sent(p, m), run, to_model, snap, cfg); }
        }
    }
    fn enabled(&self) -> Vec<Act> {
        let mut v = vec![];
        let mut ids: Vec<&i64> = self.peers.keys().collect();
        ids.sort();
        for p in ids {
            let x = &self.peers[p];
            if x.link == Link::Down && x.want_connect { v.push(Act::Connected(*p)); }
            if x.link == Link::Up && !x.pend.is_empty() && !self.sync { v.push(Act::ConfirmHead(*p)); }
            if x.link == Link::Up { v.push(Act::Reply(*p)); }
            if x.want_disconnect || x.link == Link::Err { v.push(Act::Disconnected(*p)); }
        }
        v
    }
}

fn gen_cmd(rng: &mut Rng, npeers: i64) -> Ev {
    let p = 1 + rng.below(npeers as u64) as i64;
    match rng.below(40) {
        0..=17 => Ev::Hk(rng.chance(1, 3)),
        18..=22 => Ev::Include(p),
        23 | 24 => Ev::StartSync(rng.below(4) as i64),
        25..=29 => Ev::ContinueSync(p),
        30..=32 => Ev::RequestBlocks(rng.below(5) as i64),
        33 | 34 => Ev::FetchEb(p, rng.below(5) as i64),
        35 => Ev::FetchEbTxs(p, rng.below(5) as i64),
        36 => Ev::Ban(p),
        37 | 38 => Ev::Demote(p),
        _ => Ev::ContinueSync(p),
    }
}

fn finish(sim: &Sim, run: &Run, cfg: PCfg, tag: &str, to_model: bool) {
    if !to_model { return; }
    let v = match &run.violation {
        None => "None".to_string(),
        Some((i, p, m, k)) => format!("(Some ({},{},{},{}))", i, coq_z(p), m.coq(), coq_bool(*k)),
    };
    emit_case(tag, &format!("({},{},[{}],{})", coq_bool(sim.sync), cfg.coq(), run.recs.join(";"), v));
}

fn random_schedule(rng: &mut Rng, sync: bool, cfg: PCfg, npeers: i64, len: usize, snap_every: usize, tag: &str, to_model: bool) {
    let mut sim = Sim { d: InitDriver::new(cfg), peers: HashMap::new(), sync, npeers };
    let mut run = Run { recs: vec![], hist: vec![], exec_index: 0, violation: None, dead: false };
    // delay_bias: how reluctant the network is to confirm Sends (async only)
    let confirm_weight = if sync { 0 } else { *rng.pick(&[1u64, 3, 8]) };
    let mut k = 0usize;
    while k < len && !run.dead && run.violation.is_none() {
        k += 1;
        let snap = snap_every > 0 && k % snap_every == 0;
        let acts = sim.enabled();
        let net = !acts.is_empty() && rng.chance(3, 5);
        if !net { let e = gen_cmd(rng, npeers); sim.apply(e, &mut run, to_model, snap, cfg); continue; }
        // weight the enabled network actions
        let mut weighted: Vec<(u64, &Act)> = acts.iter().map(|a| (match a { Act::ConfirmHead(_) => confirm_weight, Act::Reply(_) => 4, Act::Connected(_) => 6, Act::Disconnected(_) => 2, _ => 1 }, a)).collect();
        if rng.chance(1, 40) { let p = 1 + rng.below(npeers as u64) as i64; sim.apply(Ev::Error(p), &mut run, to_model, snap, cfg); continue; }
        if rng.chance(1, 60) { let p = 1 + rng.below(npeers as u64) as i64; sim.apply(Ev::Disconnected(p), &mut run, to_model, snap, cfg); continue; }
        let total: u64 = weighted.iter().map(|x| x.0).sum();
        let mut pick = rng.below(total.max(1));
        let mut chosen = weighted[0].1;
        for (w, a) in weighted.drain(..) { if pick < w { chosen = a; break; } pick -= w; }
        match chosen {
            Act::Connected(p) => sim.apply(Ev::Connected(*p), &mut run, to_model, snap, cfg),
            Act::Disconnected(p) => sim.apply(Ev::Disconnected(*p), &mut run, to_model, snap, cfg),
            Act::Error(p) => sim.apply(Ev::Error(*p), &mut run, to_model, snap, cfg),
            Act::ConfirmHead(p) => { let m = sim.peers[p].pend[0].clone(); sim.apply(Ev::Sent(*p, m), &mut run, to_model, snap, cfg) }
            Act::Reply(p) => {
                // a conformant responder: replies only in protocols whose request has been confirmed (no unconfirmed emission of that protocol)
                let x = &sim.peers[p];
                let moves: Vec<Msg> = x.wire.server_moves(rng, npeers).into_iter().filter(|m| !x.pend.iter().any(|q| q.proto() == m.proto())).collect();
                if moves.is_empty() { let e = gen_cmd(rng, npeers); sim.apply(e, &mut run, to_model, snap, cfg); }
                else {
                    let n = 1 + rng.below(moves.len().min(2) as u64) as usize;
                    let mut ms = vec![];
                    let mut idx: Vec<usize> = (0..moves.len()).collect();
                    for _ in 0..n { let j = rng.below(idx.len() as u64) as usize; ms.push(moves[idx.remove(j)].clone()); }
                    sim.apply(Ev::Recv(*p, ms), &mut run, to_model, snap, cfg)
                }
            }
            Act::Cmd(e) => sim.apply(e.clone(), &mut run, to_model, snap, cfg),
        }
    }
    finish(&sim, &run, cfg, tag, to_model);
}

const M: i64 = 764824073;
/// bounded exhaustive exploration: after a canonical connection set-up, all schedules of <= depth symbols
fn exhaustive(sync: bool, depth: usize, version: i64, ps: i64, seed: u64, slice: u64, oracle_only: bool) -> u64 {
    let cfg = PCfg { max_peers: 3, max_warm: 2, max_hot: 1, max_err: 1 };
    let nsym = if sync { 7usize } else { 8usize };
    let mut count = 0u64;
    for len in 0..=depth {
        for code in 0..nsym.pow(len as u32) {
            let to_model = !oracle_only && (len <= 1 || (code as u64 + seed) % slice == 0);
            let mut sim = Sim { d: InitDriver::new(cfg), peers: HashMap::new(), sync, npeers: 1 };
            let mut run = Run { recs: vec![], hist: vec![], exec_index: 0, violation: None, dead: false };
            let mut rng = Rng::new(seed ^ (code as u64 * 0x9E37 + len as u64));
            for e in [Ev::Include(1), Ev::Hk(false), Ev::Connected(1)] { sim.apply(e, &mut run, to_model, false, cfg); }
            if !sync { sim.apply(Ev::Sent(1, HsPropose(vec![(13, M)])), &mut run, to_model, false, cfg); }
            sim.apply(Ev::Recv(1, vec![HsAccept(version, ps)]), &mut run, to_model, true, cfg);
            let mut c = code;
            for _ in 0..len {
                let s = c % nsym; c /= nsym;
                let ev = match s {
                    0 => Some(Ev::Hk(false)), 1 => Some(Ev::StartSync(1)), 2 => Some(Ev::ContinueSync(1)), 3 => Some(Ev::RequestBlocks(2)),
                    4 => Some(Ev::FetchEb(1, 3)), 5 => Some(Ev::Hk(true)),
                    6 => {
                        let x = &sim.peers[&1];
                        let moves: Vec<Msg> = x.wire.server_moves(&mut rng, 1).into_iter().filter(|m| !x.pend.iter().any(|q| q.proto() == m.proto())).collect();
                        moves.first().map(|m| Ev::Recv(1, vec![m.clone()]))
                    }
                    _ => { let x = &sim.peers[&1]; x.pend.first().map(|m| Ev::Sent(1, m.clone())) }
                };
                match ev { Some(e) => sim.apply(e, &mut run, to_model, true, cfg), None => break }
            }
            count += 1;
            finish(&sim, &run, cfg, &format!("exhaustive-{}-len{}", if sync { "sync" } else { "async" }, len), to_model);
        }
    }
    count
}

fn main() {
    let args = args();
    let mut rng = Rng::new(args.seed);
    let thorough = args.tier == "thorough";
    let to_model = !args.oracle_only;
    let depth = if thorough { 7 } else { 5 };
    let mut n = 0;
    n += exhaustive(true, depth, 15, 1, args.seed, if thorough { 4001 } else { 431 }, args.oracle_only);
    n += exhaustive(true, depth, 13, 1, args.seed, if thorough { 4001 } else { 431 }, args.oracle_only);
    // peer sharing not negotiated: the ShareRequest emitter must stay silent
    n += exhaustive(true, depth.min(4), 13, 0, args.seed, if thorough { 4001 } else { 431 }, args.oracle_only);
    n += exhaustive(false, depth.min(6), 15, 1, args.seed, if thorough { 9001 } else { 809 }, args.oracle_only);
    emit_stat("exhaustive_schedules_oracle", n);
    // ---- directed async schedules: one per protocol emitter, each reaching that emitter a second time
    // while its first emission is still unconfirmed (the known class), everything else confirmed
    {
        let cfg = PCfg { max_peers: 3, max_warm: 2, max_hot: 1, max_err: 1 };
        let setup = |v: i64| vec![Ev::Include(1), Ev::Hk(false), Ev::Connected(1), Ev::Sent(1, HsPropose(vec![(13, M)])), Ev::Recv(1, vec![HsAccept(v, 1)])];
        let confirm3 = vec![Ev::Sent(1, KaKeepAlive(65535)), Ev::Sent(1, PsRequest(100)), Ev::Sent(1, LnRequestNext)];
        let mut directed: Vec<Vec<Ev>> = vec![];
        // keepalive
        directed.push([setup(15), vec![Ev::Hk(false), Ev::Hk(false)]].concat());
        // peersharing
        directed.push([setup(15), vec![Ev::Hk(false), Ev::Sent(1, KaKeepAlive(65535)), Ev::Hk(false)]].concat());
        // leios-notify
        directed.push([setup(15), vec![Ev::Hk(false), Ev::Sent(1, KaKeepAlive(65535)), Ev::Sent(1, PsRequest(100)), Ev::Hk(true)]].concat());
        // leios-fetch
        directed.push([setup(15), vec![Ev::Hk(false)], confirm3.clone(), vec![Ev::FetchEb(1, 3), Ev::FetchEb(1, 4), Ev::Hk(false), Ev::Hk(false)]].concat());
        // blockfetch
        directed.push([setup(15), vec![Ev::Hk(false)], confirm3.clone(), vec![Ev::RequestBlocks(2), Ev::RequestBlocks(3), Ev::Hk(false), Ev::Hk(false)]].concat());
        // chainsync: FindIntersect twice
        directed.push([setup(15), vec![Ev::Hk(false)], confirm3.clone(), vec![Ev::StartSync(1), Ev::Hk(false), Ev::Hk(false)]].concat());
        // chainsync: RequestNext twice (ContinueSync re-tags the peer)
        directed.push([setup(15), vec![Ev::Hk(false)], confirm3.clone(), vec![Ev::StartSync(1), Ev::Hk(false), Ev::Sent(1, CsFindIntersect(1)), Ev::Recv(1, vec![CsIntersectFound(2)]), Ev::ContinueSync(1), Ev::Demote(1)]].concat());
        for seq in directed {
            let mut sim = Sim { d: InitDriver::new(cfg), peers: HashMap::new(), sync: false, npeers: 1 };
            let mut run = Run { recs: vec![], hist: vec![], exec_index: 0, violation: None, dead: false };
            for e in seq { sim.apply(e, &mut run, to_model, true, cfg); }
            finish(&sim, &run, cfg, "directed-async-known-class", to_model);
        }
    }
    // ---- directed shapes around every emitter: command-triggered emissions while replies are pending,
    // emissions after BanPeer / Error on a still-known peer, Sent confirmations for banned peers,
    // re-include while connected, refused / restricted handshakes, streaming states
    {
        #[derive(Clone)]
        enum D { E(Ev), ConfirmAll(i64), ConfirmUntil(i64, u16), Reply(i64, Msg) }
        use D::*;
        let cfg = PCfg { max_peers: 3, max_warm: 2, max_hot: 1, max_err: 1 };
        let setup = |v: i64, ps: i64| vec![E(Ev::Include(1)), E(Ev::Hk(false)), E(Ev::Connected(1)), ConfirmAll(1), Reply(1, HsAccept(v, ps))];
        let mut shapes: Vec<Vec<D>> = vec![];
        for v in [13i64, 15] {
            // chain-sync: tags while the server owes a reply (CanAwait / MustReply), and after it replied
            shapes.push([setup(v, 1), vec![E(Ev::StartSync(1)), E(Ev::Hk(false)), ConfirmAll(1), Reply(1, KaResponse(65535)), Reply(1, CsIntersectFound(2)), Reply(1, PsPeers(vec![])),
                E(Ev::ContinueSync(1)), E(Ev::ContinueSync(2)), ConfirmAll(1), E(Ev::ContinueSync(1)), E(Ev::Demote(1)), Reply(1, CsAwaitReply), E(Ev::ContinueSync(1)), E(Ev::Ban(1)), E(Ev::Demote(1)),
                E(Ev::Hk(true)), ConfirmAll(1), Reply(1, CsRollForward(3)), E(Ev::ContinueSync(1)), ConfirmAll(1), Reply(1, CsRollBackward(1)), E(Ev::Demote(1)), ConfirmAll(1),
                Reply(1, CsAwaitReply), Reply(1, CsRollForward(4)), E(Ev::Ban(1)), ConfirmAll(1), E(Ev::Hk(false)), ConfirmAll(1)]].concat());
            // everything requested before the handshake is complete; peer sharing not negotiated
            shapes.push(vec![E(Ev::Include(1)), E(Ev::ContinueSync(1)), E(Ev::StartSync(0)), E(Ev::RequestBlocks(1)), E(Ev::FetchEb(1, 1)), E(Ev::Hk(false)), E(Ev::Hk(true)),
                E(Ev::Connected(1)), E(Ev::ContinueSync(1)), E(Ev::Hk(false)), ConfirmAll(1), E(Ev::ContinueSync(1)), E(Ev::Ban(1)), E(Ev::Demote(1)), E(Ev::Hk(false)),
                Reply(1, HsAccept(v, 0)), E(Ev::ContinueSync(1)), E(Ev::Hk(false)), ConfirmAll(1), Reply(1, KaResponse(65535)), Reply(1, BfNoBlocks), Reply(1, CsIntersectNotFound), Reply(1, LfBlock(1)),
                E(Ev::Hk(false)), ConfirmAll(1), E(Ev::ContinueSync(1)), E(Ev::Hk(true)), ConfirmAll(1)]);
            // refused handshake / query reply: nothing may follow
            for refuse in [HsRefuse(0), HsRefuse(2), HsQueryReply] {
                shapes.push(vec![E(Ev::Include(1)), E(Ev::StartSync(1)), E(Ev::RequestBlocks(1)), E(Ev::FetchEb(1, 1)), E(Ev::Hk(false)), E(Ev::Connected(1)), ConfirmAll(1), Reply(1, refuse),
                    E(Ev::Hk(false)), E(Ev::ContinueSync(1)), E(Ev::Hk(true)), E(Ev::Ban(1)), E(Ev::Hk(false)), E(Ev::Demote(1)), E(Ev::ContinueSync(1))]);
            }
            // one confirmation delayed (leios-notify / chain-sync) while commands reach the other emitters
            shapes.push([setup(v, 1), vec![E(Ev::StartSync(1)), E(Ev::Hk(false)), ConfirmUntil(1, 18), Reply(1, KaResponse(65535)), Reply(1, CsIntersectFound(2)), E(Ev::ContinueSync(1)),
                Reply(1, PsPeers(vec![2])), E(Ev::RequestBlocks(2)), E(Ev::FetchEb(1, 3)), ConfirmAll(1), Reply(1, CsRollForward(1)), E(Ev::Ban(1)), ConfirmAll(1), Reply(1, LnOffer(3)), E(Ev::Hk(false)), ConfirmAll(1)]].concat());
            // re-include while connected: the old connection's confirmations and replies meet a fresh peer state
            shapes.push([setup(v, 1), vec![E(Ev::StartSync(1)), E(Ev::Hk(false)), E(Ev::Include(1)), ConfirmAll(1), Reply(1, CsIntersectFound(2)), Reply(1, KaResponse(65535)), E(Ev::ContinueSync(1)), ConfirmAll(1),
                Reply(1, CsRollForward(2)), E(Ev::Hk(false)), E(Ev::ContinueSync(1)), E(Ev::Error(1)), E(Ev::ContinueSync(1)), E(Ev::Demote(1)), E(Ev::Disconnected(1)), E(Ev::Hk(false)),
                E(Ev::Connected(1)), ConfirmAll(1), Reply(1, HsAccept(v, 1)), E(Ev::Hk(false)), ConfirmAll(1), Reply(1, KaResponse(65535)), E(Ev::Hk(true)), ConfirmAll(1)]].concat());
            // banned / errored peers: confirmations for a banned peer, tags after an error, reconnect
            shapes.push([setup(v, 1), vec![E(Ev::StartSync(1)), E(Ev::Hk(false)), ConfirmAll(1), Reply(1, KaResponse(65535)), Reply(1, CsIntersectFound(1)), E(Ev::Ban(1)), E(Ev::ContinueSync(1)), ConfirmAll(1),
                Reply(1, CsAwaitReply), E(Ev::Hk(false)), ConfirmAll(1), Reply(1, KaResponse(65535)), E(Ev::Error(1)), E(Ev::ContinueSync(1)), E(Ev::Demote(1)), E(Ev::Ban(1)), E(Ev::Hk(false)),
                E(Ev::Disconnected(1)), E(Ev::ContinueSync(1)), E(Ev::Hk(false)), E(Ev::Include(1)), E(Ev::Hk(true))]].concat());
            // block-fetch streaming and both leios-fetch requests, housekeeping in every intermediate state
            shapes.push([setup(v, 1), vec![E(Ev::RequestBlocks(2)), E(Ev::RequestBlocks(3)), E(Ev::FetchEb(1, 3)), E(Ev::FetchEbTxs(1, 4)), E(Ev::FetchEb(2, 5)), E(Ev::Hk(false)), ConfirmAll(1),
                Reply(1, BfStartBatch), Reply(1, KaResponse(65535)), E(Ev::Hk(false)), ConfirmAll(1), Reply(1, BfBlock(1)), Reply(1, LfBlock(5)), Reply(1, LnVotes(2)), E(Ev::Hk(true)), ConfirmAll(1),
                Reply(1, BfBlock(2)), Reply(1, BfBatchDone), Reply(1, LfBlockTxs(4)), Reply(1, KaResponse(65535)), E(Ev::Hk(false)), ConfirmAll(1), Reply(1, BfNoBlocks), Reply(1, LnAnnouncement(1)), E(Ev::Hk(false)), ConfirmAll(1)]].concat());
        }
        for shape in &shapes {
            for sync in [true, false] {
                let mut sim = Sim { d: InitDriver::new(cfg), peers: HashMap::new(), sync, npeers: 2 };
                let mut run = Run { recs: vec![], hist: vec![], exec_index: 0, violation: None, dead: false };
                for d in shape {
                    match d {
                        E(e) => sim.apply(e.clone(), &mut run, to_model, true, cfg),
                        ConfirmAll(p) => { if !sync { while let Some(m) = sim.peers.get(p).and_then(|x| if x.link == Link::Up { x.pend.first().cloned() } else { None }) {
                            if run.dead || run.violation.is_some() { break; } sim.apply(Ev::Sent(*p, m), &mut run, to_model, true, cfg); } } }
                        ConfirmUntil(p, proto) => { if !sync { while let Some(m) = sim.peers.get(p).and_then(|x| if x.link == Link::Up { x.pend.first().cloned() } else { None }) {
                            if m.proto() == *proto || run.dead || run.violation.is_some() { break; } sim.apply(Ev::Sent(*p, m), &mut run, to_model, true, cfg); } } }
                        Reply(p, m) => { let ok = sim.peers.get(p).map(|x| x.link == Link::Up && x.wire.server_ok(m) && !x.pend.iter().any(|q| q.proto() == m.proto())).unwrap_or(false);
                            if ok { sim.apply(Ev::Recv(*p, vec![m.clone()]), &mut run, to_model, true, cfg); } }
                    }
                }
                finish(&sim, &run, cfg, if sync { "directed-shapes-sync" } else { "directed-shapes-async" }, to_model);
            }
        }
    }
    for i in 0..args.n {
        let sync = i % 2 == 0;
        let long = i % 6 == 5;
        let npeers = if long { 6 } else { rng.range(1, 3) as i64 };
        let len = if long { 200 } else { rng.range(15, 60) as usize };
        let cfg = if rng.chance(1, 2) { PCfg { max_peers: 100, max_warm: 50, max_hot: 10, max_err: 1 } }
                  else { PCfg { max_peers: rng.range(1, 6) as usize, max_warm: rng.range(1, 4) as usize, max_hot: rng.range(0, 2) as usize, max_err: rng.below(3) as u32 } };
        let mut r2 = Rng::new(rng.next());
        if i < 4 { emit_sample(&format!("{} cfg={:?} npeers={} len={}", if sync { "sync" } else { "async" }, cfg, npeers, len)); }
        random_schedule(&mut r2, sync, cfg, npeers, len, if long { 50 } else { 8 }, &format!("random-{}-{}", if sync { "sync" } else { "async" }, if long { "long" } else { "short" }), to_model);
    }
}
