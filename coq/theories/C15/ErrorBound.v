(* C15, error-bound component proved in Coq (no Reals): on [0,1] every term the
   Taylor loop adds is within 3 units (3e-34) below the exact rational term
   x^k / k!, hence the returned sum is within 3*n units below the exact
   rational partial sum  S_n(x) = sum_{k<=n} x^k / k!  (n <= 24: < 7.2e-33).
   The analytic tail  e^x - S_n(x)  is NOT bounded here (see exp_error_partial
   in the comments of Props.v). *)
From PV Require Import Lib.Base Fixed.Model Fixed.Proofs C15.Proofs.
Open Scope Z_scope.

(* W k = k! * 10^(34 k): the exact k-th term, in units of 1e-34, is x^k * PREC / W k *)
Definition W (k : nat) : Z := zfact k * PREC ^ Z.of_nat k.

Lemma W_pos k : 0 < W k.
Proof. unfold W. pose proof (zfact_pos k). pose proof PREC_pos. apply Z.mul_pos_pos; [lia|]. apply Z.pow_pos_nonneg; lia. Qed.
Lemma W_succ k : W (S k) = (Z.of_nat k + 1) * PREC * W k.
Proof.
  unfold W. cbn [zfact]. rewrite !Nat2Z.inj_succ, Z.pow_succ_r by lia. ring.
Qed.

(* t approximates the exact k-th term from below within 3 units *)
Definition term_ok (x t : Z) (k : nat) : Prop :=
  t * W k <= x ^ Z.of_nat k * PREC < (t + 3) * W k.

Lemma term_step x t k : 0 <= x <= ONE -> 0 <= t -> (1 <= k)%nat -> term_ok x t k ->
  term_ok x (fp_div (scale (x * t)) ((Z.of_nat k + 1) * ONE)) (S k).
Proof.
  intros Hx Ht Hk [Hlo Hhi]. pose proof PREC_pos as HP. unfold ONE in *.
  assert (Hs : scale (x * t) * PREC <= x * t < (scale (x * t) + 1) * PREC) by apply scale_spec.
  assert (Hs0 : 0 <= scale (x * t)) by (apply scale_nonneg; nia).
  set (s := scale (x * t)) in *. clearbody s.
  assert (Hn : fp_div s ((Z.of_nat k + 1) * PREC) = s / (Z.of_nat k + 1)).
  { rewrite fp_div_floor by nia. rewrite Z.div_mul_cancel_r by lia. reflexivity. }
  rewrite Hn. set (c := Z.of_nat k + 1) in *. assert (Hc : 2 <= c) by lia.
  pose proof (Z.div_mod s c ltac:(lia)) as Hdm. pose proof (Z.mod_pos_bound s c ltac:(lia)) as Hmb.
  set (t' := s / c) in *. clearbody t'.
  unfold term_ok. rewrite W_succ. fold c. rewrite Nat2Z.inj_succ, Z.pow_succ_r by lia.
  pose proof (W_pos k) as HW. set (w := W k) in *. clearbody w.
  set (xk := x ^ Z.of_nat k) in *. clearbody xk.
  destruct Hs as [Hs1 Hs2].
  split.
  - (* t' c P w <= s P w <= x t w <= x xk P *)
    assert (A1 : t' * c <= s) by lia.
    assert (A2 : t' * c * (PREC * w) <= s * (PREC * w)) by (apply Z.mul_le_mono_nonneg_r; nia).
    assert (A3 : s * PREC * w <= x * t * w) by (apply Z.mul_le_mono_nonneg_r; lia).
    assert (A4 : x * (t * w) <= x * (xk * PREC)) by (apply Z.mul_le_mono_nonneg_l; lia).
    lia.
  - (* x xk P < x (t+3) w = (x t + 3 x) w < ((s+1) P + 3 P) w = (s+4) P w <= (t'+3) c P w *)
    assert (B2 : x * t + 3 * x < (s + 4) * PREC) by lia.
    assert (B3 : (x * t + 3 * x) * w < (s + 4) * PREC * w) by (apply Z.mul_lt_mono_pos_r; lia).
    assert (B4 : s + 4 <= (t' + 3) * c) by nia.
    assert (B5 : (s + 4) * (PREC * w) <= (t' + 3) * c * (PREC * w)) by (apply Z.mul_le_mono_nonneg_r; nia).
    assert (B6 : x * (xk * PREC) <= x * ((t + 3) * w)) by (apply Z.mul_le_mono_nonneg_l; lia).
    lia.
Qed.

(* ---- the same in Q, summed over the loop ---- *)
From Coq Require Import QArith Lqa.
Open Scope Z_scope.

Definition qterm (x : Z) (k : nat) : Q := (inject_Z (x ^ Z.of_nat k * PREC) / inject_Z (W k))%Q.
Fixpoint qsum (x : Z) (n : nat) : Q :=
  match n with O => qterm x 0 | S m => (qsum x m + qterm x (S m))%Q end.

Lemma term_ok_Q x t k : term_ok x t k -> (inject_Z t <= qterm x k /\ qterm x k < inject_Z t + 3)%Q.
Proof.
  intros [Hlo Hhi]. pose proof (W_pos k) as HW. unfold qterm.
  assert (HWq : (0 < inject_Z (W k))%Q) by (rewrite <- (Zlt_Qlt 0); exact HW).
  split.
  - apply Qle_shift_div_l; [exact HWq|]. rewrite <- inject_Z_mult. rewrite <- Zle_Qle. exact Hlo.
  - apply Qlt_shift_div_r; [exact HWq|].
    change 3%Q with (inject_Z 3). rewrite <- inject_Z_plus, <- inject_Z_mult. rewrite <- Zlt_Qlt. exact Hhi.
Qed.

Lemma taylor_loop_sum fuel : forall x rop last_x k, 0 <= x <= ONE -> (1 <= k)%nat ->
  0 <= last_x -> term_ok x last_x k ->
  (inject_Z rop <= qsum x k /\ qsum x k <= inject_Z rop + 3 * inject_Z (Z.of_nat k))%Q ->
  let r := taylor_loop fuel x EPS rop ((Z.of_nat k + 1) * ONE) last_x (Z.of_nat k) in
  exists n, snd r = Z.of_nat n /\
    (inject_Z (fst r) <= qsum x n /\ qsum x n <= inject_Z (fst r) + 3 * inject_Z (Z.of_nat n))%Q /\
    (Z.of_nat n < Z.of_nat k + Z.of_nat fuel -> (qterm x (S n) < inject_Z EPS + 3)%Q).
Proof.
  induction fuel as [|fuel IH]; intros x rop last_x k Hx Hk Hl Ht Hs r.
  - exists k. subst r. cbn [taylor_loop fst snd]. split; [reflexivity|]. split; [exact Hs|]. intros; lia.
  - subst r. cbn [taylor_loop].
    pose proof (term_step x last_x k Hx Hl Hk Ht) as Ht'.
    set (next_x := fp_div (scale (x * last_x)) ((Z.of_nat k + 1) * ONE)) in *.
    assert (Hn0 : 0 <= next_x).
    { apply fp_div_nonneg; [apply scale_nonneg; nia | pose proof ONE_pos; nia]. }
    destruct (term_ok_Q _ _ _ Ht') as [Hq1 Hq2].
    destruct (Z.abs next_x <? Z.abs EPS) eqn:E.
    + exists k. cbn [fst snd]. split; [reflexivity|]. split; [exact Hs|]. intros _.
      assert (Hlt : next_x < EPS) by (change (Z.abs EPS) with EPS in E; lia).
      rewrite Zlt_Qlt in Hlt. lra.
    + replace ((Z.of_nat k + 1) * ONE + ONE) with ((Z.of_nat (S k) + 1) * ONE) by lia.
      replace (Z.of_nat k + 1) with (Z.of_nat (S k)) by lia.
      assert (Hs' : (inject_Z (rop + next_x) <= qsum x (S k) /\
                     qsum x (S k) <= inject_Z (rop + next_x) + 3 * inject_Z (Z.of_nat (S k)))%Q).
      { cbn [qsum]. rewrite inject_Z_plus. rewrite Nat2Z.inj_succ. unfold Z.succ. rewrite inject_Z_plus.
        change (inject_Z 1) with 1%Q. destruct Hs as [Hs1 Hs2]. split; lra. }
      destruct (IH x (rop + next_x) next_x (S k) Hx ltac:(lia) Hn0 Ht' Hs') as (n & E1 & E2 & E3).
      exists n. split; [exact E1|]. split; [exact E2|]. intros Hlt. apply E3. lia.
Qed.

Lemma mp_exp_taylor_unfold x : mp_exp_taylor 1000 x EPS =
  if Z.abs x <? Z.abs EPS then (ONE, 0)
  else taylor_loop (Z.to_nat 999) x EPS (ONE + x) ((Z.of_nat 1 + 1) * ONE) x (Z.of_nat 1).
Proof.
  unfold mp_exp_taylor. replace (Z.to_nat 1000) with (S (Z.to_nat 999)) by lia.
  generalize (Z.to_nat 999). intros f. cbn [taylor_loop].
  assert (Hfirst : fp_div (scale (x * ONE)) ONE = x).
  { unfold ONE. pose proof PREC_pos. rewrite scale_mul_PREC. rewrite fp_div_quot by lia. apply Z.quot_mul. lia. }
  rewrite Hfirst. reflexivity.
Qed.

(* the returned sum against the exact rational partial sum, and the first omitted term *)
Lemma exp_taylor_partial_sum_proof x : 0 <= x <= ONE ->
  exists n, snd (mp_exp_taylor 1000 x EPS) = Z.of_nat n /\ (n <= 24)%nat /\
    (inject_Z (fst (mp_exp_taylor 1000 x EPS)) <= qsum x n /\
     qsum x n <= inject_Z (fst (mp_exp_taylor 1000 x EPS)) + 3 * inject_Z (Z.of_nat n))%Q /\
    (qterm x (S n) < inject_Z EPS + 3)%Q.
Proof.
  intros Hx. pose proof (mp_exp_taylor_spec x 1000 Hx ltac:(lia)) as (_ & Hn & _).
  pose proof PREC_pos as HP.
  assert (Hq0 : (qterm x 0 == inject_Z ONE)%Q).
  { unfold qterm, W. cbn [zfact Z.of_nat]. rewrite !Z.pow_0_r. rewrite !Z.mul_1_l.
    change (inject_Z 1) with 1%Q. unfold ONE. field. }
  rewrite mp_exp_taylor_unfold in *.
  destruct (Z.abs x <? Z.abs EPS) eqn:E.
  - exists 0%nat. cbn [fst snd]. split; [reflexivity|]. split; [lia|].
    split; [cbn [qsum]; rewrite Hq0; change (inject_Z (Z.of_nat 0)) with 0%Q; lra|].
    assert (Hlt : x < EPS) by (change (Z.abs EPS) with EPS in E; lia).
    assert (Hq1 : (qterm x 1 == inject_Z x)%Q).
    { unfold qterm, W. cbn [zfact]. change (Z.of_nat 1) with 1. rewrite !Z.pow_1_r, !Z.mul_1_l.
      rewrite inject_Z_mult. field. intros H. unfold Qeq, inject_Z in H. cbn [Qnum Qden] in H. lia. }
    rewrite Hq1. rewrite Zlt_Qlt in Hlt. lra.
  - assert (Ht1 : term_ok x x 1).
    { unfold term_ok, W. cbn [zfact]. change (Z.of_nat 1) with 1. rewrite !Z.pow_1_r. lia. }
    assert (Hs1 : (inject_Z (ONE + x) <= qsum x 1 /\ qsum x 1 <= inject_Z (ONE + x) + 3 * inject_Z (Z.of_nat 1))%Q).
    { cbn [qsum]. destruct (term_ok_Q _ _ _ Ht1) as [A B]. rewrite Hq0, inject_Z_plus.
      change (inject_Z (Z.of_nat 1)) with 1%Q. split; lra. }
    destruct (taylor_loop_sum (Z.to_nat 999) x (ONE + x) x 1%nat Hx ltac:(lia) ltac:(lia) Ht1 Hs1) as (n & E1 & E2 & E3).
    exists n. split; [exact E1|]. split; [lia|]. split; [exact E2|]. apply E3. lia.
Qed.
