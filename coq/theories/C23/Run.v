(* C23 correspondence: a case is (protocol, role, operations, what the real agent did):
   per executed operation (accepted?, message class put on the wire or "", state() after).
   CSpec23 cases compare the harness's own oracle table with Spec.v through the naming bridge. *)
From PV Require Import Lib.Base C24.Spec Generated.AgentTables C23.Model C23.Defs.
From Coq Require Import String.
Open Scope string_scope.

Inductive case :=
| Case23 (proto role : string) (ops : list op) (observed : list obs)
(* oracle table cell: in specification state q, message class m sent by the agent of `role`
   (sent = true) or by its peer leads to `next` (None = not permitted) *)
| CSpec23 (proto role q m : string) (sent : bool) (next : option string).

Definition obs_eqb (x y : obs) : bool :=
  let '(a1, b1, c1) := x in let '(a2, b2, c2) := y in
  Bool.eqb a1 a2 && String.eqb b1 b2 && String.eqb c1 c2.

Definition case_out (c : case) : list obs * option (option string) :=
  match c with
  | Case23 p r ops _ =>
      match find_agent p r agents with
      | Some a => (run_obs a (at_init (ag_table a)) ops, None)
      | None => ([], None)
      end
  | CSpec23 p r q m sent _ =>
      match find_agent p r agents with
      | Some a => ([], Some (spec_ev (ag_spec a) p (if sent then ag_role a else other (ag_role a)) q m))
      | None => ([], None)
      end
  end.

Definition opt_eqb (a b : option string) : bool :=
  match a, b with None, None => true | Some x, Some y => String.eqb x y | _, _ => false end.

Definition case_ok (c : case) : bool :=
  match c with
  | Case23 p r ops o =>
      match find_agent p r agents with
      | Some a => list_eqb obs_eqb (run_obs a (at_init (ag_table a)) ops) o
      | None => false
      end
  | CSpec23 p r q m sent next =>
      match find_agent p r agents with
      | Some a => opt_eqb (spec_ev (ag_spec a) p (if sent then ag_role a else other (ag_role a)) q m) next
      | None => false
      end
  end.
