//! C16: `FixedPrecision::exp_cmp` (pallas-math, `ref_exp_cmp`) never reaches a wrong conclusion.
//! case := (max_n, x.data, bound_x, compare.data, iterations, estimation code, approx.data)
//!         estimation code 0 = UNKNOWN, 1 = GT, 2 = LT
//!
//! Oracle (independent of the Coq model and of pallas-math's own arithmetic): a rigorous
//! enclosure [L, U] of e^(x/10^34) * 10^72 computed here with a small decimal bigint
//! (Taylor series, every truncation rounded in the safe direction, explicit geometric tail
//! bound).  GT must imply compare*10^38 > U-or-at-least-not < L, LT the converse.
use pallas_math::math::{ExpOrdering, FixedDecimal, FixedPrecision};
use std::cmp::Ordering;
use verif_harness::*;

// ------------------------------------------------------------------ tiny bigint (base 10^9)
const BASE: u64 = 1_000_000_000;
#[derive(Clone, Debug, PartialEq, Eq)]
struct Nat(Vec<u32>); // little endian, no high zero limbs
impl Nat {
    fn zero() -> Nat { Nat(vec![]) }
    fn from_u64(mut v: u64) -> Nat { let mut l = vec![]; while v > 0 { l.push((v % BASE) as u32); v /= BASE; } Nat(l) }
    fn norm(mut self) -> Nat { while let Some(&0) = self.0.last() { self.0.pop(); } self }
    fn is_zero(&self) -> bool { self.0.is_empty() }
    fn from_dec(s: &str) -> Nat {
        let b = s.as_bytes();
        assert!(!b.is_empty() && b.iter().all(|c| c.is_ascii_digit()), "bad decimal {:?}", s);
        let mut l = vec![];
        let mut end = b.len();
        while end > 0 {
            let start = end.saturating_sub(9);
            l.push(s[start..end].parse::<u32>().unwrap());
            end = start;
        }
        Nat(l).norm()
    }
    fn to_dec(&self) -> String {
        if self.0.is_empty() { return "0".into(); }
        let mut s = format!("{}", self.0[self.0.len() - 1]);
        for l in self.0.iter().rev().skip(1) { s.push_str(&format!("{:09}", l)); }
        s
    }
    fn cmp(&self, o: &Nat) -> Ordering {
        if self.0.len() != o.0.len() { return self.0.len().cmp(&o.0.len()); }
        for i in (0..self.0.len()).rev() { if self.0[i] != o.0[i] { return self.0[i].cmp(&o.0[i]); } }
        Ordering::Equal
    }
    fn add(&self, o: &Nat) -> Nat {
        let n = self.0.len().max(o.0.len());
        let mut l = Vec::with_capacity(n + 1);
        let mut c = 0u64;
        for i in 0..n {
            let v = c + *self.0.get(i).unwrap_or(&0) as u64 + *o.0.get(i).unwrap_or(&0) as u64;
            l.push((v % BASE) as u32); c = v / BASE;
        }
        if c > 0 { l.push(c as u32); }
        Nat(l)
    }
    /// self - o, requires self >= o
    fn sub(&self, o: &Nat) -> Nat {
        assert!(self.cmp(o) != Ordering::Less, "Nat::sub underflow");
        let mut l = Vec::with_capacity(self.0.len());
        let mut borrow = 0i64;
        for i in 0..self.0.len() {
            let mut v = self.0[i] as i64 - borrow - *o.0.get(i).unwrap_or(&0) as i64;
            if v < 0 { v += BASE as i64; borrow = 1; } else { borrow = 0; }
            l.push(v as u32);
        }
        Nat(l).norm()
    }
    fn sat_sub(&self, o: &Nat) -> Nat { if self.cmp(o) == Ordering::Less { Nat::zero() } else { self.sub(o) } }
    fn mul(&self, o: &Nat) -> Nat {
        if self.is_zero() || o.is_zero() { return Nat::zero(); }
        let mut acc = vec![0u64; self.0.len() + o.0.len() + 1];
        for (i, &a) in self.0.iter().enumerate() {
            let mut c = 0u64;
            for (j, &b) in o.0.iter().enumerate() {
                let v = acc[i + j] + a as u64 * b as u64 + c; // < 10^9 + 10^18 + 10^10
                acc[i + j] = v % BASE; c = v / BASE;
            }
            let mut k = i + o.0.len();
            while c > 0 { let v = acc[k] + c; acc[k] = v % BASE; c = v / BASE; k += 1; }
        }
        Nat(acc.into_iter().map(|v| v as u32).collect()).norm()
    }
    fn mul_small(&self, m: u64) -> Nat { self.mul(&Nat::from_u64(m)) }
    /// floor(self / d), 0 < d < 2^32
    fn div_small(&self, d: u64) -> Nat {
        assert!(d > 0 && d < (1 << 32));
        let mut l = vec![0u32; self.0.len()];
        let mut r = 0u64;
        for i in (0..self.0.len()).rev() { let v = r * BASE + self.0[i] as u64; l[i] = (v / d) as u32; r = v % d; }
        Nat(l).norm()
    }
    /// floor(self / 10^(9k))
    fn shr_limbs(&self, k: usize) -> Nat { if self.0.len() <= k { Nat::zero() } else { Nat(self.0[k..].to_vec()) } }
    fn mul_pow10(&self, k: usize) -> Nat { if self.is_zero() { Nat::zero() } else { Nat::from_dec(&(self.to_dec() + &"0".repeat(k))) } }
    /// floor(self / 10^k)
    fn div_pow10(&self, k: usize) -> Nat { let s = self.to_dec(); if s.len() <= k { Nat::zero() } else { Nat::from_dec(&s[..s.len() - k]) } }
    fn isqrt(&self) -> Nat {
        // binary search on [0, 10^(digits/2+1)]
        let mut lo = Nat::zero();
        let mut hi = Nat::from_dec(&("1".to_string() + &"0".repeat(self.to_dec().len() / 2 + 1)));
        // invariant lo^2 <= self < hi^2
        loop {
            let mid = lo.add(&hi).div_small(2);
            if mid == lo { return lo; }
            if mid.mul(&mid).cmp(self) == Ordering::Greater { hi = mid; } else { lo = mid; }
        }
    }
}
#[derive(Clone, Debug, PartialEq, Eq)]
struct Int { neg: bool, mag: Nat }
impl Int {
    fn from_nat(n: Nat) -> Int { Int { neg: false, mag: n } }
    fn from_i64(v: i64) -> Int { Int { neg: v < 0, mag: Nat::from_u64(v.unsigned_abs()) } }
    fn from_dec(s: &str) -> Int {
        let (neg, d) = if let Some(r) = s.strip_prefix('-') { (true, r) } else { (false, s) };
        let mag = Nat::from_dec(d);
        Int { neg: neg && !mag.is_zero(), mag }
    }
    fn to_dec(&self) -> String { if self.neg && !self.mag.is_zero() { format!("-{}", self.mag.to_dec()) } else { self.mag.to_dec() } }
    fn is_neg(&self) -> bool { self.neg && !self.mag.is_zero() }
    fn add(&self, o: &Int) -> Int {
        if self.is_neg() == o.is_neg() { return Int { neg: self.is_neg(), mag: self.mag.add(&o.mag) }; }
        match self.mag.cmp(&o.mag) {
            Ordering::Less => Int { neg: o.is_neg(), mag: o.mag.sub(&self.mag) },
            _ => Int { neg: self.is_neg(), mag: self.mag.sub(&o.mag) },
        }
    }
    fn negate(&self) -> Int { Int { neg: !self.is_neg(), mag: self.mag.clone() } }
    fn sub(&self, o: &Int) -> Int { self.add(&o.negate()) }
    fn mul(&self, o: &Int) -> Int { Int { neg: self.is_neg() != o.is_neg(), mag: self.mag.mul(&o.mag) } }
    fn cmp(&self, o: &Int) -> Ordering {
        match (self.is_neg(), o.is_neg()) {
            (false, true) => Ordering::Greater,
            (true, false) => Ordering::Less,
            (false, false) => self.mag.cmp(&o.mag),
            (true, true) => o.mag.cmp(&self.mag),
        }
    }
}

// ------------------------------------------------------------------ rigorous enclosure of e^X
const WL: usize = 8; // working scale W = 10^72 = BASE^8
const WSHIFT: usize = 38; // W / 10^34

/// Enclosure (L, U) with L <= W * e^(x / 10^34) <= U, for |x| / 10^34 <= 60.
fn exp_enclosure(x: &Int) -> Option<(Nat, Nat)> {
    let w = Nat::from_dec(&("1".to_string() + &"0".repeat(72)));
    if x.mag.is_zero() { return Some((w.clone(), w)); }
    let xw = x.mag.mul_pow10(WSHIFT); // |X| * W exactly
    let xint = x.mag.div_pow10(34); // floor |X|
    if xint.cmp(&Nat::from_u64(60)) == Ordering::Greater { return None; }
    let xceil = xint.0.first().copied().unwrap_or(0) as u64 + 1;
    // lo_j <= W X^j / j! <= hi_j
    let (mut lo, mut hi) = (w.clone(), w.clone());
    // sums over even / odd j
    let mut slo = [w.clone(), Nat::zero()];
    let mut shi = [w.clone(), Nat::zero()];
    let mut j = 0u64;
    loop {
        j += 1;
        lo = lo.mul(&xw).shr_limbs(WL).div_small(j);
        hi = hi.mul(&xw).shr_limbs(WL).div_small(j).add(&Nat::from_u64(1));
        // tail: once j >= 2|X| and j >= 2, sum_{i >= j} T_i <= 2 T_j
        if j >= 2 * xceil + 2 && hi.cmp(&Nat::from_u64(1)) != Ordering::Greater {
            let tail = hi.mul_small(2);
            // the tail is split between even and odd terms in an unknown way: give all of it to both
            shi[0] = shi[0].add(&tail);
            shi[1] = shi[1].add(&tail);
            break;
        }
        let p = (j % 2) as usize;
        slo[p] = slo[p].add(&lo);
        shi[p] = shi[p].add(&hi);
        if j > 5000 { return None; }
    }
    if !x.is_neg() {
        Some((slo[0].add(&slo[1]), shi[0].add(&shi[1])))
    } else {
        Some((slo[0].sat_sub(&shi[1]), shi[0].sub(&slo[1])))
    }
}

#[derive(Clone, Copy, PartialEq, Eq, Debug)]
enum Truth { Above, Below, Undecided }
/// position of c (scale 10^34) relative to e^X given the enclosure (scale 10^72)
fn truth(c: &Int, enc: &(Nat, Nat)) -> Truth {
    if c.is_neg() { return Truth::Below; }
    let cw = c.mag.mul_pow10(WSHIFT);
    if cw.cmp(&enc.1) == Ordering::Greater { Truth::Above }
    else if cw.cmp(&enc.0) == Ordering::Less { Truth::Below }
    else { Truth::Undecided }
}

// ------------------------------------------------------------------ the real code
#[derive(Clone, Debug)]
struct ImplOut { iterations: u64, est: i32, approx: Int }

fn call_impl(prec: u64, max_n: u64, x: &Int, bound: i64, c: &Int) -> Out<ImplOut> {
    let (xs, cs) = (x.to_dec(), c.to_dec());
    guard(move || {
        let xd = FixedDecimal::from_str(&xs, prec).map_err(|e| format!("from_str x: {e}"))?;
        let cd = FixedDecimal::from_str(&cs, prec).map_err(|e| format!("from_str c: {e}"))?;
        let r = xd.exp_cmp(max_n, bound, &cd);
        let est = match r.estimation { ExpOrdering::UNKNOWN => 0, ExpOrdering::GT => 1, ExpOrdering::LT => 2 };
        if r.approx.precision() != 34 { return Err(format!("approx precision {}", r.approx.precision())); }
        // Display prints <int>.<34 zero-padded digits> with a leading '-' for negatives: dropping the dot gives `data`
        let s = r.approx.to_string().replace('.', "");
        Ok(ImplOut { iterations: r.iterations, est, approx: Int::from_dec(&s) })
    })
}

struct Ctx { oracle_only: bool, n_oracle: u64, n_undecided: u64, n_gt: u64, n_lt: u64, n_unknown: u64, n_premise_false: u64 }

/// Run one input through the real code, the oracle, and print the case.
fn run(ctx: &mut Ctx, tag: &str, prec: u64, max_n: u64, x: &Int, bound: i64, c: &Int) -> Option<ImplOut> {
    let out = call_impl(prec, max_n, x, bound, c);
    let input = format!("x={} bound={} max_n={} compare={} precision={}", x.to_dec(), bound, max_n, c.to_dec(), prec);
    let r = match out {
        Out::Ok(r) => r,
        Out::Err(e) => { emit_oracle_fail("error", &format!("{input} -> error {e}")); return None; }
        Out::Panic(p) => { emit_oracle_fail("panic", &format!("{input} -> panic {p}")); return None; }
    };
    match r.est { 1 => ctx.n_gt += 1, 2 => ctx.n_lt += 1, _ => ctx.n_unknown += 1 }
    // structural part of the statement
    if r.iterations > max_n { emit_oracle_fail("iterations-above-max", &format!("{input} -> iterations={}", r.iterations)); }
    // the property's predicate, for inputs inside its premise (bound dominates e^|x|)
    let absx = Int::from_nat(x.mag.clone());
    if let (Some(enc), Some(enc_abs)) = (exp_enclosure(x), exp_enclosure(&absx)) {
        // bound * 10^72 >= U >= e^|x| * 10^72
        let premise = bound >= 0 && Nat::from_u64(bound as u64).mul_pow10(72).cmp(&enc_abs.1) != Ordering::Less;
        if premise {
            ctx.n_oracle += 1;
            let t = truth(c, &enc);
            if t == Truth::Undecided { ctx.n_undecided += 1; }
            let side = if x.is_neg() { "neg-x-" } else { "" };
            let obs = format!("{input} -> iterations={} estimation={} approx={} ; e^x*10^72 in [{}, {}]",
                r.iterations, ["UNKNOWN", "GT", "LT"][r.est as usize], r.approx.to_dec(), enc.0.to_dec(), enc.1.to_dec());
            if r.est == 1 && t == Truth::Below {
                // how far below?  margin proved in Coq (exp_cmp_gt_margin): bound * (iterations + bound) ulps
                let m = Int::from_i64(bound).mul(&Int::from_i64(bound).add(&Int::from_nat(Nat::from_u64(r.iterations))));
                let within = truth(&c.add(&m), &enc) == Truth::Above;
                let key = if within { format!("{side}gt-wrong-within-truncation-margin") } else { format!("{side}gt-wrong") };
                emit_oracle_fail(&key, &format!("GT but compare < e^x: {obs}"));
            }
            if r.est == 2 && t == Truth::Above {
                emit_oracle_fail(&format!("{side}lt-wrong"), &format!("LT but compare > e^x: {obs}"));
            }
            // approx never exceeds e^x for x >= 0 (every truncation rounds down)
            if !x.is_neg() && truth(&r.approx, &enc) == Truth::Above {
                emit_oracle_fail("approx-above-exp", &format!("approx > e^x: {obs}"));
            }
        } else {
            ctx.n_premise_false += 1;
        }
    }
    if !ctx.oracle_only {
        emit_case(tag, &format!("({},{},{},{},{},{},{})", max_n, coq_z(x.to_dec()), coq_z(bound), coq_z(c.to_dec()),
            r.iterations, r.est, coq_z(r.approx.to_dec())));
    }
    Some(r)
}

// ------------------------------------------------------------------ generators
fn rand_digits(rng: &mut Rng, n: usize) -> String {
    let mut s = String::new();
    for i in 0..n { let d = if i == 0 { 1 + rng.below(9) } else { rng.below(10) }; s.push((b'0' + d as u8) as char); }
    s
}
/// uniform-ish Nat below `hi` (hi > 0)
fn rand_below(rng: &mut Rng, hi: &Nat) -> Nat {
    let d = hi.to_dec().len();
    let mut s = String::new();
    for _ in 0..d + 3 { s.push((b'0' + rng.below(10) as u8) as char); }
    // (random (d+3)-digit number) * hi / 10^(d+3)
    Nat::from_dec(&s).mul(hi).div_pow10(d + 3)
}
fn pow10(k: usize) -> Nat { Nat::from_dec(&("1".to_string() + &"0".repeat(k))) }

fn gen_x(rng: &mut Rng) -> (Int, &'static str) {
    let s = pow10(34);
    match rng.below(20) {
        0..=6 => (Int::from_nat(rand_below(rng, &s.mul_small(12).div_small(10))), "x-leader-range"),   // [0, 1.2)
        7 => (Int::from_nat(rand_below(rng, &s.div_small(10))), "x-below-0.1"),
        8 | 9 => { let k = 1 + rng.below(35) as usize; (Int::from_nat(Nat::from_dec(&rand_digits(rng, k))), "x-random-magnitude") }
        10 => { // around the EPS stopping rule for the first term
            let d = rng.below(5) as i64 - 2;
            (Int::from_nat(pow10(10)).add(&Int::from_i64(d)), "x-near-eps")
        }
        11 | 12 => { // second term floor(x^2 / 2S) lands on / next to a multiple m with the fractional part close to 1 or 0
            let m = match rng.below(3) { 0 => pow10(10).add(&Nat::from_u64(rng.below(1000))), 1 => pow10(10).add(&rand_below(rng, &pow10(12))), _ => rand_below(rng, &pow10(20)).add(&Nat::from_u64(1)) };
            let r = s.mul_small(2).mul(&m).isqrt();
            let d = rng.below(3) as i64 - 1;
            let v = Int::from_nat(r).add(&Int::from_i64(d));
            (if v.is_neg() { Int::from_i64(0) } else { v }, "x-second-term-fraction-extreme")
        }
        13 | 14 => { // beyond the leader range: (1.2, 8)
            (Int::from_nat(s.mul_small(12).div_small(10).add(&rand_below(rng, &s.mul_small(7)))), "x-beyond-1.2")
        }
        15 => (Int::from_nat(s.mul_small(8).add(&rand_below(rng, &s.mul_small(32)))), "x-large-8-40"),
        16 => { let k = rng.below(4); (Int::from_nat(s.mul_small(k)), "x-integer") }
        17 => (Int::from_i64(0), "x-zero"),
        _ => { // negative arguments (the statement says "bound dominates e^|x|"): same oracle, keys prefixed neg-x-
            let v = match rng.below(3) { 0 => rand_below(rng, &s.mul_small(12).div_small(10)), 1 => rand_below(rng, &s.mul_small(6)), _ => { let k = 1 + rng.below(34) as usize; Nat::from_dec(&rand_digits(rng, k)) } };
            (Int::from_nat(v).negate(), "x-negative")
        }
    }
}

/// smallest admissible integer bound: floor(U / W) + 1 > e^|x|
fn min_bound(x: &Int) -> Option<i64> {
    let enc = exp_enclosure(&Int::from_nat(x.mag.clone()))?;
    let b = enc.1.shr_limbs(WL).add(&Nat::from_u64(1));
    b.to_dec().parse::<i64>().ok()
}

fn main() {
    let args = args();
    let mut rng = Rng::new(args.seed);
    let mut ctx = Ctx { oracle_only: args.oracle_only, n_oracle: 0, n_undecided: 0, n_gt: 0, n_lt: 0, n_unknown: 0, n_premise_false: 0 };
    let s = pow10(34);

    // 0. fixed inputs: the witness of Coq's exp_cmp_gt_refuted (x = isqrt(2*10^34*(10^10+1)),
    //    compare = approx_2 + 1; KNOWN-FINDING gt-wrong-within-truncation-margin), the
    //    negative-x input that failed before /repo commit f6d913e7 (corpus/C16), boundary max_n.
    {
        let x = Int::from_dec("14142135624438057269185");
        let c = Int::from_dec("10000000000014142135624448057269186");
        run(&mut ctx, "witness-gt-refuted", 34, 1000, &x, 3, &c);
        run(&mut ctx, "witness-gt-refuted", 34, 2, &x, 3, &c);
        run(&mut ctx, "witness-gt-refuted", 34, 1, &x, 3, &c);
        let xn = Int::from_nat(s.clone()).negate();
        let cn = Int::from_nat(s.div_small(5));
        run(&mut ctx, "x-negative-witness", 34, 2, &xn, 3, &cn);
        run(&mut ctx, "x-negative-witness", 34, 1000, &xn, 3, &cn);
        run(&mut ctx, "trivial-max_n-0", 34, 0, &Int::from_nat(s.clone()), 3, &Int::from_nat(s.clone()));
        run(&mut ctx, "x-zero", 34, 1000, &Int::from_i64(0), 3, &Int::from_nat(s.clone()));
        run(&mut ctx, "x-zero", 34, 1000, &Int::from_i64(0), 1, &Int::from_nat(s.add(&Nat::from_u64(1))));
    }

    let mut i = 0usize;
    while i < args.n {
        let (x, xtag) = gen_x(&mut rng);
        let Some(bmin) = min_bound(&x) else { continue };
        // bound: 3 (the caller's value) when admissible, the minimal one, or larger
        let bound: i64 = match rng.below(8) {
            0..=3 => bmin.max(3),
            4 => bmin,
            5 => bmin.saturating_add(rng.below(1000) as i64),
            6 => bmin.max(3).saturating_mul(1 + rng.below(1_000_000) as i64),
            _ => if rng.chance(1, 4) { (bmin - 1 - rng.below(3) as i64).max(-2) } else { bmin.max(3) }, // sometimes violates the premise: tie only
        };
        let enc = exp_enclosure(&x).unwrap();
        let e_floor = enc.0.div_pow10(WSHIFT); // floor(S * e^x)
        // reference run with compare ~ e^x: undecided for as long as possible -> learns the iteration depth
        let probe = call_impl(34, 1000, &x, bound, &Int::from_nat(e_floor.clone()));
        let depth = match &probe { Out::Ok(r) => r.iterations.max(1), _ => 1 };
        let max_n: u64 = match rng.below(10) {
            0..=3 => 1000,
            4 => 1 + rng.below(5),
            5 => depth,
            6 => depth.saturating_sub(1).max(1),
            7 => 1 + rng.below(depth + 2),
            8 => 1 + rng.below(1000),
            _ => depth + 1,
        };
        let e = Int::from_nat(e_floor.clone());
        let (c, ctag): (Int, &str) = match rng.below(16) {
            0 | 1 => (e.add(&Int::from_i64(rng.below(9) as i64 - 4)), "cmp-within-4ulp"),
            2 | 3 => { // relative distance 10^-k, k in 3..=33, both sides
                let k = 3 + rng.below(31) as usize;
                let d = Int::from_nat(rand_below(&mut rng, &e_floor.div_pow10(k).add(&Nat::from_u64(2))));
                (if rng.bool() { e.add(&d) } else { e.sub(&d) }, "cmp-relative-1e-k")
            }
            4 => { // within 1e-30 relative
                let d = Int::from_nat(rand_below(&mut rng, &e_floor.div_pow10(30).add(&Nat::from_u64(2))));
                (if rng.bool() { e.add(&d) } else { e.sub(&d) }, "cmp-relative-1e-30")
            }
            5 => { // around the EPS = 1e-24 scale where the stopping rule bites
                let d = Int::from_nat(rand_below(&mut rng, &pow10(11)));
                (if rng.bool() { e.add(&d) } else { e.sub(&d) }, "cmp-within-eps")
            }
            6 => (Int::from_nat(rand_below(&mut rng, &e_floor.mul_small(2).add(&Nat::from_u64(1)))), "cmp-uniform-0-2x"),
            7 => (match rng.below(5) { 0 => Int::from_nat(e_floor.mul_small(2)), 1 => Int::from_nat(e_floor.div_small(2)), 2 => Int::from_i64(0),
                        3 => Int::from_nat(s.clone()), _ => Int::from_nat(rand_below(&mut rng, &s)).negate() }, "cmp-far"),
            _ => { // exactly on / next to a decision threshold of iteration k, read off the real code:
                   // approx_k = rop_k, rop_{k+1} - rop_k = error_k, threshold = rop_k +- bound * error_k
                let k = 1 + rng.below(depth.min(max_n).max(1));
                let a = call_impl(34, k, &x, bound, &e);
                let b = call_impl(34, k + 1, &x, bound, &e);
                match (a, b) {
                    (Out::Ok(a), Out::Ok(b)) if a.iterations == k && b.iterations == k + 1 => {
                        let err = b.approx.sub(&a.approx);
                        let et = Int::from_nat(err.mag.clone()).mul(&Int::from_i64(bound)); // |error| * bound
                        let up = rng.bool();
                        let thr = if up { a.approx.add(&et) } else { a.approx.sub(&et) };
                        (thr.add(&Int::from_i64(rng.below(3) as i64 - 1)), if up { "cmp-at-upper-threshold" } else { "cmp-at-lower-threshold" })
                    }
                    (Out::Ok(a), _) => { // the loop stopped at k (EPS rule / decision): last partial sum +- 1
                        (a.approx.add(&Int::from_i64(rng.below(3) as i64 - 1)), "cmp-at-last-partial-sum")
                    }
                    _ => (e.clone(), "cmp-within-4ulp"),
                }
            }
        };
        let prec = if rng.chance(1, 25) { *rng.pick(&[0u64, 10, 33, 40]) } else { 34 };
        let tag = format!("{xtag}/{ctag}");
        if i < 3 { emit_sample(&format!("x={} bound={} max_n={} compare={}", x.to_dec(), bound, max_n, c.to_dec())); }
        run(&mut ctx, &tag, prec, max_n, &x, bound, &c);
        i += 1;
    }
    emit_stat("oracle_evaluated", ctx.n_oracle);
    emit_stat("oracle_undecided_at_1e-72", ctx.n_undecided);
    emit_stat("impl_gt", ctx.n_gt);
    emit_stat("impl_lt", ctx.n_lt);
    emit_stat("impl_unknown", ctx.n_unknown);
    emit_stat("premise_false_tie_only", ctx.n_premise_false);
}
