(* C28 proofs, part H (Blocks): see Proofs.v for the theorem [exec_sync_conformant]. *)
From PV Require Import Lib.Base P2p.Proto P2p.Initiator P2p.Spec C27.Proofs C28.Model.
From PV Require Import C28.Abs C28.Refine C28.Visitors C28.Emit C28.SettleBlock C28.Inv C28.Events.
Open Scope Z_scope.

Definition blk (b : Z * list msg) : list (Z * msg) := map (pair (fst b)) (snd b).

(* settle the sends of one visit and continue *)
Lemma settle_peer_k c i e0 st e p s ms rest :
  NoDup (map fst (peers st)) -> (forall q, peer_ok st e q) ->
  lookup p (peers st) = Some s ->
  Forall (fun m => proto_of m <> 0 /\ epre s m) ms -> NoDup (map proto_of ms) ->
  exists st' e',
    settle c i e0 st e (map (pair p) ms ++ rest) = settle c i e0 st' e' rest /\
    NoDup (map fst (peers st')) /\ (forall q, peer_ok st' e' q) /\
    (forall q, q <> p -> lookup q (peers st') = lookup q (peers st)).
Proof.
  intros ND PO L F N. pose proof (PO p) as Pp. unfold peer_ok in Pp. rewrite L in Pp. destruct Pp as (P & A & R & D).
  destruct (live (eget p e)) eqn:Lv.
  - assert (F' : Forall (epre s) ms) by (eapply Forall_impl; [|exact F]; cbn; intros m [_ X]; exact X).
    destruct (settle_block c i e0 p ms st e s rest L P (R eq_refl) A F' N)
      as (st' & e' & s' & H1 & H2 & H3 & H4 & H5 & H6 & H7 & H8 & H9 & H10 & H11 & H12 & H13).
    exists st', e'. split; [exact H1|]. split; [rewrite H4; exact ND|]. split.
    + intros q. unfold peer_ok. destruct (Z.eq_dec q p) as [->|Nq].
      * rewrite H6. split; [exact H9|]. split; [exact H13|].
        unfold live in *. rewrite H10, H11. split; [intros _; exact H12 | intros X; congruence].
      * destruct (H5 q Nq) as [X Y]. rewrite X, Y. apply PO.
    + intros q Nq. apply H5, Nq.
  - assert (E : ms = []).
    { destruct ms as [|m r]; [reflexivity|]. exfalso.
      inversion F as [|? ? [Nz Em] _]; subst. exact (default_no_emit s m (D eq_refl) A Nz Em). }
    subst ms. cbn [map app]. exists st, e. split; [reflexivity|]. split; [exact ND|]. split; [exact PO | reflexivity].
Qed.

Lemma settle_blocks c i e0 blocks : forall st e,
  NoDup (map fst (peers st)) -> NoDup (map fst blocks) -> (forall q, peer_ok st e q) ->
  Forall (fun b => exists s, lookup (fst b) (peers st) = Some s /\
                   Forall (fun m => proto_of m <> 0 /\ epre s m) (snd b) /\ NoDup (map proto_of (snd b))) blocks ->
  exists st2 e2, settle c i e0 st e (flat_map blk blocks) = inl (st2, e2) /\ SInv st2 e2.
Proof.
  induction blocks as [|[p ms] rest IH]; intros st e ND NB PO F.
  - cbn [flat_map settle]. exists st, e. split; [reflexivity|]. split; [exact ND | exact PO].
  - inversion F as [|? ? (s & L & Fm & Nm) Fr]; subst. inversion NB as [|? ? Np Nr]; subst. cbn [fst snd] in *.
    cbn [flat_map]. unfold blk at 1. cbn [fst snd].
    destruct (settle_peer_k c i e0 st e p s ms (flat_map blk rest) ND PO L Fm Nm) as (st' & e' & H1 & H2 & H3 & H4).
    rewrite H1. apply IH; [exact H2 | exact Nr | exact H3|].
    rewrite Forall_forall in Fr |- *. intros b Ib. destruct (Fr b Ib) as (sb & Lb & X).
    exists sb. split; [|exact X]. rewrite H4; [exact Lb|]. intros E. apply Np. rewrite <- E. apply in_map, Ib.
Qed.

(* ---- the housekeeping loop: sends come in per-peer blocks ---- *)
Definition HKP := [] ++ [8] ++ [10] ++ [3] ++ [2] ++ [18] ++ [19].

Lemma hk_blocks c order : NoDup order -> forall st out st' out', hk_loop c order (st, out) = Ok (st', out') ->
  map fst (peers st') = map fst (peers st) /\
  (forall q s, lookup q (peers st) = Some s -> exists s1, lookup q (peers st') = Some s1 /\ SFi s s1) /\
  exists blocks : list (Z * list msg),
    sends out' = sends out ++ flat_map blk blocks /\
    NoDup (map fst blocks) /\ (forall b, In b blocks -> In (fst b) order) /\
    Forall (fun b => exists s, lookup (fst b) (peers st) = Some s /\
                     Forall (fun m => proto_of m <> 0 /\ epre s m) (snd b) /\ NoDup (map proto_of (snd b))) blocks.
Proof.
  induction 1 as [|p rest Np Nr IH]; intros st out st' out' H; cbn [hk_loop] in H.
  - inversion H; subst. split; [reflexivity|]. split; [intros q s L; exists s; split; [exact L | apply SFi_refl]|].
    exists []. cbn. rewrite app_nil_r. repeat split; auto; try constructor; try (intros b []).
  - destruct (lookup p (peers st)) as [s|] eqn:L.
    2:{ destruct (IH _ _ _ _ H) as (K & LK & blocks & S & NB & IB & FB).
        split; [exact K|]. split; [exact LK|]. exists blocks. repeat split; auto. intros b Ib. right. apply IB, Ib. }
    unfold visit_hk in H.
    destruct (categorize c p (pr st) s) as [[pr1 sc]| |] eqn:Cg; cbn [bind] in H; try discriminate.
    destruct (hk_rest p (ax st, sc, out)) as [[[a1 s1] out1]| |] eqn:Hr; cbn [bind] in H; try discriminate.
    apply categorize_SFi in Cg.
    apply (hv_hk_rest p) in Hr as (S1 & ext & ms & -> & X & F & N).
    set (stm := mkI pr1 a1 (insert p s1 (peers st))) in *.
    destruct (IH _ _ _ _ H) as (K & LK & blocks & S & NB & IB & FB).
    assert (Km : map fst (peers stm) = map fst (peers st)) by (unfold stm; cbn [peers]; eapply keys_insert_tracked; exact L).
    split; [congruence|]. split.
    { intros q sq Lq. destruct (Z.eq_dec q p) as [->|Nq].
      - destruct (LK p s1) as (s1' & L1 & S1'); [unfold stm; cbn [peers]; apply lookup_insert_eq|].
        exists s1'. split; [exact L1|]. rewrite L in Lq. inversion Lq; subst.
        eapply SFi_trans; [exact Cg|]. eapply SFi_trans; [exact S1 | exact S1'].
      - apply LK. unfold stm. cbn [peers]. rewrite lookup_insert_neq by exact Nq. exact Lq. }
    exists ((p, ms) :: blocks). split.
    { rewrite S, sends_app, X. cbn [flat_map]. unfold blk at 2. cbn [fst snd]. rewrite <- app_assoc. reflexivity. }
    split.
    { cbn [map fst]. constructor; [|exact NB]. intros I. apply in_map_iff in I as (b & Eb & Ib). apply Np. rewrite <- Eb. apply IB, Ib. }
    split.
    { intros b [<-|Ib]; [left; reflexivity | right; apply IB, Ib]. }
    constructor.
    { cbn [fst snd]. exists s. split; [exact L|]. split; [|exact N].
      eapply Forall_impl; [|exact F]. cbn. intros m [Ip Ep]. split.
      - unfold HKP in *. cbn in Ip. intros Z0. rewrite Z0 in Ip. repeat (destruct Ip as [Ip|Ip]; [discriminate|]). exact Ip.
      - eapply epre_SFi; [apply SFi_sym in Cg; apply SFi_sym; exact Cg | exact Ep]. }
    rewrite Forall_forall in FB |- *. intros b Ib. destruct (FB b Ib) as (sb & Lb & Y). exists sb. split; [|exact Y].
    unfold stm in Lb. cbn [peers] in Lb. rewrite lookup_insert_neq in Lb; [exact Lb|].
    intros E. apply Np. rewrite <- E. apply IB, Ib.
Qed.
