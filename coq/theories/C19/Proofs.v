From PV Require Import Lib.Base Cbor.Item Cbor.Enc Cbor.Dec Cbor.HeadLaws Cbor.Laws Cbor.Api.
From PV Require Import C19.Model.
From PV Require C18.Model.
Open Scope Z_scope.

(* ---------------------------------------------------------------- CBOR round trip *)
Section WithSkip.
Variable skip : list Z -> dres (list Z).

Lemma decode_byron_enc a r : byron_wf a ->
  decode_byron skip (byron_to_vec a ++ r) = DOk (a, r).
Proof.
  destruct a as [p c]. intros (Hp & Hl & Hc). cbn [fst snd] in *.
  unfold byron_to_vec, decode_byron. cbn [fst snd].
  unfold e_array, e_tag, e_bytes, e_uint, enc_head_min. rewrite <- !app_assoc.
  unfold d_array. rewrite d_len_enc by (apply min_width_fits; lia). cbn [dbind].
  unfold loop_fuel. cbn [fields_def]. cbn [Z.leb Z.compare].
  unfold field_action at 1. cbn [Z.eqb]. unfold dec_payload.
  rewrite d_tag_enc by (apply min_width_fits; lia). cbn [dbind].
  assert (Hlp : 0 <= len p) by (unfold len; lia).
  rewrite d_bytes_enc; [|apply min_width_fits; lia|exact Hp]. cbn [dbind snd].
  destruct (length _) as [|k] eqn:EL.
  { exfalso. rewrite !app_length in EL.
    assert (length (enc_head MajTag (min_width 24) 24) > 0)%nat; [|lia].
    destruct (enc_head_first MajTag (min_width 24) 24 ltac:(apply min_width_fits; lia)) as (b & t & -> & _).
    cbn; lia. }
  cbn [fields_def]. change (2 <=? 0 + 1) with false. cbv iota.
  unfold field_action. change (0 + 1 =? 0) with false. change (0 + 1 =? 1) with true. cbv iota.
  unfold d_u32. rewrite d_uint_enc; [|apply min_width_fits; lia|lia]. cbn [dbind fst].
  destruct k; cbn [fields_def]; change (2 <=? 0 + 1 + 1) with true; cbv iota; reflexivity.
Qed.

Lemma minicbor_decode_enc a r : byron_wf a -> minicbor_decode skip (byron_to_vec a ++ r) = Ok a.
Proof. intros H. unfold minicbor_decode. rewrite decode_byron_enc by exact H. reflexivity. Qed.

(* the tree before the fix: any checksum is accepted *)
Lemma from_bytes_unchecked_accepts a : byron_wf a -> from_bytes_unchecked skip (byron_to_vec a) = Ok a.
Proof.
  intros H. unfold from_bytes_unchecked. rewrite <- (app_nil_r (byron_to_vec a)). apply minicbor_decode_enc, H.
Qed.
End WithSkip.
