(* C02: every decoder method preserves the cursor invariant, never panics, never
   runs out of loop fuel, never moves backwards. *)
From PV Require Import Lib.Base Flat.Model.
Open Scope Z_scope.

Definition dinv (s : dec) : Prop :=
  0 <= d_pos s <= d_len s /\ 0 <= d_used s < 8 /\ (d_pos s = d_len s -> d_used s = 0)
  /\ d_len s < 2 ^ 60 /\ bytes_wf (d_buf s).

(* bits not yet consumed *)
Definition rem (s : dec) : Z := 8 * (d_len s - d_pos s) - d_used s.

Definition post {A} (k : Z) (s : dec) (rs : outcome A * dec) : Prop :=
  (forall p, fst rs <> Panic p) /\ fst rs <> Err E_FUEL /\ dinv (snd rs) /\
  d_buf (snd rs) = d_buf s /\ rem (snd rs) <= rem s /\
  (forall a, fst rs = Ok a -> rem (snd rs) + k <= rem s).

Definition good {A} (k : Z) (m : M A) : Prop := forall s, dinv s -> post k s (m s).

Ltac splits := unfold post; repeat match goal with |- _ /\ _ => split end.
Ltac dsplits := unfold dinv; repeat match goal with |- _ /\ _ => split end.

Lemma rem_buf s s' : d_buf s' = d_buf s -> rem s' = 8 * (d_len s - d_pos s') - d_used s'.
Proof. unfold rem, d_len. intros ->. reflexivity. Qed.

Lemma post_weaken {A} k k' s (rs : outcome A * dec) : post k s rs -> k' <= k -> post k' s rs.
Proof.
  intros (H1 & H2 & H3 & H4 & H5 & H6) Hk. splits; auto.
  intros a Ha. specialize (H6 a Ha). lia.
Qed.

Lemma post_bind {A B} k1 k2 s (m : M A) (f : A -> M B) :
  post k1 s (m s) ->
  (forall a s', m s = (Ok a, s') -> dinv s' -> d_buf s' = d_buf s -> rem s' + k1 <= rem s ->
                post k2 s' (f a s')) ->
  post (k1 + k2) s (bind m f s).
Proof.
  unfold bind. intros Hm Hf. destruct (m s) as [[a|e|p] s'] eqn:E.
  - destruct Hm as (H1 & H2 & H3 & H4 & H5 & H6). cbn in *.
    specialize (H6 a eq_refl).
    destruct (Hf a s' eq_refl H3 H4 H6) as (G1 & G2 & G3 & G4 & G5 & G6).
    unfold post, rem, d_len in *. rewrite G4, H4 in *.
    splits; auto; try congruence; try lia.
  - destruct Hm as (H1 & H2 & H3 & H4 & H5 & H6). cbn in *.
    splits; cbn [fst snd]; auto; try congruence.
  - destruct Hm as (H1 & _). cbn in H1. exfalso. apply (H1 p). reflexivity.
Qed.

Lemma good_bind {A B} k1 k2 (m : M A) (f : A -> M B) :
  good k1 m -> (forall a, good k2 (f a)) -> good (k1 + k2) (bind m f).
Proof.
  intros Hm Hf s Hs. apply post_bind; [apply Hm, Hs|]. intros a s' _ Hs' _ _. apply Hf, Hs'.
Qed.

Lemma good_bind0 {A B} (m : M A) (f : A -> M B) :
  good 0 m -> (forall a, good 0 (f a)) -> good 0 (bind m f).
Proof. intros. change 0 with (0 + 0). apply good_bind; auto. Qed.

Lemma post_ret {A} (a : A) s : dinv s -> post 0 s (ret a s).
Proof. intros Hs. unfold post, ret; cbn. splits; auto; try discriminate; lia. Qed.
Lemma good_ret {A} (a : A) : good 0 (ret a).
Proof. intros s Hs. apply post_ret, Hs. Qed.

Lemma post_fail {A} e k s : dinv s -> e <> E_FUEL -> post (A := A) k s (fail e s).
Proof. intros Hs He. unfold post, fail; cbn. splits; auto; try discriminate; try lia. congruence. Qed.
Lemma good_fail {A} e k : e <> E_FUEL -> good (A := A) k (fail e).
Proof. intros He s Hs. apply post_fail; auto. Qed.

Lemma good_weaken {A} k k' (m : M A) : good k m -> k' <= k -> good k' m.
Proof. intros H Hk s Hs. eapply post_weaken; eauto. Qed.

Lemma good_get : good 0 get.
Proof. intros s Hs. unfold post, get; cbn. splits; auto; try discriminate; lia. Qed.

Lemma nth_wf (l : list Z) (i : nat) : bytes_wf l -> (i < length l)%nat -> 0 <= nth i l 0 < 256.
Proof.
  intros Hw Hi. unfold bytes_wf in Hw. rewrite Forall_forall in Hw. apply Hw, nth_In, Hi.
Qed.

Ltac break_ifs :=
  repeat (match goal with
          | |- context [if ?c then _ else _] => destruct c eqn:?
          end; cbn [fst snd d_buf d_pos d_used bind lift ret fail get]).

(* fn bit / pub fn bool *)
Lemma good_bit : good 1 dec_bit.
Proof.
  intros s (Hp & Hu & He & Hl & Hw).
  unfold dec_bit, post, bind, get, lift, idx, shr8, incr_bit, ret, fail, rem, dinv, d_len in *.
  cbn [fst snd d_buf d_pos d_used].
  break_ifs; cbn [fst snd d_buf d_pos d_used];
    splits; intros; try discriminate; try assumption; try reflexivity; try lia;
    try (let Hc := fresh in intro Hc; injection Hc; unfold E_BITS, E_BYTES, E_FUEL; lia).
Qed.

Lemma good_zero : good 1 dec_zero.
Proof.
  unfold dec_zero. change 1 with (1 + 0). apply good_bind; [apply good_bit|]. intros b. apply good_ret.
Qed.

(* pub fn bits8 *)
Lemma good_bits8 n : 0 <= n -> good (if n <=? 8 then n else 0) (dec_bits8 n).
Proof.
  intros Hn s Hs. pose proof Hs as (Hp & Hu & He & Hl & Hw).
  unfold dec_bits8.
  destruct (n >? 8) eqn:E8. { replace (n <=? 8) with false by lia. apply post_fail; [exact Hs | discriminate]. }
  replace (n <=? 8) with true by lia.
  destruct (n =? 0) eqn:E0.
  { eapply post_weaken; [apply post_ret; exact Hs | lia]. }
  clear Hs. unfold ensure_bits, sub_usize, mul_isize, drop_bits, post, bind, get, lift, idx, shr8, shl8, ret, fail, rem, dinv, d_len in *.
  cbn [fst snd d_buf d_pos d_used].
  set (L := Z.of_nat (length (d_buf s))) in *.
  assert (HL : L < 1152921504606846976) by (change (2 ^ 60) with 1152921504606846976 in Hl; exact Hl).
  change (2 ^ 63) with 9223372036854775808.
  break_ifs; cbn [fst snd d_buf d_pos d_used]; fold L;
    splits; intros; try discriminate; try assumption; try reflexivity; try lia;
    try (let Hc := fresh in intro Hc; injection Hc; unfold E_BITS, E_BYTES, E_FUEL; lia).
Qed.

Lemma good_u8 : good 8 dec_u8.
Proof. apply (good_bits8 8). lia. Qed.

Lemma fuel_ok s : rem s < Z.of_nat (dec_fuel s) \/ ~ dinv s.
Proof.
  destruct (Z_lt_dec (rem s) (Z.of_nat (dec_fuel s))); auto. right.
  intros (Hp & Hu & _). unfold rem, dec_fuel, d_len in *. lia.
Qed.

Lemma fuel_ok' s : dinv s -> rem s < Z.of_nat (dec_fuel s).
Proof. intros H. destruct (fuel_ok s); tauto. Qed.

(* pub fn filler *)
Lemma filler_loop_ok fuel : forall s, dinv s -> rem s < Z.of_nat fuel -> post 0 s (filler_loop fuel s).
Proof.
  induction fuel as [|f IH]; intros s Hs Hf.
  - destruct Hs as (Hp & Hu & He & _). unfold rem in Hf. lia.
  - cbn [filler_loop]. apply post_weaken with (k := 1 + 0); [|lia].
    apply post_bind; [apply good_zero, Hs|].
    intros z s' _ Hs' Hb Hr. destruct z; [apply IH; auto; lia | apply post_ret, Hs'].
Qed.

Lemma good_filler : good 0 dec_filler.
Proof.
  intros s Hs. unfold dec_filler. change 0 with (0 + 0).
  apply post_bind; [apply good_get, Hs|]. intros a s' E _ _ _. inversion E; subst.
  apply filler_loop_ok; auto. apply fuel_ok', Hs.
Qed.
