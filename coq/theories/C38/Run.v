(* C38 correspondence: same case type and comparison as C33 (end-to-end outcome class and every
   rule function's outcome class of the model vs. the implementation); the oracle "a rule-breaking
   mutant must be rejected" is evaluated by the harness. *)
From PV Require Import Lib.Base C33.Model C33.ModelPA C33.Run.
Open Scope Z_scope.
Definition case : Type := C33.Run.case.
Definition case_out (c : case) := C33.Run.case_out c.
Definition case_ok (c : case) : bool := C33.Run.case_ok c.
