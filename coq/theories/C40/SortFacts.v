(* C40: facts about the sorting / dedup / position helpers of the model. *)
From PV Require Import Lib.Base C40.Model C40.Spec.
From Coq Require Import Sorting.Sorted Relations.Relation_Definitions Classes.RelationClasses.
Open Scope Z_scope.

(* ---------- insertion sort ---------- *)
Section Sort.
Context {A : Type} (leb : A -> A -> bool).
Hypothesis leb_total : forall a b, leb a b = true \/ leb b a = true.

Lemma insert_In x y l : In y (insert_sorted leb x l) <-> y = x \/ In y l.
Proof.
  induction l as [|z r IH]; cbn; [intuition|].
  destruct (leb x z); cbn; [intuition|]. rewrite IH. intuition.
Qed.

Lemma isort_In y l : In y (isort leb l) <-> In y l.
Proof.
  induction l as [|x r IH]; cbn; [reflexivity|].
  rewrite insert_In, IH. intuition.
Qed.

Lemma insert_sorted_Sorted x l :
  Sorted (fun a b => leb a b = true) l -> Sorted (fun a b => leb a b = true) (insert_sorted leb x l).
Proof.
  induction l as [|z r IH]; cbn; intros Hs.
  - constructor; constructor.
  - destruct (leb x z) eqn:E.
    + constructor; [exact Hs|constructor; exact E].
    + inversion Hs as [|a b Hr Hh]; subst. constructor; [apply IH; exact Hr|].
      destruct r as [|w r']; cbn.
      * constructor. destruct (leb_total x z) as [H|H]; congruence.
      * destruct (leb x w); constructor.
        -- destruct (leb_total x z) as [H|H]; congruence.
        -- inversion Hh; subst. assumption.
Qed.

Lemma isort_Sorted l : Sorted (fun a b => leb a b = true) (isort leb l).
Proof. induction l as [|x r IH]; cbn; [constructor|apply insert_sorted_Sorted; exact IH]. Qed.
End Sort.

(* ---------- inputs ---------- *)
Lemma input_eqb_eq a b : input_eqb a b = true <-> a = b.
Proof.
  destruct a as [h i], b as [h' i']. unfold input_eqb; cbn. split.
  - intros H. apply andb_true_iff in H as [H1 H2]. f_equal; lia.
  - intros H. inversion H; subst. apply andb_true_iff. split; lia.
Qed.

Lemma input_leb_total a b : input_leb a b = true \/ input_leb b a = true.
Proof. destruct a, b; unfold input_leb; cbn. lia. Qed.

Lemma input_leb_lt a b : input_leb a b = true -> a <> b -> input_lt a b.
Proof.
  destruct a as [h i], b as [h' i']. unfold input_leb, input_lt; cbn. intros H Hne.
  assert (~ (h = h' /\ i = i')) by (intros [? ?]; subst; auto). lia.
Qed.

#[global] Instance input_lt_trans : Transitive input_lt.
Proof. intros [a b] [c d] [e f]; unfold input_lt; cbn. lia. Qed.

Lemma input_lt_irrefl a : ~ input_lt a a.
Proof. destruct a; unfold input_lt; cbn. lia. Qed.

Lemma dedup_In x l : In x (dedup_inputs l) <-> In x l.
Proof.
  induction l as [|y r IH]; [reflexivity|].
  destruct r as [|z r'].
  - cbn. reflexivity.
  - change (dedup_inputs (y :: z :: r')) with (if input_eqb y z then dedup_inputs (z :: r') else y :: dedup_inputs (z :: r')).
    destruct (input_eqb y z) eqn:E.
    + apply input_eqb_eq in E. subst z. rewrite IH. cbn. intuition.
    + cbn [In]. rewrite IH. reflexivity.
Qed.

Lemma dedup_head y r : exists r', dedup_inputs (y :: r) = y :: r'.
Proof.
  revert y. induction r as [|z r' IH]; intros y; [exists []; reflexivity|].
  change (dedup_inputs (y :: z :: r')) with (if input_eqb y z then dedup_inputs (z :: r') else y :: dedup_inputs (z :: r')).
  destruct (input_eqb y z) eqn:E.
  - apply input_eqb_eq in E. subst z. apply IH.
  - eexists; reflexivity.
Qed.

Lemma dedup_Sorted l :
  Sorted (fun a b => input_leb a b = true) l -> Sorted input_lt (dedup_inputs l).
Proof.
  induction l as [|y r IH]; intros Hs; [constructor|].
  destruct r as [|z r'].
  - cbn. constructor; constructor.
  - inversion Hs as [|a b Hr Hh]; subst. inversion Hh as [|c d Hyz]; subst.
    change (dedup_inputs (y :: z :: r')) with (if input_eqb y z then dedup_inputs (z :: r') else y :: dedup_inputs (z :: r')).
    destruct (input_eqb y z) eqn:E.
    + apply IH. exact Hr.
    + constructor; [apply IH; exact Hr|].
      destruct (dedup_head z r') as [r'' Hd]. rewrite Hd. constructor.
      apply input_leb_lt; [exact Hyz|]. intros Heq. apply input_eqb_eq in Heq. congruence.
Qed.

(* the built input list: strictly increasing, same members as the staged inputs *)
Lemma sorted_inputs_spec st :
  StronglySorted input_lt (sorted_inputs false st) /\
  (forall i, In i (sorted_inputs false st) <-> In i (s_inputs st)).
Proof.
  unfold sorted_inputs. split.
  - apply Sorted_StronglySorted; [exact input_lt_trans|].
    apply dedup_Sorted. apply isort_Sorted. exact input_leb_total.
  - intros i. rewrite dedup_In. apply isort_In.
Qed.

(* ---------- position ---------- *)
Lemma position_nth {A} (f : A -> bool) l i :
  position f l = Some i -> exists x, nth_error l i = Some x /\ f x = true.
Proof.
  revert i. induction l as [|y r IH]; cbn; intros i H; [discriminate|].
  destruct (f y) eqn:E.
  - inversion H; subst. exists y. auto.
  - destruct (position f r) as [j|] eqn:P; [|discriminate]. inversion H; subst. cbn. apply IH. reflexivity.
Qed.

Lemma position_none {A} (f : A -> bool) l : position f l = None -> forall x, In x l -> f x = false.
Proof.
  induction l as [|y r IH]; cbn; intros H x Hin; [contradiction|].
  destruct (f y) eqn:E; [discriminate|]. destruct (position f r) eqn:P; [discriminate|].
  destruct Hin as [->|Hin]; [exact E|apply IH; auto].
Qed.

(* ---------- asset names ---------- *)
Lemma bytes_eqb_eq a b : bytes_eqb a b = true <-> a = b.
Proof. apply list_eqb_Z_spec. Qed.

Lemma bytes_leb_total a b : bytes_leb a b = true \/ bytes_leb b a = true.
Proof.
  revert b. induction a as [|x a IH]; intros [|y b]; cbn; auto.
  destruct (IH b) as [H|H]; rewrite H; lia.
Qed.
