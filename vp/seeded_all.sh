#!/bin/sh
# run every confirmed seeded change that has no result yet, one at a time (worktree mode)
cd "$(dirname "$0")/.."
for d in seeded/*/; do
  n=$(basename "$d")
  [ -f "$d/result.json" ] && continue
  python3 vp/seeded.py "$n" 2>&1 | tail -1
done
