//! C27: peer promotion keeps the cold/warm/hot/banned sets consistent and banned peers away.
//! The real InitiatorBehavior is driven through Behavior::{execute, handle_io}; outputs are
//! drained from its stream.  Oracle (independent of the model), after every step:
//!   - the four promotion sets are pairwise disjoint,
//!   - |warm| <= max_warm, |hot| <= max_hot, |cold|+|warm|+|hot| <= max_peers,
//!   - no Connect(p) is emitted once p has been banned (seen in banned_peers, or BanPeer(p) executed).
//! case := (config, [ (event, outputs, sets, optional peer snapshot, panicked) ])
#[path = "p2p_common/mod.rs"]
mod p2p;
use p2p::*;
use p2p::Out;
use std::collections::HashSet;
use verif_harness::*;

struct Oracle { banned_set: HashSet<i64>, banned_cmd: HashSet<i64>, failed: bool }

fn history(evs: &[String]) -> String { evs.join("; ") }

/// run a history chosen step by step by `next`; returns the Coq case term
fn run_history<F: FnMut(&mut InitDriver, usize) -> Option<Vec<Ev>>>(
    cfg: PCfg, mut next: F, snap_every: usize, tag: &str, to_model: bool,
) {
    let mut d = InitDriver::new(cfg);
    let mut orc = Oracle { banned_set: HashSet::new(), banned_cmd: HashSet::new(), failed: false };
    let mut recs: Vec<String> = vec![];
    let mut hist: Vec<String> = vec![];
    let mut i = 0usize;
    'outer: while let Some(batch) = next(&mut d, i) {
        for ev in batch {
            i += 1;
            hist.push(ev.short());
            if let Ev::Ban(p) = &ev { orc.banned_cmd.insert(*p); }
            let o = d.step(ev);
            if o.panic.is_some() {
                if to_model {
                    recs.push(format!("({},[],([],[],[],[]),None,true)", o.ev.coq(&o.order, &o.dorder)));
                }
                break 'outer;
            }
            let snap = init_snapshot(&d.b);
            // ---- oracle
            if !orc.failed {
                let sets = [("cold", &snap.cold), ("warm", &snap.warm), ("hot", &snap.hot), ("banned", &snap.banned)];
                for a in 0..4 { for b in (a + 1)..4 {
                    if let Some(x) = sets[a].1.iter().find(|x| sets[b].1.contains(x)) {
                        orc.failed = true;
                        emit_oracle_fail(&format!("not-disjoint:{}-{}", sets[a].0, sets[b].0),
                            &format!("cfg={:?} history=[{}] peer {} is in both {} and {}: cold={:?} warm={:?} hot={:?} banned={:?}",
                                cfg, history(&hist), x, sets[a].0, sets[b].0, snap.cold, snap.warm, snap.hot, snap.banned));
                    }
                } }
                if snap.warm.len() > cfg.max_warm {
                    orc.failed = true;
                    emit_oracle_fail("limit:warm", &format!("cfg={:?} history=[{}] |warm|={} > {}", cfg, history(&hist), snap.warm.len(), cfg.max_warm));
                }
                if snap.hot.len() > cfg.max_hot {
                    orc.failed = true;
                    emit_oracle_fail("limit:hot", &format!("cfg={:?} history=[{}] |hot|={} > {}", cfg, history(&hist), snap.hot.len(), cfg.max_hot));
                }
                if snap.cold.len() + snap.warm.len() + snap.hot.len() > cfg.max_peers {
                    orc.failed = true;
                    emit_oracle_fail("limit:total", &format!("cfg={:?} history=[{}] total={} > {}", cfg, history(&hist),
                        snap.cold.len() + snap.warm.len() + snap.hot.len(), cfg.max_peers));
                }
                for out in &o.outs {
                    if let Out::Connect(p) = out {
                        if orc.banned_set.contains(p) {
                            orc.failed = true;
                            emit_oracle_fail("connect-after-ban:banned-set", &format!("cfg={:?} history=[{}] emits Connect({}) although {} was in banned_peers before", cfg, history(&hist), p, p));
                        } else if orc.banned_cmd.contains(p) {
                            orc.failed = true;
                            emit_oracle_fail("connect-after-ban:command", &format!("cfg={:?} history=[{}] emits Connect({}) although BanPeer({}) was executed before", cfg, history(&hist), p, p));
                        }
                    }
                }
                for p in &snap.banned { orc.banned_set.insert(*p); }
            }
            if to_model {
                let with_snap = snap_every > 0 && i % snap_every == 0;
                recs.push(format!("({},{},{},{},false)", o.ev.coq(&o.order, &o.dorder), coq_outs(&o.outs), snap.coq_sets(),
                    if with_snap { format!("(Some {})", snap.coq_peers()) } else { "None".into() }));
            }
        }
    }
    if to_model {
        emit_case(tag, &format!("({},[{}])", cfg.coq(), recs.join(";")));
    }
}

const V: i64 = 764824073;
/// the 25-symbol alphabet of the exhaustive small-scope exploration over 3 peers
fn symbol(k: usize) -> Vec<Ev> {
    if k == 24 { return vec![Ev::Hk(false)]; }
    let p = (k % 3) as i64 + 1;
    match k / 3 {
        0 => vec![Ev::Include(p)],
        1 => vec![Ev::Ban(p)],
        2 => vec![Ev::Demote(p)],
        3 => vec![Ev::Connected(p)],
        4 => vec![Ev::Disconnected(p)],
        5 => vec![Ev::Error(p)],
        6 => vec![Ev::Recv(p, vec![Msg::KaResponse(42)])],                       // protocol violation
        _ => vec![Ev::Sent(p, Msg::HsPropose(vec![(13, V)])), Ev::Recv(p, vec![Msg::HsAccept(13, 1)])], // handshake completes
    }
}

fn main() {
    let args = args();
    let mut rng = Rng::new(args.seed);
    let thorough = args.tier == "thorough";
    let small_cfgs = [PCfg { max_peers: 2, max_warm: 1, max_hot: 1, max_err: 0 }, PCfg { max_peers: 3, max_warm: 2, max_hot: 1, max_err: 1 }];

    // ---- corpus: past failures first
    let corpus: Vec<Vec<Ev>> = vec![
        vec![Ev::Include(1), Ev::Ban(1), Ev::Hk(false), Ev::Hk(false)],
        vec![Ev::Include(1), Ev::Hk(false), Ev::Include(1)],
        vec![Ev::Ban(1), Ev::Include(1), Ev::Hk(false)],
        vec![Ev::Include(1), Ev::Ban(1), Ev::Demote(1), Ev::Hk(false)],
        // two (three) peers ready for promotion to hot with max_hot = 1; warm limit with three cold peers
        vec![Ev::Include(1), Ev::Include(2), Ev::Include(3), Ev::Hk(false), Ev::Connected(1), Ev::Sent(1, Msg::HsPropose(vec![(13, V)])), Ev::Recv(1, vec![Msg::HsAccept(13, 1)]),
             Ev::Connected(2), Ev::Sent(2, Msg::HsPropose(vec![(13, V)])), Ev::Recv(2, vec![Msg::HsAccept(13, 1)]), Ev::Hk(false), Ev::Hk(true),
             Ev::Connected(3), Ev::Sent(3, Msg::HsPropose(vec![(13, V)])), Ev::Recv(3, vec![Msg::HsAccept(13, 1)]), Ev::Hk(false),
             Ev::Error(1), Ev::Error(1), Ev::Hk(false), Ev::Disconnected(1), Ev::Hk(false), Ev::Include(1), Ev::Hk(false)],
    ];
    for seq in &corpus {
        for cfg in small_cfgs.iter() {
            let mut it = seq.clone().into_iter();
            run_history(*cfg, |_, _| it.next().map(|e| vec![e]), 1, "corpus", !args.oracle_only);
        }
    }

    // ---- exhaustive small scope: all histories of <= depth symbols over 3 peers
    let depth = if thorough { 5 } else { 3 };
    let mut n_ex = 0u64;
    for len in 1..=depth {
        let total = 25usize.pow(len as u32);
        for code in 0..total {
            let mut syms = vec![];
            let mut c = code;
            for _ in 0..len { syms.push(c % 25); c /= 25; }
            for (ci, cfg) in small_cfgs.iter().enumerate() {
                // depth 5 is explored with the tighter config only
                if len == 5 && ci == 1 { continue; }
                let to_model = !args.oracle_only && (len <= 2 || (code as u64 * 2 + ci as u64 + args.seed) % (if thorough { 9973 } else { 41 }) == 0);
                let mut it = syms.clone().into_iter();
                run_history(*cfg, |_, _| it.next().map(symbol), 1, &format!("exhaustive-len{}", len), to_model);
                n_ex += 1;
            }
        }
    }
    emit_stat("exhaustive_histories_oracle", n_ex);

    // ---- random histories
    for i in 0..args.n {
        let long = i % 8 == 7;
        let (npeers, len, cfg, snap_every, tag) = if long {
            (20i64, 200usize, PCfg { max_peers: *rng.pick(&[8usize, 12, 25]), max_warm: *rng.pick(&[3usize, 6]), max_hot: *rng.pick(&[1usize, 3]), max_err: rng.below(3) as u32 }, 25usize, "random-20peers-200")
        } else {
            let np = rng.range(2, 5) as i64;
            (np, rng.range(10, 60) as usize,
             PCfg { max_peers: rng.range(0, 5) as usize, max_warm: rng.range(0, 3) as usize, max_hot: rng.range(0, 2) as usize, max_err: rng.below(3) as u32 },
             1usize, "random-small")
        };
        let mut r2 = Rng::new(rng.next());
        if i < 3 { emit_sample(&format!("cfg={:?} npeers={} len={}", cfg, npeers, len)); }
        run_history(cfg, |d, k| if k >= len { None } else { Some(vec![gen_init_event(&mut r2, d, npeers)]) }, snap_every, tag, !args.oracle_only);
    }
}
