(* C03 — property theorems only. Statements are pinned by props/C03.json.
   Payload-generic theorems take the payload codec's own laws as hypotheses
   ([roundtrips], [exact], [starts_ok], [consumes], [local], [not_nullish] of
   ProofsB.v); they are discharged for AnyUInt and u64 in ProofsC.v, and the
   conclusions have the same shape as the hypotheses, so the laws nest. *)
From PV Require Import Lib.Base Cbor.Item Cbor.Enc Cbor.Dec Cbor.Api Cbor.Skip.
From PV Require Import C03.Model C03.ProofsA C03.ProofsB C03.ProofsC C03.ProofsD.
Open Scope Z_scope.

(* ---- AnyUInt (the length-preserving unsigned integer), after the `fix:` commit ---- *)
Theorem anyuint_dec_enc : forall a r, anyuint_wf a -> dec_anyuint (enc_anyuint a ++ r) = DOk (a, r).
Proof. exact anyuint_roundtrip. Qed.

Theorem anyuint_reencode_exact : forall bs a r, dec_anyuint bs = DOk (a, r) -> enc_anyuint a ++ r = bs.
Proof. exact anyuint_exact. Qed.

(* record of the repaired defect: 18 05 was decoded as MajorByte(5) and re-encoded as 05 *)
Theorem anyuint_reencode_refuted_before_fix :
  exists bs v r, dec_anyuint_before_fix bs = DOk (v, r) /\ enc_anyuint v ++ r <> bs.
Proof. exists [24; 5], (AMajorByte 5), []. split; [vm_compute; reflexivity|discriminate]. Qed.

(* KNOWN FINDING roundtrip/anyuint-majorbyte-above-23: MajorByte(x) with x > 23 is a value of the
   Rust type, but its encoding is the single byte x, which is not the encoding of that value *)
Theorem anyuint_majorbyte_refuted :
  exists a, anyuint_ty a /\ ~ anyuint_wf a /\ forall r, dec_anyuint (enc_anyuint a ++ r) <> DOk (a, r).
Proof.
  exists (AMajorByte 24). split; [apply anyuint_majorbyte_bad|]. split; [|apply anyuint_majorbyte_bad].
  unfold anyuint_wf. cbn. lia.
Qed.

(* ---- KeepRaw ---- *)
Theorem keepraw_reencode_exact : forall (T : Type) (dec : decoder T) (enc : T -> list Z) bs k r,
  consumes dec -> dec_keepraw dec bs = DOk (k, r) -> enc_keepraw enc k ++ r = bs /\ fst k = consumed bs r.
Proof. intros T dec enc bs k r. apply ProofsB.keepraw_reencode_exact. Qed.

Theorem keepraw_dec_enc_from : forall (T : Type) (dec : decoder T) (enc : T -> list Z) (P : T -> Prop) x r,
  roundtrips dec enc P -> P x ->
  dec_keepraw dec (enc_keepraw enc (keepraw_from x) ++ r) = DOk ((enc x, x), r).
Proof. intros T dec enc P x r. apply keepraw_roundtrip_from. Qed.

Theorem keepraw_dec_enc_decoded : forall (T : Type) (dec : decoder T) (enc : T -> list Z) bs k r r',
  consumes dec -> local dec -> dec_keepraw dec bs = DOk (k, r) ->
  dec_keepraw dec (enc_keepraw enc k ++ r') = DOk (k, r').
Proof. intros T dec enc bs k r r'. apply keepraw_roundtrip_decoded. Qed.

(* detached values: KeepRaw::to_owned() (and Clone of the owned value) keep the captured bytes, so
   encoding a detached value gives exactly the bytes it was decoded from; a mutation after detaching
   re-encodes from the new content *)
Theorem keepraw_to_owned_reencode_exact : forall (T : Type) (dec : decoder T) (enc : T -> list Z) bs k r,
  consumes dec -> dec_keepraw dec bs = DOk (k, r) ->
  enc_keepraw enc (keepraw_to_owned k) ++ r = bs /\
  enc_keepraw enc (keepraw_clone (keepraw_to_owned k)) ++ r = bs /\
  fst (keepraw_to_owned k) = consumed bs r.
Proof. intros T dec enc bs k r. apply keepraw_to_owned_exact. Qed.

Theorem keepraw_to_owned_mutation : forall (T : Type) (enc : T -> list Z) (k : list Z * T) (x' : T),
  enc_keepraw enc (keepraw_deref_mut_set (keepraw_to_owned k) x') = enc x'.
Proof. intros. reflexivity. Qed.

Theorem keepraw_mutation : forall (T : Type) (enc : T -> list Z) (k : list Z * T) (x' : T),
  enc_keepraw enc (keepraw_deref_mut_set k x') = enc x'.
Proof. intros. reflexivity. Qed.

(* ---- AnyCbor ---- *)
Theorem anycbor_reencode_exact : forall bs a r, dec_anycbor bs = DOk (a, r) -> enc_anycbor a ++ r = bs.
Proof. exact anycbor_exact. Qed.

(* a decoded AnyCbor value: decoding its encoding yields the same value (Decoder::skip, transcribed in
   Cbor/Skip.v, depends only on the bytes it consumes) *)
Theorem anycbor_dec_enc_decoded : forall bs a r r',
  dec_anycbor bs = DOk (a, r) -> dec_anycbor (enc_anycbor a ++ r') = DOk (a, r').
Proof. exact anycbor_roundtrip_decoded. Qed.

(* an AnyCbor holding any well-formed item round-trips; and AnyCbor accepts, and keeps the bytes of, exactly
   one item wherever the item decoder of the CBOR core does (Cbor/SkipLaws.v: skip_item) *)
Theorem anycbor_dec_enc : forall i r,
  wf_item i = true -> 2 * len (encode_item i) + 2 < u64_max ->
  dec_anycbor (enc_anycbor (encode_item i) ++ r) = DOk (encode_item i, r).
Proof. exact anycbor_roundtrip_item. Qed.

Theorem anycbor_agrees_with_core : forall bs i r,
  decode bs = DOk (i, r) -> 2 * len bs + 2 < u64_max -> dec_anycbor bs = DOk (encode_item i, r).
Proof. exact anycbor_of_decode. Qed.

Theorem emptymap_dec_enc : forall r, dec_emptymap (enc_emptymap tt ++ r) = DOk (tt, r).
Proof. exact emptymap_roundtrip. Qed.

(* ---- MaybeIndefArray / KeyValuePairs (= NonEmptyKeyValuePairs) ---- *)
Theorem mia_dec_enc : forall (T : Type) (dec : decoder T) (enc : T -> list Z) (P : T -> Prop) m r,
  roundtrips dec enc P -> starts_ok enc P -> mia_ok P m -> dec_mia dec (enc_mia enc m ++ r) = DOk (m, r).
Proof. intros T dec enc P m r. apply mia_roundtrip. Qed.

Theorem kvp_dec_enc : forall (K V : Type) (dk : decoder K) (dv : decoder V) ek ev (Pk : K -> Prop) (Pv : V -> Prop) m r,
  roundtrips dk ek Pk -> roundtrips dv ev Pv -> starts_ok ek Pk -> kvp_ok Pk Pv m ->
  dec_kvp dk dv (enc_kvp ek ev m ++ r) = DOk (m, r).
Proof. intros K V dk dv ek ev Pk Pv m r. apply kvp_roundtrip. Qed.

(* Full statement (does not hold, see container_head_refuted):
     exact dec enc -> dec_mia dec bs = DOk (m, r) -> enc_mia enc m ++ r = bs     (same for dec_kvp)
   Proved for every accepted input outside the known class "definite container whose length
   head is non-minimal" ([nonminimal_head]); indefinite containers and minimal heads are exact. *)
Theorem container_reencode_exact_partial :
  (forall (T : Type) (dec : decoder T) (enc : T -> list Z) bs m r,
     exact dec enc -> dec_mia dec bs = DOk (m, r) -> ~ nonminimal_head MajArray bs -> enc_mia enc m ++ r = bs) /\
  (forall (K V : Type) (dk : decoder K) (dv : decoder V) ek ev bs m r,
     exact dk ek -> exact dv ev -> dec_kvp dk dv bs = DOk (m, r) -> ~ nonminimal_head MajMap bs ->
     enc_kvp ek ev m ++ r = bs).
Proof.
  split.
  - intros T dec enc bs m r. apply mia_reencode_exact_partial.
  - intros K V dk dv ek ev bs m r. apply kvp_reencode_exact_partial.
Qed.

(* KNOWN FINDING reencode/definite-container-nonminimal-length-head: b8 01 k v -> a1 k v, 98 01 x -> 81 x *)
Theorem container_head_refuted :
  (exists bs v r, nonminimal_head MajMap bs /\ dec_kvp dec_anyuint dec_anyuint bs = DOk (v, r) /\
                  enc_kvp enc_anyuint enc_anyuint v ++ r <> bs) /\
  (exists bs v r, nonminimal_head MajArray bs /\ dec_mia dec_anyuint bs = DOk (v, r) /\
                  enc_mia enc_anyuint v ++ r <> bs).
Proof.
  split.
  - exists [184; 1; 1; 2], (KDef [(AMajorByte 1, AMajorByte 2)]), []. split; [|split; [vm_compute; reflexivity|discriminate]].
    exists W8, 1, [1; 2]. split; [reflexivity|]. split; [unfold arg_fits; cbn; lia|discriminate].
  - exists [152; 1; 5], (MDef [AMajorByte 5]), []. split; [|split; [vm_compute; reflexivity|discriminate]].
    exists W8, 1, [5]. split; [reflexivity|]. split; [unfold arg_fits; cbn; lia|discriminate].
Qed.

(* ---- Nullable ---- *)
Theorem nullable_dec_enc : forall (T : Type) (dec : decoder T) (enc : T -> list Z) (P : T -> Prop) n r,
  roundtrips dec enc P -> not_nullish enc P -> nullable_ok P n ->
  dec_nullable dec (enc_nullable enc n ++ r) = DOk (n, r).
Proof. intros T dec enc P n r. apply nullable_roundtrip. Qed.

Theorem nullable_reencode_exact : forall (T : Type) (dec : decoder T) (enc : T -> list Z) bs n r,
  exact dec enc -> dec_nullable dec bs = DOk (n, r) -> enc_nullable enc n ++ r = bs.
Proof. intros T dec enc bs n r. apply ProofsB.nullable_reencode_exact. Qed.

(* ---- Set / NonEmptySet, CborWrap, TagWrap, ZeroOrOneArray, OrderPreservingProperties, Vec ---- *)
Theorem set_dec_enc : forall (T : Type) (dec : decoder T) (enc : T -> list Z) (P : T -> Prop) xs r,
  roundtrips dec enc P -> starts_ok enc P -> Forall P xs -> len xs < u64_bound ->
  dec_set dec (enc_set enc xs ++ r) = DOk (xs, r) /\ dec_set dec (enc_vec enc xs ++ r) = DOk (xs, r).
Proof. intros T dec enc P xs r H1 H2 H3 H4. split; [apply (set_roundtrip dec enc P)|apply (set_untagged_accepted dec enc P)]; assumption. Qed.

Theorem cborwrap_dec_enc : forall (T : Type) (dec : decoder T) (enc : T -> list Z) (P : T -> Prop) x r,
  roundtrips dec enc P -> P x -> bytes_wf (enc x) -> len (enc x) < u64_bound ->
  dec_cborwrap dec (enc_cborwrap enc x ++ r) = DOk (x, r).
Proof. intros T dec enc P x r. apply cborwrap_roundtrip. Qed.

Theorem tagwrap_dec_enc : forall (T : Type) (dec : decoder T) (enc : T -> list Z) (P : T -> Prop) tag x r,
  roundtrips dec enc P -> P x -> 0 <= tag < u64_bound ->
  dec_tagwrap dec (enc_tagwrap enc tag x ++ r) = DOk (x, r).
Proof. intros T dec enc P tag x r. apply tagwrap_roundtrip. Qed.

Theorem zoo_dec_enc : forall (T : Type) (dec : decoder T) (enc : T -> list Z) (P : T -> Prop) o r,
  roundtrips dec enc P -> match o with Some x => P x | None => True end ->
  dec_zoo dec (enc_zoo enc o ++ r) = DOk (o, r).
Proof. intros T dec enc P o r. apply zoo_roundtrip. Qed.

Theorem opp_dec_enc : forall (T : Type) (dec : decoder T) (enc : T -> list Z) (P : T -> Prop) xs r,
  roundtrips dec enc P -> starts_ok enc P -> Forall P xs -> len xs < u64_bound ->
  dec_opp dec (enc_opp enc xs ++ r) = DOk (xs, r).
Proof. intros T dec enc P xs r. apply opp_roundtrip. Qed.

Theorem vec_dec_enc : forall (T : Type) (dec : decoder T) (enc : T -> list Z) (P : T -> Prop) xs r,
  roundtrips dec enc P -> starts_ok enc P -> Forall P xs -> len xs < u64_bound ->
  dec_vec dec (enc_vec enc xs ++ r) = DOk (xs, r).
Proof. intros T dec enc P xs r. apply vec_roundtrip. Qed.

(* ---- the payload hypotheses are satisfiable: AnyUInt and u64 meet all of them ---- *)
Theorem payload_specs_inhabited :
  roundtrips dec_anyuint enc_anyuint anyuint_wf /\ exact dec_anyuint enc_anyuint /\
  starts_ok enc_anyuint anyuint_wf /\ consumes dec_anyuint /\ local dec_anyuint /\
  not_nullish enc_anyuint anyuint_wf /\
  roundtrips dec_u64 enc_u64 u64_ok /\ starts_ok enc_u64 u64_ok /\ consumes dec_u64 /\ local dec_u64.
Proof.
  split; [apply anyuint_roundtrips|]. split; [apply anyuint_is_exact|]. split; [apply anyuint_starts_ok|].
  split; [apply anyuint_consumes|]. split; [apply anyuint_local|]. split; [apply anyuint_not_nullish|].
  split; [apply u64_roundtrips|]. split; [apply u64_starts_ok|]. split; [apply u64_consumes|apply u64_local].
Qed.

(* non-vacuity / nesting example: KeyValuePairs<AnyUInt, MaybeIndefArray<AnyUInt>> with a non-minimal integer,
   an indefinite inner array and an indefinite outer map is reproduced byte for byte *)
Example nested_exact_example :
  let bs := [191; 24; 5; 159; 25; 0; 7; 255; 255] in
  let m := KIndef [(AU8 5, MIndef [AU16 7])] in
  dec_kvp dec_anyuint (dec_mia dec_anyuint) bs = DOk (m, []) /\
  enc_kvp enc_anyuint (enc_mia enc_anyuint) m = bs.
Proof. split; vm_compute; reflexivity. Qed.
