(* Symbolic (Dolev-Yao style) model of pallas-crypto/src/kes/{summed_kes,single_kes,common}.rs.

   Every 32-byte value the code handles is a [term] of a free algebra:
     Master k            an atomic secret (the caller's seed number k)
     L x / R x           blake2b-256(0x01 ‖ x) / blake2b-256(0x02 ‖ x)       (Seed::split_slice)
     Pk x                the Ed25519 verifying key of the 32-byte secret x
                         (EdSigningKey::from_bytes(x) -> VerifyingKey; SigningKey::to_bytes
                          is x itself, so the stored "secret key" slot of a leaf IS its seed)
     H2 a b              blake2b-256(a ‖ b)                                   (PublicKey::hash_pair)
     SigR sk m, SigS sk m  first / second half of the deterministic Ed25519 signature of
                         message number m under secret sk (64 bytes = two 32-byte slots)
     Zero                32 zero bytes
   IDEAL-PRIMITIVE ASSUMPTION (explicit here, nowhere else): the byte interpretation of
   terms is injective (constructors free: no blake2b collision, distinct secrets give
   distinct verifying keys, no hash output is all-zero ...) and [ed_verify] accepts
   exactly the signatures made by the matching secret on the same message.

   All sizes/offsets of the Rust code are multiples of 32 bytes; the model counts in
   32-byte slots.  A key buffer of depth d is the slot list
       [ sub-key (depth d-1) | seed | pk0 | pk1 ]          (KesSk::as_bytes without period)
   and the trailing 4-byte big-endian period is a separate Z.
   The code of SumNKes and SumNCompactKes is identical for keygen/update (macro text),
   so one model serves both; they differ in sign / signature / verify.
   The macros are instantiated for depths 1..7; the model is the same recursion for any
   d : nat, with u32 arithmetic as Z (no wrap can occur for d < 32). Length asserts of
   the Rust are not modelled as panics: the length lemmas in Kes/KeyAt.v show they hold. *)
From PV Require Import Lib.Base.
Open Scope Z_scope.

Inductive term : Type :=
| Master (k : Z)
| L (x : term)
| R (x : term)
| Pk (x : term)
| H2 (a b : term)
| SigR (sk : term) (m : Z)
| SigS (sk : term) (m : Z)
| Zero.

Fixpoint term_eqb (x y : term) : bool :=
  match x, y with
  | Master a, Master b => a =? b
  | L a, L b => term_eqb a b
  | R a, R b => term_eqb a b
  | Pk a, Pk b => term_eqb a b
  | H2 a b, H2 c d => term_eqb a c && term_eqb b d
  | SigR a m, SigR b n => term_eqb a b && (m =? n)
  | SigS a m, SigS b n => term_eqb a b && (m =? n)
  | Zero, Zero => true
  | _, _ => false
  end.

(* ---- ideal Ed25519 ---- *)
Definition ed_sign (sk : term) (m : Z) : term * term := (SigR sk m, SigS sk m).
(* verify_strict(pk, m, a‖b) *)
Definition ed_verify (pk : term) (m : Z) (a b : term) : bool :=
  match a, b with
  | SigR sk m1, SigS sk' m2 =>
      term_eqb pk (Pk sk) && term_eqb sk sk' && (m1 =? m) && (m2 =? m)
  | _, _ => false
  end.
(* EdPublicKey::from_bytes succeeds: the only byte strings the symbolic model knows to
   be curve points are verifying keys. (Real code may also accept other bytes and then
   fail in verify_strict; either way verification does not succeed.) *)
Definition is_point (x : term) : bool := match x with Pk _ => true | _ => false end.

(* ---- sizes, in 32-byte slots ---- *)
(* SIZE = INDIVIDUAL_SECRET_SIZE + depth*32 + depth*(PUBLIC_KEY_SIZE*2) = 32*(1+3*depth) *)
Definition ksize (d : nat) : nat := 1 + 3 * d.
(* Depth(d).total() = 2^d ; Depth(d).half() = 2^(d-1) *)
Definition total (d : nat) : Z := 2 ^ Z.of_nat d.
Definition half (d : nat) : Z := 2 ^ (Z.of_nat d - 1).

(* slot access: b[i*32..(i+1)*32] read / copy_from_slice *)
Definition get (i : nat) (b : list term) : term := nth i b Zero.
Definition put (i : nat) (v : term) (b : list term) : list term :=
  firstn i b ++ v :: skipn (S i) b.

(* ---- keygen_slice (sum_kes! / sum_compact_kes! / Sum0Kes / Sum0CompactKes) ----
   Returns (in_slice after, opt_seed after, public key).  With [Some seed] the seed
   lives outside in_slice (the caller's 32 bytes, zeroed by the callee); with [None]
   it is the slot just after the key region (in_slice has ksize d + 1 slots). *)
Fixpoint keygen_slice (d : nat) (in_slice : list term) (opt_seed : option term)
  : list term * option term * term :=
  match d with
  | O =>
      match opt_seed with
      | Some seed =>
          (* sk = SigningKey::from_bytes(seed); seed.copy_from_slice(0); in_slice[..32] = sk.to_bytes() *)
          (put 0 seed in_slice, Some Zero, Pk seed)
      | None =>
          let seed := get 1 in_slice in
          let s1 := put 1 Zero in_slice in
          (put 0 seed s1, None, Pk seed)
      end
  | S d' =>
      (* (r0, seed) = Seed::split_slice(..)  -- overwrites its input with zeros *)
      let '(r0, seed, s1, oseed) :=
        match opt_seed with
        | Some in_seed => (L in_seed, R in_seed, in_slice, Some Zero)
        | None => let in_seed := get (ksize d) in_slice in
                  (L in_seed, R in_seed, put (ksize d) Zero in_slice, None)
        end in
      (* in_slice[$sk::SIZE..$sk::SIZE+32] = seed *)
      let s2 := put (ksize d') seed s1 in
      (* pk_0 = $sk::keygen_slice(&mut in_slice[..$sk::SIZE], Some(&mut r0)) *)
      let '(sub, _, pk0) := keygen_slice d' (firstn (ksize d') s2) (Some r0) in
      let s3 := sub ++ skipn (ksize d') s2 in
      (* (_, pk_1) = $sk::keygen(&mut temp_buffer, &mut seed); temp_buffer zeroed.
         $sk::keygen is keygen_slice on the SIZE prefix of the (zero) temp buffer plus the
         period bytes; only the public key survives. *)
      let '(_, _, pk1) := keygen_slice d' (repeat Zero (ksize d')) (Some seed) in
      let pk := H2 pk0 pk1 in
      let s4 := put (ksize d' + 1) pk0 s3 in
      let s5 := put (ksize d' + 2) pk1 s4 in
      (s5, oseed, pk)
  end.

(* ---- update_slice: returns (key_slice afterwards, ok); ok = false is
   Err(KeyCannotBeUpdatedMore). The slice is returned on the error path too, so that
   "a refused update changes nothing" is a statement about the model, not a convention:
   the early return happens before any write, and `?` propagates a sub-key's error after
   whatever the sub-call did to its part of the slice. ---- *)
Fixpoint update_slice (d : nat) (key_slice : list term) (period : Z) : list term * bool :=
  match d with
  | O => (key_slice, false)
  | S d' =>
      if period + 1 =? total d then (key_slice, false)
      else
        match (period + 1) ?= half d with
        | Lt =>
            let '(sub, ok) := update_slice d' (firstn (ksize d') key_slice) period in
            (sub ++ skipn (ksize d') key_slice, ok)
        | Eq =>
            let '(sub, _, _) := keygen_slice d' (firstn (ksize d' + 1) key_slice) None in
            (sub ++ skipn (ksize d' + 1) key_slice, true)
        | Gt =>
            let '(sub, ok) := update_slice d' (firstn (ksize d') key_slice) (period - half d) in
            (sub ++ skipn (ksize d') key_slice, ok)
        end
  end.

(* ---- the key object: buffer[..SIZE] as slots, and the period ---- *)
Definition key : Type := (list term * Z)%type.
Definition key_buf (k : key) : list term := fst k.
Definition get_period (k : key) : Z := snd k.

(* KesSk::keygen(key_buffer, seed): returns (key, public key, caller's seed afterwards) *)
Definition keygen (d : nat) (key_buffer : list term) (seed : term) : key * term * term :=
  let '(b, oseed, pk) := keygen_slice d key_buffer (Some seed) in
  ((b, 0), pk, match oseed with Some z => z | None => seed end).

(* KesSk::update: period = be32(buffer[SIZE..]); update_slice(&mut buffer[..SIZE], period)?;
   buffer[SIZE..] = be32(period + 1).  Returns (key afterwards, ok): on Err the period
   bytes are not written (the `?` returns first) and the buffer is whatever update_slice
   left. *)
Definition update (d : nat) (k : key) : key * bool :=
  let '(b, period) := k in
  let '(b', ok) := update_slice d b period in
  if ok then ((b', period + 1), true) else ((b', period), false).

(* to_pk: hash_pair of the last two slots *)
Definition to_pk (d : nat) (k : key) : term :=
  H2 (get (ksize d - 2) (key_buf k)) (get (ksize d - 1) (key_buf k)).

(* n successful updates in a row (None as soon as one is refused) *)
Fixpoint updates (d : nat) (n : nat) (k : key) : option key :=
  match n with
  | O => Some k
  | S n' => match updates d n' k with
            | None => None
            | Some k' => let '(k'', ok) := update d k' in if ok then Some k'' else None
            end
  end.
(* n update() calls whatever their result: the key the caller is left with *)
Fixpoint update_calls (d : nat) (n : nat) (k : key) : key :=
  match n with
  | O => k
  | S n' => fst (update d (update_calls d n' k))
  end.

(* ---- SumKes signatures ---- *)
Inductive sumsig : Type :=
| SLeaf (a b : term)                          (* Sum0KesSig(EdSignature) *)
| SNode (sigma : sumsig) (lhs_pk rhs_pk : term).

Fixpoint sign_sum (d : nat) (sk : list term) (m : Z) : sumsig :=
  match d with
  | O => let '(a, b) := ed_sign (get 0 sk) m in SLeaf a b
  | S d' => SNode (sign_sum d' (firstn (ksize d') sk) m)
                  (get (ksize d' + 1) sk) (get (ksize d' + 2) sk)
  end.

Fixpoint verify_sum (d : nat) (sig : sumsig) (period : Z) (pk : term) (m : Z) : bool :=
  match d, sig with
  | O, SLeaf a b => ed_verify pk m a b
  | S d', SNode sigma lhs rhs =>
      if negb (term_eqb (H2 lhs rhs) pk) then false
      else if period <? half d then verify_sum d' sigma period lhs m
      else verify_sum d' sigma (period - half d) rhs m
  | _, _ => false
  end.

(* SIZE = SIGMA_SIZE + depth*(PUBLIC_KEY_SIZE*2) = 32*(2+2*depth) *)
Definition sumsig_size (d : nat) : nat := 2 + 2 * d.
Fixpoint sumsig_to_bytes (sig : sumsig) : list term :=
  match sig with
  | SLeaf a b => [a; b]
  | SNode sigma l r => sumsig_to_bytes sigma ++ [l; r]
  end.
Fixpoint sumsig_from_bytes (d : nat) (bytes : list term) : option sumsig :=
  match d with
  | O => if negb (length bytes =? sumsig_size 0)%nat then None
         else Some (SLeaf (get 0 bytes) (get 1 bytes))
  | S d' =>
      if negb (length bytes =? sumsig_size d)%nat then None
      else match sumsig_from_bytes d' (firstn (sumsig_size d') bytes) with
           | None => None
           | Some sigma => Some (SNode sigma (get (sumsig_size d') bytes)
                                             (get (sumsig_size d' + 1) bytes))
           end
  end.

(* ---- SumCompactKes signatures ---- *)
Inductive cmpsig : Type :=
| CLeaf (a b vk : term)                       (* Sum0CompactKesSig(EdSignature, EdPublicKey) *)
| CNode (sigma : cmpsig) (pk : term).

Fixpoint sign_cmp (d : nat) (sk : list term) (m : Z) (period : Z) : cmpsig :=
  match d with
  | O => let k := get 0 sk in let '(a, b) := ed_sign k m in CLeaf a b (Pk k)
  | S d' =>
      let t0 := half d in
      if period <? t0
      then CNode (sign_cmp d' (firstn (ksize d') sk) m period) (get (ksize d' + 2) sk)
      else CNode (sign_cmp d' (firstn (ksize d') sk) m (period - t0)) (get (ksize d' + 1) sk)
  end.

Fixpoint recompute (d : nat) (sig : cmpsig) (period : Z) (m : Z) : option term :=
  match d, sig with
  | O, CLeaf a b vk => if ed_verify vk m a b then Some vk else None
  | S d', CNode sigma pk =>
      if period <? half d
      then match recompute d' sigma period m with
           | Some r => Some (H2 r pk) | None => None end
      else match recompute d' sigma (period - half d) m with
           | Some r => Some (H2 pk r) | None => None end
  | _, _ => None
  end.
(* KesCompactSig::verify (trait default) *)
Definition verify_cmp (d : nat) (sig : cmpsig) (period : Z) (pk : term) (m : Z) : bool :=
  match recompute d sig period m with
  | Some r => term_eqb pk r
  | None => false
  end.

(* SIZE = SIGMA_SIZE + (depth+1)*PUBLIC_KEY_SIZE = 32*(3+depth) *)
Definition cmpsig_size (d : nat) : nat := 3 + d.
Fixpoint cmpsig_to_bytes (sig : cmpsig) : list term :=
  match sig with
  | CLeaf a b vk => [a; b; vk]
  | CNode sigma pk => cmpsig_to_bytes sigma ++ [pk]
  end.
Fixpoint cmpsig_from_bytes (d : nat) (bytes : list term) : option cmpsig :=
  match d with
  | O => if negb (length bytes =? cmpsig_size 0)%nat then None
         else if is_point (get 2 bytes) then Some (CLeaf (get 0 bytes) (get 1 bytes) (get 2 bytes))
         else None
  | S d' =>
      if negb (length bytes =? cmpsig_size d)%nat then None
      else match cmpsig_from_bytes d' (firstn (cmpsig_size d') bytes) with
           | None => None
           | Some sigma => Some (CNode sigma (get (cmpsig_size d') bytes))
           end
  end.

(* ---- specification side: the closed form the proofs establish ---- *)
(* public key of the subtree of height n grown from seed s *)
Fixpoint pk_tree (n : nat) (s : term) : term :=
  match n with
  | O => Pk s
  | S n' => H2 (pk_tree n' (L s)) (pk_tree n' (R s))
  end.
(* seed (= Ed25519 secret) of leaf number t of the height-n tree grown from s *)
Fixpoint leaf_seed (n : nat) (s : term) (t : Z) : term :=
  match n with
  | O => s
  | S n' => if t <? total n' then leaf_seed n' (L s) t else leaf_seed n' (R s) (t - total n')
  end.
(* the key buffer of the height-n key grown from s, at period t *)
Fixpoint key_at (n : nat) (s : term) (t : Z) : list term :=
  match n with
  | O => [s]
  | S n' =>
      if t <? total n'
      then key_at n' (L s) t ++ [R s; pk_tree n' (L s); pk_tree n' (R s)]
      else key_at n' (R s) (t - total n') ++ [Zero; pk_tree n' (L s); pk_tree n' (R s)]
  end.
