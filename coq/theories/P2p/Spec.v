(* P2p/Spec.v — the mini-protocol specifications (Ouroboros network spec, and the
   leios-notify / leios-fetch CDDL notes), written independently of the
   implementation's `apply`: states without payloads, who has agency, and which
   message is allowed.  [cstep] is a message sent by the client (the
   initiator), [sstep] one sent by the server; None = not permitted.  Besides
   the per-protocol machines the spec says that the other mini-protocols run
   only after the handshake was accepted, peer-sharing only when negotiated,
   and the leios protocols only from version 15.  Definitions only. *)
From PV Require Import Lib.Base P2p.Proto.
Open Scope Z_scope.

Inductive s_hs := ShPropose | ShConfirm | ShAccepted (v ps : Z) | ShRefused.
Inductive s_ka := SkClient | SkServer | SkDone.
Inductive s_ps := SpIdle | SpBusy | SpDone.
Inductive s_bf := SbIdle | SbBusy | SbStreaming | SbDone.
Inductive s_cs := ScIdle | ScCanAwait | ScMustReply | ScIntersect | ScDone.
Inductive s_tx := StInit | StIdle | StTxIds | StTxs | StDone.
Inductive s_ln := SnIdle | SnBusy | SnDone.
Inductive s_lf := SfIdle | SfAwaitBlock | SfAwaitTxs | SfDone.

Record pspec := mkW {
  w_hs : s_hs; w_ka : s_ka; w_ps : s_ps; w_bf : s_bf; w_cs : s_cs; w_tx : s_tx; w_ln : s_ln; w_lf : s_lf }.
Definition w0 : pspec := mkW ShPropose SkClient SpIdle SbIdle ScIdle StInit SnIdle SfIdle.

Definition ww_hs x w := mkW x (w_ka w) (w_ps w) (w_bf w) (w_cs w) (w_tx w) (w_ln w) (w_lf w).
Definition ww_ka x w := mkW (w_hs w) x (w_ps w) (w_bf w) (w_cs w) (w_tx w) (w_ln w) (w_lf w).
Definition ww_ps x w := mkW (w_hs w) (w_ka w) x (w_bf w) (w_cs w) (w_tx w) (w_ln w) (w_lf w).
Definition ww_bf x w := mkW (w_hs w) (w_ka w) (w_ps w) x (w_cs w) (w_tx w) (w_ln w) (w_lf w).
Definition ww_cs x w := mkW (w_hs w) (w_ka w) (w_ps w) (w_bf w) x (w_tx w) (w_ln w) (w_lf w).
Definition ww_tx x w := mkW (w_hs w) (w_ka w) (w_ps w) (w_bf w) (w_cs w) x (w_ln w) (w_lf w).
Definition ww_ln x w := mkW (w_hs w) (w_ka w) (w_ps w) (w_bf w) (w_cs w) (w_tx w) x (w_lf w).
Definition ww_lf x w := mkW (w_hs w) (w_ka w) (w_ps w) (w_bf w) (w_cs w) (w_tx w) (w_ln w) x.

(* gating by the negotiated version *)
Definition accepted (w : pspec) : bool := match w_hs w with ShAccepted _ _ => true | _ => false end.
Definition ps_negotiated (w : pspec) : bool := match w_hs w with ShAccepted _ ps => ps >? 0 | _ => false end.
Definition leios_negotiated (w : pspec) : bool := match w_hs w with ShAccepted v _ => v >=? 15 | _ => false end.

Definition opt_map {A B} (f : A -> B) (o : option A) : option B := match o with Some a => Some (f a) | None => None end.
Definition guard (b : bool) {A} (o : option A) : option A := if b then o else None.

(* a message sent by the client *)
Definition cstep (w : pspec) (m : msg) : option pspec :=
  match m with
  | HsPropose _ => match w_hs w with ShPropose => Some (ww_hs ShConfirm w) | _ => None end
  | KaKeepAlive _ => guard (accepted w) (match w_ka w with SkClient => Some (ww_ka SkServer w) | _ => None end)
  | KaDone => guard (accepted w) (match w_ka w with SkClient => Some (ww_ka SkDone w) | _ => None end)
  | PsRequest _ => guard (ps_negotiated w) (match w_ps w with SpIdle => Some (ww_ps SpBusy w) | _ => None end)
  | PsDone => guard (ps_negotiated w) (match w_ps w with SpIdle => Some (ww_ps SpDone w) | _ => None end)
  | BfRequestRange _ => guard (accepted w) (match w_bf w with SbIdle => Some (ww_bf SbBusy w) | _ => None end)
  | BfClientDone => guard (accepted w) (match w_bf w with SbIdle => Some (ww_bf SbDone w) | _ => None end)
  | CsRequestNext => guard (accepted w) (match w_cs w with ScIdle => Some (ww_cs ScCanAwait w) | _ => None end)
  | CsFindIntersect _ => guard (accepted w) (match w_cs w with ScIdle => Some (ww_cs ScIntersect w) | _ => None end)
  | CsDone => guard (accepted w) (match w_cs w with ScIdle => Some (ww_cs ScDone w) | _ => None end)
  | TxInit => guard (accepted w) (match w_tx w with StInit => Some (ww_tx StIdle w) | _ => None end)
  | TxReplyTxIds => guard (accepted w) (match w_tx w with StTxIds => Some (ww_tx StIdle w) | _ => None end)
  | TxReplyTxs _ => guard (accepted w) (match w_tx w with StTxs => Some (ww_tx StIdle w) | _ => None end)
  | TxDone => guard (accepted w) (match w_tx w with StTxIds => Some (ww_tx StDone w) | _ => None end)
  | LnRequestNext => guard (leios_negotiated w) (match w_ln w with SnIdle => Some (ww_ln SnBusy w) | _ => None end)
  | LnDone => guard (leios_negotiated w) (match w_ln w with SnIdle => Some (ww_ln SnDone w) | _ => None end)
  | LfBlockRequest _ => guard (leios_negotiated w) (match w_lf w with SfIdle => Some (ww_lf SfAwaitBlock w) | _ => None end)
  | LfBlockTxsRequest _ => guard (leios_negotiated w) (match w_lf w with SfIdle => Some (ww_lf SfAwaitTxs w) | _ => None end)
  | LfDone => guard (leios_negotiated w) (match w_lf w with SfIdle => Some (ww_lf SfDone w) | _ => None end)
  | _ => None      (* every other message is a server message *)
  end.

(* a message sent by the server *)
Definition sstep (w : pspec) (m : msg) : option pspec :=
  match m with
  | HsAccept v ps => match w_hs w with ShConfirm => Some (ww_hs (ShAccepted v ps) w) | _ => None end
  | HsRefuse _ | HsQueryReply => match w_hs w with ShConfirm => Some (ww_hs ShRefused w) | _ => None end
  | KaResponse _ => guard (accepted w) (match w_ka w with SkServer => Some (ww_ka SkClient w) | _ => None end)
  | PsPeers _ => guard (ps_negotiated w) (match w_ps w with SpBusy => Some (ww_ps SpIdle w) | _ => None end)
  | BfStartBatch => guard (accepted w) (match w_bf w with SbBusy => Some (ww_bf SbStreaming w) | _ => None end)
  | BfNoBlocks => guard (accepted w) (match w_bf w with SbBusy => Some (ww_bf SbIdle w) | _ => None end)
  | BfBlock _ => guard (accepted w) (match w_bf w with SbStreaming => Some w | _ => None end)
  | BfBatchDone => guard (accepted w) (match w_bf w with SbStreaming => Some (ww_bf SbIdle w) | _ => None end)
  | CsAwaitReply => guard (accepted w) (match w_cs w with ScCanAwait => Some (ww_cs ScMustReply w) | _ => None end)
  | CsRollForward _ | CsRollBackward _ =>
      guard (accepted w) (match w_cs w with ScCanAwait | ScMustReply => Some (ww_cs ScIdle w) | _ => None end)
  | CsIntersectFound _ | CsIntersectNotFound =>
      guard (accepted w) (match w_cs w with ScIntersect => Some (ww_cs ScIdle w) | _ => None end)
  | TxRequestTxIds => guard (accepted w) (match w_tx w with StIdle => Some (ww_tx StTxIds w) | _ => None end)
  | TxRequestTxs => guard (accepted w) (match w_tx w with StIdle => Some (ww_tx StTxs w) | _ => None end)
  | LnAnnouncement _ | LnOffer _ | LnTxsOffer _ | LnVotes _ =>
      guard (leios_negotiated w) (match w_ln w with SnBusy => Some (ww_ln SnIdle w) | _ => None end)
  | LfBlock _ => guard (leios_negotiated w) (match w_lf w with SfAwaitBlock => Some (ww_lf SfIdle w) | _ => None end)
  | LfBlockTxs _ => guard (leios_negotiated w) (match w_lf w with SfAwaitTxs => Some (ww_lf SfIdle w) | _ => None end)
  | _ => None
  end.
