(* C11 model: pallas-crypto/src/key/ed25519.rs over the executable RFC 8032
   specification Crypto/Ed25519Spec.v (which also transcribes the call
   structure of cryptoxide::ed25519).  Definitions only. *)
From PV Require Import Lib.Base Crypto.Sha512 Crypto.Ed25519Spec.
Open Scope Z_scope.

(* SecretKey::public_key: ed25519::keypair(&self.0).1 *)
Definition sk_public_key (sk : list Z) : list Z := ed_public sk.
(* SecretKey::sign: (sk || pk) = keypair(&self.0); ed25519::signature(msg, &(sk || pk)) *)
Definition sk_sign (sk m : list Z) : list Z := ed_sign sk m.

(* SecretKeyExtended::from_bytes / TryFrom<[u8; 64]> *)
Definition esk_from_bytes (k : list Z) : outcome (list Z) := ext_from_bytes k.
(* SecretKeyExtended::public_key: ed25519::extended_to_public *)
Definition esk_public_key (esk : list Z) : list Z := ed_public_ext esk.
(* SecretKeyExtended::sign: ed25519::signature_extended *)
Definition esk_sign (esk m : list Z) : list Z := ed_sign_ext esk m.

(* PublicKey::verify: ed25519::verify(message, &self.0, &signature.0) *)
Definition pk_verify (pk m sig : list Z) : bool := ed_verify pk m sig.

(* TryFrom<&[u8]> for PublicKey / Signature: Err(InvalidSize) unless the length is SIZE *)
Definition pk_try_from (bs : list Z) : outcome (list Z) :=
  if negb (Z.of_nat (length bs) =? 32) then Err 1 else Ok bs.
Definition sig_try_from (bs : list Z) : outcome (list Z) :=
  if negb (Z.of_nat (length bs) =? 64) then Err 1 else Ok bs.
