(* C22 proofs, part 3: the DMQ protocols (localmsgsubmission, localmsgnotification) and the
   parameterless localstate queries_v16 request framing. *)
From PV Require Import Lib.Base Cbor.Item Cbor.Enc Cbor.Dec Cbor.HeadLaws Cbor.Laws Cbor.Api C22.Model C22.Proofs C22.Proofs2.
Open Scope Z_scope.

Lemma is_enc_arr5 a b c d e :
  is_enc a -> is_enc b -> is_enc c -> is_enc d -> is_enc e -> is_enc (e_array 5 ++ a ++ b ++ c ++ d ++ e).
Proof.
  intros Ha Hb Hc Hd He. pose proof (is_enc_array [a; b; c; d; e]) as H. cbn [concat] in H.
  rewrite app_nil_r in H. apply H; [repeat constructor; assumption|cbn; rng].
Qed.

(* ---- DmqMsg ---- *)
Lemma dmq_enc m : wf_dmq m = true -> is_enc (enc_dmq m).
Proof.
  destruct m as [id body kp ex sg vk iss st cs cold]. unfold wf_dmq, enc_dmq.
  cbn [dq_id dq_body dq_kes_period dq_expires_at dq_kes_sig dq_kes_vk dq_issue dq_start_kes dq_cert_sig dq_cold_vk].
  intros H. wf_hyps. apply is_enc_arr5; enc_tac.
Qed.
Lemma dmq_rt m r : wf_dmq m = true -> dec_dmq (enc_dmq m ++ r) = DOk (m, r).
Proof.
  destruct m as [id body kp ex sg vk iss st cs cold]. unfold wf_dmq, enc_dmq, dec_dmq.
  cbn [dq_id dq_body dq_kes_period dq_expires_at dq_kes_sig dq_kes_vk dq_issue dq_start_kes dq_cert_sig dq_cold_vk].
  intros H. wf_hyps. dec_tac.
Qed.

Lemma dmq_reason_enc x : wf_dmq_reason x = true -> is_enc (enc_dmq_reason x).
Proof. destruct x; cbn [wf_dmq_reason enc_dmq_reason]; intros H; enc_tac. Qed.
Lemma dmq_reason_rt x r : wf_dmq_reason x = true -> dec_dmq_reason (enc_dmq_reason x ++ r) = DOk (x, r).
Proof. destruct x; cbn [wf_dmq_reason enc_dmq_reason]; intros H; unfold dec_dmq_reason; dec_tac. Qed.

(* ---- localmsgsubmission ---- *)
Lemma lms_wellformed m : lms_wf m = true -> is_enc (lms_enc m).
Proof.
  destruct m; cbn [lms_wf lms_enc]; intros H; enc_tac.
  - apply dmq_enc; assumption.
  - apply dmq_reason_enc; assumption.
Qed.
Lemma lms_dec_enc m r : lms_wf m = true -> lms_dec (lms_enc m ++ r) = DOk (m, r).
Proof.
  destruct m; cbn [lms_wf lms_enc]; intros H; unfold lms_dec; dec_tac.
  - rewrite dmq_rt by assumption. reflexivity.
  - rewrite dmq_reason_rt by assumption. reflexivity.
Qed.

(* ---- localmsgnotification ---- *)
Lemma lmn_wellformed m : lmn_wf m = true -> is_enc (lmn_enc m).
Proof.
  destruct m; cbn [lmn_wf lmn_enc]; intros H; enc_tac;
    apply is_enc_indef_vec; (eapply Forall_enc; [apply dmq_enc|assumption]).
Qed.
Lemma lmn_dec_enc m r : lmn_wf m = true -> lmn_dec (lmn_enc m ++ r) = DOk (m, r).
Proof.
  destruct m; cbn [lmn_wf lmn_enc]; intros H; unfold lmn_dec; dec_tac.
  - rewrite d_vec_indef by (eapply Forall_rt_enc; [apply dmq_enc|apply dmq_rt|assumption]). dnorm. dec_tac.
  - rewrite d_vec_indef by (eapply Forall_rt_enc; [apply dmq_enc|apply dmq_rt|assumption]). reflexivity.
Qed.

(* ---- localstate query requests ---- *)
Lemma lq_nullary_range t : lq_nullary t = true -> 0 <= t < 38.
Proof. unfold lq_nullary. cbn [existsb]. lia. Qed.

Lemma lq_wellformed m : lq_wf m = true -> is_enc (lq_enc m).
Proof.
  destruct m; cbn [lq_wf lq_enc]; intros H; wf_hyps.
  - pose proof (lq_nullary_range tag ltac:(assumption)). enc_tac.
  - enc_tac.
  - enc_tac.
  - enc_tac.
  - enc_tac.
Qed.
Lemma lq_dec_enc m r : lq_wf m = true -> lq_dec (lq_enc m ++ r) = DOk (m, r).
Proof.
  destruct m; cbn [lq_wf lq_enc]; intros H; wf_hyps; unfold lq_dec.
  - pose proof (lq_nullary_range tag ltac:(assumption)) as Ht. dec_tac.
    match goal with Hn : lq_nullary tag = true |- _ => rewrite Hn end.
    rewrite orb_true_r. reflexivity.
  - dec_tac. rewrite H. reflexivity.
  - dec_tac.
  - dec_tac.
  - dec_tac.
Qed.
