(* C40 model: pallas-txbuilder staging operations (transaction/model.rs,
   StagingTransaction / Output builder methods) and BuildConway::build_conway_raw /
   Output::build_babbage_raw (conway.rs), transcribed to an abstract Conway tx.

   Abstractions (tied differentially by harness/src/bin/c40.rs):
   - fixed-length hashes (tx ids, policy ids, key hashes) are the big-endian integers
     of their bytes (their `Ord` is byte-lexicographic = integer order);
   - asset names are byte lists (`Ord` = lexicographic, variable length);
   - opaque byte strings the builder only moves around (addresses, script / datum /
     redeemer / auxiliary-data bytes) are `blob`s: (length, token), compared only;
     whether such bytes decode (`PlutusData`/`NativeScript::decode_fragment`) is an
     input flag, the codec being external;
   - HashMap = association list with unique keys (iteration order unobservable: set-like
     outputs are compared up to permutation); BTreeMap = list sorted by key;
   - `Option<Vec<_>>` staging fields are plain lists (`unwrap_or_default` at every use);
   - hashes used as map keys by `script`/`datum` are computed outside (passed with the op);
   - i64/u64 `+=` in mint_asset/add_asset: overflow panics (dev profile, overflow checks on). *)
From PV Require Import Lib.Base.
Open Scope Z_scope.

Definition hash := Z.
Definition bytes := list Z.
Definition blob := (Z * Z)%type.
Definition input := (hash * Z)%type.

(* error / panic classes *)
Definition E_SCRIPT : Z := 1.      (* MalformedScript *)
Definition E_DATUM : Z := 2.       (* MalformedDatum *)
Definition E_DATUMHASH : Z := 3.   (* MalformedDatumHash *)
Definition E_TARGET : Z := 4.      (* RedeemerTargetMissing *)
Definition E_NETWORK : Z := 5.     (* InvalidNetworkId *)
Definition E_NAMELONG : Z := 8.    (* AssetNameTooLong *)
Definition P_UNWRAP_ERR : Z := 2.  (* Result::unwrap on Err (NonZeroInt / PositiveCoin of 0) *)
Definition P_TODO : Z := 3.        (* todo!() *)
Definition P_INDEX : Z := 4.       (* Vec::remove out of range *)
Definition P_OVERFLOW : Z := 5.    (* arithmetic overflow *)

(* ---------- comparisons ---------- *)
Definition blob_eqb (a b : blob) : bool := (fst a =? fst b) && (snd a =? snd b).
Definition input_eqb (a b : input) : bool := (fst a =? fst b) && (snd a =? snd b).
Definition bytes_eqb (a b : bytes) : bool := list_eqb Z.eqb a b.
(* sort_unstable_by_key(|x| (x.transaction_id, x.index)) : lexicographic on the pair *)
Definition input_leb (a b : input) : bool := (fst a <? fst b) || ((fst a =? fst b) && (snd a <=? snd b)).
(* Vec<u8> / Bytes ordering *)
Fixpoint bytes_leb (a b : bytes) : bool :=
  match a, b with
  | [], _ => true
  | _ :: _, [] => false
  | x :: a', y :: b' => (x <? y) || ((x =? y) && bytes_leb a' b')
  end.

Section Sort.
Context {A : Type} (leb : A -> A -> bool).
Fixpoint insert_sorted (x : A) (l : list A) : list A :=
  match l with
  | [] => [x]
  | y :: r => if leb x y then x :: l else y :: insert_sorted x r
  end.
Definition isort (l : list A) : list A := fold_right insert_sorted [] l.
End Sort.

(* Vec::dedup on a sorted vector: drop consecutive repeats *)
Fixpoint dedup_inputs (l : list input) : list input :=
  match l with
  | [] => []
  | x :: r => match r with
              | [] => [x]
              | y :: _ => if input_eqb x y then dedup_inputs r else x :: dedup_inputs r
              end
  end.

Fixpoint position {A} (f : A -> bool) (l : list A) : option nat :=
  match l with
  | [] => None
  | x :: r => if f x then Some O else match position f r with Some i => Some (S i) | None => None end
  end.

(* ---------- nested asset maps: HashMap<PolicyId, HashMap<AssetName, amount>> ---------- *)
Definition inner := list (bytes * Z).
Definition amap := list (hash * inner).

(* entry(name).and_modify(|a| *a += amount).or_insert(amount), with the overflow check *)
Fixpoint inner_add (lo hi : Z) (n : bytes) (a : Z) (l : inner) : option inner :=
  match l with
  | [] => Some [(n, a)]
  | (n', a') :: r =>
    if bytes_eqb n' n then
      (if (lo <=? a' + a) && (a' + a <=? hi) then Some ((n', a' + a) :: r) else None)
    else match inner_add lo hi n a r with Some r' => Some ((n', a') :: r') | None => None end
  end.
Fixpoint amap_add (lo hi : Z) (p : hash) (n : bytes) (a : Z) (m : amap) : option amap :=
  match m with
  | [] => Some [(p, [(n, a)])]
  | (p', l) :: r =>
    if p' =? p then match inner_add lo hi n a l with Some l' => Some ((p', l') :: r) | None => None end
    else match amap_add lo hi p n a r with Some r' => Some ((p', l) :: r') | None => None end
  end.
Definition inner_remove (n : bytes) (l : inner) : inner := filter (fun e => negb (bytes_eqb (fst e) n)) l.
(* remove_mint_asset: remove the name; drop the policy when its map became empty *)
Fixpoint amap_remove (p : hash) (n : bytes) (m : amap) : amap :=
  match m with
  | [] => []
  | (p', l) :: r =>
    if p' =? p then match inner_remove n l with [] => r | l' => (p', l') :: r end
    else (p', l) :: amap_remove p n r
  end.
Fixpoint inner_lookup (n : bytes) (l : inner) : option Z :=
  match l with [] => None | (n', a) :: r => if bytes_eqb n' n then Some a else inner_lookup n r end.
Fixpoint amap_lookup (p : hash) (n : bytes) (m : amap) : option Z :=
  match m with [] => None | (p', l) :: r => if p' =? p then inner_lookup n l else amap_lookup p n r end.

Definition I64_MIN : Z := - 2 ^ 63.
Definition I64_MAX : Z := 2 ^ 63 - 1.
Definition U64_MAX : Z := 2 ^ 64 - 1.

(* ---------- staged values ---------- *)
Record datum := mkDatum { d_inline : bool; d_bytes : blob; d_ok : bool }.
  (* d_ok: inline -> PlutusData decodes; hash -> 32 bytes *)
Record script := mkScript { s_kind : Z; s_bytes : blob; s_ok : bool }.
  (* s_kind 0 native 1..3 plutus v1..v3; s_ok: native script bytes decode *)
Record output := mkOutput {
  o_addr : blob; o_lovelace : Z;
  o_assets : amap;                    (* state of the HashMap after the add_asset calls *)
  o_datum : option datum; o_script : option script }.

Inductive purpose : Type := PSpend (i : input) | PMint (p : hash).
Definition purpose_eqb (a b : purpose) : bool :=
  match a, b with
  | PSpend x, PSpend y => input_eqb x y
  | PMint x, PMint y => x =? y
  | _, _ => false
  end.
Record rdmr := mkRdmr { r_data : blob; r_ok : bool; r_ex : option (Z * Z) }.

Record staging := mkStaging {
  s_inputs : list input; s_refs : list input; s_outputs : list output; s_fee : option Z;
  s_mint : amap; s_vfrom : option Z; s_ifrom : option Z; s_net : option Z;
  s_colls : list input; s_collout : option output; s_signers : list hash;
  s_scripts : list (hash * script); s_datums : list (hash * (blob * bool));
  s_rdmrs : list (purpose * rdmr); s_lv : bool; s_aux : option blob }.

Definition empty_staging : staging :=
  mkStaging [] [] [] None [] None None None [] None [] [] [] [] false None.

(* Output::new(..).add_asset(..)* : folds the calls into the HashMap state *)
Fixpoint assets_of_calls (calls : list (hash * bytes * Z)) (m : amap) : option amap :=
  match calls with
  | [] => Some m
  | (p, n, a) :: r => match amap_add 0 U64_MAX p n a m with Some m' => assets_of_calls r m' | None => None end
  end.

(* HashMap::insert / remove on association lists *)
Definition kv_remove {K V} (eqb : K -> K -> bool) (k : K) (m : list (K * V)) : list (K * V) :=
  filter (fun e => negb (eqb (fst e) k)) m.
Definition kv_insert {K V} (eqb : K -> K -> bool) (k : K) (v : V) (m : list (K * V)) : list (K * V) :=
  kv_remove eqb k m ++ [(k, v)].

Fixpoint remove_nth {A} (n : nat) (l : list A) : list A :=
  match n, l with
  | _, [] => []
  | O, _ :: r => r
  | S n', x :: r => x :: remove_nth n' r
  end.

(* ---------- staging operations ---------- *)
Inductive sop : Type :=
| OInput (i : input) | ORemoveInput (i : input)
| ORefInput (i : input) | ORemoveRefInput (i : input)
| OOutput (o : output) | ORemoveOutput (idx : Z)
| OFee (f : Z) | OClearFee
| OMint (p : hash) (n : bytes) (a : Z) | ORemoveMint (p : hash) (n : bytes)
| OValidFrom (s : Z) | OClearValidFrom | OInvalidFrom (s : Z) | OClearInvalidFrom
| ONetwork (n : Z) | OClearNetwork
| OCollIn (i : input) | ORemoveCollIn (i : input)
| OCollOut (o : output) | OClearCollOut
| OSigner (h : hash) | ORemoveSigner (h : hash)
| OScript (key : hash) (s : script) | ORemoveScript (key : hash)
| ODatum (key : hash) (b : blob) (ok : bool) | ORemoveDatum (key : hash)
| OLangViews                              (* language_views(..) / add_language(plutus, ..) *)
| OSpendRdmr (i : input) (r : rdmr) | ORemoveSpendRdmr (i : input)
| OMintRdmr (p : hash) (r : rdmr) | ORemoveMintRdmr (p : hash)
| OAux (b : blob) (ok : bool) | OClearAux
| ONop.                                   (* signature_amount_override, change_address, add_language(Native) *)

Definition set_inputs st v := mkStaging v (s_refs st) (s_outputs st) (s_fee st) (s_mint st) (s_vfrom st) (s_ifrom st) (s_net st) (s_colls st) (s_collout st) (s_signers st) (s_scripts st) (s_datums st) (s_rdmrs st) (s_lv st) (s_aux st).
Definition set_refs st v := mkStaging (s_inputs st) v (s_outputs st) (s_fee st) (s_mint st) (s_vfrom st) (s_ifrom st) (s_net st) (s_colls st) (s_collout st) (s_signers st) (s_scripts st) (s_datums st) (s_rdmrs st) (s_lv st) (s_aux st).
Definition set_outputs st v := mkStaging (s_inputs st) (s_refs st) v (s_fee st) (s_mint st) (s_vfrom st) (s_ifrom st) (s_net st) (s_colls st) (s_collout st) (s_signers st) (s_scripts st) (s_datums st) (s_rdmrs st) (s_lv st) (s_aux st).
Definition set_fee st v := mkStaging (s_inputs st) (s_refs st) (s_outputs st) v (s_mint st) (s_vfrom st) (s_ifrom st) (s_net st) (s_colls st) (s_collout st) (s_signers st) (s_scripts st) (s_datums st) (s_rdmrs st) (s_lv st) (s_aux st).
Definition set_mint st v := mkStaging (s_inputs st) (s_refs st) (s_outputs st) (s_fee st) v (s_vfrom st) (s_ifrom st) (s_net st) (s_colls st) (s_collout st) (s_signers st) (s_scripts st) (s_datums st) (s_rdmrs st) (s_lv st) (s_aux st).
Definition set_vfrom st v := mkStaging (s_inputs st) (s_refs st) (s_outputs st) (s_fee st) (s_mint st) v (s_ifrom st) (s_net st) (s_colls st) (s_collout st) (s_signers st) (s_scripts st) (s_datums st) (s_rdmrs st) (s_lv st) (s_aux st).
Definition set_ifrom st v := mkStaging (s_inputs st) (s_refs st) (s_outputs st) (s_fee st) (s_mint st) (s_vfrom st) v (s_net st) (s_colls st) (s_collout st) (s_signers st) (s_scripts st) (s_datums st) (s_rdmrs st) (s_lv st) (s_aux st).
Definition set_net st v := mkStaging (s_inputs st) (s_refs st) (s_outputs st) (s_fee st) (s_mint st) (s_vfrom st) (s_ifrom st) v (s_colls st) (s_collout st) (s_signers st) (s_scripts st) (s_datums st) (s_rdmrs st) (s_lv st) (s_aux st).
Definition set_colls st v := mkStaging (s_inputs st) (s_refs st) (s_outputs st) (s_fee st) (s_mint st) (s_vfrom st) (s_ifrom st) (s_net st) v (s_collout st) (s_signers st) (s_scripts st) (s_datums st) (s_rdmrs st) (s_lv st) (s_aux st).
Definition set_collout st v := mkStaging (s_inputs st) (s_refs st) (s_outputs st) (s_fee st) (s_mint st) (s_vfrom st) (s_ifrom st) (s_net st) (s_colls st) v (s_signers st) (s_scripts st) (s_datums st) (s_rdmrs st) (s_lv st) (s_aux st).
Definition set_signers st v := mkStaging (s_inputs st) (s_refs st) (s_outputs st) (s_fee st) (s_mint st) (s_vfrom st) (s_ifrom st) (s_net st) (s_colls st) (s_collout st) v (s_scripts st) (s_datums st) (s_rdmrs st) (s_lv st) (s_aux st).
Definition set_scripts st v := mkStaging (s_inputs st) (s_refs st) (s_outputs st) (s_fee st) (s_mint st) (s_vfrom st) (s_ifrom st) (s_net st) (s_colls st) (s_collout st) (s_signers st) v (s_datums st) (s_rdmrs st) (s_lv st) (s_aux st).
Definition set_datums st v := mkStaging (s_inputs st) (s_refs st) (s_outputs st) (s_fee st) (s_mint st) (s_vfrom st) (s_ifrom st) (s_net st) (s_colls st) (s_collout st) (s_signers st) (s_scripts st) v (s_rdmrs st) (s_lv st) (s_aux st).
Definition set_rdmrs st v := mkStaging (s_inputs st) (s_refs st) (s_outputs st) (s_fee st) (s_mint st) (s_vfrom st) (s_ifrom st) (s_net st) (s_colls st) (s_collout st) (s_signers st) (s_scripts st) (s_datums st) v (s_lv st) (s_aux st).
Definition set_lv st v := mkStaging (s_inputs st) (s_refs st) (s_outputs st) (s_fee st) (s_mint st) (s_vfrom st) (s_ifrom st) (s_net st) (s_colls st) (s_collout st) (s_signers st) (s_scripts st) (s_datums st) (s_rdmrs st) v (s_aux st).
Definition set_aux st v := mkStaging (s_inputs st) (s_refs st) (s_outputs st) (s_fee st) (s_mint st) (s_vfrom st) (s_ifrom st) (s_net st) (s_colls st) (s_collout st) (s_signers st) (s_scripts st) (s_datums st) (s_rdmrs st) (s_lv st) v.

Definition retain_ne (i : input) (l : list input) : list input := filter (fun x => negb (input_eqb x i)) l.

Definition apply_op (st : staging) (o : sop) : outcome staging :=
  match o with
  | OInput i => Ok (set_inputs st (s_inputs st ++ [i]))
  | ORemoveInput i => Ok (set_inputs st (retain_ne i (s_inputs st)))
  | ORefInput i => Ok (set_refs st (s_refs st ++ [i]))
  | ORemoveRefInput i => Ok (set_refs st (retain_ne i (s_refs st)))
  | OOutput o => Ok (set_outputs st (s_outputs st ++ [o]))
  | ORemoveOutput idx =>                                  (* Vec::remove(index) *)
    if (0 <=? idx) && (idx <? Z.of_nat (length (s_outputs st)))
    then Ok (set_outputs st (remove_nth (Z.to_nat idx) (s_outputs st)))
    else Panic P_INDEX
  | OFee f => Ok (set_fee st (Some f))
  | OClearFee => Ok (set_fee st None)
  | OMint p n a =>
    if 32 <? Z.of_nat (length n) then Err E_NAMELONG
    else match amap_add I64_MIN I64_MAX p n a (s_mint st) with
         | Some m => Ok (set_mint st m)
         | None => Panic P_OVERFLOW
         end
  | ORemoveMint p n => Ok (set_mint st (amap_remove p n (s_mint st)))
  | OValidFrom s => Ok (set_vfrom st (Some s))
  | OClearValidFrom => Ok (set_vfrom st None)
  | OInvalidFrom s => Ok (set_ifrom st (Some s))
  | OClearInvalidFrom => Ok (set_ifrom st None)
  | ONetwork n => Ok (set_net st (Some n))
  | OClearNetwork => Ok (set_net st None)
  | OCollIn i => Ok (set_colls st (s_colls st ++ [i]))
  | ORemoveCollIn i => Ok (set_colls st (retain_ne i (s_colls st)))
  | OCollOut o => Ok (set_collout st (Some o))
  | OClearCollOut => Ok (set_collout st None)
  | OSigner h => Ok (set_signers st (s_signers st ++ [h]))
  | ORemoveSigner h => Ok (set_signers st (filter (fun x => negb (x =? h)) (s_signers st)))
  | OScript k s => Ok (set_scripts st (kv_insert Z.eqb k s (s_scripts st)))
  | ORemoveScript k => Ok (set_scripts st (kv_remove Z.eqb k (s_scripts st)))
  | ODatum k b ok => Ok (set_datums st (kv_insert Z.eqb k (b, ok) (s_datums st)))
  | ORemoveDatum k => Ok (set_datums st (kv_remove Z.eqb k (s_datums st)))
  | OLangViews => Ok (set_lv st true)
  | OSpendRdmr i r => Ok (set_rdmrs st (kv_insert purpose_eqb (PSpend i) r (s_rdmrs st)))
  | ORemoveSpendRdmr i => Ok (set_rdmrs st (kv_remove purpose_eqb (PSpend i) (s_rdmrs st)))
  | OMintRdmr p r => Ok (set_rdmrs st (kv_insert purpose_eqb (PMint p) r (s_rdmrs st)))
  | ORemoveMintRdmr p => Ok (set_rdmrs st (kv_remove purpose_eqb (PMint p) (s_rdmrs st)))
  | OAux b ok => Ok (if ok then set_aux st (Some b) else st)   (* invalid CBOR is silently ignored *)
  | OClearAux => Ok (set_aux st None)
  | ONop => Ok st
  end.

Fixpoint run_ops (ops : list sop) (st : staging) : outcome staging :=
  match ops with
  | [] => Ok st
  | o :: r => match apply_op st o with
              | Ok st' => run_ops r st'
              | Err e => Err e
              | Panic p => Panic p
              end
  end.

(* ---------- build ---------- *)
(* abstract Conway output: address, coin, multiasset (BTreeMap order), datum option, script ref *)
Definition aout := (blob * Z * amap * option (bool * blob) * option (Z * blob))%type.
Definition ardmr := (Z * Z * blob * Z * Z)%type.   (* tag (0 spend, 1 mint), index, data, mem, steps *)

Record atx := mkAtx {
  t_inputs : list input; t_outputs : list aout; t_fee : Z; t_ttl : option Z; t_vstart : option Z;
  t_mint : amap; t_sdh : bool; t_collateral : list input; t_signers : list hash;
  t_network : option Z; t_collret : option aout; t_refs : list input;
  t_native : list blob; t_pv1 : list blob; t_pv2 : list blob; t_pv3 : list blob;
  t_datums : list blob; t_rdmrs : list ardmr; t_aux : option blob }.

Definition has_zero (m : amap) : bool := existsb (fun e => existsb (fun x => snd x =? 0) (snd e)) m.

(* the map -> BTreeMap<PolicyId, BTreeMap<AssetName, non-zero amount>> conversion:
   zero amounts are dropped, then policies left without assets are dropped (the fix);
   keys come out in BTreeMap order *)
Definition norm_inner (l : inner) : inner :=
  isort (fun a b => bytes_leb (fst a) (fst b)) (filter (fun x => negb (snd x =? 0)) l).
Definition norm_amap (m : amap) : amap :=
  isort (fun a b => fst a <=? fst b)
        (filter (fun e => match snd e with [] => false | _ => true end)
                (map (fun e => (fst e, norm_inner (snd e))) m)).

Section Build.
(* [prefix = true]: the code before the fix commits (amount.try_from(..).unwrap(), no input dedup) *)
Variable prefix : bool.

Definition conv_amap (m : amap) : outcome amap :=
  if prefix && has_zero m then Panic P_UNWRAP_ERR else Ok (norm_amap m).

(* Output::build_babbage_raw *)
Definition build_output (o : output) : outcome aout :=
  match conv_amap (o_assets o) with
  | Panic p => Panic p
  | Err e => Err e
  | Ok assets =>
    match (match o_datum o with
           | None => Ok None
           | Some d => if d_inline d
                       then (if d_ok d then Ok (Some (true, d_bytes d)) else Err E_DATUM)
                       else (if d_ok d then Ok (Some (false, d_bytes d)) else Err E_DATUMHASH)
           end) with
    | Panic p => Panic p
    | Err e => Err e
    | Ok dat =>
      match (match o_script o with
             | None => Ok None
             | Some s => if (s_kind s =? 0) && negb (s_ok s) then Err E_SCRIPT
                         else Ok (Some (s_kind s, s_bytes s))
             end) with
      | Panic p => Panic p
      | Err e => Err e
      | Ok scr => Ok (o_addr o, o_lovelace o, assets, dat, scr)
      end
    end
  end.

(* .map(build_babbage_raw).collect::<Result<Vec<_>,_>>()? : first failure in list order *)
Fixpoint build_outputs (l : list output) : outcome (list aout) :=
  match l with
  | [] => Ok []
  | o :: r => match build_output o with
              | Ok a => match build_outputs r with Ok ar => Ok (a :: ar) | Err e => Err e | Panic p => Panic p end
              | Err e => Err e
              | Panic p => Panic p
              end
  end.

Definition sorted_inputs (st : staging) : list input :=
  let s := isort input_leb (s_inputs st) in if prefix then s else dedup_inputs s.

(* one redeemer: ex-units, then the data, then the pointer *)
Definition build_rdmr (ins : list input) (pols : list hash) (pr : purpose * rdmr) : outcome ardmr :=
  let '(pu, r) := pr in
  match r_ex r with
  | None => Panic P_TODO                                   (* todo!("ExUnits budget calculation ...") *)
  | Some (mem, steps) =>
    if negb (r_ok r) then Err E_DATUM
    else match pu with
         | PSpend i => match position (fun x => input_eqb x i) ins with
                       | Some ix => Ok (0, Z.of_nat ix, r_data r, mem, steps)
                       | None => Err E_TARGET
                       end
         | PMint p => match position (fun x => x =? p) pols with
                      | Some ix => Ok (1, Z.of_nat ix, r_data r, mem, steps)
                      | None => Err E_TARGET
                      end
         end
  end.

(* the loop over the redeemer HashMap (iteration order arbitrary; here: list order) *)
Fixpoint build_rdmrs (ins : list input) (pols : list hash) (l : list (purpose * rdmr)) : outcome (list ardmr) :=
  match l with
  | [] => Ok []
  | x :: r => match build_rdmr ins pols x with
              | Ok a => match build_rdmrs ins pols r with Ok ar => Ok (a :: ar) | Err e => Err e | Panic p => Panic p end
              | Err e => Err e
              | Panic p => Panic p
              end
  end.

Definition scripts_of_kind (k : Z) (st : staging) : list blob :=
  map (fun e => s_bytes (snd e)) (filter (fun e => s_kind (snd e) =? k) (s_scripts st)).

(* everything before the redeemer loop: outputs, mint, network id, collateral return,
   the scripts loop (native scripts must decode), the datums (must decode) *)
Definition build_head (st : staging) : outcome (list aout * amap * option Z * option aout) :=
  match build_outputs (s_outputs st) with
  | Err e => Err e | Panic p => Panic p
  | Ok outputs =>
  match conv_amap (s_mint st) with
  | Err e => Err e | Panic p => Panic p
  | Ok mint =>
  match (match s_net st with
         | None => Ok None
         | Some n => if (n =? 0) || (n =? 1) then Ok (Some n) else Err E_NETWORK
         end) with
  | Err e => Err e | Panic p => Panic p
  | Ok network =>
  match (match s_collout st with
         | None => Ok None
         | Some o => match build_output o with Ok a => Ok (Some a) | Err e => Err e | Panic p => Panic p end
         end) with
  | Err e => Err e | Panic p => Panic p
  | Ok collret =>
  if existsb (fun e => (s_kind (snd e) =? 0) && negb (s_ok (snd e))) (s_scripts st) then Err E_SCRIPT
  else if existsb (fun e => negb (snd (snd e))) (s_datums st) then Err E_DATUM
  else Ok (outputs, mint, network, collret)
  end end end end.

Definition build (st : staging) : outcome atx :=
  let inputs := sorted_inputs st in
  match build_head st with
  | Err e => Err e | Panic p => Panic p
  | Ok (outputs, mint, network, collret) =>
  let pols := map fst mint in
  match build_rdmrs inputs pols (s_rdmrs st) with
  | Err e => Err e | Panic p => Panic p
  | Ok rdmrs =>
    Ok (mkAtx inputs outputs (match s_fee st with Some f => f | None => 0 end) (s_ifrom st) (s_vfrom st)
              mint (s_lv st) (s_colls st) (s_signers st) network collret (s_refs st)
              (scripts_of_kind 0 st) (scripts_of_kind 1 st) (scripts_of_kind 2 st) (scripts_of_kind 3 st)
              (map (fun e => fst (snd e)) (s_datums st)) rdmrs (s_aux st))
  end end.

(* all outcomes the redeemer loop can end with when it fails, whatever the iteration order *)
Definition rdmr_failures (st : staging) : list (outcome atx) :=
  match conv_amap (s_mint st) with
  | Ok mint =>
    flat_map (fun x => match build_rdmr (sorted_inputs st) (map fst mint) x with
                       | Ok _ => [] | Err e => [Err e] | Panic p => [Panic p] end) (s_rdmrs st)
  | _ => []
  end.

End Build.

(* staging ops then build *)
Definition pipeline (prefix : bool) (ops : list sop) : outcome atx :=
  match run_ops ops empty_staging with
  | Ok st => build prefix st
  | Err e => Err e
  | Panic p => Panic p
  end.

(* ---------- bytes and id (codec and hash external) ---------- *)
Section Bytes.
Variable enc_body : atx -> list Z.       (* CBOR of the transaction body *)
Variable enc_rest : atx -> list Z.       (* witness set, validity flag, auxiliary data *)
Variable frame : list Z -> list Z -> list Z.   (* array(4) framing of body and rest *)
Variable H : list Z -> Z.                (* Blake2b-256 *)
(* BuiltTransaction { tx_hash: body.compute_hash(), tx_bytes: tx.encode_fragment() } *)
Definition built_id (t : atx) : Z := H (enc_body t).
Definition built_bytes (t : atx) : list Z := frame (enc_body t) (enc_rest t).
End Bytes.
