(* C21 — property theorems only. Statements are pinned by props/C21.json. *)
From PV Require Import Lib.Base Cbor.Item Cbor.Enc Cbor.Dec C21.Model C21.CborCodec C21.Proofs C21.CborProofs.
Open Scope Z_scope.

(* old stack (ChannelBuffer::recv_full_msg): for every codec meeting P0..P3, every
   message sequence and EVERY segmentation of its byte stream (any number of
   segments, empty and 1-byte ones included) the receiver delivers exactly the
   messages, in order, with no error and an empty residue. *)
Theorem reassembly_split_indep :
  forall (M : Type) (valid : M -> Prop) (enc : M -> list Z) (dec : list Z -> dec_result M),
  codec_ok valid enc dec ->
  forall ms segs, Forall valid ms -> concat segs = concat (map enc ms) ->
  recv_all dec segs = (ms, Ok []).
Proof. intros M valid enc dec Hco ms segs. exact (recv_all_ok valid enc dec Hco ms segs). Qed.

(* new stack (BearerReadHalf::read_full_msgs + AnyMessage::from_payload), one channel *)
Theorem reassembly_split_indep_net2 :
  forall (M : Type) (valid : M -> Prop) (enc : M -> list Z)
         (chan_dec : Z -> option (list Z -> dec_result M)),
  (forall c d, chan_dec c = Some d -> codec_ok valid enc d) ->
  forall raw ms segs, chan_dec (strip_mode raw) <> None ->
  Forall valid ms -> concat segs = concat (map enc ms) ->
  read_all chan_dec (map (fun s => (raw, s)) segs) = Ok (map (fun m => (strip_mode raw, m)) ms, []).
Proof. intros M valid enc chan_dec Hall raw ms segs. exact (read_all_one_ok valid enc chan_dec Hall raw ms segs). Qed.

(* new stack, any interleaving of segments of any number of channels: each
   supported channel delivers exactly its messages, unsupported channels deliver
   nothing, and partial_chunks ends empty *)
Theorem reassembly_split_indep_net2_channels :
  forall (M : Type) (valid : Z -> M -> Prop) (enc : Z -> M -> list Z)
         (chan_dec : Z -> option (list Z -> dec_result M)),
  (forall c d, chan_dec c = Some d -> codec_ok (valid c) (enc c) d) ->
  forall (ms : Z -> list M) (segs : list (Z * list Z)),
  (forall c, match chan_dec c with
             | Some _ => Forall (valid c) (ms c) /\ bytes_for c segs = concat (map (enc c) (ms c))
             | None => ms c = []
             end) ->
  exists out, read_all chan_dec segs = Ok (out, []) /\ forall c, on_channel c out = ms c.
Proof. intros M valid enc chan_dec Hco ms segs. exact (read_all_ok valid enc chan_dec Hco segs ms). Qed.

(* cancellation safety (old stack): a consumer that polls recv_full_msg under a timeout /
   select! and abandons the call whenever it would wait, at ANY points between segment
   arrivals and any number of times, and finally waits, gets exactly the messages - the
   pending bytes are state of the ChannelBuffer (self.temp), not of the abandoned call *)
Theorem recv_cancellation_safe :
  forall (M : Type) (valid : M -> Prop) (enc : M -> list Z) (dec : list Z -> dec_result M),
  codec_ok valid enc dec ->
  forall ms evs, Forall valid ms -> concat (arrivals evs) = concat (map enc ms) ->
  drive_then_wait dec evs = (ms, Ok []).
Proof. intros M valid enc dec Hco ms evs. exact (drive_then_wait_ok valid enc dec Hco ms evs). Qed.

(* ... and at every intermediate point the polls have returned a prefix of the messages and
   temp ++ queued chunks is exactly the encoding of a prefix of the rest *)
Theorem recv_cancellation_invariant :
  forall (M : Type) (valid : M -> Prop) (enc : M -> list Z) (dec : list Z -> dec_result M),
  codec_ok valid enc dec ->
  forall evs ms temp queued, Forall valid ms ->
  temp ++ concat queued ++ concat (arrivals evs) = concat (map enc ms) ->
  exists out1 ms2 t q, drive dec temp queued evs = (out1, Ok (t, q)) /\
                       ms = out1 ++ ms2 /\ t ++ concat q = concat (map enc ms2).
Proof. intros M valid enc dec Hco evs ms temp queued. exact (drive_ok valid enc dec Hco evs ms temp queued). Qed.

(* the old stack's own sender feeding its receiver *)
Theorem send_recv_roundtrip :
  forall (M : Type) (valid : M -> Prop) (enc : M -> list Z) (dec : list Z -> dec_result M),
  codec_ok valid enc dec ->
  forall ms, Forall valid ms -> recv_all dec (concat (map (send_msg_chunks enc) ms)) = (ms, Ok []).
Proof. intros M valid enc dec Hco ms. exact (send_recv_ok valid enc dec Hco ms). Qed.

(* slice::chunks(n) is a segmentation: pieces are non-empty, at most n long, and concatenate back *)
Theorem chunks_is_split : forall n l, (0 < n)%nat ->
  concat (chunks n l) = l /\ Forall (fun c => c <> [] /\ (length c <= n)%nat) (chunks n l).
Proof. intros n l Hn. split; [now apply concat_chunks|now apply chunks_fuel_bounds]. Qed.

(* the obligations are not decoration: a decoder that turns the empty buffer
   into a message (pre-fix localtxsubmission: RejectTx "") makes one empty
   segment deliver a message nobody sent; a decoder that accepts a cut-off
   buffer (pre-fix txmonitor: "82 06" read as ResponseNextTx(None)) delivers a
   wrong first message *)
Theorem empty_segment_spurious_message :
  forall (M : Type) (dec : list Z -> dec_result M) (m : M),
  dec [] = DecOk m 0 -> recv_all dec [[]] = ([m], Ok []).
Proof. intros M dec m. exact (empty_segment_spurious dec m). Qed.

Theorem short_read_delivers_wrong_message :
  forall (M : Type) (dec : list Z -> dec_result M) (m' : M) (p s : list Z),
  p <> [] -> dec p = DecOk m' (length p) -> exists rest fin, recv_all dec [p; s] = (m' :: rest, fin).
Proof. intros M dec m' p s. exact (short_read_wrong_message dec m' p s). Qed.

(* ---- the obligations are satisfiable: the generic codec "one well-formed CBOR
   item" of the shared CBOR core (definite/indefinite containers, tags, nested
   byte strings, non-minimal heads) meets P0..P3; this is also the decoder the
   differential tie runs against the real message decoders. *)
Theorem cbor_item_codec_ok : codec_ok (fun i => wf_item i = true) encode_item item_dec.
Proof. exact item_codec_ok. Qed.

Theorem reassembly_split_indep_cbor : forall items segs,
  Forall (fun i => wf_item i = true) items -> concat segs = concat (map encode_item items) ->
  recv_all item_dec segs = (items, Ok []).
Proof. intros items segs. exact (recv_all_ok item_valid encode_item item_dec item_codec_ok items segs). Qed.

Theorem reassembly_split_indep_net2_cbor : forall raw items segs,
  supported_channel (strip_mode raw) = true ->
  Forall (fun i => wf_item i = true) items -> concat segs = concat (map encode_item items) ->
  read_all any_chan_dec (map (fun s => (raw, s)) segs) = Ok (map (fun i => (strip_mode raw, i)) items, []).
Proof. intros raw items segs. exact (read_all_cbor_ok raw items segs). Qed.

(* non-vacuity: keepalive [0, 513], [2] and blockfetch [4, 24(h'0102')] cut inside
   heads, with an empty and a 1-byte segment, on both stacks *)
Example reassembly_example :
  let ms := [Array W0 [UInt W0 0; UInt W16 513]; Array W0 [UInt W0 2];
             Array W0 [UInt W0 4; Tag W8 24 (Bytes W0 [1; 2])]] in
  let segs := [[130; 0; 25]; [2]; []; [1; 129; 2; 130; 4; 216]; [24; 66; 1]; [2]] in
  Forall (fun i => wf_item i = true) ms /\ concat segs = concat (map encode_item ms) /\
  recv_all item_dec segs = (ms, Ok []) /\
  read_all any_chan_dec (map (fun s => (32776, s)) segs) = Ok (map (fun i => (8, i)) ms, []).
Proof. cbv zeta. split; [repeat constructor|]. split; [reflexivity|]. split; vm_compute; reflexivity. Qed.
