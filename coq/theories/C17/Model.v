(* C17 model: pallas-math/src/math_dashu.rs `Decimal` — operators, rounding,
   comparison, Display, from_str — transcribed.  A Decimal is (precision p,
   data d); precision_multiplier = 10^p; the value denoted is d / 10^p.
   IBig `/` `%` `div_rem` are Z.quot / Z.rem (truncating, remainder has the
   sign of the dividend); `IBig::sign()` of 0 is Positive.
   Strings are lists of byte codes (ASCII).  Definitions only. *)
From Coq Require Import QArith.
From PV Require Import Lib.Base Fixed.Model.
Open Scope Z_scope.

(* FixedPrecision::new: precision_multiplier = 10.pow(precision) *)
Definition pow10 (p : Z) : Z := 10 ^ p.

(* the rational a Decimal denotes: data / 10^precision *)
Definition qval (p d : Z) : Q := Qmake d (Z.to_pos (pow10 p)).

(* ---- operators (impl Add/Sub/Mul/Div/Neg/Abs): they act on `data`; Mul and
   Div go through the free functions scale/div, i.e. the GLOBAL 10^34 — the
   result is right only when precision = 34 (DEFAULT_PRECISION). ---- *)
Definition dec_add (a b : Z) : Z := a + b.
Definition dec_sub (a b : Z) : Z := a - b.
Definition dec_mul (a b : Z) : Z := scale (a * b).
(* dashu panics on a zero divisor ("divisor must not be 0"): Panic 1 *)
Definition dec_div (a b : Z) : outcome Z := if b =? 0 then Panic 1 else Ok (fp_div a b).
Definition dec_neg (a : Z) : Z := - a.
Definition dec_abs (a : Z) : Z := Z.abs a.
(* From<u64> / From<i64> *)
Definition dec_of_int (n : Z) : Z := n * PREC.

(* ---- rounding ----
   fn round: half = multiplier / 2; remainder = data % multiplier;
     if |remainder| * 2 >= multiplier   [as of /repo commit b254de50 "fix: Decimal::round at precision 0 ..."]
        { if data.sign() == Negative { data -= multiplier + remainder }
          else { data += multiplier - remainder } }
     else { data -= remainder }                                            *)
Definition dec_round (p d : Z) : Z :=
  let m := pow10 p in
  let r := Z.rem d m in
  if m <=? Z.abs r * 2 then
    (if d <? 0 then d - (m + r) else d + (m - r))
  else d - r.

(* the code before the fix: `if |remainder| >= half` with half = multiplier / 2
   (half = 0 at precision 0, so every value moved by one) *)
Definition dec_round_before_fix (p d : Z) : Z :=
  let m := pow10 p in
  let half := Z.quot m 2 in
  let r := Z.rem d m in
  if half <=? Z.abs r then
    (if d <? 0 then d - (m + r) else d + (m - r))
  else d - r.

(* fn floor: remainder = data % m; if data.sign()==Negative && remainder != 0 { data -= m }; data -= remainder *)
Definition dec_floor (p d : Z) : Z :=
  let m := pow10 p in
  let r := Z.rem d m in
  (if (d <? 0) && negb (r =? 0) then d - m else d) - r.

(* fn ceil: if data.sign()==Positive && remainder != 0 { data += m }; data -= remainder *)
Definition dec_ceil (p d : Z) : Z :=
  let m := pow10 p in
  let r := Z.rem d m in
  (if (0 <=? d) && negb (r =? 0) then d + m else d) - r.

(* fn trunc: data -= data % m *)
Definition dec_trunc (p d : Z) : Z := d - Z.rem d (pow10 p).

(* ---- comparison: PartialOrd returns None when the precisions differ
   (2 encodes None), PartialEq is field-wise ---- *)
Definition ord_z (c : comparison) : Z := match c with Lt => -1 | Eq => 0 | Gt => 1 end.
Definition dec_cmp (p1 d1 p2 d2 : Z) : Z :=
  if negb (p1 =? p2) then 2 else ord_z (d1 ?= d2).
Definition dec_eqb (p1 d1 p2 d2 : Z) : bool := (p1 =? p2) && (d1 =? d2).

(* ---- decimal digits ---- *)
(* digits of n >= 0, most significant first, as ASCII codes; "0" for 0 *)
Fixpoint digits_aux (fuel : nat) (n : Z) (acc : list Z) : list Z :=
  match fuel with
  | O => acc
  | S f =>
    let acc' := (48 + Z.modulo n 10) :: acc in
    if n <? 10 then acc' else digits_aux f (Z.div n 10) acc'
  end.
Definition digits (n : Z) : list Z := digits_aux (S (Z.to_nat (Z.log2 n))) n [].

(* `{:0width$}`: left-pad with '0' up to width characters *)
Definition pad0 (width : Z) (s : list Z) : list Z :=
  repeat 48 (Z.to_nat (width - Z.of_nat (length s))) ++ s.

(* impl Display: is_negative = data < 0; (q, r) = data.div_rem(multiplier);
   "-" if negative; q, r made non-negative; write "{q}.{r:0width$}", width = precision *)
Definition display (p d : Z) : list Z :=
  let m := pow10 p in
  let q := Z.abs (Z.quot d m) in
  let r := Z.abs (Z.rem d m) in
  (if d <? 0 then [45] else []) ++ digits q ++ [46] ++ pad0 p (digits r).

(* ---- reading a decimal string ---- *)
Definition is_digit (c : Z) : bool := (48 <=? c) && (c <=? 57).
Definition digits_value (s : list Z) : Z := fold_left (fun a c => 10 * a + (c - 48)) s 0.

(* from_str: regex ^-?\d+$ (ASCII digits here), then IBig::from_str; Err 1 = RegexFailure *)
Definition from_str (s : list Z) : outcome Z :=
  match s with
  | [] => Err 1
  | c :: r =>
    if c =? 45 then
      (if negb (length r =? 0)%nat && forallb is_digit r then Ok (- digits_value r) else Err 1)
    else if forallb is_digit s then Ok (digits_value s) else Err 1
  end.

(* what IBig's own Display prints for an integer: "-" and the digits of |d| *)
Definition int_string (d : Z) : list Z := (if d <? 0 then [45] else []) ++ digits (Z.abs d).

(* The rational a printed string denotes: split at '.', optional leading '-';
   "I.F" denotes (I * 10^|F| + F) / 10^|F|.  Returns (numerator, number of
   fractional digits). *)
Fixpoint split_dot (s : list Z) (acc : list Z) : option (list Z * list Z) :=
  match s with
  | [] => None
  | c :: r => if c =? 46 then Some (rev acc, r) else split_dot r (c :: acc)
  end.
Definition unsigned_value (s : list Z) : option (Z * Z) :=
  match split_dot s [] with
  | Some (i, f) =>
    if forallb is_digit i && forallb is_digit f && negb (length i =? 0)%nat && negb (length f =? 0)%nat
    then Some (digits_value i * 10 ^ Z.of_nat (length f) + digits_value f, Z.of_nat (length f))
    else None
  | None => None
  end.
Definition string_value (s : list Z) : option (Z * Z) :=
  match s with
  | [] => None
  | c :: r =>
    if c =? 45 then match unsigned_value r with Some (n, k) => Some (- n, k) | None => None end
    else unsigned_value s
  end.
