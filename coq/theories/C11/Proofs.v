(* C11 proofs: instantiation of the abstract completeness theorem at the
   concrete curve (group laws as a premise), non-vacuity of the premises (a toy
   group), nonnegativity of the derived scalars. *)
From PV Require Import Lib.Base Crypto.Sha512 Crypto.Ed25519Spec Crypto.Ed25519Proofs C11.Model.
Open Scope Z_scope.

Definition nonneg (l : list Z) : Prop := Forall (fun b => 0 <= b) l.

Lemma le_int_nonneg l : nonneg l -> 0 <= le_int l.
Proof. unfold le_int. induction 1 as [|b l Hb _ IH]; cbn [fold_right]; lia. Qed.

Lemma nonneg_firstn n l : nonneg l -> nonneg (firstn n l).
Proof.
  intros H. revert n. induction H as [|b l Hb _ IH]; intros [|n]; cbn [firstn]; try (constructor; fail).
  constructor; [exact Hb|apply IH].
Qed.
Lemma nonneg_skipn n l : nonneg l -> nonneg (skipn n l).
Proof.
  intros H. revert n. induction H as [|b l Hb Hl IH]; intros [|n]; cbn [skipn]; try (constructor; fail).
  - constructor; assumption.
  - apply IH.
Qed.
Lemma nonneg_app a b : nonneg a -> nonneg b -> nonneg (a ++ b).
Proof. intros Ha Hb. apply Forall_app. now split. Qed.

Lemma word_be_bytes_nonneg n w : nonneg (word_be_bytes n w).
Proof.
  revert w. induction n as [|n IH]; intros w; cbn [word_be_bytes]; [constructor|].
  apply nonneg_app; [apply IH|]. constructor; [|constructor]. apply Z.land_nonneg. right. lia.
Qed.

Lemma sha512_nonneg m : nonneg (sha512 m).
Proof.
  unfold sha512. generalize (sha_blocks (S (length (sha_pad m) / 128)) H512 (sha_pad m)) as hs.
  induction hs as [|w hs IH]; cbn [flat_map]; [constructor|].
  apply nonneg_app; [apply word_be_bytes_nonneg|exact IH].
Qed.

Lemma clamp_nonneg l : nonneg l -> nonneg (clamp l).
Proof.
  intros H. destruct l as [|b0 r]; [constructor|]. cbn [clamp].
  inversion H as [|? ? Hb0 Hr]; subst.
  constructor; [apply Z.land_nonneg; now left|].
  apply nonneg_app; [now apply nonneg_firstn|].
  pose proof (nonneg_skipn 30 r Hr) as Hs.
  destruct (skipn 30 r) as [|b31 r']; [constructor|].
  inversion Hs as [|? ? Hb31 Hr']; subst.
  constructor; [|exact Hr']. apply Z.lor_nonneg. split; [|lia]. apply Z.land_nonneg. now left.
Qed.

Lemma extended_secret_nonneg sk : nonneg (extended_secret sk).
Proof.
  unfold extended_secret. apply nonneg_app.
  - apply clamp_nonneg, nonneg_firstn, sha512_nonneg.
  - apply nonneg_skipn, sha512_nonneg.
Qed.

Lemma bytes_wf_nonneg l : bytes_wf l -> nonneg l.
Proof. unfold bytes_wf, nonneg, byte. apply Forall_impl. intros; lia. Qed.

Definition ed_group_laws : Prop :=
  group_laws point peq padd pneg pid psmul Bpt psmul_base Lord compress decompress_lenient.

Lemma ed25519_sign_verify_proof :
  ed_group_laws -> forall sk m,
  all_zero (sk_public_key sk) = false -> pk_verify (sk_public_key sk) m (sk_sign sk m) = true.
Proof.
  intros laws sk m Hz. unfold pk_verify, sk_sign, sk_public_key, ed_verify in *. rewrite Hz.
  unfold ed_sign, ed_sign_with, ed_public, ed_sign_core, ed_pk_of.
  apply (schnorr_complete_proof _ _ _ _ _ _ _ _ _ _ _ sha512Z laws).
  apply le_int_nonneg, nonneg_firstn, extended_secret_nonneg.
Qed.

Lemma ed25519_ext_sign_verify_proof :
  ed_group_laws -> forall esk m, bytes_wf esk ->
  all_zero (esk_public_key esk) = false -> pk_verify (esk_public_key esk) m (esk_sign esk m) = true.
Proof.
  intros laws esk m Hwf Hz. unfold pk_verify, esk_sign, esk_public_key, ed_verify in *. rewrite Hz.
  unfold ed_sign_ext, ed_sign_ext_with, ed_public_ext, ed_sign_core, ed_pk_of.
  apply (schnorr_complete_proof _ _ _ _ _ _ _ _ _ _ _ sha512Z laws).
  apply le_int_nonneg, nonneg_firstn, bytes_wf_nonneg, Hwf.
Qed.

(* ---- the premises are satisfiable: Z/13 with generator 1 ---- *)
Definition toy_eq (a b : Z) : Prop := a mod 13 = b mod 13.
Definition toy_enc (P : Z) : list Z := le_bytes 32 (P mod 13).
Definition toy_dec (bs : list Z) : option Z := Some (le_int bs).

Lemma toy_group_laws :
  group_laws Z toy_eq Z.add Z.opp 0 Z.mul 1 (fun k => k) 13 toy_enc toy_dec.
Proof.
  unfold toy_eq, toy_enc, toy_dec. constructor.
  - reflexivity.
  - intros; congruence.
  - intros; congruence.
  - intros P P' Q Q' H1 H2. rewrite Z.add_mod, H1, H2, <- Z.add_mod by lia. reflexivity.
  - intros P P' H. lia.
  - intros k P P' H. rewrite Z.mul_mod, H, <- Z.mul_mod by lia. reflexivity.
  - intros P Q H. now rewrite H.
  - intros. f_equal. lia.
  - intros. f_equal. lia.
  - intros. f_equal. lia.
  - intros. f_equal. lia.
  - intros. f_equal.
  - intros. f_equal. lia.
  - intros. f_equal. lia.
  - intros. f_equal. lia.
  - intros. f_equal. lia.
  - vm_compute. split; [reflexivity|discriminate].
  - reflexivity.
  - intros. apply le_bytes_length.
  - intros P. eexists. split; [reflexivity|].
    rewrite le_int_le_bytes.
    + apply Z.mod_mod. lia.
    + pose proof (Z.mod_pos_bound P 13 ltac:(lia)).
      assert (13 < 256 ^ Z.of_nat 32) by (vm_compute; reflexivity). lia.
Qed.
