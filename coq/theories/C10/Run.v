(* C10 correspondence: each case carries the inputs and what the implementation returned. *)
Require Import Coq.Strings.String.
From PV Require Import Lib.Base Crypto.Hex Crypto.Blake2b C10.Model.
Open Scope Z_scope.

(* byte strings arrive as hex string literals (fast to elaborate) *)
Definition X (s : string) : list Z := unhex s.
Arguments X s%string.

Inductive case : Type :=
| CStream (n : Z) (chunks : list (list Z)) (digest : list Z)   (* new; input*; finalize *)
| CHash (n : Z) (bs : list Z) (digest : list Z)
| CTagged (n : Z) (bs : list Z) (tag : Z) (digest : list Z)
| CCbor (n : Z) (writes : list (list Z)) (digest : list Z)
| CTaggedCbor (n : Z) (writes : list (list Z)) (tag : Z) (digest : list Z)
| CFromSlice (n : Z) (bs : list Z) (out : outcome (list Z))
| CToHex (bs : list Z) (s : list Z)
| CFromHex (n : Z) (s : list Z) (out : outcome (list Z))
| CEnc (bs : list Z) (enc : list Z)
| CDec (n : Z) (buf : list Z) (out : outcome (list Z * Z))
| CEpoch (nc nh : list Z) (extra : option (list Z)) (out : list Z)
| CRolling (prev vrf : list Z) (out : outcome (list Z)).

Definition beq (a b : list Z) : bool := list_eqb Z.eqb a b.
Definition oeq {A} (eq : A -> A -> bool) (a b : outcome A) : bool :=
  match a, b with
  | Ok x, Ok y => eq x y
  | Err x, Err y => x =? y
  | Panic x, Panic y => x =? y
  | _, _ => false
  end.
Definition peq (a b : list Z * Z) : bool := beq (fst a) (fst b) && (snd a =? snd b).

(* model output, uniformly as outcome (bytes, aux) *)
Definition case_out (c : case) : outcome (list Z * Z) :=
  match c with
  | CStream n chunks _ => Ok (blake2b_fin (fold_left absorb chunks (blake2b_init n)), 0)
  | CHash n bs _ => Ok (hash n bs, 0)
  | CTagged n bs t _ => Ok (hash_tagged n bs t, 0)
  | CCbor n w _ => Ok (hash_cbor n w, 0)
  | CTaggedCbor n w t _ => Ok (hash_tagged_cbor n w t, 0)
  | CFromSlice n bs _ => match hash_from_slice n bs with Ok x => Ok (x, 0) | Err e => Err e | Panic p => Panic p end
  | CToHex bs _ => Ok (hash_to_hex bs, 0)
  | CFromHex n s _ => match hash_from_hex n s with Ok x => Ok (x, 0) | Err e => Err e | Panic p => Panic p end
  | CEnc bs _ => Ok (enc_Hash bs, 0)
  | CDec n buf _ => dec_Hash n buf
  | CEpoch nc nh ex _ => Ok (generate_epoch_nonce nc nh ex, 0)
  | CRolling p v _ => match generate_rolling_nonce p v with Ok x => Ok (x, 0) | Err e => Err e | Panic p => Panic p end
  end.

Definition case_ok (c : case) : bool :=
  match c with
  | CStream n chunks d => beq (blake2b_fin (fold_left absorb chunks (blake2b_init n))) d
  | CHash n bs d => beq (hash n bs) d
  | CTagged n bs t d => beq (hash_tagged n bs t) d
  | CCbor n w d => beq (hash_cbor n w) d
  | CTaggedCbor n w t d => beq (hash_tagged_cbor n w t) d
  | CFromSlice n bs o => oeq beq (hash_from_slice n bs) o
  | CToHex bs s => beq (hash_to_hex bs) s
  | CFromHex n s o => oeq beq (hash_from_hex n s) o
  | CEnc bs e => beq (enc_Hash bs) e
  | CDec n buf o => oeq peq (dec_Hash n buf) o
  | CEpoch nc nh ex o => beq (generate_epoch_nonce nc nh ex) o
  | CRolling p v o => oeq beq (generate_rolling_nonce p v) o
  end.
