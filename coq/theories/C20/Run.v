(* C20 correspondence: a case is one direction of one run of two real Plexers:
   (recorded byte stream with timestamps zeroed,
    [(wire id, chunks enqueued by the sending agent)],
    [(wire id, chunks dequeued by the agent listening on that id)]). *)
From PV Require Import Lib.Base C20.Model.
Open Scope Z_scope.

Definition rep (b n : Z) : list Z := repeat b (Z.to_nat n).

Inductive case : Type :=
(* one direction of a run of two real Plexers: recorded bytes (timestamps zeroed),
   [(wire id, chunks enqueued)], [(wire id, chunks dequeued by the listener on that id)] *)
| CPlex (bytes : list Z) (sent recvd : list (Z * list (list Z)))
(* pallas-network2 bearer: segments written by write_segment, the raw bytes it
   produced, and what read_segment returned over those bytes *)
| CNet2 (segs : list segment) (bytes : list Z) (back : list (Z * list Z)).

Definition bytes_eqb := list_eqb Z.eqb.
Definition chunks_eqb := list_eqb bytes_eqb.
Definition segs_eqb := list_eqb (fun a b : Z * list Z => (fst a =? fst b) && bytes_eqb (snd a) (snd b)).

(* model run: cut the bytes into segments, route them *)
Definition case_out (c : case) :=
  match c with
  | CPlex bytes sent _ => let '(w, fin) := parse bytes in (demux (map fst sent) w, fin, [])
  | CNet2 segs _ _ => let '(w, fin) := parse (mux_bytes segs) in ([], fin, w)
  end.

Definition case_ok (c : case) : bool :=
  match c with
  | CPlex bytes sent recvd =>
    let '(w, fin) := parse bytes in
    match fin with Ok _ => true | _ => false end
    (* every agent dequeued exactly the model's queue for its id *)
    && forallb (fun q => chunks_eqb (delivered_to (fst q) w) (snd q)) recvd
    (* the wire is an interleaving of what the agents enqueued: per id, in order, nothing else *)
    && forallb (fun q => chunks_eqb (delivered_to (fst q) w) (snd q)) sent
    && forallb (fun s => existsb (fun q => fst q =? fst s) sent) w
    (* the muxer wrote exactly the model's frames *)
    && bytes_eqb (mux_bytes (map (fun s => (0, fst s, snd s)) w)) bytes
  | CNet2 segs bytes back =>
    bytes_eqb (mux_bytes segs) bytes &&
    let '(w, fin) := parse bytes in
    match fin with Ok _ => true | _ => false end && segs_eqb w back
  end.
