(* C03 proofs, part C: AnyCbor / skip, and instances of the payload specs
   for the concrete payloads (AnyUInt, u64), with composed examples. *)
From PV Require Import Lib.Base Cbor.Item Cbor.Enc Cbor.Dec Cbor.HeadLaws Cbor.Laws Cbor.Api Cbor.Skip.
From PV Require Import C03.Model C03.ProofsA C03.ProofsB.
Open Scope Z_scope.

(* ---- Decoder::skip returns a suffix of its input ---- *)
Definition suffix_of (r bs : list Z) : Prop := exists c, bs = c ++ r.

Lemma suffix_refl bs : suffix_of bs bs.
Proof. exists []. reflexivity. Qed.
Lemma suffix_trans a b c : suffix_of a b -> suffix_of b c -> suffix_of a c.
Proof. intros [x ->] [y ->]. exists (y ++ x). rewrite app_assoc. reflexivity. Qed.
Lemma suffix_cons x bs : suffix_of bs (x :: bs).
Proof. exists [x]. reflexivity. Qed.

Lemma dec_head_suffix bs m h r : dec_head bs = DOk (m, h, r) -> suffix_of r bs.
Proof.
  intros H. apply dec_head_sound in H. destruct h as [w n|].
  - destruct H as [-> _]. eexists; reflexivity.
  - subst bs. eexists; reflexivity.
Qed.

Lemma take_suffix n bs h r : take n bs = DOk (h, r) -> suffix_of r bs.
Proof.
  unfold take. destruct (len bs <? n); [discriminate|].
  destruct (bytes_wfb (firstn (Z.to_nat n) bs)); [|discriminate].
  intros H; inversion H; subst. exists (firstn (Z.to_nat n) bs). symmetry. apply firstn_skipn.
Qed.

Lemma expect_head_suffix ok bs h r : expect_head ok bs = DOk (h, r) -> suffix_of r bs.
Proof. intros H. apply expect_head_sound in H as (m & _ & Hd). eapply dec_head_suffix, Hd. Qed.

Lemma d_len_suffix m bs l r : d_len m bs = DOk (l, r) -> suffix_of r bs.
Proof.
  unfold d_len. intros H. apply dbind_ok in H as ([h r'] & He & H).
  apply expect_head_suffix in He. destruct h; inversion H; subst; exact He.
Qed.

Lemma until_loop_suffix {A} (dec : list Z -> dres (A * list Z)) :
  (forall bs x r, dec bs = DOk (x, r) -> suffix_of r bs) ->
  forall k bs xs r, until_loop dec k bs = DOk (xs, r) -> suffix_of r bs.
Proof.
  intros Hd. induction k as [|k IH]; intros bs xs r H; cbn [until_loop] in H; [discriminate|].
  destruct bs as [|b t]; [discriminate|]. destruct (b =? break_byte).
  - inversion H; subst. apply suffix_cons.
  - apply dbind_ok in H as ([x r1] & Hx & H). apply dbind_ok in H as ([xs' r2] & Hl & H). inversion H; subst.
    eapply suffix_trans; [eapply IH, Hl|eapply Hd, Hx].
Qed.

Lemma d_bytes_suffix bs b r : d_bytes bs = DOk (b, r) -> suffix_of r bs.
Proof. intros H. apply d_bytes_sound in H as (w & -> & _). eexists. rewrite app_assoc. reflexivity. Qed.

Lemma d_str_suffix bs b r : d_str bs = DOk (b, r) -> suffix_of r bs.
Proof.
  unfold d_str. destruct bs as [|b0 t]; [discriminate|]. destruct (negb (byteb b0)); [discriminate|].
  destruct (major_eqb (major_of_code (b0 / 32)) MajText && negb (b0 mod 32 =? 31)).
  - intros H. apply dbind_ok in H as ([[w n] r1] & He & H). apply dbind_ok in H as ([s r2] & Ht & H).
    destruct (utf8_valid s); [|discriminate]. inversion H; subst.
    unfold expect_arg in He. apply dbind_ok in He as ([h r3] & He & He'). apply expect_head_suffix in He.
    destruct h; [|discriminate]. inversion He'; subst. eapply suffix_trans; [eapply take_suffix, Ht|exact He].
  - unfold mismatch. destruct ((56 <=? b0) && (b0 <=? 59)); [destruct t as [|? [|? ?]]|]; discriminate.
Qed.

Lemma skip_string_suffix text b bs r0 r :
  bs = b :: r0 -> skip_string text b bs r0 = DOk r -> suffix_of r bs.
Proof.
  intros -> H. unfold skip_string in H. destruct (b mod 32 =? 31).
  - apply dbind_ok in H as ([xs r1] & Hl & H). inversion H; subst.
    eapply suffix_trans; [|apply suffix_cons]. eapply until_loop_suffix; [|exact Hl].
    intros bs' x r' Hx. unfold unit_dec in Hx. apply dbind_ok in Hx as ([s r2] & Hs & Hx). inversion Hx; subst.
    destruct text; [eapply d_str_suffix, Hs|eapply d_bytes_suffix, Hs].
  - apply dbind_ok in H as ([[m h] r1] & Hh & H). apply dec_head_suffix in Hh. destruct h as [w n|]; [|discriminate].
    apply dbind_ok in H as ([s r2] & Ht & H). apply take_suffix in Ht.
    destruct (text && negb (utf8_valid s)); [discriminate|]. inversion H; subst.
    eapply suffix_trans; eassumption.
Qed.

Lemma skip_token_suffix n i st b r0 n' i' st' r :
  skip_token n i st b (b :: r0) r0 = DOk (n', i', st', r) -> suffix_of r (b :: r0).
Proof.
  unfold skip_token. intros H.
  destruct ((b <=? 27) || ((32 <=? b) && (b <=? 59)) || ((224 <=? b) && (b <=? 251))).
  { apply dbind_ok in H as ([[m h] r1] & Hh & H). inversion H; subst. eapply dec_head_suffix, Hh. }
  destruct ((64 <=? b) && (b <=? 95)).
  { apply dbind_ok in H as (r1 & Hs & H). inversion H; subst. eapply skip_string_suffix; [reflexivity|exact Hs]. }
  destruct ((96 <=? b) && (b <=? 127)).
  { apply dbind_ok in H as (r1 & Hs & H). inversion H; subst. eapply skip_string_suffix; [reflexivity|exact Hs]. }
  destruct ((128 <=? b) && (b <=? 159)).
  { apply dbind_ok in H as ([l r1] & Hl & H). apply d_len_suffix in Hl.
    destruct l as [c|].
    - destruct (c =? 0); [inversion H; subst; exact Hl|]. destruct (open_def n i st c) as [[? ?] ?]. inversion H; subst; exact Hl.
    - destruct (open_indef n i st) as [[? ?] ?]. inversion H; subst; exact Hl. }
  destruct ((160 <=? b) && (b <=? 191)).
  { apply dbind_ok in H as ([l r1] & Hl & H). apply d_len_suffix in Hl.
    destruct l as [c|].
    - destruct (c =? 0); [inversion H; subst; exact Hl|]. destruct (open_def n i st (sat_mul2 c)) as [[? ?] ?]. inversion H; subst; exact Hl.
    - destruct (open_indef n i st) as [[? ?] ?]. inversion H; subst; exact Hl. }
  destruct (b =? 255); [|discriminate].
  destruct (on_break n i st) as [[? ?] ?]. inversion H; subst. apply suffix_cons.
Qed.

Lemma skip_loop_suffix fuel : forall n i st bs r, skip_loop fuel n i st bs = DOk r -> suffix_of r bs.
Proof.
  induction fuel as [|f IH]; intros n i st bs r H; cbn [skip_loop] in H.
  - destruct (idle n i && match st with [] => true | _ => false end); [inversion H; apply suffix_refl|discriminate].
  - destruct (idle n i && match st with [] => true | _ => false end); [inversion H; apply suffix_refl|].
    destruct bs as [|b r0]; [discriminate|]. destruct (negb (byteb b)); [discriminate|].
    destruct ((192 <=? b) && (b <=? 219)).
    + apply dbind_ok in H as ([[m h] r1] & Hh & H). apply dec_head_suffix in Hh.
      destruct h; [|discriminate]. eapply suffix_trans; [eapply IH, H|exact Hh].
    + apply dbind_ok in H as ([[[n1 i1] st1] r1] & Ht & H). apply skip_token_suffix in Ht.
      destruct (skip_post n1 i1 st1) as [[[n2 i2] st2]|].
      * eapply suffix_trans; [eapply IH, H|exact Ht].
      * inversion H; subst. exact Ht.
Qed.

Lemma d_skip_suffix bs r : d_skip bs = DOk r -> suffix_of r bs.
Proof. apply skip_loop_suffix. Qed.

(* AnyCbor keeps exactly the bytes it skipped over, and writes them back *)
Lemma anycbor_exact bs a r : dec_anycbor bs = DOk (a, r) -> enc_anycbor a ++ r = bs.
Proof.
  unfold dec_anycbor, d_skip_slice, enc_anycbor. intros H. apply dbind_ok in H as (r' & Hs & H).
  inversion H; subst; clear H. apply d_skip_suffix in Hs as [c ->]. fold (consumed (c ++ r) r).
  rewrite consumed_app. reflexivity.
Qed.

(* ---- instances of the payload specs ---- *)
Lemma anyuint_roundtrips : roundtrips dec_anyuint enc_anyuint anyuint_wf.
Proof. intros v r Hv. apply anyuint_roundtrip, Hv. Qed.
Lemma anyuint_is_exact : exact dec_anyuint enc_anyuint.
Proof. intros bs v r H. apply anyuint_exact, H. Qed.
Lemma anyuint_starts_ok : starts_ok enc_anyuint anyuint_wf.
Proof.
  intros v Hv. destruct (enc_anyuint_head v Hv) as (w & E & Hfit & _). rewrite E.
  destruct (enc_head_first MajUInt w _ Hfit) as (b & t & E' & Hb). exists b, t. split; [exact E'|unfold break_byte; lia].
Qed.
Lemma anyuint_consumes : consumes dec_anyuint.
Proof.
  intros bs v r H. pose proof (anyuint_decoded_wf _ _ _ H) as Hwf. apply anyuint_exact in H. subst bs.
  exists (enc_anyuint v). split; [reflexivity|]. destruct (anyuint_starts_ok v Hwf) as (b & t & E & _). rewrite E. discriminate.
Qed.
Lemma anyuint_local : local dec_anyuint.
Proof.
  intros c r v r' H. pose proof (anyuint_decoded_wf _ _ _ H) as Hwf. apply anyuint_exact in H.
  apply app_inv_tail in H. subst c. apply anyuint_roundtrip, Hwf.
Qed.
Lemma anyuint_not_nullish : not_nullish enc_anyuint anyuint_wf.
Proof.
  intros v r Hv. destruct (enc_anyuint_head v Hv) as (w & E & Hfit & _). rewrite E.
  exists (uint_type w). split; [apply datatype_uint, Hfit|]. destruct w; split; reflexivity.
Qed.

Definition u64_ok (n : Z) : Prop := 0 <= n < u64_bound.
Lemma u64_roundtrips : roundtrips dec_u64 enc_u64 u64_ok.
Proof. intros v r Hv. apply u64_roundtrip, Hv. Qed.
Lemma u64_starts_ok : starts_ok enc_u64 u64_ok.
Proof.
  intros v Hv. unfold enc_u64, e_uint, enc_head_min.
  destruct (enc_head_first MajUInt (min_width v) v (fits_u64 v Hv)) as (b & t & E & Hb).
  exists b, t. split; [exact E|unfold break_byte; lia].
Qed.
Lemma u64_consumes : consumes dec_u64.
Proof.
  intros bs v r H. unfold dec_u64, d_u64 in H. apply d_uint_sound in H as (w & -> & Hfit & _).
  exists (enc_head MajUInt w v). split; [reflexivity|]. rewrite enc_head_cons. discriminate.
Qed.
Lemma u64_local : local dec_u64.
Proof.
  intros c r v r' H. unfold dec_u64, d_u64 in *. pose proof H as H0. apply d_uint_sound in H as (w & E & Hfit & Hb).
  apply app_inv_tail in E. subst c. apply d_uint_enc; assumption.
Qed.

(* ---- composition: the wrapper laws nest ---- *)
(* KeyValuePairs<AnyUInt, MaybeIndefArray<AnyUInt>>: exact re-encoding of every accepted input with
   minimal container heads is obtained by plugging the laws together *)
Lemma mia_anyuint_exact_from_shape bs m r :
  dec_mia dec_anyuint bs = DOk (m, r) -> ~ nonminimal_head MajArray bs -> enc_mia enc_anyuint m ++ r = bs.
Proof. apply mia_reencode_exact_partial, anyuint_is_exact. Qed.

Lemma keepraw_anyuint_exact bs k r :
  dec_keepraw dec_anyuint bs = DOk (k, r) -> enc_keepraw enc_anyuint k ++ r = bs.
Proof. intros H. eapply keepraw_reencode_exact in H; [apply H|apply anyuint_consumes]. Qed.

Lemma kvp_anyuint_roundtrip m r :
  kvp_ok anyuint_wf anyuint_wf m ->
  dec_kvp dec_anyuint dec_anyuint (enc_kvp enc_anyuint enc_anyuint m ++ r) = DOk (m, r).
Proof. apply kvp_roundtrip; [apply anyuint_roundtrips|apply anyuint_roundtrips|apply anyuint_starts_ok]. Qed.
