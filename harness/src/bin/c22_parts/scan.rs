//! Independent strict CBOR item scanner (plain Rust, no minicbor) and a random
//! well-formed-item generator for the opaque (`AnyCbor`) payloads.
use verif_harness::Rng;

/// Scan exactly one well-formed CBOR data item starting at `p`; return the position after it.
/// Declared array/map/string lengths must be matched by the content; text must be UTF-8;
/// indefinite strings consist of definite chunks of the same major type; a break is only
/// legal as the terminator of an indefinite container.
pub fn scan_item(b: &[u8], p: usize, depth: usize) -> Result<usize, String> {
    if depth > 200 { return Err("nesting too deep".into()); }
    let ib = *b.get(p).ok_or_else(|| format!("end of input at {} (an item was expected)", p))?;
    let (major, info) = (ib >> 5, ib & 31);
    let mut q = p + 1;
    let arg: Option<u64> = match info {
        0..=23 => Some(info as u64),
        24..=27 => {
            let n = 1usize << (info - 24);
            if q + n > b.len() { return Err(format!("end of input inside the head at {}", p)); }
            let mut v = 0u64;
            for k in 0..n { v = (v << 8) | b[q + k] as u64; }
            q += n;
            Some(v)
        }
        28..=30 => return Err(format!("reserved additional information {} at {}", info, p)),
        _ => None,
    };
    match (major, arg) {
        (0, Some(_)) | (1, Some(_)) | (7, Some(_)) => Ok(q),
        (2, Some(n)) | (3, Some(n)) => {
            let n = usize::try_from(n).map_err(|_| "length overflow".to_string())?;
            if n > b.len() - q { return Err(format!("string at {} declares {} bytes, {} left", p, n, b.len() - q)); }
            if major == 3 && std::str::from_utf8(&b[q..q + n]).is_err() { return Err(format!("text at {} is not UTF-8", p)); }
            Ok(q + n)
        }
        (4, Some(n)) | (5, Some(n)) => {
            let count = if major == 5 { n.checked_mul(2).ok_or("count overflow")? } else { n };
            for k in 0..count {
                q = scan_item(b, q, depth + 1)
                    .map_err(|e| format!("container at {} declares {} element(s) but element {} is missing/malformed: {}", p, count, k, e))?;
            }
            Ok(q)
        }
        (6, Some(_)) => scan_item(b, q, depth + 1),
        (2, None) | (3, None) => loop {
            let c = *b.get(q).ok_or("end of input inside an indefinite string")?;
            if c == 0xff { return Ok(q + 1); }
            if c >> 5 != major || c & 31 == 31 { return Err(format!("bad chunk head {:#04x} at {}", c, q)); }
            q = scan_item(b, q, depth + 1)?;
        },
        (4, None) | (5, None) => {
            let mut k = 0u64;
            loop {
                let c = *b.get(q).ok_or("end of input inside an indefinite container")?;
                if c == 0xff {
                    if major == 5 && k % 2 == 1 { return Err(format!("indefinite map at {} has a key without value", p)); }
                    return Ok(q + 1);
                }
                q = scan_item(b, q, depth + 1)?;
                k += 1;
            }
        }
        (7, None) => Err(format!("break at {} where an item is expected", p)),
        _ => Err(format!("reserved indefinite head {:#04x} at {}", ib, p)),
    }
}

/// The whole byte string is exactly one well-formed item.
pub fn exactly_one_item(b: &[u8]) -> Result<(), String> {
    let e = scan_item(b, 0, 0)?;
    if e == b.len() { Ok(()) } else { Err(format!("one item ends at {} but the encoding has {} bytes ({} trailing)", e, b.len(), b.len() - e)) }
}

fn head(out: &mut Vec<u8>, major: u8, n: u64, r: &mut Rng) {
    // mostly minimal, sometimes a wider head than needed
    let min = if n < 24 { 0 } else if n < 256 { 1 } else if n < 65536 { 2 } else if n < (1 << 32) { 3 } else { 4 };
    let w = if r.chance(1, 6) { (min + r.below(5 - min as u64) as u8).min(4) } else { min };
    match w {
        0 => out.push(major << 5 | n as u8),
        1 => { out.push(major << 5 | 24); out.push(n as u8); }
        2 => { out.push(major << 5 | 25); out.extend((n as u16).to_be_bytes()); }
        3 => { out.push(major << 5 | 26); out.extend((n as u32).to_be_bytes()); }
        _ => { out.push(major << 5 | 27); out.extend(n.to_be_bytes()); }
    }
}

const WORDS: &[&str] = &["", "a", "tx", "h\u{e9}llo", "\u{20ac}", "\u{1f600}ok", "0123456789abcdefghijklmnopqrstuvwxyz"];

/// A random well-formed item (all majors, definite and indefinite, some non-minimal heads).
pub fn gen_item(r: &mut Rng, depth: u32, out: &mut Vec<u8>) {
    let k = if depth == 0 { r.below(6) } else { r.below(11) };
    match k {
        0 => { let v = r.edge_u64(); head(out, 0, v, r) }
        1 => { let v = r.edge_u64(); head(out, 1, v, r) }
        2 => { let n = *r.pick(&[0usize, 1, 3, 23, 24, 32]); let v = r.bytes(n); head(out, 2, n as u64, r); out.extend(v) }
        3 => { let s = r.pick(WORDS).as_bytes().to_vec(); head(out, 3, s.len() as u64, r); out.extend(s) }
        4 => match r.below(8) {
            0 => out.push(0xf4), 1 => out.push(0xf5), 2 => out.push(0xf6), 3 => out.push(0xf7),
            4 => { out.push(0xf8); out.push(32 + (r.byte() % 224)); }
            5 => { out.push(0xf9); out.extend(r.bytes(2)); }
            6 => { out.push(0xfa); out.extend(r.bytes(4)); }
            _ => { out.push(0xfb); out.extend(r.bytes(8)); }
        },
        5 => out.push(0xe0 + (r.byte() % 20)),
        6 => { let n = r.below(4); head(out, 4, n, r); for _ in 0..n { gen_item(r, depth - 1, out) } }
        7 => { let n = r.below(3); head(out, 5, n, r); for _ in 0..2 * n { gen_item(r, depth - 1, out) } }
        8 => { let t = *r.pick(&[0u64, 2, 24, 30, 121, 258, 1 << 33]); head(out, 6, t, r); gen_item(r, depth - 1, out) }
        9 => {
            if r.bool() { out.push(0x9f); for _ in 0..r.below(4) { gen_item(r, depth - 1, out) } }
            else { out.push(0xbf); for _ in 0..2 * r.below(3) { gen_item(r, depth - 1, out) } }
            out.push(0xff)
        }
        _ => {
            let major = if r.bool() { 2u8 } else { 3 };
            out.push(major << 5 | 31);
            for _ in 0..r.below(3) {
                let s = if major == 2 { let k = r.below(4) as usize; r.bytes(k) } else { r.pick(WORDS).as_bytes().to_vec() };
                head(out, major, s.len() as u64, r); out.extend(s)
            }
            out.push(0xff)
        }
    }
}
pub fn item(r: &mut Rng) -> Vec<u8> { let mut v = Vec::new(); let d = r.below(4) as u32; gen_item(r, d, &mut v); v }
