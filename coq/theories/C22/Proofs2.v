(* C22 proofs, part 2: peersharing (IPv6 word split/join), maps, handshake, localstate,
   localtxsubmission framing, txmonitor, leiosnotify, leiosfetch. *)
From PV Require Import Lib.Base Cbor.Item Cbor.Enc Cbor.Dec Cbor.HeadLaws Cbor.Laws Cbor.Api C22.Model C22.Proofs.
Open Scope Z_scope.

(* ---- peersharing ---- *)
Lemma lor_add x y k : 0 <= k -> x mod 2 ^ k = 0 -> 0 <= y < 2 ^ k -> Z.lor x y = x + y.
Proof.
  intros Hk Hx Hy.
  assert (Hl : Z.land x y = 0).
  { apply Z.bits_inj'. intros n Hn. rewrite Z.land_spec, Z.bits_0.
    destruct (Z.ltb_spec n k) as [Hlt|Hge].
    - rewrite <- (Z.mod_pow2_bits_low x k n Hlt), Hx, Z.bits_0. reflexivity.
    - rewrite <- (Z.mod_small y (2 ^ k) Hy), Z.mod_pow2_bits_high by lia. apply andb_false_r. }
  rewrite <- Z.lxor_lor by exact Hl. symmetry. apply Z.add_nocarry_lxor, Hl.
Qed.

Definition p32 : Z := 4294967296.
Definition p64 : Z := 18446744073709551616.
Definition p96 : Z := 79228162514264337593543950336.

Lemma v6_words bits : 0 <= bits < u128b ->
  v6_word1 bits = bits / p96 /\ v6_word2 bits = (bits / p64) mod p32 /\
  v6_word3 bits = (bits / p32) mod p32 /\ v6_word4 bits = bits mod p32.
Proof.
  intros H. unfold v6_word1, v6_word2, v6_word3, v6_word4.
  change 4294967295 with (Z.ones 32). rewrite !Z.land_ones, !Z.shiftr_div_pow2 by lia.
  change (2 ^ 96) with p96. change (2 ^ 64) with p64. change (2 ^ 32) with p32. change u32b with p32.
  repeat split. apply Z.mod_small. unfold p96, p32, u128b in *. lia.
Qed.

Lemma v6_words_range bits : 0 <= bits < u128b ->
  0 <= v6_word1 bits < u32b /\ 0 <= v6_word2 bits < u32b /\ 0 <= v6_word3 bits < u32b /\ 0 <= v6_word4 bits < u32b.
Proof.
  intros H. destruct (v6_words bits H) as (-> & -> & -> & ->). unfold p96, p64, p32, u32b, u128b in *. lia.
Qed.

Lemma v6_join_words bits : 0 <= bits < u128b ->
  v6_join (v6_word1 bits) (v6_word2 bits) (v6_word3 bits) (v6_word4 bits) = bits.
Proof.
  intros H. pose proof (v6_words_range bits H) as (R1 & R2 & R3 & R4).
  destruct (v6_words bits H) as (E1 & E2 & E3 & E4).
  (* the three division steps *)
  assert (D1 : bits = p32 * (bits / p32) + bits mod p32) by (apply Z.div_mod; unfold p32; lia).
  assert (D2 : bits / p32 = p32 * (bits / p64) + (bits / p32) mod p32).
  { replace (bits / p64) with (bits / p32 / p32) by (rewrite Z.div_div by (unfold p32; lia); reflexivity).
    apply Z.div_mod. unfold p32; lia. }
  assert (D3 : bits / p64 = p32 * (bits / p96) + (bits / p64) mod p32).
  { replace (bits / p96) with (bits / p64 / p32) by (rewrite Z.div_div by (unfold p32, p64; lia); reflexivity).
    apply Z.div_mod. unfold p32; lia. }
  rewrite <- E1, <- E2 in D3. rewrite <- E3 in D2. rewrite <- E4 in D1.
  clear E1 E2 E3 E4.
  set (w1 := v6_word1 bits) in *. set (w2 := v6_word2 bits) in *.
  set (w3 := v6_word3 bits) in *. set (w4 := v6_word4 bits) in *.
  set (q1 := bits / p32) in *. set (q2 := bits / p64) in *.
  clearbody w1 w2 w3 w4 q1 q2.
  unfold v6_join. rewrite !Z.shiftl_mul_pow2 by lia.
  change (2 ^ 96) with p96. change (2 ^ 64) with p64. change (2 ^ 32) with p32.
  rewrite (lor_add (w1 * p96) (w2 * p64) 96); [|lia| |].
  2: { change (2 ^ 96) with p96. apply Z.mod_mul. unfold p96. lia. }
  2: { change (2 ^ 96) with p96. unfold p96, p64, u32b in *. lia. }
  rewrite (lor_add (w1 * p96 + w2 * p64) (w3 * p32) 64); [|lia| |].
  2: { change (2 ^ 64) with p64. replace (w1 * p96 + w2 * p64) with ((w1 * p32 + w2) * p64) by (unfold p96, p64, p32; ring).
       apply Z.mod_mul. unfold p64. lia. }
  2: { change (2 ^ 64) with p64. unfold p64, p32, u32b in *. lia. }
  rewrite (lor_add (w1 * p96 + w2 * p64 + w3 * p32) w4 32); [|lia| |].
  2: { change (2 ^ 32) with p32.
       replace (w1 * p96 + w2 * p64 + w3 * p32) with ((w1 * p64 + w2 * p32 + w3) * p32) by (unfold p96, p64, p32; ring).
       apply Z.mod_mul. unfold p32. lia. }
  2: { change (2 ^ 32) with p32. unfold p32, u32b in *. lia. }
  unfold p96, p64, p32 in *. lia.
Qed.

Lemma peer_addr_enc pb a : pb <= u64b -> wf_peer_addr pb a = true -> is_enc (enc_peer_addr_with 6 a).
Proof.
  intros Hpb. destruct a as [ip port|bits port]; cbn [wf_peer_addr enc_peer_addr_with]; intros H; wf_hyps.
  - enc_tac.
  - destruct (v6_words_range bits) as (R1 & R2 & R3 & R4); [assumption|]. enc_tac.
Qed.
Lemma peer_addr_rt pb a r : pb <= u64b -> wf_peer_addr pb a = true ->
  dec_peer_addr pb (enc_peer_addr_with 6 a ++ r) = DOk (a, r).
Proof.
  intros Hpb. destruct a as [ip port|bits port]; cbn [wf_peer_addr enc_peer_addr_with]; intros H; wf_hyps; unfold dec_peer_addr.
  - dec_tac. rewrite d_uint_e by rng. reflexivity.
  - destruct (v6_words_range bits) as (R1 & R2 & R3 & R4); [assumption|]. dec_tac.
    rewrite d_uint_e by rng. dnorm. rewrite v6_join_words by assumption. reflexivity.
Qed.

Lemma ps6_wellformed pb m : pb <= u64b -> ps_wf pb m = true -> is_enc (ps_enc_with (enc_peer_addr_with 6) m).
Proof.
  intros Hpb. destruct m; cbn [ps_wf ps_enc_with]; intros H; wf_hyps; enc_tac.
  apply is_enc_indef_vec. eapply Forall_enc; [intros x Hx; apply (peer_addr_enc pb x Hpb Hx)|assumption].
Qed.
Lemma ps6_dec_enc pb m r : pb <= u64b -> ps_wf pb m = true ->
  ps_dec pb (ps_enc_with (enc_peer_addr_with 6) m ++ r) = DOk (m, r).
Proof.
  intros Hpb. destruct m; cbn [ps_wf ps_enc_with]; intros H; wf_hyps; unfold ps_dec; dec_tac.
  rewrite d_vec_indef; [reflexivity|].
  eapply Forall_rt_enc; [intros x Hx; apply (peer_addr_enc pb x Hpb Hx)|intros x r0 Hx; apply (peer_addr_rt pb x r0 Hpb Hx)|assumption].
Qed.

(* the code before the repair: array(8) followed by six items is not an item *)
Lemma ps_pre_refuted : exists m, ps_wf u16b m = true /\ ~ is_enc (ps_enc_pre m).
Proof.
  exists (PsSharePeers [PaV6 1 3001]). split; [reflexivity|]. intros (i & E & Hi).
  apply (f_equal decode_all) in E. rewrite decode_all_complete in E by exact Hi.
  vm_compute in E. discriminate.
Qed.

(* ---- maps ---- *)
Lemma is_enc_pairs (parts : list (list Z * list Z)) :
  Forall (fun p => is_enc (fst p) /\ is_enc (snd p)) parts ->
  exists kvs, map (fun p => fst p ++ snd p) parts = map encode_pair kvs /\ forallb wf_pair kvs = true /\
              length kvs = length parts.
Proof.
  induction 1 as [|[a b] ps [(i & Ea & Hi) (j & Eb & Hj)] _ (kvs & E & Hk & Hl)].
  - exists []. repeat split.
  - cbn [fst snd] in *. subst a b. exists ((i, j) :: kvs). repeat split.
    + cbn [map fst snd]. rewrite E. reflexivity.
    + cbn [forallb]. unfold wf_pair at 1. cbn [fst snd]. rewrite Hi, Hj, Hk. reflexivity.
    + cbn [length]. rewrite Hl. reflexivity.
Qed.

Lemma is_enc_map (parts : list (list Z * list Z)) :
  Forall (fun p => is_enc (fst p) /\ is_enc (snd p)) parts -> len parts < u64b ->
  is_enc (e_map (len parts) ++ concat (map (fun p => fst p ++ snd p) parts)).
Proof.
  intros H Hl. apply is_enc_pairs in H as (kvs & E & Hk & Hlen).
  exists (Map (min_width (len kvs)) kvs). split.
  - rewrite encode_Map, E. unfold e_map, enc_head_min, encode_pairs, len. rewrite Hlen. reflexivity.
  - rewrite wf_Map, Hk, fits_min; [reflexivity|]. unfold len in *. rewrite Hlen. lia.
Qed.

Lemma is_enc_map_indef (parts : list (list Z * list Z)) :
  Forall (fun p => is_enc (fst p) /\ is_enc (snd p)) parts ->
  is_enc (e_begin_map ++ concat (map (fun p => fst p ++ snd p) parts) ++ e_end).
Proof.
  intros H. apply is_enc_pairs in H as (kvs & E & Hk & Hlen).
  exists (MapIndef kvs). split; [rewrite encode_MapIndef, E; reflexivity|rewrite wf_MapIndef; exact Hk].
Qed.

(* a strictly key-sorted association list is its own BTreeMap/HashMap normal form *)
Lemma bt_insert_last {V} k (v : V) l :
  Forall (fun kv => fst kv < k) l -> bt_insert Z.compare k v l = l ++ [(k, v)].
Proof.
  induction 1 as [|[k' v'] t Hk _ IH]; [reflexivity|]. cbn [bt_insert fst] in *.
  destruct (Z.compare_spec k k'); try lia. rewrite IH. reflexivity.
Qed.

Lemma bt_fold_sorted {V} (t : list (Z * V)) : forall lo acc,
  keys_sorted lo t = true -> Forall (fun kv => fst kv <= lo) acc ->
  fold_left (fun m kv => bt_insert Z.compare (fst kv) (snd kv) m) t acc = acc ++ t.
Proof.
  induction t as [|[k v] t IH]; intros lo acc Hs Hacc; cbn [fold_left keys_sorted] in *.
  - rewrite app_nil_r. reflexivity.
  - apply andb_true_iff in Hs as [Hlo Hs]. apply Z.ltb_lt in Hlo. cbn [fst snd].
    rewrite bt_insert_last by (eapply Forall_impl; [|exact Hacc]; cbn; intros; lia).
    rewrite (IH k (acc ++ [(k, v)]) Hs).
    + rewrite <- app_assoc. reflexivity.
    + apply Forall_app; split; [eapply Forall_impl; [|exact Hacc]; cbn; intros; lia|repeat constructor; cbn; lia].
Qed.

Lemma bt_of_list_sorted {V} (t : list (Z * V)) lo : keys_sorted lo t = true -> bt_of_list Z.compare t = t.
Proof. intros H. unfold bt_of_list. rewrite (bt_fold_sorted t lo []); [reflexivity|exact H|constructor]. Qed.

Lemma e_uint_nonempty n : e_uint n <> [].
Proof. unfold e_uint, enc_head_min, enc_head. destruct (min_width n); discriminate. Qed.

(* ---- handshake ---- *)
Lemma refuse_enc x : wf_refuse x = true -> is_enc (enc_refuse x).
Proof.
  destruct x; cbn [wf_refuse enc_refuse]; intros H; wf_hyps; enc_tac.
  apply is_enc_vec; [|assumption]. eapply Forall_enc; [|eassumption].
  intros v Hv. apply in_u_spec in Hv. apply is_enc_uint. exact Hv.
Qed.
Lemma refuse_rt x r : wf_refuse x = true -> dec_refuse (enc_refuse x ++ r) = DOk (x, r).
Proof.
  destruct x; cbn [wf_refuse enc_refuse]; intros H; wf_hyps; unfold dec_refuse; dec_tac.
  rewrite d_vec_def; [reflexivity| |assumption].
  eapply Forall_rt_enc; [| |eassumption].
  - intros v Hv. apply in_u_spec in Hv. apply is_enc_uint. exact Hv.
  - intros v r0 Hv. apply in_u_spec in Hv. apply d_u64_e. exact Hv.
Qed.

Section HsProofs.
  Context {D : Type} (encD : D -> list Z) (decD : list Z -> dres (D * list Z)) (wfD : D -> bool).
  Hypothesis HencD : forall d, wfD d = true -> is_enc (encD d).
  Hypothesis HrtD : forall d r, wfD d = true -> decD (encD d ++ r) = DOk (d, r).

  Lemma vtable_enc t : wf_vtable wfD t = true -> is_enc (enc_vtable encD t).
  Proof.
    unfold wf_vtable, enc_vtable. intros H. apply andb_true_iff in H as [H Hlen]. apply Z.ltb_lt in Hlen.
    apply andb_true_iff in H as [Hs Hf].
    pose proof (is_enc_map (map (fun kv => (e_uint (fst kv), encD (snd kv))) t)) as Hm.
    rewrite map_map in Hm. unfold len in Hm. rewrite map_length in Hm. apply Hm; [|exact Hlen].
    apply Forall_map. eapply Forall_wf; [|exact Hf]. intros [k d] Hkd. cbn [fst snd] in *. wf_hyps.
    split; [apply is_enc_uint; assumption|apply HencD; assumption].
  Qed.

  Lemma vtable_rt t r : wf_vtable wfD t = true -> dec_vtable decD (enc_vtable encD t ++ r) = DOk (t, r).
  Proof.
    unfold wf_vtable, enc_vtable, dec_vtable. intros H. apply andb_true_iff in H as [H Hlen]. apply Z.ltb_lt in Hlen.
    apply andb_true_iff in H as [Hs Hf].
    rewrite <- app_assoc, d_map_e by (pose proof (len_nonneg t); lia). cbn [dbind].
    assert (Hr : Forall (fun x => forall r, pair_dec d_u64 decD (enc_vpair encD x ++ r) = DOk (x, r)) t).
    { eapply Forall_wf; [|exact Hf]. intros [k d] Hkd r0. cbn [fst snd] in Hkd. wf_hyps.
      apply (pair_dec_complete d_u64 decD e_uint encD k d); [intros r1; apply d_u64_e; assumption|intros r1; apply HrtD; assumption]. }
    rewrite (seq_loop_complete (pair_dec d_u64 decD) (enc_vpair encD) t Hr).
    - cbn [dbind]. rewrite (bt_of_list_sorted t (-1) Hs). reflexivity.
    - assert (Hne : Forall (fun x => enc_vpair encD x <> []) t).
      { apply Forall_forall. intros [k d] _. unfold enc_vpair. cbn [fst snd]. intros E.
        apply app_eq_nil in E as [E _]. exact (e_uint_nonempty k E). }
      apply (budget_app_ge (enc_vpair encD) t r) in Hne. lia.
  Qed.

  Lemma hs_wellformed m : hs_wf wfD m = true -> is_enc (hs_enc encD m).
  Proof.
    destruct m; cbn [hs_wf hs_enc]; intros H; wf_hyps; enc_tac.
    - apply vtable_enc; assumption.
    - apply HencD; assumption.
    - apply refuse_enc; assumption.
    - apply vtable_enc; assumption.
  Qed.
  Lemma hs_dec_enc m r : hs_wf wfD m = true -> hs_dec decD (hs_enc encD m ++ r) = DOk (m, r).
  Proof.
    destruct m; cbn [hs_wf hs_enc]; intros H; wf_hyps; unfold hs_dec; dec_tac.
    - rewrite vtable_rt by assumption. reflexivity.
    - rewrite HrtD by assumption. reflexivity.
    - rewrite refuse_rt by assumption. reflexivity.
    - rewrite vtable_rt by assumption. reflexivity.
  Qed.
End HsProofs.

(* n2n::VersionData *)
Lemma n2n_enc d : wf_n2n d = true -> is_enc (enc_n2n d).
Proof.
  destruct d as [magic io ps q]. unfold wf_n2n, enc_n2n. cbn [nd_magic nd_init_only nd_peer_sharing nd_query].
  intros H. wf_hyps. destruct ps as [ps|], q as [q|]; try discriminate; wf_hyps; enc_tac.
Qed.
Lemma n2n_rt d r : wf_n2n d = true -> dec_n2n (enc_n2n d ++ r) = DOk (d, r).
Proof.
  destruct d as [magic io ps q]. unfold wf_n2n, enc_n2n, dec_n2n. cbn [nd_magic nd_init_only nd_peer_sharing nd_query].
  intros H. wf_hyps. destruct ps as [ps|], q as [q|]; try discriminate; wf_hyps; dec_tac.
Qed.

(* Decoder::datatype on the first byte of a head *)
Lemma byteb_true b : 0 <= b < 256 -> byteb b = true.
Proof. intros H. apply byteb_spec. exact H. Qed.

Lemma d_datatype_uint n r : 0 <= n < u64b ->
  exists t, d_datatype (e_uint n ++ r) = DOk t /\
            (ctype_eqb t TU8 || ctype_eqb t TU16 || ctype_eqb t TU32 || ctype_eqb t TU64) = true.
Proof.
  intros H. unfold e_uint, enc_head_min, min_width.
  destruct (n <? 24) eqn:E0.
  - cbn [enc_head major_code app d_datatype]. unfold type_of_byte.
    rewrite byteb_true by lia. cbn [negb]. replace (0 * 32 + n <=? 24) with true by lia. exists TU8. split; reflexivity.
  - destruct (n <? 256); [exists TU8; split; reflexivity|].
    destruct (n <? 65536); [exists TU16; split; reflexivity|].
    destruct (n <? 4294967296); [exists TU32; split; reflexivity|exists TU64; split; reflexivity].
Qed.

Lemma d_datatype_array n r : 0 <= n < u64b -> d_datatype (e_array n ++ r) = DOk TArray.
Proof.
  intros H. unfold e_array, enc_head_min, min_width.
  destruct (n <? 24) eqn:E0.
  - cbn [enc_head major_code app d_datatype]. unfold type_of_byte.
    rewrite byteb_true by lia. cbn [negb].
    repeat match goal with |- context [if ?c then _ else _] =>
      first [replace c with false by lia | replace c with true by lia]; cbn [andb orb] end.
    reflexivity.
  - destruct (n <? 256); [reflexivity|]. destruct (n <? 65536); [reflexivity|].
    destruct (n <? 4294967296); reflexivity.
Qed.

(* n2c::VersionData *)
Lemma n2c_enc d : wf_n2c d = true -> is_enc (enc_n2c d).
Proof. destruct d as [magic [q|]]; unfold wf_n2c, enc_n2c; cbn [fst snd]; intros H; wf_hyps; enc_tac. Qed.
Lemma n2c_rt d r : wf_n2c d = true -> dec_n2c (enc_n2c d ++ r) = DOk (d, r).
Proof.
  destruct d as [magic [q|]]; unfold wf_n2c, enc_n2c, dec_n2c; cbn [fst snd]; intros H; wf_hyps.
  - rewrite <- !app_assoc, d_datatype_array by rng. cbn [dbind ctype_eqb ctype_code Z.eqb Pos.eqb orb]. dec_tac.
  - destruct (d_datatype_uint magic r) as (t & -> & Ht); [rng|]. cbn [dbind]. rewrite Ht. dec_tac.
Qed.

(* ---- localstate ---- *)
Lemma d_datatype_point p r : wf_point p = true -> d_datatype (enc_point p ++ r) = DOk TArray.
Proof. destruct p; cbn [enc_point]; intros _; rewrite <- ?app_assoc; apply d_datatype_array; rng. Qed.
Lemma d_option_point p r : wf_point p = true -> d_option dec_point (enc_point p ++ r) = DOk (Some p, r).
Proof. intros H. unfold d_option. rewrite d_datatype_point by exact H. cbn [dbind ctype_eqb ctype_code Z.eqb Pos.eqb]. rewrite point_rt by exact H. reflexivity. Qed.

Lemma ls_wellformed m : ls_wf m = true -> is_enc (ls_enc m).
Proof.
  destruct m as [[p|]|c| |q|x|[p|]| |]; cbn [ls_wf ls_enc wf_opoint]; intros H; wf_hyps; enc_tac.
Qed.
Lemma ls_dec_enc m r : ls_wf m = true -> ls_dec (ls_enc m ++ r) = DOk (m, r).
Proof.
  destruct m as [[p|]|c| |q|x|[p|]| |]; cbn [ls_wf ls_enc wf_opoint]; intros H; wf_hyps; unfold ls_dec; dec_tac.
  all: try (rewrite H; reflexivity).
  all: try (rewrite d_option_point by assumption; reflexivity).
Qed.

(* ---- localtxsubmission (framing) ---- *)
Lemma ltx_wellformed m : ltx_wf m = true -> is_enc (ltx_enc m).
Proof. destruct m; cbn [ltx_wf ltx_enc]; intros H; wf_hyps; try discriminate; enc_tac. Qed.
Lemma ltx_dec_enc m r : ltx_wf m = true -> ltx_dec (ltx_enc m ++ r) = DOk (m, r).
Proof. destruct m; cbn [ltx_wf ltx_enc]; intros H; wf_hyps; try discriminate; unfold ltx_dec; dec_tac. Qed.

(* ---- txmonitor ---- *)
Lemma tm_wellformed m : tm_wf m = true -> is_enc (tm_enc m).
Proof.
  destruct m as [| |s| | | |[[era b]|]|id|b| |c s n]; cbn [tm_wf tm_enc]; unfold enc_tm_tx; cbn [fst snd]; intros H; wf_hyps; enc_tac.
Qed.
Lemma tm_dec_enc m r : tm_wf m = true -> tm_dec (tm_enc m ++ r) = DOk (m, r).
Proof.
  destruct m as [| |s| | | |[[era b]|]|id|b| |c s n]; cbn [tm_wf tm_enc]; unfold enc_tm_tx; cbn [fst snd]; intros H; wf_hyps;
    unfold tm_dec; dec_tac.
  rewrite d_datatype_array by rng. cbn [dbind ctype_eqb ctype_code Z.eqb Pos.eqb orb]. unfold dec_tm_tx. dec_tac.
Qed.

(* ---- leiosnotify ---- *)
Lemma raw_rt x r : is_item x = true -> d_raw (e_raw x ++ r) = DOk (x, r).
Proof. apply d_raw_e. Qed.
Lemma raws_ok l : forallb is_item l = true -> Forall (fun x => rt d_raw e_raw x /\ is_enc (e_raw x)) l.
Proof. apply Forall_rt_enc; [apply is_enc_raw|intros x r; apply raw_rt]. Qed.

Lemma ln_wellformed m : ln_wf m = true -> is_enc (ln_enc m).
Proof.
  destruct m; cbn [ln_wf ln_enc]; intros H; wf_hyps; enc_tac.
  apply is_enc_vec; [|assumption]. eapply Forall_enc; [apply is_enc_raw|assumption].
Qed.
Lemma ln_dec_enc m r : ln_wf m = true -> ln_dec (ln_enc m ++ r) = DOk (m, r).
Proof.
  destruct m; cbn [ln_wf ln_enc]; intros H; wf_hyps; unfold ln_dec; dec_tac.
  rewrite d_vec_def; [reflexivity|apply raws_ok; assumption|assumption].
Qed.

(* ---- leiosfetch ---- *)
Lemma bitmaps_enc b : wf_bitmaps b = true -> is_enc (enc_bitmaps b).
Proof.
  unfold wf_bitmaps, enc_bitmaps. intros H. apply andb_true_iff in H as [Hs Hf].
  pose proof (is_enc_map_indef (map (fun kv => (e_uint (fst kv), e_uint (snd kv))) b)) as Hm.
  rewrite map_map in Hm. apply Hm. apply Forall_map. eapply Forall_wf; [|exact Hf].
  intros [k v] Hkv. cbn [fst snd] in *. wf_hyps. split; apply is_enc_uint; rng.
Qed.
Lemma bitmaps_rt b r : wf_bitmaps b = true -> dec_bitmaps (enc_bitmaps b ++ r) = DOk (b, r).
Proof.
  unfold wf_bitmaps, enc_bitmaps, dec_bitmaps, d_btreemap, d_map_pairs. intros H. apply andb_true_iff in H as [Hs Hf].
  rewrite <- !app_assoc, d_map_begin. cbn [dbind]. change (e_end ++ r) with (break_byte :: r).
  assert (Hr : Forall (fun x => (forall r, pair_dec d_u16 d_u64 (enc_bmpair x ++ r) = DOk (x, r)) /\
                               exists b t, enc_bmpair x = b :: t /\ b <> break_byte) b).
  { eapply Forall_wf; [|exact Hf]. intros [k v] Hkv. cbn [fst snd] in Hkv. wf_hyps. split.
    - intros r0. apply (pair_dec_complete d_u16 d_u64 e_uint e_uint k v); intros r1; [apply d_u16_e|apply d_u64_e]; assumption.
    - unfold enc_bmpair. cbn [fst snd]. destruct (is_enc_nobreak (e_uint k)) as (b0 & t0 & E & Hb); [apply is_enc_uint; rng|].
      rewrite E. cbn [app]. eauto. }
  rewrite (until_loop_complete (pair_dec d_u16 d_u64) enc_bmpair b Hr).
  - cbn [dbind]. rewrite (bt_of_list_sorted b (-1) Hs). reflexivity.
  - apply ready_nonempty in Hr as [_ Hne]. apply (budget_app_ge enc_bmpair b (break_byte :: r)) in Hne. lia.
Qed.

Lemma lf_wellformed m : lf_wf m = true -> is_enc (lf_enc m).
Proof.
  destruct m; cbn [lf_wf lf_enc]; intros H; wf_hyps; enc_tac; try (apply bitmaps_enc; assumption).
  apply is_enc_vec; [|assumption]. eapply Forall_enc; [apply is_enc_raw|assumption].
Qed.
Lemma lf_dec_enc m r : lf_wf m = true -> lf_dec (lf_enc m ++ r) = DOk (m, r).
Proof.
  destruct m; cbn [lf_wf lf_enc]; intros H; wf_hyps; unfold lf_dec; dec_tac.
  - rewrite bitmaps_rt by assumption. reflexivity.
  - rewrite bitmaps_rt by assumption. dnorm. rewrite d_vec_def; [reflexivity|apply raws_ok; assumption|assumption].
Qed.

(* ---- handshake instances (placed after the version-data lemmas) ---- *)
Lemma hsn_wellformed m : hsn_wf m = true -> is_enc (hsn_enc m).
Proof. unfold hsn_wf, hsn_enc. eapply hs_wellformed; solve [exact n2n_enc | exact n2n_rt]. Qed.
Lemma hsn_dec_enc m r : hsn_wf m = true -> hsn_dec (hsn_enc m ++ r) = DOk (m, r).
Proof. unfold hsn_wf, hsn_enc, hsn_dec. eapply hs_dec_enc; solve [exact n2n_enc | exact n2n_rt]. Qed.
Lemma hsc_wellformed m : hsc_wf m = true -> is_enc (hsc_enc m).
Proof. unfold hsc_wf, hsc_enc. eapply hs_wellformed; solve [exact n2c_enc | exact n2c_rt]. Qed.
Lemma hsc_dec_enc m r : hsc_wf m = true -> hsc_dec (hsc_enc m ++ r) = DOk (m, r).
Proof. unfold hsc_wf, hsc_enc, hsc_dec. eapply hs_dec_enc; solve [exact n2c_enc | exact n2c_rt]. Qed.
