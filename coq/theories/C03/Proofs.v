From PV Require Import Lib.Base Cbor.Item Cbor.Enc Cbor.Dec Cbor.HeadLaws Cbor.Laws Cbor.Api Cbor.Skip C03.Model.
Open Scope Z_scope.

(* ---- the defects of the unchanged tree, as closed witnesses ---- *)
Lemma anyuint_before_fix_witness :
  dec_anyuint_before_fix [24; 5] = DOk (AMajorByte 5, []) /\ enc_anyuint (AMajorByte 5) = [5].
Proof. split; vm_compute; reflexivity. Qed.

Lemma kvp_head_witness :
  dec_kvp dec_u64 dec_u64 [184; 1; 1; 2] = DOk (KDef [(1, 2)], []) /\
  enc_kvp enc_u64 enc_u64 (KDef [(1, 2)]) = [161; 1; 2].
Proof. split; vm_compute; reflexivity. Qed.

Lemma mia_head_witness :
  dec_mia dec_u64 [152; 1; 5] = DOk (MDef [5], []) /\ enc_mia enc_u64 (MDef [5]) = [129; 5].
Proof. split; vm_compute; reflexivity. Qed.
