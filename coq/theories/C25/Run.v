(* C25 correspondence: a case is (stack, responder table, proposed table, reply
   sent by the implementation); stack 0 = pallas-network Server::handshake,
   1 = pallas-network2 ResponderBehavior.  The new stack lists its versions in
   HashMap order: a Mismatch list is compared as a set there. *)
From PV Require Import Lib.Base C25.Model.
Open Scope Z_scope.

Definition case : Type := (Z * vtable * vtable * reply).

Fixpoint insert_z (x : Z) (l : list Z) : list Z :=
  match l with [] => [x] | y :: r => if x <=? y then x :: y :: r else y :: insert_z x r end.
Definition sort_z (l : list Z) : list Z := fold_right insert_z [] l.

Definition reply_eqb (as_set : bool) (a b : reply) : bool :=
  match a, b with
  | Accept v d, Accept w e => (v =? w) && vdata_eqb d e
  | Refused v, Refused w => v =? w
  | Mismatch l, Mismatch k => if as_set then list_eqb Z.eqb (sort_z l) (sort_z k) else list_eqb Z.eqb l k
  | _, _ => false
  end.

Definition case_out (c : case) : outcome reply :=
  let '(stack, s, p, _) := c in
  if stack =? 0 then Ok (negotiate_old s p) else negotiate_new s p.

Definition case_ok (c : case) : bool :=
  let '(stack, s, p, r) := c in
  if stack =? 0 then reply_eqb false (negotiate_old s p) r
  else match negotiate_new s p with Ok m => reply_eqb true m r | _ => false end.
