//! C04: decoded numeric wrappers never violate their declared ranges.
//! case := (kind, input bytes, canonical result)
//!   kind 0 PositiveCoin, 1 NonZeroInt, 2 Option<PositiveCoin> (type of TransactionBody.donation),
//!        3 conway::Value, 4 conway::Mint
//!   result := COk flat consumed | CEoi | CErr | CPanic
//! Oracle (independent of the model): whenever the real decoder returns Ok, every
//! PositiveCoin / NonZeroInt inside the decoded value is non-zero, and it equals what the
//! checked constructor (`try_from`) builds from the same number.
#[path = "../cborgen.rs"]
mod cborgen;
use cborgen::{head, mutate, W, ALL_W};
use pallas_codec::minicbor::Decoder;
use pallas_codec::utils::{NonZeroInt, PositiveCoin};
use pallas_primitives::conway::{Mint, Multiasset, TransactionBody, Value};
use verif_harness::*;

enum Cres { Ok(Vec<i128>, usize), Eoi, Err, Panic }

fn coq_cres(c: &Cres) -> String {
    match c {
        Cres::Ok(v, n) => format!("(COk {} {})", coq_list(v, |x| coq_z(x)), n),
        Cres::Eoi => "CEoi".into(),
        Cres::Err => "CErr".into(),
        Cres::Panic => "CPanic".into(),
    }
}

fn flat_multi<A: Copy, F: Fn(A) -> i128>(m: &Multiasset<A>, f: F, out: &mut Vec<i128>, qs: &mut Vec<i128>) {
    out.push(m.len() as i128);
    for (pid, assets) in m.iter() {
        out.extend(pid.as_ref().iter().map(|b| *b as i128));
        out.push(assets.len() as i128);
        for (name, q) in assets.iter() {
            out.push(name.len() as i128);
            out.extend(name.iter().map(|b| *b as i128));
            out.push(f(*q));
            qs.push(f(*q));
        }
    }
}

/// runs the real decoder; returns the canonical result and the decoded restricted quantities
fn run_impl(kind: u8, bytes: &[u8]) -> (Cres, Vec<i128>) {
    let b = bytes.to_vec();
    let r = guard(move || {
        let mut d = Decoder::new(&b);
        let mut qs: Vec<i128> = vec![];
        let res: Result<Vec<i128>, pallas_codec::minicbor::decode::Error> = match kind {
            0 => d.decode::<PositiveCoin>().map(|v| { qs.push(u64::from(v) as i128); vec![u64::from(v) as i128] }),
            1 => d.decode::<NonZeroInt>().map(|v| { qs.push(i64::from(v) as i128); vec![i64::from(v) as i128] }),
            2 => d.decode::<Option<PositiveCoin>>().map(|o| match o {
                None => vec![0],
                Some(v) => { qs.push(u64::from(v) as i128); vec![1, u64::from(v) as i128] }
            }),
            3 => d.decode::<Value>().map(|v| match v {
                Value::Coin(c) => vec![0, c as i128],
                Value::Multiasset(c, m) => {
                    let mut out = vec![1, c as i128];
                    flat_multi(&m, |q: PositiveCoin| u64::from(q) as i128, &mut out, &mut qs);
                    out
                }
            }),
            _ => d.decode::<Mint>().map(|m| {
                let mut out = vec![];
                flat_multi(&m, |q: NonZeroInt| i64::from(q) as i128, &mut out, &mut qs);
                out
            }),
        };
        match res {
            Ok(v) => Ok((Cres::Ok(v, d.position()), qs)),
            Err(e) => Ok((if e.is_end_of_input() { Cres::Eoi } else { Cres::Err }, vec![])),
        }
    });
    match r {
        Out::Ok(x) => x,
        Out::Err(_) => (Cres::Err, vec![]),
        Out::Panic(_) => (Cres::Panic, vec![]),
    }
}

const KIND_NAME: [&str; 5] = ["direct", "direct", "donation-option", "value", "mint"];

fn run(kind: u8, bytes: &[u8], tag: &str, oracle_only: bool) {
    let (res, qs) = run_impl(kind, bytes);
    let which = if kind == 1 || kind == 4 { "nonzero-int-zero" } else { "positive-coin-zero" };
    if let Cres::Panic = res {
        emit_oracle_fail(&format!("panic/{}", KIND_NAME[kind as usize]), &format!("kind={} input={} decoder panicked", kind, hex(bytes)));
    }
    for q in &qs {
        if *q == 0 {
            emit_oracle_fail(&format!("{}/{}", which, KIND_NAME[kind as usize]),
                &format!("kind={} input={} decoded Ok with a zero quantity (declared range excludes 0)", kind, hex(bytes)));
            break;
        }
        // same invariant as the checked constructors
        let ctor_ok = if kind == 1 || kind == 4 { NonZeroInt::try_from(*q as i64).is_ok() } else { PositiveCoin::try_from(*q as u64).is_ok() };
        if !ctor_ok {
            emit_oracle_fail(&format!("ctor-disagrees/{}", KIND_NAME[kind as usize]),
                &format!("kind={} input={} decoded {} which try_from rejects", kind, hex(bytes), q));
        }
    }
    if !oracle_only {
        emit_case(tag, &format!("({},{},{})", kind, coq_bytes(bytes), coq_cres(&res)));
    }
}

/// integer heads: (major, arg) pairs worth trying, in every width that fits
fn int_heads(rng: &mut Rng) -> Vec<Vec<u8>> {
    let mut args: Vec<u64> = vec![0, 1, 2, 23, 24, 255, 256, 65535, 65536, 0xffff_ffff, 0x1_0000_0000,
        (1u64 << 63) - 1, 1u64 << 63, (1u64 << 63) + 1, u64::MAX - 1, u64::MAX];
    for _ in 0..6 { args.push(rng.edge_u64()) }
    let mut v = vec![];
    for major in [0u8, 1u8] {
        for n in &args {
            for w in ALL_W { if w.fits(*n) { v.push(head(major, w, *n)) } }
        }
    }
    v
}

fn quantity(rng: &mut Rng, signed: bool) -> Vec<u8> {
    let n = match rng.below(5) { 0 => 0, 1 => 1, 2 => rng.below(1000), 3 => *rng.pick(&[(1u64 << 63) - 1, 1u64 << 63, u64::MAX]), _ => rng.edge_u64() };
    let major = if signed && rng.bool() { 1 } else { 0 };
    head(major, W::pick(rng, n), n)
}

fn map_open(rng: &mut Rng, n: u64, out: &mut Vec<u8>) -> bool {
    if rng.chance(1, 4) { out.push(0xbf); true } else { out.extend(head(5, W::pick(rng, n), n)); false }
}

fn gen_multiasset(rng: &mut Rng, signed: bool) -> Vec<u8> {
    let mut out = vec![];
    let np = rng.below(4);
    let indef = map_open(rng, np, &mut out);
    let mut pids: Vec<Vec<u8>> = vec![];
    for _ in 0..np {
        let pid = if !pids.is_empty() && rng.chance(1, 4) { rng.pick(&pids).clone() }
                  else { let l = if rng.chance(1, 12) { *rng.pick(&[0usize, 27, 29]) } else { 28 }; let mut p = rng.bytes(l); if rng.bool() && l > 0 { p[0] = rng.below(3) as u8 } p };
        pids.push(pid.clone());
        out.extend(head(2, W::pick(rng, pid.len() as u64), pid.len() as u64));
        out.extend(&pid);
        let na = rng.below(4);
        let ind2 = map_open(rng, na, &mut out);
        let mut names: Vec<Vec<u8>> = vec![];
        for _ in 0..na {
            let name = if !names.is_empty() && rng.chance(1, 4) { rng.pick(&names).clone() } else { let l = *rng.pick(&[0usize, 1, 2, 5, 32]); let mut x = rng.bytes(l); if l > 0 && rng.bool() { x[0] = rng.below(2) as u8 } x };
            names.push(name.clone());
            out.extend(head(2, W::pick(rng, name.len() as u64), name.len() as u64));
            out.extend(&name);
            out.extend(quantity(rng, signed));
        }
        if ind2 { out.push(0xff) }
    }
    if indef { out.push(0xff) }
    out
}

fn gen_value(rng: &mut Rng) -> Vec<u8> {
    if rng.chance(1, 5) { return quantity(rng, false) }
    let mut out = vec![];
    match rng.below(8) { 0 => out.push(0x9f), 1 => out.extend(head(4, W::pick(rng, 3), *rng.pick(&[0u64, 1, 3]))), _ => out.extend(head(4, W::pick(rng, 2), 2)) }
    out.extend(quantity(rng, false));
    out.extend(gen_multiasset(rng, false));
    out
}

/// a minimal conway TransactionBody {0: [], 1: [], 2: fee, 22: donation}
fn txbody_with_donation(donation: &[u8]) -> Vec<u8> {
    let mut v = vec![0xa4, 0x00, 0x80, 0x01, 0x80, 0x02, 0x05, 0x16];
    v.extend_from_slice(donation);
    v
}

fn main() {
    let args = args();
    let mut rng = Rng::new(args.seed);
    let oo = args.oracle_only;
    // corpus: the refutation witness of the unchanged tree, always first
    run(0, &[0x00], "boundary-direct", oo);
    // boundary integers in all widths, against the three scalar decoders
    let heads = int_heads(&mut rng);
    for h in &heads {
        for kind in 0..3u8 {
            let mut b = h.clone();
            if rng.chance(1, 3) { b.extend(rng.bytes(2)) }
            run(kind, &b, "boundary-direct", oo);
        }
        // embedded as the quantity of a one-asset value / mint
        let mut pid = vec![0x58, 28]; pid.extend(rng.bytes(28));
        let mut v = vec![0x82, 0x01, 0xa1]; v.extend(&pid); v.extend([0xa1, 0x41, 0x61]); v.extend(h);
        run(3, &v, "boundary-embedded", oo);
        let mut m = vec![0xa1]; m.extend(&pid); m.extend([0xa1, 0x41, 0x61]); m.extend(h);
        run(4, &m, "boundary-embedded", oo);
        // donation field of a real TransactionBody (oracle only: the derived map decoder is not modelled)
        let tb = txbody_with_donation(h);
        let tbc = tb.clone();
        match guard(move || { let mut d = Decoder::new(&tbc); d.decode::<TransactionBody>().map(|t| t.donation.map(u64::from)).map_err(|e| e.to_string()) }) {
            Out::Ok(Some(0)) => emit_oracle_fail("positive-coin-zero/txbody-donation", &format!("TransactionBody input={} decoded with donation = PositiveCoin(0)", hex(&tb))),
            Out::Ok(_) => emit_stat("txbody_decoded_ok", 1),
            Out::Panic(p) => emit_oracle_fail("panic/txbody-donation", &format!("TransactionBody input={} panicked: {}", hex(&tb), p)),
            Out::Err(_) => {}
        }
    }
    // other types where a number is expected, and truncations
    for b in [vec![], vec![0xf6], vec![0xf7], vec![0x40], vec![0x80], vec![0xa0], vec![0xf4], vec![0xff], vec![0x18], vec![0x19, 0], vec![0x1b, 0, 0, 0], vec![0x38], vec![0x3b, 0xff], vec![0x1c], vec![0x1f], vec![0x3f], vec![0xc2, 0x41, 0x01], vec![0xfb, 0, 0, 0, 0, 0, 0, 0, 0]] {
        for kind in 0..5u8 { run(kind, &b, "trivial-other-type", oo) }
    }
    for i in 0..args.n {
        match rng.below(6) {
            0 => { let b = gen_value(&mut rng); if i < 2 { emit_sample(&format!("value {}", hex(&b))) } run(3, &b, "value", oo) }
            1 => { let b = gen_multiasset(&mut rng, true); if i < 4 { emit_sample(&format!("mint {}", hex(&b))) } run(4, &b, "mint", oo) }
            2 => { let b = gen_value(&mut rng); let b = mutate(&mut rng, &b); run(3, &b, "value-mutated", oo) }
            3 => { let b = gen_multiasset(&mut rng, true); let b = mutate(&mut rng, &b); run(4, &b, "mint-mutated", oo) }
            4 => { let mut b = quantity(&mut rng, true); if rng.bool() { b = mutate(&mut rng, &b) } let k = rng.below(3) as u8; run(k, &b, "scalar", oo) }
            _ => { let l = rng.below(12) as usize; let b = rng.bytes(l); let k = rng.below(5) as u8; run(k, &b, "random-bytes", oo) }
        }
    }
}
