//! C24: every `State::apply` of pallas-network2/src/protocol against the Ouroboros
//! mini-protocol state machines.
//!
//! For each protocol the REAL `apply` is executed
//!   * on every (state class x message class) cell with sampled payloads,
//!   * on all message sequences up to a depth from the initial state (one maximal case per
//!     sequence: it ends at the first rejected message or at the depth bound),
//!   * on random long walks (biased towards messages the specification allows).
//! Oracle (independent of the Coq model): a transition table per protocol written here from
//! the network specification; a step must be accepted exactly when the table has the
//! transition, reach the prescribed class, and the new state must carry the message's data.
//! ORACLE_FAIL key = `<protocol>/<state class>/<message class>` (one key per cell).
//! case := C<PROTO> start-state [messages] (RunOk final | RunErr index class)
use pallas_network2::protocol::{
    blockfetch as bf, chainsync as cs, handshake as hs, keepalive as ka, leiosfetch as lf, leiosnotify as ln,
    peersharing as ps, txsubmission as tx, AnyCbor, Error, Point,
};
use std::collections::{BTreeMap, HashMap};
use std::net::{Ipv4Addr, Ipv6Addr};
use verif_harness::*;

// ------------------------------------------------------------------ payload generators / printers
fn small_bytes(r: &mut Rng) -> Vec<u8> {
    let n = match r.below(4) { 0 => 0, 1 => 1, 2 => r.range(2, 5) as usize, _ => 32 };
    r.bytes(n)
}
fn gen_point(r: &mut Rng) -> Point {
    if r.chance(1, 4) { Point::Origin } else { Point::Specific(r.edge_u64(), small_bytes(r)) }
}
fn t_point(p: &Point) -> String {
    match p { Point::Origin => "Origin".into(), Point::Specific(s, h) => format!("(Specific {} {})", s, coq_bytes(h)) }
}
fn gen_tip(r: &mut Rng) -> cs::Tip { cs::Tip(gen_point(r), r.edge_u64()) }
fn t_tip(t: &cs::Tip) -> String { format!("({},{})", t_point(&t.0), t.1) }
fn gen_vec<T, F: FnMut(&mut Rng) -> T>(r: &mut Rng, mut f: F) -> Vec<T> {
    let n = match r.below(4) { 0 => 0, 1 => 1, _ => r.range(2, 4) };
    (0..n).map(|_| f(r)).collect()
}
fn u16e(r: &mut Rng) -> u16 { match r.below(4) { 0 => 0, 1 => u16::MAX, _ => r.next() as u16 } }
fn u32e(r: &mut Rng) -> u32 { match r.below(4) { 0 => 0, 1 => u32::MAX, _ => r.next() as u32 } }
fn u8e(r: &mut Rng) -> u8 { match r.below(4) { 0 => 0, 1 => u8::MAX, _ => r.next() as u8 } }
fn gen_cbor(r: &mut Rng) -> AnyCbor { AnyCbor::from_raw_bytes(small_bytes(r)) }
fn t_cbor(c: &AnyCbor) -> String { coq_bytes(c.raw_bytes()) }
fn err_code(e: &Error) -> i64 {
    match e {
        Error::AgencyIsOurs => 1,
        Error::AgencyIsTheirs => 2,
        Error::InvalidInbound => 3,
        Error::InvalidOutbound => 4,
        Error::Other(_) => 5,
    }
}

// ------------------------------------------------------------------ the protocol interface
trait Proto {
    type S: Clone;
    type M: Clone;
    const NAME: &'static str;
    const CTOR: &'static str;
    const STATES: &'static [&'static str];
    const MSGS: &'static [&'static str];
    /// the specification: (from, message, to), in the implementation's class names
    const SPEC: &'static [(&'static str, &'static str, &'static str)];
    fn init() -> Self::S;
    fn gen_state(class: usize, r: &mut Rng) -> Self::S;
    fn gen_msg(variant: usize, r: &mut Rng) -> Self::M;
    fn class(s: &Self::S) -> usize;
    fn variant(m: &Self::M) -> usize;
    fn apply(s: &Self::S, m: &Self::M) -> Result<Self::S, Error>;
    fn s_term(s: &Self::S) -> String;
    fn m_term(m: &Self::M) -> String;
    /// the state reached by an accepted message carries that message's data
    fn carried(before: &Self::S, m: &Self::M, after: &Self::S) -> bool;
}

fn spec_next<P: Proto>(class: usize, variant: usize) -> Option<usize> {
    let (s, m) = (P::STATES[class], P::MSGS[variant]);
    P::SPEC.iter().find(|(a, b, _)| *a == s && *b == m).map(|(_, _, t)| P::STATES.iter().position(|x| x == t).expect("spec target"))
}

// ---------------------------------------------------------------- keepalive
struct Ka;
impl Proto for Ka {
    type S = ka::State;
    type M = ka::Message;
    const NAME: &'static str = "keepalive";
    const CTOR: &'static str = "CKA";
    const STATES: &'static [&'static str] = &["Client", "Server", "Done"];
    const MSGS: &'static [&'static str] = &["KeepAlive", "ResponseKeepAlive", "Done"];
    const SPEC: &'static [(&'static str, &'static str, &'static str)] =
        &[("Client", "KeepAlive", "Server"), ("Server", "ResponseKeepAlive", "Client"), ("Client", "Done", "Done")];
    fn init() -> Self::S { ka::State::default() }
    fn gen_state(c: usize, r: &mut Rng) -> Self::S {
        match c {
            0 => if r.bool() { ka::State::Client(ka::ClientState::Empty) } else { ka::State::Client(ka::ClientState::Response(u16e(r))) },
            1 => ka::State::Server(u16e(r)),
            _ => ka::State::Done,
        }
    }
    fn gen_msg(v: usize, r: &mut Rng) -> Self::M {
        match v { 0 => ka::Message::KeepAlive(u16e(r)), 1 => ka::Message::ResponseKeepAlive(u16e(r)), _ => ka::Message::Done }
    }
    fn class(s: &Self::S) -> usize { match s { ka::State::Client(_) => 0, ka::State::Server(_) => 1, ka::State::Done => 2 } }
    fn variant(m: &Self::M) -> usize { match m { ka::Message::KeepAlive(_) => 0, ka::Message::ResponseKeepAlive(_) => 1, ka::Message::Done => 2 } }
    fn apply(s: &Self::S, m: &Self::M) -> Result<Self::S, Error> { s.apply(m) }
    fn s_term(s: &Self::S) -> String {
        match s {
            ka::State::Client(ka::ClientState::Empty) => "(KA.SClient KA.Empty)".into(),
            ka::State::Client(ka::ClientState::Response(c)) => format!("(KA.SClient (KA.Response {}))", c),
            ka::State::Server(c) => format!("(KA.SServer {})", c),
            ka::State::Done => "KA.SDone".into(),
        }
    }
    fn m_term(m: &Self::M) -> String {
        match m {
            ka::Message::KeepAlive(c) => format!("(KA.MKeepAlive {})", c),
            ka::Message::ResponseKeepAlive(c) => format!("(KA.MResponseKeepAlive {})", c),
            ka::Message::Done => "KA.MDone".into(),
        }
    }
    fn carried(_b: &Self::S, m: &Self::M, a: &Self::S) -> bool {
        match (m, a) {
            (ka::Message::KeepAlive(c), ka::State::Server(d)) => c == d,
            (ka::Message::ResponseKeepAlive(c), ka::State::Client(ka::ClientState::Response(d))) => c == d,
            (ka::Message::Done, ka::State::Done) => true,
            _ => false,
        }
    }
}

// -------------------------------------------------------------- peersharing
struct Ps;
fn gen_peer(r: &mut Rng) -> ps::PeerAddress {
    if r.bool() { ps::PeerAddress::V4(Ipv4Addr::from_bits(u32e(r)), u16e(r)) }
    else {
        let bits = match r.below(3) { 0 => 0u128, 1 => u128::MAX, _ => ((r.next() as u128) << 64) | r.next() as u128 };
        ps::PeerAddress::V6(Ipv6Addr::from_bits(bits), u16e(r))
    }
}
fn t_peer(p: &ps::PeerAddress) -> String {
    match p {
        ps::PeerAddress::V4(a, port) => format!("(PS.V4 {} {})", a.to_bits(), port),
        ps::PeerAddress::V6(a, port) => format!("(PS.V6 {} {})", a.to_bits(), port),
    }
}
impl Proto for Ps {
    type S = ps::State;
    type M = ps::Message;
    const NAME: &'static str = "peersharing";
    const CTOR: &'static str = "CPS";
    const STATES: &'static [&'static str] = &["Idle", "Busy", "Done"];
    const MSGS: &'static [&'static str] = &["ShareRequest", "SharePeers", "Done"];
    const SPEC: &'static [(&'static str, &'static str, &'static str)] =
        &[("Idle", "ShareRequest", "Busy"), ("Busy", "SharePeers", "Idle"), ("Idle", "Done", "Done")];
    fn init() -> Self::S { ps::State::default() }
    fn gen_state(c: usize, r: &mut Rng) -> Self::S {
        match c {
            0 => if r.bool() { ps::State::Idle(ps::IdleState::Empty) } else { ps::State::Idle(ps::IdleState::Response(gen_vec(r, gen_peer))) },
            1 => ps::State::Busy(u8e(r)),
            _ => ps::State::Done,
        }
    }
    fn gen_msg(v: usize, r: &mut Rng) -> Self::M {
        match v { 0 => ps::Message::ShareRequest(u8e(r)), 1 => ps::Message::SharePeers(gen_vec(r, gen_peer)), _ => ps::Message::Done }
    }
    fn class(s: &Self::S) -> usize { match s { ps::State::Idle(_) => 0, ps::State::Busy(_) => 1, ps::State::Done => 2 } }
    fn variant(m: &Self::M) -> usize { match m { ps::Message::ShareRequest(_) => 0, ps::Message::SharePeers(_) => 1, ps::Message::Done => 2 } }
    fn apply(s: &Self::S, m: &Self::M) -> Result<Self::S, Error> { s.apply(m) }
    fn s_term(s: &Self::S) -> String {
        match s {
            ps::State::Idle(ps::IdleState::Empty) => "(PS.SIdle PS.Empty)".into(),
            ps::State::Idle(ps::IdleState::Response(l)) => format!("(PS.SIdle (PS.Response {}))", coq_list(l, t_peer)),
            ps::State::Busy(n) => format!("(PS.SBusy {})", n),
            ps::State::Done => "PS.SDone".into(),
        }
    }
    fn m_term(m: &Self::M) -> String {
        match m {
            ps::Message::ShareRequest(n) => format!("(PS.MShareRequest {})", n),
            ps::Message::SharePeers(l) => format!("(PS.MSharePeers {})", coq_list(l, t_peer)),
            ps::Message::Done => "PS.MDone".into(),
        }
    }
    fn carried(_b: &Self::S, m: &Self::M, a: &Self::S) -> bool {
        match (m, a) {
            (ps::Message::ShareRequest(n), ps::State::Busy(k)) => n == k,
            (ps::Message::SharePeers(l), ps::State::Idle(ps::IdleState::Response(k))) => l == k,
            (ps::Message::Done, ps::State::Done) => true,
            _ => false,
        }
    }
}

// --------------------------------------------------------------- blockfetch
struct Bf;
impl Proto for Bf {
    type S = bf::State;
    type M = bf::Message;
    const NAME: &'static str = "blockfetch";
    const CTOR: &'static str = "CBF";
    const STATES: &'static [&'static str] = &["Idle", "Busy", "Streaming", "Done"];
    const MSGS: &'static [&'static str] = &["RequestRange", "ClientDone", "StartBatch", "NoBlocks", "Block", "BatchDone"];
    const SPEC: &'static [(&'static str, &'static str, &'static str)] = &[
        ("Idle", "RequestRange", "Busy"), ("Idle", "ClientDone", "Done"), ("Busy", "NoBlocks", "Idle"),
        ("Busy", "StartBatch", "Streaming"), ("Streaming", "Block", "Streaming"), ("Streaming", "BatchDone", "Idle"),
    ];
    fn init() -> Self::S { bf::State::default() }
    fn gen_state(c: usize, r: &mut Rng) -> Self::S {
        match c {
            0 => bf::State::Idle,
            1 => bf::State::Busy((gen_point(r), gen_point(r))),
            2 => bf::State::Streaming(if r.bool() { None } else { Some(small_bytes(r)) }),
            _ => bf::State::Done,
        }
    }
    fn gen_msg(v: usize, r: &mut Rng) -> Self::M {
        match v {
            0 => bf::Message::RequestRange((gen_point(r), gen_point(r))),
            1 => bf::Message::ClientDone,
            2 => bf::Message::StartBatch,
            3 => bf::Message::NoBlocks,
            4 => bf::Message::Block(small_bytes(r)),
            _ => bf::Message::BatchDone,
        }
    }
    fn class(s: &Self::S) -> usize { match s { bf::State::Idle => 0, bf::State::Busy(_) => 1, bf::State::Streaming(_) => 2, bf::State::Done => 3 } }
    fn variant(m: &Self::M) -> usize {
        match m {
            bf::Message::RequestRange(_) => 0, bf::Message::ClientDone => 1, bf::Message::StartBatch => 2,
            bf::Message::NoBlocks => 3, bf::Message::Block(_) => 4, bf::Message::BatchDone => 5,
        }
    }
    fn apply(s: &Self::S, m: &Self::M) -> Result<Self::S, Error> { s.apply(m) }
    fn s_term(s: &Self::S) -> String {
        match s {
            bf::State::Idle => "BF.SIdle".into(),
            bf::State::Busy((a, b)) => format!("(BF.SBusy ({},{}))", t_point(a), t_point(b)),
            bf::State::Streaming(o) => format!("(BF.SStreaming {})", coq_opt(o, |b| coq_bytes(b))),
            bf::State::Done => "BF.SDone".into(),
        }
    }
    fn m_term(m: &Self::M) -> String {
        match m {
            bf::Message::RequestRange((a, b)) => format!("(BF.MRequestRange ({},{}))", t_point(a), t_point(b)),
            bf::Message::ClientDone => "BF.MClientDone".into(),
            bf::Message::StartBatch => "BF.MStartBatch".into(),
            bf::Message::NoBlocks => "BF.MNoBlocks".into(),
            bf::Message::Block(b) => format!("(BF.MBlock {})", coq_bytes(b)),
            bf::Message::BatchDone => "BF.MBatchDone".into(),
        }
    }
    fn carried(_b: &Self::S, m: &Self::M, a: &Self::S) -> bool {
        match (m, a) {
            (bf::Message::RequestRange(x), bf::State::Busy(y)) => x == y,
            (bf::Message::ClientDone, bf::State::Done) => true,
            (bf::Message::NoBlocks, bf::State::Idle) => true,
            (bf::Message::StartBatch, bf::State::Streaming(None)) => true,
            (bf::Message::Block(x), bf::State::Streaming(Some(y))) => x == y,
            (bf::Message::BatchDone, bf::State::Idle) => true,
            _ => false,
        }
    }
}

// ---------------------------------------------------------------- chainsync (C = Vec<u8>)
struct Cs;
type CsState = cs::State<Vec<u8>>;
type CsMsg = cs::Message<Vec<u8>>;
fn gen_data(r: &mut Rng) -> cs::Data<Vec<u8>> {
    match r.below(6) {
        0 => cs::Data::New,
        1 => cs::Data::Intersection(gen_point(r), gen_tip(r)),
        2 => cs::Data::NoIntersection(gen_tip(r)),
        3 => cs::Data::Content(small_bytes(r), gen_tip(r)),
        4 => cs::Data::Rollback(gen_point(r), gen_tip(r)),
        _ => cs::Data::Drained,
    }
}
fn t_data(d: &cs::Data<Vec<u8>>) -> String {
    match d {
        cs::Data::New => "CS.New".into(),
        cs::Data::Intersection(p, t) => format!("(CS.Intersection {} {})", t_point(p), t_tip(t)),
        cs::Data::NoIntersection(t) => format!("(CS.NoIntersection {})", t_tip(t)),
        cs::Data::Content(c, t) => format!("(CS.Content {} {})", coq_bytes(c), t_tip(t)),
        cs::Data::Rollback(p, t) => format!("(CS.Rollback {} {})", t_point(p), t_tip(t)),
        cs::Data::Drained => "CS.Drained".into(),
    }
}
impl Proto for Cs {
    type S = CsState;
    type M = CsMsg;
    const NAME: &'static str = "chainsync";
    const CTOR: &'static str = "CCS";
    const STATES: &'static [&'static str] = &["Idle", "CanAwait", "MustReply", "Intersect", "Done"];
    const MSGS: &'static [&'static str] =
        &["RequestNext", "AwaitReply", "RollForward", "RollBackward", "FindIntersect", "IntersectFound", "IntersectNotFound", "Done"];
    const SPEC: &'static [(&'static str, &'static str, &'static str)] = &[
        ("Idle", "RequestNext", "CanAwait"), ("CanAwait", "AwaitReply", "MustReply"), ("CanAwait", "RollForward", "Idle"),
        ("CanAwait", "RollBackward", "Idle"), ("MustReply", "RollForward", "Idle"), ("MustReply", "RollBackward", "Idle"),
        ("Idle", "FindIntersect", "Intersect"), ("Intersect", "IntersectFound", "Idle"), ("Intersect", "IntersectNotFound", "Idle"),
        ("Idle", "Done", "Done"),
    ];
    fn init() -> Self::S { CsState::default() }
    fn gen_state(c: usize, r: &mut Rng) -> Self::S {
        match c {
            0 => cs::State::Idle(gen_data(r)),
            1 => cs::State::CanAwait,
            2 => cs::State::MustReply,
            3 => cs::State::Intersect(gen_vec(r, gen_point)),
            _ => cs::State::Done,
        }
    }
    fn gen_msg(v: usize, r: &mut Rng) -> Self::M {
        match v {
            0 => cs::Message::RequestNext,
            1 => cs::Message::AwaitReply,
            2 => cs::Message::RollForward(small_bytes(r), gen_tip(r)),
            3 => cs::Message::RollBackward(gen_point(r), gen_tip(r)),
            4 => cs::Message::FindIntersect(gen_vec(r, gen_point)),
            5 => cs::Message::IntersectFound(gen_point(r), gen_tip(r)),
            6 => cs::Message::IntersectNotFound(gen_tip(r)),
            _ => cs::Message::Done,
        }
    }
    fn class(s: &Self::S) -> usize {
        match s { cs::State::Idle(_) => 0, cs::State::CanAwait => 1, cs::State::MustReply => 2, cs::State::Intersect(_) => 3, cs::State::Done => 4 }
    }
    fn variant(m: &Self::M) -> usize {
        match m {
            cs::Message::RequestNext => 0, cs::Message::AwaitReply => 1, cs::Message::RollForward(..) => 2,
            cs::Message::RollBackward(..) => 3, cs::Message::FindIntersect(_) => 4, cs::Message::IntersectFound(..) => 5,
            cs::Message::IntersectNotFound(_) => 6, cs::Message::Done => 7,
        }
    }
    fn apply(s: &Self::S, m: &Self::M) -> Result<Self::S, Error> { s.apply(m) }
    fn s_term(s: &Self::S) -> String {
        match s {
            cs::State::Idle(d) => format!("(CS.SIdle {})", t_data(d)),
            cs::State::CanAwait => "CS.SCanAwait".into(),
            cs::State::MustReply => "CS.SMustReply".into(),
            cs::State::Intersect(ps) => format!("(CS.SIntersect {})", coq_list(ps, t_point)),
            cs::State::Done => "CS.SDone".into(),
        }
    }
    fn m_term(m: &Self::M) -> String {
        match m {
            cs::Message::RequestNext => "CS.MRequestNext".into(),
            cs::Message::AwaitReply => "CS.MAwaitReply".into(),
            cs::Message::RollForward(c, t) => format!("(CS.MRollForward {} {})", coq_bytes(c), t_tip(t)),
            cs::Message::RollBackward(p, t) => format!("(CS.MRollBackward {} {})", t_point(p), t_tip(t)),
            cs::Message::FindIntersect(ps) => format!("(CS.MFindIntersect {})", coq_list(ps, t_point)),
            cs::Message::IntersectFound(p, t) => format!("(CS.MIntersectFound {} {})", t_point(p), t_tip(t)),
            cs::Message::IntersectNotFound(t) => format!("(CS.MIntersectNotFound {})", t_tip(t)),
            cs::Message::Done => "CS.MDone".into(),
        }
    }
    fn carried(_b: &Self::S, m: &Self::M, a: &Self::S) -> bool {
        match (m, a) {
            (cs::Message::RequestNext, cs::State::CanAwait) => true,
            (cs::Message::AwaitReply, cs::State::MustReply) => true,
            (cs::Message::RollForward(c, t), cs::State::Idle(cs::Data::Content(c2, t2))) => c == c2 && t == t2,
            (cs::Message::RollBackward(p, t), cs::State::Idle(cs::Data::Rollback(p2, t2))) => p == p2 && t == t2,
            (cs::Message::FindIntersect(x), cs::State::Intersect(y)) => x == y,
            (cs::Message::IntersectFound(p, t), cs::State::Idle(cs::Data::Intersection(p2, t2))) => p == p2 && t == t2,
            (cs::Message::IntersectNotFound(t), cs::State::Idle(cs::Data::NoIntersection(t2))) => t == t2,
            (cs::Message::Done, cs::State::Done) => true,
            _ => false,
        }
    }
}

// ---------------------------------------------------------------- handshake (D = u64)
struct Hs;
type HsState = hs::State<u64>;
type HsMsg = hs::Message<u64>;
fn gen_table(r: &mut Rng) -> hs::VersionTable<u64> {
    let mut values = HashMap::new();
    for _ in 0..r.below(4) { values.insert(r.range(7, 15), r.edge_u64()); }
    hs::VersionTable { values }
}
fn t_table(t: &hs::VersionTable<u64>) -> String {
    let mut kv: Vec<(u64, u64)> = t.values.iter().map(|(k, v)| (*k, *v)).collect();
    kv.sort();
    coq_list(&kv, |(k, v)| format!("({},{})", k, v))
}
fn gen_refuse(r: &mut Rng) -> hs::RefuseReason {
    match r.below(3) {
        0 => hs::RefuseReason::VersionMismatch(gen_vec(r, |r| r.range(1, 20))),
        1 => hs::RefuseReason::HandshakeDecodeError(r.range(1, 20), "bad".into()),
        _ => hs::RefuseReason::Refused(r.range(1, 20), if r.bool() { String::new() } else { "no".into() }),
    }
}
fn t_refuse(x: &hs::RefuseReason) -> String {
    match x {
        hs::RefuseReason::VersionMismatch(v) => format!("(HS.VersionMismatch {})", coq_list(v, |z| z.to_string())),
        hs::RefuseReason::HandshakeDecodeError(v, s) => format!("(HS.HandshakeDecodeError {} {})", v, coq_bytes(s.as_bytes())),
        hs::RefuseReason::Refused(v, s) => format!("(HS.Refused {} {})", v, coq_bytes(s.as_bytes())),
    }
}
impl Proto for Hs {
    type S = HsState;
    type M = HsMsg;
    const NAME: &'static str = "handshake";
    const CTOR: &'static str = "CHS";
    const STATES: &'static [&'static str] = &["Propose", "Confirm", "Done"];
    const MSGS: &'static [&'static str] = &["Propose", "Accept", "Refuse", "QueryReply"];
    const SPEC: &'static [(&'static str, &'static str, &'static str)] = &[
        ("Propose", "Propose", "Confirm"), ("Confirm", "Accept", "Done"), ("Confirm", "Refuse", "Done"), ("Confirm", "QueryReply", "Done"),
    ];
    fn init() -> Self::S { HsState::default() }
    fn gen_state(c: usize, r: &mut Rng) -> Self::S {
        match c {
            0 => hs::State::Propose,
            1 => hs::State::Confirm(gen_table(r)),
            _ => hs::State::Done(match r.below(3) {
                0 => hs::DoneState::Accepted(r.range(7, 15), r.edge_u64()),
                1 => hs::DoneState::Rejected(gen_refuse(r)),
                _ => hs::DoneState::QueryReply(gen_table(r)),
            }),
        }
    }
    fn gen_msg(v: usize, r: &mut Rng) -> Self::M {
        match v {
            0 => hs::Message::Propose(gen_table(r)),
            1 => hs::Message::Accept(r.range(7, 15), r.edge_u64()),
            2 => hs::Message::Refuse(gen_refuse(r)),
            _ => hs::Message::QueryReply(gen_table(r)),
        }
    }
    fn class(s: &Self::S) -> usize { match s { hs::State::Propose => 0, hs::State::Confirm(_) => 1, hs::State::Done(_) => 2 } }
    fn variant(m: &Self::M) -> usize {
        match m { hs::Message::Propose(_) => 0, hs::Message::Accept(..) => 1, hs::Message::Refuse(_) => 2, hs::Message::QueryReply(_) => 3 }
    }
    fn apply(s: &Self::S, m: &Self::M) -> Result<Self::S, Error> { s.apply(m) }
    fn s_term(s: &Self::S) -> String {
        match s {
            hs::State::Propose => "HS.SPropose".into(),
            hs::State::Confirm(t) => format!("(HS.SConfirm {})", t_table(t)),
            hs::State::Done(hs::DoneState::Accepted(v, d)) => format!("(HS.SDone (HS.Accepted {} {}))", v, d),
            hs::State::Done(hs::DoneState::Rejected(x)) => format!("(HS.SDone (HS.Rejected {}))", t_refuse(x)),
            hs::State::Done(hs::DoneState::QueryReply(t)) => format!("(HS.SDone (HS.DQueryReply {}))", t_table(t)),
        }
    }
    fn m_term(m: &Self::M) -> String {
        match m {
            hs::Message::Propose(t) => format!("(HS.MPropose {})", t_table(t)),
            hs::Message::Accept(v, d) => format!("(HS.MAccept {} {})", v, d),
            hs::Message::Refuse(x) => format!("(HS.MRefuse {})", t_refuse(x)),
            hs::Message::QueryReply(t) => format!("(HS.MQueryReply {})", t_table(t)),
        }
    }
    fn carried(_b: &Self::S, m: &Self::M, a: &Self::S) -> bool {
        match (m, a) {
            (hs::Message::Propose(t), hs::State::Confirm(u)) => t == u,
            (hs::Message::Accept(v, d), hs::State::Done(hs::DoneState::Accepted(v2, d2))) => v == v2 && d == d2,
            (hs::Message::Refuse(x), hs::State::Done(hs::DoneState::Rejected(y))) => x == y,
            (hs::Message::QueryReply(t), hs::State::Done(hs::DoneState::QueryReply(u))) => t == u,
            _ => false,
        }
    }
}

// ------------------------------------------------------------- txsubmission
struct Tx;
fn gen_txid(r: &mut Rng) -> tx::EraTxId { tx::EraTxId(r.range(0, 7) as u16, small_bytes(r)) }
fn gen_txbody(r: &mut Rng) -> tx::EraTxBody { tx::EraTxBody(r.range(0, 7) as u16, small_bytes(r)) }
fn t_txid(x: &tx::EraTxId) -> String { format!("({},{})", x.0, coq_bytes(&x.1)) }
fn t_txbody(x: &tx::EraTxBody) -> String { format!("({},{})", x.0, coq_bytes(&x.1)) }
impl Proto for Tx {
    type S = tx::State;
    type M = tx::Message;
    const NAME: &'static str = "txsubmission";
    const CTOR: &'static str = "CTX";
    const STATES: &'static [&'static str] = &["Init", "Idle", "TxIdsNonBlocking", "TxIdsBlocking", "Txs", "Done"];
    const MSGS: &'static [&'static str] = &["Init", "RequestTxIds(true)", "RequestTxIds(false)", "ReplyTxIds", "RequestTxs", "ReplyTxs", "Done"];
    const SPEC: &'static [(&'static str, &'static str, &'static str)] = &[
        ("Init", "Init", "Idle"), ("Idle", "RequestTxIds(true)", "TxIdsBlocking"), ("Idle", "RequestTxIds(false)", "TxIdsNonBlocking"),
        ("TxIdsBlocking", "ReplyTxIds", "Idle"), ("TxIdsNonBlocking", "ReplyTxIds", "Idle"), ("Idle", "RequestTxs", "Txs"),
        ("Txs", "ReplyTxs", "Idle"), ("TxIdsBlocking", "Done", "Done"),
    ];
    fn init() -> Self::S { tx::State::default() }
    fn gen_state(c: usize, r: &mut Rng) -> Self::S {
        match c {
            0 => tx::State::Init, 1 => tx::State::Idle, 2 => tx::State::TxIdsNonBlocking, 3 => tx::State::TxIdsBlocking,
            4 => tx::State::Txs(gen_vec(r, gen_txbody)), _ => tx::State::Done,
        }
    }
    fn gen_msg(v: usize, r: &mut Rng) -> Self::M {
        match v {
            0 => tx::Message::Init,
            1 => tx::Message::RequestTxIds(true, u16e(r), u16e(r)),
            2 => tx::Message::RequestTxIds(false, u16e(r), u16e(r)),
            3 => tx::Message::ReplyTxIds(gen_vec(r, |r| tx::TxIdAndSize(gen_txid(r), u32e(r)))),
            4 => tx::Message::RequestTxs(gen_vec(r, gen_txid)),
            5 => tx::Message::ReplyTxs(gen_vec(r, gen_txbody)),
            _ => tx::Message::Done,
        }
    }
    fn class(s: &Self::S) -> usize {
        match s {
            tx::State::Init => 0, tx::State::Idle => 1, tx::State::TxIdsNonBlocking => 2, tx::State::TxIdsBlocking => 3,
            tx::State::Txs(_) => 4, tx::State::Done => 5,
        }
    }
    fn variant(m: &Self::M) -> usize {
        match m {
            tx::Message::Init => 0, tx::Message::RequestTxIds(true, ..) => 1, tx::Message::RequestTxIds(false, ..) => 2,
            tx::Message::ReplyTxIds(_) => 3, tx::Message::RequestTxs(_) => 4, tx::Message::ReplyTxs(_) => 5, tx::Message::Done => 6,
        }
    }
    fn apply(s: &Self::S, m: &Self::M) -> Result<Self::S, Error> { s.apply(m) }
    fn s_term(s: &Self::S) -> String {
        match s {
            tx::State::Init => "TX.SInit".into(), tx::State::Idle => "TX.SIdle".into(),
            tx::State::TxIdsNonBlocking => "TX.STxIdsNonBlocking".into(), tx::State::TxIdsBlocking => "TX.STxIdsBlocking".into(),
            tx::State::Txs(l) => format!("(TX.STxs {})", coq_list(l, t_txbody)), tx::State::Done => "TX.SDone".into(),
        }
    }
    fn m_term(m: &Self::M) -> String {
        match m {
            tx::Message::Init => "TX.MInit".into(),
            tx::Message::RequestTxIds(b, a, q) => format!("(TX.MRequestTxIds {} {} {})", coq_bool(*b), a, q),
            tx::Message::ReplyTxIds(l) => format!("(TX.MReplyTxIds {})", coq_list(l, |x| format!("({},{})", t_txid(&x.0), x.1))),
            tx::Message::RequestTxs(l) => format!("(TX.MRequestTxs {})", coq_list(l, t_txid)),
            tx::Message::ReplyTxs(l) => format!("(TX.MReplyTxs {})", coq_list(l, t_txbody)),
            tx::Message::Done => "TX.MDone".into(),
        }
    }
    // the class transition is all the specification prescribes where the state type has no payload
    fn carried(_b: &Self::S, _m: &Self::M, _a: &Self::S) -> bool { true }
}

// -------------------------------------------------------------- leiosnotify
struct Ln;
fn t_notif(n: &ln::Notification) -> String {
    match n {
        ln::Notification::BlockAnnouncement(h) => format!("(LN.BlockAnnouncement {})", t_cbor(h)),
        ln::Notification::BlockOffer(p, s) => format!("(LN.BlockOffer {} {})", t_point(p), s),
        ln::Notification::BlockTxsOffer(p) => format!("(LN.BlockTxsOffer {})", t_point(p)),
        ln::Notification::Votes(v) => format!("(LN.Votes {})", coq_list(v, t_cbor)),
    }
}
impl Proto for Ln {
    type S = ln::State;
    type M = ln::Message;
    const NAME: &'static str = "leiosnotify";
    const CTOR: &'static str = "CLN";
    const STATES: &'static [&'static str] = &["Idle", "Busy", "Done"];
    const MSGS: &'static [&'static str] = &["RequestNext", "BlockAnnouncement", "BlockOffer", "BlockTxsOffer", "Votes", "Done"];
    const SPEC: &'static [(&'static str, &'static str, &'static str)] = &[
        ("Idle", "RequestNext", "Busy"), ("Busy", "BlockAnnouncement", "Idle"), ("Busy", "BlockOffer", "Idle"),
        ("Busy", "BlockTxsOffer", "Idle"), ("Busy", "Votes", "Idle"), ("Idle", "Done", "Done"),
    ];
    fn init() -> Self::S { ln::State::default() }
    fn gen_state(c: usize, r: &mut Rng) -> Self::S {
        match c {
            0 => ln::State::Idle(match r.below(5) {
                0 => None,
                1 => Some(ln::Notification::BlockAnnouncement(gen_cbor(r))),
                2 => Some(ln::Notification::BlockOffer(gen_point(r), u32e(r))),
                3 => Some(ln::Notification::BlockTxsOffer(gen_point(r))),
                _ => Some(ln::Notification::Votes(gen_vec(r, gen_cbor))),
            }),
            1 => ln::State::Busy,
            _ => ln::State::Done,
        }
    }
    fn gen_msg(v: usize, r: &mut Rng) -> Self::M {
        match v {
            0 => ln::Message::RequestNext,
            1 => ln::Message::BlockAnnouncement(gen_cbor(r)),
            2 => ln::Message::BlockOffer(gen_point(r), u32e(r)),
            3 => ln::Message::BlockTxsOffer(gen_point(r)),
            4 => ln::Message::Votes(gen_vec(r, gen_cbor)),
            _ => ln::Message::Done,
        }
    }
    fn class(s: &Self::S) -> usize { match s { ln::State::Idle(_) => 0, ln::State::Busy => 1, ln::State::Done => 2 } }
    fn variant(m: &Self::M) -> usize {
        match m {
            ln::Message::RequestNext => 0, ln::Message::BlockAnnouncement(_) => 1, ln::Message::BlockOffer(..) => 2,
            ln::Message::BlockTxsOffer(_) => 3, ln::Message::Votes(_) => 4, ln::Message::Done => 5,
        }
    }
    fn apply(s: &Self::S, m: &Self::M) -> Result<Self::S, Error> { s.apply(m) }
    fn s_term(s: &Self::S) -> String {
        match s {
            ln::State::Idle(n) => format!("(LN.SIdle {})", coq_opt(n, t_notif)),
            ln::State::Busy => "LN.SBusy".into(),
            ln::State::Done => "LN.SDone".into(),
        }
    }
    fn m_term(m: &Self::M) -> String {
        match m {
            ln::Message::RequestNext => "LN.MRequestNext".into(),
            ln::Message::BlockAnnouncement(h) => format!("(LN.MBlockAnnouncement {})", t_cbor(h)),
            ln::Message::BlockOffer(p, s) => format!("(LN.MBlockOffer {} {})", t_point(p), s),
            ln::Message::BlockTxsOffer(p) => format!("(LN.MBlockTxsOffer {})", t_point(p)),
            ln::Message::Votes(v) => format!("(LN.MVotes {})", coq_list(v, t_cbor)),
            ln::Message::Done => "LN.MDone".into(),
        }
    }
    fn carried(_b: &Self::S, m: &Self::M, a: &Self::S) -> bool {
        match (m, a) {
            (ln::Message::RequestNext, ln::State::Busy) => true,
            (ln::Message::BlockAnnouncement(h), ln::State::Idle(Some(ln::Notification::BlockAnnouncement(h2)))) => h.raw_bytes() == h2.raw_bytes(),
            (ln::Message::BlockOffer(p, s), ln::State::Idle(Some(ln::Notification::BlockOffer(p2, s2)))) => p == p2 && s == s2,
            (ln::Message::BlockTxsOffer(p), ln::State::Idle(Some(ln::Notification::BlockTxsOffer(p2)))) => p == p2,
            (ln::Message::Votes(v), ln::State::Idle(Some(ln::Notification::Votes(v2)))) =>
                v.len() == v2.len() && v.iter().zip(v2).all(|(a, b)| a.raw_bytes() == b.raw_bytes()),
            (ln::Message::Done, ln::State::Done) => true,
            _ => false,
        }
    }
}

// --------------------------------------------------------------- leiosfetch
struct Lf;
fn gen_bitmaps(r: &mut Rng) -> lf::Bitmaps {
    let mut m = BTreeMap::new();
    for _ in 0..r.below(4) { m.insert(r.range(0, 5) as u16, r.edge_u64()); }
    lf::Bitmaps(m)
}
fn t_bitmaps(b: &lf::Bitmaps) -> String {
    let kv: Vec<(u16, u64)> = b.0.iter().map(|(k, v)| (*k, *v)).collect();
    coq_list(&kv, |(k, v)| format!("({},{})", k, v))
}
fn t_resp(x: &(Point, lf::Response)) -> String {
    match &x.1 {
        lf::Response::Block(b) => format!("({},LF.RBlock {})", t_point(&x.0), t_cbor(b)),
        lf::Response::BlockTxs { txs } => format!("({},LF.RBlockTxs {})", t_point(&x.0), coq_list(txs, t_cbor)),
    }
}
fn cbors_eq(a: &[AnyCbor], b: &[AnyCbor]) -> bool { a.len() == b.len() && a.iter().zip(b).all(|(x, y)| x.raw_bytes() == y.raw_bytes()) }
impl Proto for Lf {
    type S = lf::State;
    type M = lf::Message;
    const NAME: &'static str = "leiosfetch";
    const CTOR: &'static str = "CLF";
    const STATES: &'static [&'static str] = &["Idle", "AwaitingBlock", "AwaitingBlockTxs", "Done"];
    const MSGS: &'static [&'static str] = &["BlockRequest", "Block", "BlockTxsRequest", "BlockTxs", "Done"];
    const SPEC: &'static [(&'static str, &'static str, &'static str)] = &[
        ("Idle", "BlockRequest", "AwaitingBlock"), ("AwaitingBlock", "Block", "Idle"), ("Idle", "BlockTxsRequest", "AwaitingBlockTxs"),
        ("AwaitingBlockTxs", "BlockTxs", "Idle"), ("Idle", "Done", "Done"),
    ];
    fn init() -> Self::S { lf::State::default() }
    fn gen_state(c: usize, r: &mut Rng) -> Self::S {
        match c {
            0 => lf::State::Idle(match r.below(3) {
                0 => None,
                1 => Some((gen_point(r), lf::Response::Block(gen_cbor(r)))),
                _ => Some((gen_point(r), lf::Response::BlockTxs { txs: gen_vec(r, gen_cbor) })),
            }),
            1 => lf::State::AwaitingBlock(gen_point(r)),
            2 => lf::State::AwaitingBlockTxs(gen_point(r), gen_bitmaps(r)),
            _ => lf::State::Done,
        }
    }
    fn gen_msg(v: usize, r: &mut Rng) -> Self::M {
        match v {
            0 => lf::Message::BlockRequest(gen_point(r)),
            1 => lf::Message::Block(gen_cbor(r)),
            2 => lf::Message::BlockTxsRequest(gen_point(r), gen_bitmaps(r)),
            3 => lf::Message::BlockTxs { point: gen_point(r), bitmaps: gen_bitmaps(r), txs: gen_vec(r, gen_cbor) },
            _ => lf::Message::Done,
        }
    }
    fn class(s: &Self::S) -> usize {
        match s { lf::State::Idle(_) => 0, lf::State::AwaitingBlock(_) => 1, lf::State::AwaitingBlockTxs(..) => 2, lf::State::Done => 3 }
    }
    fn variant(m: &Self::M) -> usize {
        match m {
            lf::Message::BlockRequest(_) => 0, lf::Message::Block(_) => 1, lf::Message::BlockTxsRequest(..) => 2,
            lf::Message::BlockTxs { .. } => 3, lf::Message::Done => 4,
        }
    }
    fn apply(s: &Self::S, m: &Self::M) -> Result<Self::S, Error> { s.apply(m) }
    fn s_term(s: &Self::S) -> String {
        match s {
            lf::State::Idle(x) => format!("(LF.SIdle {})", coq_opt(x, t_resp)),
            lf::State::AwaitingBlock(p) => format!("(LF.SAwaitingBlock {})", t_point(p)),
            lf::State::AwaitingBlockTxs(p, b) => format!("(LF.SAwaitingBlockTxs {} {})", t_point(p), t_bitmaps(b)),
            lf::State::Done => "LF.SDone".into(),
        }
    }
    fn m_term(m: &Self::M) -> String {
        match m {
            lf::Message::BlockRequest(p) => format!("(LF.MBlockRequest {})", t_point(p)),
            lf::Message::Block(b) => format!("(LF.MBlock {})", t_cbor(b)),
            lf::Message::BlockTxsRequest(p, b) => format!("(LF.MBlockTxsRequest {} {})", t_point(p), t_bitmaps(b)),
            lf::Message::BlockTxs { point, bitmaps, txs } =>
                format!("(LF.MBlockTxs {} {} {})", t_point(point), t_bitmaps(bitmaps), coq_list(txs, t_cbor)),
            lf::Message::Done => "LF.MDone".into(),
        }
    }
    fn carried(b: &Self::S, m: &Self::M, a: &Self::S) -> bool {
        match (b, m, a) {
            (_, lf::Message::BlockRequest(p), lf::State::AwaitingBlock(q)) => p == q,
            (_, lf::Message::BlockTxsRequest(p, bm), lf::State::AwaitingBlockTxs(q, bm2)) => p == q && bm == bm2,
            (lf::State::AwaitingBlock(eb), lf::Message::Block(x), lf::State::Idle(Some((eb2, lf::Response::Block(y))))) =>
                eb == eb2 && x.raw_bytes() == y.raw_bytes(),
            (lf::State::AwaitingBlockTxs(eb, _), lf::Message::BlockTxs { txs, .. }, lf::State::Idle(Some((eb2, lf::Response::BlockTxs { txs: t2 })))) =>
                eb == eb2 && cbors_eq(txs, t2),
            (_, lf::Message::Done, lf::State::Done) => true,
            _ => false,
        }
    }
}

// ------------------------------------------------------------------ driver
struct Ctx { oracle_only: bool, cases: u64, steps: u64, accepted: u64, rejected: u64 }

enum Obs<S> { Final(S), Err(usize, i64), Panic(usize) }

/// Applies `ms` from `s0` with the real `apply`, checks every step against the specification,
/// and emits the case.
fn run_case<P: Proto>(cx: &mut Ctx, tag: &str, s0: &P::S, ms: &[P::M]) -> bool {
    let mut cur = s0.clone();
    let mut obs: Option<Obs<P::S>> = None;
    let mut oracle_live = true; // after a deviation the real state and the specification's differ
    for (i, m) in ms.iter().enumerate() {
        cx.steps += 1;
        let (c, v) = (P::class(&cur), P::variant(m));
        let key = format!("{}/{}/{}", P::NAME, P::STATES[c], P::MSGS[v]);
        let want = spec_next::<P>(c, v);
        let got = guard(|| Ok(P::apply(&cur, m)));
        let describe = |what: &str| {
            format!("protocol={} start={} messages={} step={} state={} message={} : {}",
                P::NAME, P::s_term(s0), coq_list(ms, |x| P::m_term(x)), i, P::s_term(&cur), P::m_term(m), what)
        };
        match got {
            Out::Ok(Ok(next)) => {
                cx.accepted += 1;
                if oracle_live {
                    match want {
                        None => { emit_oracle_fail(&key, &describe(&format!("accepted into {} but the specification has no such transition", P::s_term(&next)))); oracle_live = false; }
                        Some(t) if P::class(&next) != t => {
                            emit_oracle_fail(&key, &describe(&format!("next state {} but the specification prescribes {}", P::s_term(&next), P::STATES[t])));
                            oracle_live = false;
                        }
                        Some(_) if !P::carried(&cur, m, &next) => {
                            emit_oracle_fail(&format!("{}/data", key), &describe(&format!("next state {} does not carry the message's data", P::s_term(&next))));
                            oracle_live = false;
                        }
                        Some(_) => {}
                    }
                }
                cur = next;
            }
            Out::Ok(Err(e)) => {
                cx.rejected += 1;
                if oracle_live {
                    if let Some(t) = want {
                        emit_oracle_fail(&key, &describe(&format!("rejected ({:?}) but the specification permits it (next state {})", e, P::STATES[t])));
                    }
                }
                obs = Some(Obs::Err(i, err_code(&e)));
                break;
            }
            Out::Err(_) => unreachable!(),
            Out::Panic(p) => {
                emit_oracle_fail(&format!("{}/panic", key), &describe(&format!("panicked: {}", p)));
                obs = Some(Obs::Panic(i));
                break;
            }
        }
    }
    let obs = obs.unwrap_or(Obs::Final(cur));
    let ended_ok = matches!(obs, Obs::Final(_));
    if !cx.oracle_only {
        let o = match &obs {
            Obs::Final(s) => format!("(RunOk {})", P::s_term(s)),
            Obs::Err(i, e) => format!("(RunErr {} {})", i, e),
            Obs::Panic(i) => format!("(RunErr {} (-1))", i),
        };
        emit_case(&format!("{}:{}", P::NAME, tag), &format!("{} {} {} {}", P::CTOR, P::s_term(s0), coq_list(ms, |x| P::m_term(x)), o));
        cx.cases += 1;
    }
    ended_ok
}

/// all message sequences from the initial state: extend only accepted prefixes; every
/// (accepted prefix + one more message) is tried, maximal ones are emitted.
fn dfs<P: Proto>(cx: &mut Ctx, r: &mut Rng, prefix: &mut Vec<P::M>, cur: &P::S, depth: usize, count: &mut u64) {
    for v in 0..P::MSGS.len() {
        let m = P::gen_msg(v, r);
        let next = guard(|| Ok(P::apply(cur, &m)));
        prefix.push(m);
        match next {
            Out::Ok(Ok(n)) if prefix.len() < depth => dfs::<P>(cx, r, prefix, &n, depth, count),
            _ => { run_case::<P>(cx, "all-sequences", &P::init(), prefix); *count += 1; }
        }
        prefix.pop();
    }
}

fn protocol<P: Proto>(cx: &mut Ctx, r: &mut Rng, thorough: bool, n: usize) {
    // the harness's oracle table itself, checked against Spec.v inside Coq
    if !cx.oracle_only {
        for (c, s) in P::STATES.iter().enumerate() {
            for (v, m) in P::MSGS.iter().enumerate() {
                let nx = spec_next::<P>(c, v).map(|t| format!("\"{}\"", P::STATES[t]));
                emit_case(&format!("{}:oracle-table", P::NAME), &format!("CSpec \"{}\" \"{}\" \"{}\" {}", P::NAME, s, m, coq_opt(&nx, |x| x.clone())));
            }
        }
    }
    // 1. every cell, sampled payloads
    let k = if thorough { 12 } else { 3 };
    for c in 0..P::STATES.len() {
        for v in 0..P::MSGS.len() {
            for _ in 0..k {
                let s = P::gen_state(c, r);
                let m = P::gen_msg(v, r);
                assert_eq!(P::class(&s), c);
                assert_eq!(P::variant(&m), v);
                run_case::<P>(cx, "cell", &s, &[m]);
            }
        }
    }
    // 2. all sequences from the initial state
    let depth = if thorough { 8 } else { 5 };
    let mut count = 0u64;
    dfs::<P>(cx, r, &mut Vec::new(), &P::init(), depth, &mut count);
    emit_stat(&format!("{}_sequences_depth{}", P::NAME, depth), count);
    // 3. random walks from a random state; mostly messages the specification allows
    for _ in 0..n {
        let c0 = if r.chance(2, 3) { P::class(&P::init()) } else { r.below(P::STATES.len() as u64) as usize };
        let s0 = if r.chance(1, 3) && c0 == P::class(&P::init()) { P::init() } else { P::gen_state(c0, r) };
        let len = r.range(1, 30) as usize;
        let mut ms: Vec<P::M> = Vec::new();
        let mut cls = c0; // follows the REAL machine so that long accepted runs happen
        let mut cur = s0.clone();
        for _ in 0..len {
            let allowed: Vec<usize> = (0..P::MSGS.len()).filter(|v| spec_next::<P>(cls, *v).is_some()).collect();
            let v = if !allowed.is_empty() && r.chance(9, 10) { *r.pick(&allowed) } else { r.below(P::MSGS.len() as u64) as usize };
            let m = P::gen_msg(v, r);
            let nx = guard(|| Ok(P::apply(&cur, &m)));
            ms.push(m);
            match nx { Out::Ok(Ok(nn)) => { cls = P::class(&nn); cur = nn; } _ => break }
        }
        run_case::<P>(cx, "random-walk", &s0, &ms);
    }
}

fn main() {
    let args = args();
    let mut r = Rng::new(args.seed);
    let thorough = args.tier == "thorough";
    let mut cx = Ctx { oracle_only: args.oracle_only, cases: 0, steps: 0, accepted: 0, rejected: 0 };
    let n = (args.n / 8).max(1);
    protocol::<Bf>(&mut cx, &mut r, thorough, n);
    protocol::<Cs>(&mut cx, &mut r, thorough, n);
    protocol::<Hs>(&mut cx, &mut r, thorough, n);
    protocol::<Ka>(&mut cx, &mut r, thorough, n);
    protocol::<Lf>(&mut cx, &mut r, thorough, n);
    protocol::<Ln>(&mut cx, &mut r, thorough, n);
    protocol::<Ps>(&mut cx, &mut r, thorough, n);
    protocol::<Tx>(&mut cx, &mut r, thorough, n);
    emit_stat("steps_oracle", cx.steps);
    emit_stat("steps_accepted", cx.accepted);
    emit_stat("steps_rejected", cx.rejected);
    emit_sample("CKA (KA.SClient KA.Empty) [KA.MKeepAlive 7; KA.MResponseKeepAlive 7] -> RunOk (KA.SClient (KA.Response 7))");
}
