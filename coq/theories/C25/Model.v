(* C25 model: handshake negotiation of both responders.

   OLD STACK  pallas-network/src/miniprotocols/handshake/server.rs, Server::handshake:
       client_versions = received Propose table .values.into_iter().collect::<Vec<(u64, D)>>()
       versions = our table .values.into_iter().collect::<Vec<_>>(); versions.sort_by_key(|v| Reverse(v.0));
       for (ver_num, ver_data) in versions {
         for (client_ver_num, client_ver_data) in client_versions {
           if ver_num == client_ver_num {
             if ver_data == client_ver_data { accept_version(ver_num, ver_data); return Ok(Some(..)) }
             else { refuse(Refused(ver_num, "...")); return Ok(None) } } } }
       refuse(VersionMismatch(versions.map(|(num, _)| num)))

   NEW STACK  pallas-network2/src/behavior/responder/handshake.rs, try_accept_handshake:
       negotiated = proposed.values.iter()
           .filter(|(num, _)| supported.values.contains_key(num))
           .max_by_key(|(num, _)| *num)
           .map(|(num, peer_data)| (num, peer_data, supported.values[num]))
       Some(version, peer_data, our_data) =>
           if peer_data.network_magic != our_data.network_magic { Send Refuse(Refused(version, "network magic mismatch")) }
           else { Send Accept(version, our_data); connection = Initialized; event PeerInitialized(version, our_data) }
       None => Send Refuse(VersionMismatch(supported.values.keys()))

   A HashMap<u64, D> is an association list in ITERATION ORDER, which is
   arbitrary: the theorems hold for every order (they are stated with list
   membership only).  Version numbers are u64 = Z; only compared, never
   computed with. *)
From PV Require Import Lib.Base.
Open Scope Z_scope.

(* n2n::VersionData { network_magic, initiator_only_diffusion_mode, peer_sharing, query }, derived PartialEq *)
Definition vdata : Type := (Z * bool * option Z * option bool).
Definition magic (d : vdata) : Z := let '(m, _, _, _) := d in m.

Definition opt_eqb {A} (e : A -> A -> bool) (a b : option A) : bool :=
  match a, b with Some x, Some y => e x y | None, None => true | _, _ => false end.

Definition vdata_eqb (a b : vdata) : bool :=
  let '(m1, i1, p1, q1) := a in let '(m2, i2, p2, q2) := b in
  (m1 =? m2) && Bool.eqb i1 i2 && opt_eqb Z.eqb p1 p2 && opt_eqb Bool.eqb q1 q2.

Definition vtable : Type := list (Z * vdata).
Definition keys (t : vtable) : list Z := map fst t.

(* what the responder sends *)
Inductive reply : Type :=
| Accept (v : Z) (d : vdata)
| Refused (v : Z)                  (* Refuse(Refused(v, text)) *)
| Mismatch (ours : list Z).        (* Refuse(VersionMismatch(ours)) *)

(* ---- old stack ---- *)
(* stable sort, descending by version number: insert after the elements with key >= the new one *)
Fixpoint insert_desc (x : Z * vdata) (l : vtable) : vtable :=
  match l with
  | [] => [x]
  | y :: r => if fst y <? fst x then x :: y :: r else y :: insert_desc x r
  end.
Definition sort_desc (t : vtable) : vtable := fold_left (fun acc x => insert_desc x acc) t [].

(* inner loop: the first client entry with this number decides *)
Fixpoint scan_client (ver_num : Z) (ver_data : vdata) (client : vtable) : option reply :=
  match client with
  | [] => None
  | (cn, cd) :: r =>
      if ver_num =? cn then
        Some (if vdata_eqb ver_data cd then Accept ver_num ver_data else Refused ver_num)
      else scan_client ver_num ver_data r
  end.

Fixpoint scan_versions (versions client : vtable) : option reply :=
  match versions with
  | [] => None
  | (n, d) :: r => match scan_client n d client with
                   | Some x => Some x
                   | None => scan_versions r client
                   end
  end.

Definition negotiate_old (server client : vtable) : reply :=
  let versions := sort_desc server in
  match scan_versions versions client with
  | Some x => x
  | None => Mismatch (keys versions)
  end.

(* ---- new stack ---- *)
Definition contains_key (t : vtable) (n : Z) : bool := existsb (fun kv => fst kv =? n) t.

Fixpoint lookup (t : vtable) (n : Z) : option vdata :=
  match t with
  | [] => None
  | (k, d) :: r => if k =? n then Some d else lookup r n
  end.

(* Iterator::max_by_key: the LAST of several maximal elements *)
Definition max_by_key (l : vtable) : option (Z * vdata) :=
  fold_left (fun acc x => match acc with
                          | None => Some x
                          | Some a => if fst a <=? fst x then Some x else Some a
                          end) l None.

Definition negotiate_new (supported proposed : vtable) : outcome reply :=
  match max_by_key (filter (fun kv => contains_key supported (fst kv)) proposed) with
  | Some (num, peer_data) =>
      match lookup supported num with
      | None => Panic 1                                  (* supported.values[num] on a missing key *)
      | Some our_data =>
          if negb (magic peer_data =? magic our_data) then Ok (Refused num)
          else Ok (Accept num our_data)
      end
  | None => Ok (Mismatch (keys supported))
  end.

(* ---- specification vocabulary ---- *)
Definition common (a b : vtable) (v : Z) : Prop := In v (keys a) /\ In v (keys b).
Definition highest_common (a b : vtable) (v : Z) : Prop :=
  common a b v /\ forall w, common a b w -> w <= v.
Definition disjoint (a b : vtable) : Prop := forall v, ~ common a b v.
