(* Interface between the harness and the symbolic model: the harness classifies every
   32-byte slot of the real key buffer / signature against values it recomputes
   independently from the master seed (blake2b seed tree, Ed25519 keys and
   signatures); [interp] turns such a classification into the model's term. *)
From PV Require Import Lib.Base Kes.Model.
Open Scope Z_scope.

Inductive cls : Type :=
| KSeed (k lvl idx : Z)      (* seed of tree node (lvl, idx) grown from master seed number k; lvl = depth => leaf secret *)
| KPk (k lvl idx : Z)        (* public key of the subtree rooted at node (lvl, idx) *)
| KSigR (k leaf m : Z)       (* first half of leaf's Ed25519 signature of message number m *)
| KSigS (k leaf m : Z)       (* second half *)
| KZero                      (* 32 zero bytes *)
| KJunk                      (* the 0xAA.. filler the harness puts in buffers before keygen *)
| KOther.                    (* none of the above *)

Definition junk : term := Master (-1).
Definition other : term := Master (-2).

(* node (lvl, idx): child of node (lvl-1, idx/2), left when idx is even *)
Fixpoint node_seed (k : Z) (lvl : nat) (idx : Z) : term :=
  match lvl with
  | O => Master k
  | S l => if Z.even idx then L (node_seed k l (idx / 2)) else R (node_seed k l (idx / 2))
  end.

Definition interp (d : nat) (c : cls) : term :=
  match c with
  | KSeed k lvl idx => node_seed k (Z.to_nat lvl) idx
  | KPk k lvl idx => pk_tree (d - Z.to_nat lvl) (node_seed k (Z.to_nat lvl) idx)
  | KSigR k leaf m => SigR (node_seed k d leaf) m
  | KSigS k leaf m => SigS (node_seed k d leaf) m
  | KZero => Zero
  | KJunk => junk
  | KOther => other
  end.

(* best-effort inverse, only used to print the model's view on a mismatch *)
Fixpoint seed_pos (x : term) : option (Z * Z * Z) :=
  match x with
  | Master k => Some (k, 0, 0)
  | L y => match seed_pos y with Some (k, l, i) => Some (k, l + 1, 2 * i) | None => None end
  | R y => match seed_pos y with Some (k, l, i) => Some (k, l + 1, 2 * i + 1) | None => None end
  | _ => None
  end.
Fixpoint pk_pos (x : term) : option (Z * Z * Z) :=
  match x with
  | Pk y => seed_pos y
  | H2 a _ => match pk_pos a with Some (k, l, i) => Some (k, l - 1, i / 2) | None => None end
  | _ => None
  end.
Definition abstr (x : term) : cls :=
  match x with
  | Zero => KZero
  | SigR sk m => match seed_pos sk with Some (k, _, i) => KSigR k i m | None => KOther end
  | SigS sk m => match seed_pos sk with Some (k, _, i) => KSigS k i m | None => KOther end
  | Pk _ | H2 _ _ => match pk_pos x with Some (k, l, i) => KPk k l i | None => KOther end
  | _ => match seed_pos x with
         | Some (k, l, i) => if k =? -1 then KJunk else if k =? -2 then KOther else KSeed k l i
         | None => KOther end
  end.
