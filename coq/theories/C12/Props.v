(* C12 — property theorems only. Statements are pinned by vp/check.py.
   d : depth (any nat; the crate instantiates 1..7), b : the caller's key buffer before
   keygen (any content, ksize d slots), s : the caller's seed (ANY 32-byte term),
   n : number of update() calls, with n < 2^d. *)
From PV Require Import Lib.Base Kes.Model Kes.KeyAt C12.Model C12.Proofs.
Open Scope Z_scope.

(* the whole buffer, slot for slot, after keygen and n updates *)
Theorem kes_key_layout : forall d b s n, length b = ksize d -> Z.of_nat n < total d ->
  evolve d b s n = Some (key_at d s (Z.of_nat n), Z.of_nat n).
Proof. exact evolve_closed. Qed.

Theorem kes_period : forall d b s n, length b = ksize d -> Z.of_nat n < total d ->
  exists k, evolve d b s n = Some k /\ get_period k = Z.of_nat n.
Proof. intros d b s n Hb Hn. eexists. split; [apply evolve_closed; assumption|reflexivity]. Qed.

Theorem kes_pk_stable : forall d b s n, length b = ksize (S d) -> Z.of_nat n < total (S d) ->
  exists k, evolve (S d) b s n = Some k /\ to_pk (S d) k = pk_of (S d) b s.
Proof.
  intros d b s n Hb Hn. eexists. split; [apply evolve_closed; assumption|].
  rewrite to_pk_key_at, pk_of_closed by assumption. reflexivity.
Qed.

Theorem kes_sign_verifies : forall d b s n m, length b = ksize d -> Z.of_nat n < total d ->
  exists k, evolve d b s n = Some k /\
    verify_sum d (sign_sum_key d k m) (Z.of_nat n) (pk_of d b s) m = true /\
    verify_cmp d (sign_cmp_key d k m) (Z.of_nat n) (pk_of d b s) m = true.
Proof.
  intros d b s n m Hb Hn. eexists. split; [apply evolve_closed; assumption|].
  rewrite pk_of_closed by assumption. unfold sign_sum_key, sign_cmp_key, verify_cmp. cbn [key_buf get_period fst snd].
  split; [apply sum_verify_ok; lia|]. rewrite cmp_recompute_ok by lia. apply term_eqb_refl.
Qed.

Theorem kes_wrong_period_fails : forall d b s n n' m, length b = ksize d ->
  Z.of_nat n < total d -> Z.of_nat n' < total d -> n' <> n ->
  exists k, evolve d b s n = Some k /\
    verify_sum d (sign_sum_key d k m) (Z.of_nat n') (pk_of d b s) m = false /\
    verify_cmp d (sign_cmp_key d k m) (Z.of_nat n') (pk_of d b s) m = false.
Proof.
  intros d b s n n' m Hb Hn Hn' Hne. eexists. split; [apply evolve_closed; assumption|].
  rewrite pk_of_closed by assumption. unfold sign_sum_key, sign_cmp_key. cbn [key_buf get_period fst snd].
  split; [apply sum_verify_wrong_period; lia|].
  apply verify_cmp_false, cmp_recompute_wrong_period; lia.
Qed.

Theorem kes_wrong_message_fails : forall d b s n t' m m', length b = ksize d ->
  Z.of_nat n < total d -> m' <> m ->
  exists k, evolve d b s n = Some k /\
    verify_sum d (sign_sum_key d k m) t' (pk_of d b s) m' = false /\
    verify_cmp d (sign_cmp_key d k m) t' (pk_of d b s) m' = false.
Proof.
  intros d b s n t' m m' Hb Hn Hne. eexists. split; [apply evolve_closed; assumption|].
  rewrite pk_of_closed by assumption. unfold sign_sum_key, sign_cmp_key. cbn [key_buf get_period fst snd].
  split; [apply sum_verify_wrong_message; exact Hne|].
  apply verify_cmp_false, cmp_recompute_wrong_message; exact Hne.
Qed.

Theorem kes_update_fails_iff : forall d b s n, length b = ksize d -> Z.of_nat n < total d ->
  exists k, evolve d b s n = Some k /\ (snd (update d k) = false <-> Z.of_nat n = total d - 1).
Proof.
  intros d b s n Hb Hn. eexists. split; [apply evolve_closed; assumption|].
  cbn [update]. split.
  - intros H. destruct (Z.eq_dec (Z.of_nat n) (total d - 1)) as [E|E]; [exact E|].
    rewrite update_slice_step in H by lia. discriminate.
  - intros E. rewrite update_slice_last by lia. reflexivity.
Qed.

(* a refused update() leaves the WHOLE key — every buffer slot and the period counter —
   exactly as it was; for every key state and period value, reachable or not *)
Theorem kes_update_error_keeps_state : forall d k k', update d k = (k', false) -> k' = k.
Proof. exact update_err_unchanged. Qed.

(* at the last period every further update() call is refused and the key stays the
   key of the last period: same buffer, same period, same public key, and it still signs *)
Theorem kes_refused_updates_keep_last_key : forall d b s j m, length b = ksize d ->
  exists k, evolve d b s (Z.to_nat (total d - 1)) = Some k /\
    update_calls d j k = k /\ snd (update d (update_calls d j k)) = false /\
    get_period (update_calls d j k) = total d - 1 /\
    verify_sum d (sign_sum_key d (update_calls d j k) m) (total d - 1) (pk_of d b s) m = true /\
    verify_cmp d (sign_cmp_key d (update_calls d j k) m) (total d - 1) (pk_of d b s) m = true.
Proof.
  intros d b s j m Hb. pose proof (total_pos d) as Hp.
  assert (Hn : Z.of_nat (Z.to_nat (total d - 1)) < total d) by lia.
  eexists. split; [apply evolve_closed; assumption|].
  rewrite Z2Nat.id by lia.
  set (k := (key_at d s (total d - 1), total d - 1)).
  assert (Hr : snd (update d k) = false).
  { unfold k. cbn [update]. rewrite update_slice_last by lia. reflexivity. }
  destruct (update_calls_refused d k Hr j) as [E1 E2]. rewrite E1.
  split; [reflexivity|]. split; [rewrite E1 in E2; exact E2|]. split; [reflexivity|].
  rewrite pk_of_closed by assumption. unfold sign_sum_key, sign_cmp_key, verify_cmp, k.
  cbn [key_buf get_period fst snd].
  split; [apply sum_verify_ok; lia|]. rewrite cmp_recompute_ok by lia. apply term_eqb_refl.
Qed.

(* so exactly 2^d - 1 updates succeed *)
Theorem kes_evolve_defined_iff : forall d b s n, length b = ksize d ->
  (evolve d b s n <> None <-> Z.of_nat n < total d).
Proof.
  intros d b s n Hb. split.
  - intros H. destruct (Z.lt_ge_cases (Z.of_nat n) (total d)) as [E|E]; [exact E|].
    rewrite evolve_beyond in H by assumption. contradiction.
  - intros Hn. rewrite evolve_closed by assumption. discriminate.
Qed.

Theorem kes_sig_bytes_roundtrip : forall d b s n m, length b = ksize d -> Z.of_nat n < total d ->
  exists k, evolve d b s n = Some k /\
    sumsig_from_bytes d (sumsig_to_bytes (sign_sum_key d k m)) = Some (sign_sum_key d k m) /\
    length (sumsig_to_bytes (sign_sum_key d k m)) = sumsig_size d /\
    cmpsig_from_bytes d (cmpsig_to_bytes (sign_cmp_key d k m)) = Some (sign_cmp_key d k m) /\
    length (cmpsig_to_bytes (sign_cmp_key d k m)) = cmpsig_size d.
Proof.
  intros d b s n m Hb Hn. eexists. split; [apply evolve_closed; assumption|].
  unfold sign_sum_key, sign_cmp_key. cbn [key_buf get_period fst snd].
  set (ss := sign_sum d _ m). set (cs := sign_cmp d _ m _).
  assert (Hs : sumsig_depth ss = d) by apply sign_sum_depth.
  assert (Hc : cmpsig_depth cs = d) by apply sign_cmp_depth.
  assert (Hw : cmpsig_wf cs = true) by apply sign_cmp_wf.
  repeat split.
  - rewrite <- Hs at 1. apply sumsig_roundtrip.
  - rewrite <- Hs. apply sumsig_to_bytes_length.
  - rewrite <- Hc at 1. apply cmpsig_roundtrip, Hw.
  - rewrite <- Hc. apply cmpsig_to_bytes_length.
Qed.

(* every signature value of the depth-d type round-trips, not only honest ones *)
Theorem sumsig_bytes_roundtrip_any : forall sig,
  sumsig_from_bytes (sumsig_depth sig) (sumsig_to_bytes sig) = Some sig.
Proof. exact sumsig_roundtrip. Qed.
Theorem cmpsig_bytes_roundtrip_any : forall sig, cmpsig_wf sig = true ->
  cmpsig_from_bytes (cmpsig_depth sig) (cmpsig_to_bytes sig) = Some sig.
Proof. exact cmpsig_roundtrip. Qed.

(* non-vacuity: a concrete depth-3 key, 5 updates, junk initial buffer *)
Example kes_example :
  let b := repeat (Master (-1)) (ksize 3) in
  length b = ksize 3 /\ Z.of_nat 5 < total 3 /\
  exists k, evolve 3 b (Master 7) 5 = Some k /\ get_period k = 5 /\
    key_buf k = [R (L (R (Master 7))); Zero;
                 Pk (L (L (R (Master 7)))); Pk (R (L (R (Master 7))));
                 R (R (Master 7)); pk_tree 1 (L (R (Master 7))); pk_tree 1 (R (R (Master 7)));
                 Zero; pk_tree 2 (L (Master 7)); pk_tree 2 (R (Master 7))] /\
    verify_sum 3 (sign_sum_key 3 k 42) 5 (pk_of 3 b (Master 7)) 42 = true /\
    verify_cmp 3 (sign_cmp_key 3 k 42) 4 (pk_of 3 b (Master 7)) 42 = false /\
    snd (update 3 k) = true.
Proof.
  cbv zeta. split; [reflexivity|]. split; [reflexivity|]. eexists. split; [vm_compute; reflexivity|].
  repeat split; vm_compute; reflexivity.
Qed.
