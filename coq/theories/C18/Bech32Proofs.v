From PV Require Import Lib.Base C18.Bech32.
From Coq Require Import Btauto.
Open Scope Z_scope.

(* ================================================================ digits / val *)
Lemma val_app B l d : val B (l ++ [d]) = val B l * B + d.
Proof. unfold val. rewrite fold_left_app. reflexivity. Qed.

Lemma digits_length B k : forall n, length (digits B k n) = k.
Proof. induction k as [|k IH]; intros n; cbn [digits]; [reflexivity|]. rewrite app_length, IH. cbn. lia. Qed.

Lemma digits_range B k : 0 < B -> forall n, Forall (fun d => 0 <= d < B) (digits B k n).
Proof.
  intros HB. induction k as [|k IH]; intros n; cbn [digits]; [constructor|].
  apply Forall_app. split; [apply IH|]. constructor; [|constructor]. apply Z.mod_pos_bound. lia.
Qed.

Lemma val_digits B k : 0 < B -> forall n, 0 <= n < B ^ Z.of_nat k -> val B (digits B k n) = n.
Proof.
  intros HB. induction k as [|k IH]; intros n Hn.
  - change (B ^ Z.of_nat 0) with 1 in Hn. cbn. unfold val. cbn. lia.
  - cbn [digits]. rewrite val_app. rewrite IH.
    + pose proof (Z.div_mod n B ltac:(lia)). lia.
    + rewrite Nat2Z.inj_succ, Z.pow_succ_r in Hn by lia. split; [apply Z.div_pos; lia|].
      apply Z.div_lt_upper_bound; lia.
Qed.

Lemma val_range B l : 0 < B -> Forall (fun d => 0 <= d < B) l -> 0 <= val B l < B ^ Z.of_nat (length l).
Proof.
  intros HB. induction l as [|d l IH] using rev_ind; intros H.
  - cbn. unfold val. cbn. lia.
  - apply Forall_app in H as [Hl Hd]. inversion Hd; subst. specialize (IH Hl).
    rewrite val_app, app_length. cbn [length]. rewrite Nat.add_1_r, Nat2Z.inj_succ, Z.pow_succ_r by lia. nia.
Qed.

Lemma digits_val B l : 0 < B -> Forall (fun d => 0 <= d < B) l -> digits B (length l) (val B l) = l.
Proof.
  intros HB. induction l as [|d l IH] using rev_ind; intros H; [reflexivity|].
  apply Forall_app in H as [Hl Hd]. inversion Hd; subst.
  rewrite app_length. cbn [length]. rewrite Nat.add_1_r. cbn [digits]. rewrite val_app.
  assert (E1 : (val B l * B + d) / B = val B l).
  { symmetry. apply (Z.div_unique_pos _ B _ d); lia. }
  assert (E2 : (val B l * B + d) mod B = d).
  { symmetry. apply (Z.mod_unique_pos _ B (val B l) d); lia. }
  rewrite E1, E2, IH by exact Hl. reflexivity.
Qed.

(* ================================================================ regrouping round trip *)
Lemma to5_length bs : blen (to5 bs) = (8 * blen bs + 4) / 5.
Proof.
  unfold to5, blen at 1. rewrite digits_length. rewrite Z2Nat.id; [reflexivity|].
  apply Z.div_pos; unfold blen; lia.
Qed.

Lemma to5_range bs : Forall (fun d => 0 <= d < 32) (to5 bs).
Proof. unfold to5. apply digits_range. lia. Qed.

Lemma regroup_roundtrip bs : bytes_wf bs -> from5 (to5 bs) = bs.
Proof.
  intros Hw. unfold from5. rewrite to5_length. set (n := blen bs). set (m := (8 * n + 4) / 5).
  assert (Hn : 0 <= n) by (unfold n, blen; lia).
  assert (Hm : 8 * n <= 5 * m <= 8 * n + 4) by (unfold m; lia).
  assert (Hk : 5 * m / 8 = n) by lia. rewrite Hk.
  set (pad := 5 * m - 8 * n). assert (Hpad : 0 <= pad <= 4) by (unfold pad; lia).
  assert (Hb : Forall (fun d => 0 <= d < 256) bs) by exact Hw.
  pose proof (val_range 256 bs ltac:(lia) Hb) as Hv.
  assert (Hp : 0 < 2 ^ pad) by (apply Z.pow_pos_nonneg; lia).
  assert (E : val 32 (to5 bs) = val 256 bs * 2 ^ pad).
  { unfold to5. fold n. fold m. fold pad. apply val_digits; [lia|]. rewrite Z2Nat.id by lia.
    split; [nia|].
    assert (E32 : 32 ^ m = 2 ^ (8 * n) * 2 ^ pad).
    { change 32 with (2 ^ 5). rewrite <- Z.pow_mul_r by lia. rewrite <- Z.pow_add_r by lia. f_equal. unfold pad. lia. }
    assert (E256 : 256 ^ Z.of_nat (length bs) = 2 ^ (8 * n)).
    { change 256 with (2 ^ 8). rewrite <- Z.pow_mul_r by lia. reflexivity. }
    rewrite E32. rewrite E256 in Hv. nia. }
  rewrite E. rewrite Z.div_mul by lia.
  unfold n, blen. rewrite Nat2Z.id. apply digits_val; [lia|exact Hb].
Qed.

(* ================================================================ polymod: linearity over GF(2) *)
Lemma lxor_range n a b : 0 <= n -> 0 <= a < 2 ^ n -> 0 <= b < 2 ^ n -> 0 <= Z.lxor a b < 2 ^ n.
Proof.
  intros Hn Ha Hb. split; [apply Z.lxor_nonneg; lia|].
  destruct (Z.eq_dec a 0) as [->|Ha0]; [rewrite Z.lxor_0_l; lia|].
  destruct (Z.eq_dec b 0) as [->|Hb0]; [rewrite Z.lxor_0_r; lia|].
  destruct (Z.eq_dec (Z.lxor a b) 0) as [->|Hz]; [lia|].
  assert (Hp : 0 < Z.lxor a b) by (pose proof (proj2 (Z.lxor_nonneg a b)); lia).
  apply Z.log2_lt_pow2; [exact Hp|].
  pose proof (Z.log2_lxor a b ltac:(lia) ltac:(lia)) as Hl.
  assert (La : Z.log2 a < n) by (apply Z.log2_lt_pow2; lia).
  assert (Lb : Z.log2 b < n) by (apply Z.log2_lt_pow2; lia).
  lia.
Qed.

Lemma sel_lxor p q g : sel (xorb p q) g = Z.lxor (sel p g) (sel q g).
Proof.
  destruct p, q; cbn [xorb sel]; [rewrite Z.lxor_nilpotent|rewrite Z.lxor_0_r|rewrite Z.lxor_0_l|]; reflexivity.
Qed.

Lemma gen_mix_lin a b : gen_mix (Z.lxor a b) = Z.lxor (gen_mix a) (gen_mix b).
Proof.
  unfold gen_mix. rewrite !Z.lxor_spec, !sel_lxor.
  apply Z.bits_inj'. intros n _. rewrite !Z.lxor_spec. btauto.
Qed.

Lemma step_lin c d v w :
  polymod_step (Z.lxor c d) (Z.lxor v w) = Z.lxor (polymod_step c v) (polymod_step d w).
Proof.
  unfold polymod_step. rewrite Z.shiftr_lxor, gen_mix_lin.
  apply Z.bits_inj'. intros n Hn.
  rewrite !Z.lxor_spec, !Z.shiftl_spec by lia. rewrite !Z.land_spec, !Z.lxor_spec. btauto.
Qed.

Definition zeros (n : nat) : list Z := repeat 0 n.

Lemma polymod_from_lin vs : forall c d,
  polymod_from (Z.lxor c d) vs = Z.lxor (polymod_from c (zeros (length vs))) (polymod_from d vs).
Proof.
  induction vs as [|v r IH]; intros c d; [reflexivity|].
  cbn [length zeros repeat polymod_from fold_left]. fold (zeros (length r)).
  fold (polymod_from (polymod_step (Z.lxor c d) v) r).
  fold (polymod_from (polymod_step c 0) (zeros (length r))).
  fold (polymod_from (polymod_step d v) r).
  rewrite <- IH. f_equal. rewrite <- (Z.lxor_0_l v) at 1. apply step_lin.
Qed.

(* ---- small states: no reduction happens ---- *)
Lemma land_shift_small x d k : 0 <= k -> 0 <= d < 2 ^ k -> Z.land (x * 2 ^ k) d = 0.
Proof.
  intros Hk Hd. apply Z.bits_inj'. intros n Hn. rewrite Z.land_spec, Z.bits_0.
  destruct (Z.ltb_spec n k).
  - rewrite Z.mul_pow2_bits_low by lia. reflexivity.
  - assert (Z.testbit d n = false) as ->; [|apply andb_false_r].
    destruct (Z.eq_dec d 0) as [->|]; [apply Z.bits_0|].
    apply Z.bits_above_log2; [lia|]. apply Z.log2_lt_pow2; [lia|].
    apply Z.lt_le_trans with (2 ^ k); [lia|]. apply Z.pow_le_mono_r; lia.
Qed.

Lemma step_small c v : 0 <= c < 2 ^ 25 -> 0 <= v < 32 -> polymod_step c v = c * 32 + v.
Proof.
  intros Hc Hv. unfold polymod_step.
  change 33554431 with (Z.ones 25). rewrite Z.land_ones by lia. rewrite Z.mod_small by lia.
  rewrite Z.shiftr_div_pow2 by lia. rewrite Z.div_small by lia.
  change (gen_mix 0) with 0. rewrite Z.lxor_0_r.
  rewrite Z.shiftl_mul_pow2 by lia. change (2 ^ 5) with 32.
  symmetry. apply Z.add_nocarry_lxor. change 32 with (2 ^ 5). apply land_shift_small; [lia|].
  change (2 ^ 5) with 32. lia.
Qed.

Lemma polymod_zero6 s0 s1 s2 s3 s4 s5 :
  0 <= s0 < 32 -> 0 <= s1 < 32 -> 0 <= s2 < 32 -> 0 <= s3 < 32 -> 0 <= s4 < 32 -> 0 <= s5 < 32 ->
  polymod_from 0 [s0; s1; s2; s3; s4; s5] = ((((s0 * 32 + s1) * 32 + s2) * 32 + s3) * 32 + s4) * 32 + s5.
Proof.
  intros H0 H1 H2 H3 H4 H5. unfold polymod_from. cbn [fold_left].
  change (2 ^ 25) with 33554432 in *.
  rewrite (step_small 0 s0) by (change (2 ^ 25) with 33554432; lia).
  rewrite (step_small _ s1) by (change (2 ^ 25) with 33554432; lia).
  rewrite (step_small _ s2) by (change (2 ^ 25) with 33554432; lia).
  rewrite (step_small _ s3) by (change (2 ^ 25) with 33554432; lia).
  rewrite (step_small _ s4) by (change (2 ^ 25) with 33554432; lia).
  rewrite (step_small _ s5) by (change (2 ^ 25) with 33554432; lia).
  lia.
Qed.

Lemma unpack_spec pm i : 0 <= i -> unpack pm i = (pm / 2 ^ (5 * i)) mod 32.
Proof.
  intros Hi. unfold unpack. rewrite Z.shiftr_div_pow2 by lia.
  change 31 with (Z.ones 5). rewrite Z.land_ones by lia. reflexivity.
Qed.

Lemma unpack_reassemble pm : 0 <= pm < 2 ^ 30 ->
  ((((unpack pm 5 * 32 + unpack pm 4) * 32 + unpack pm 3) * 32 + unpack pm 2) * 32 + unpack pm 1) * 32 + unpack pm 0 = pm.
Proof.
  intros H. rewrite !unpack_spec by lia.
  change (2 ^ (5 * 5)) with 33554432. change (2 ^ (5 * 4)) with 1048576. change (2 ^ (5 * 3)) with 32768.
  change (2 ^ (5 * 2)) with 1024. change (2 ^ (5 * 1)) with 32. change (2 ^ (5 * 0)) with 1.
  change (2 ^ 30) with 1073741824 in H. lia.
Qed.

(* ---- range of the residue ---- *)
Definition fe (v : Z) : Prop := 0 <= v < 32.
Definition st30 (c : Z) : Prop := 0 <= c < 2 ^ 30.

Lemma gen_mix_range b : st30 (gen_mix b).
Proof.
  unfold gen_mix, st30.
  assert (S : forall p g, 0 <= g < 2 ^ 30 -> 0 <= sel p g < 2 ^ 30) by (intros [] g Hg; cbn [sel]; lia).
  repeat (apply lxor_range; [lia| |]); apply S; cbv; split; congruence.
Qed.

Lemma step_range c v : st30 c -> fe v -> st30 (polymod_step c v).
Proof.
  unfold st30, fe. intros Hc Hv. unfold polymod_step.
  apply lxor_range; [lia| |apply gen_mix_range].
  apply lxor_range; [lia| |change (2 ^ 30) with 1073741824; lia].
  change 33554431 with (Z.ones 25). rewrite Z.land_ones by lia.
  rewrite Z.shiftl_mul_pow2 by lia.
  pose proof (Z.mod_pos_bound c (2 ^ 25) ltac:(lia)).
  change (2 ^ 25) with 33554432 in *. change (2 ^ 5) with 32. change (2 ^ 30) with 1073741824. lia.
Qed.

Lemma polymod_from_range vs : forall c, st30 c -> Forall fe vs -> st30 (polymod_from c vs).
Proof.
  induction vs as [|v r IH]; intros c Hc Hv; [exact Hc|]. inversion Hv; subst.
  cbn [polymod_from fold_left]. apply IH; [apply step_range; assumption|assumption].
Qed.

(* ================================================================ the checksum identity *)
Lemma checksum_fes h fes : Forall fe (hrp_expand h ++ fes) -> Forall fe (create_checksum h fes).
Proof.
  intros _. unfold create_checksum.
  repeat constructor; unfold fe; rewrite unpack_spec by lia; apply Z.mod_pos_bound; lia.
Qed.

Theorem polymod_checksum h fes : Forall fe (hrp_expand h ++ fes) ->
  polymod (hrp_expand h ++ fes ++ create_checksum h fes) = 1.
Proof.
  intros HX. rewrite app_assoc. set (X := hrp_expand h ++ fes) in *.
  unfold polymod, polymod_from. rewrite fold_left_app. fold (polymod_from 1 X). set (S := polymod_from 1 X).
  assert (HS : st30 S) by (apply polymod_from_range; [unfold st30; change (2 ^ 30) with 1073741824; lia|exact HX]).
  fold (polymod_from S (create_checksum h fes)).
  assert (HZ : polymod (X ++ [0; 0; 0; 0; 0; 0]) = polymod_from S [0; 0; 0; 0; 0; 0]).
  { unfold polymod, polymod_from. rewrite fold_left_app. reflexivity. }
  unfold create_checksum. rewrite app_assoc. fold X. rewrite HZ.
  set (Zr := polymod_from S [0; 0; 0; 0; 0; 0]). set (pm := Z.lxor Zr 1).
  assert (HZr : st30 Zr).
  { apply polymod_from_range; [exact HS|]. repeat constructor; unfold fe; lia. }
  assert (Hpm : st30 pm).
  { unfold st30, pm. apply lxor_range; [lia|exact HZr|change (2 ^ 30) with 1073741824; lia]. }
  rewrite <- (Z.lxor_0_r S) at 1. rewrite polymod_from_lin. cbn [length zeros repeat]. fold Zr.
  rewrite polymod_zero6 by (unfold fe; rewrite unpack_spec by lia; apply Z.mod_pos_bound; lia).
  rewrite unpack_reassemble by exact Hpm.
  unfold pm. rewrite <- Z.lxor_assoc, Z.lxor_nilpotent, Z.lxor_0_l. reflexivity.
Qed.

(* ================================================================ characters *)
Definition char_ok (v : Z) : bool :=
  match fe_of_char (char_of v) with Some w => w =? v | None => false end &&
  negb (is_upper (char_of v)) && negb (char_of v =? 49).
Lemma char_sweep : forallb char_ok (zrangeZ 0 32) = true.
Proof. vm_compute. reflexivity. Qed.
Lemma char_facts v : fe v ->
  fe_of_char (char_of v) = Some v /\ is_upper (char_of v) = false /\ char_of v <> 49.
Proof.
  intros Hv. pose proof char_sweep as H. rewrite forallb_forall in H.
  specialize (H v ltac:(apply zrangeZ_In; unfold fe in Hv; lia)). unfold char_ok in H.
  apply andb_true_iff in H as [H H3]. apply andb_true_iff in H as [H1 H2].
  destruct (fe_of_char (char_of v)) as [w|]; [|discriminate].
  repeat split; [f_equal; lia|destruct (is_upper _); [discriminate|reflexivity]|lia].
Qed.

Lemma map_opt_chars vs : Forall fe vs -> map_opt fe_of_char (map char_of vs) = Some vs.
Proof.
  induction 1 as [|v r Hv _ IH]; [reflexivity|]. cbn [map map_opt].
  destruct (char_facts v Hv) as (-> & _). rewrite IH. reflexivity.
Qed.

Lemma chars_no_upper vs : Forall fe vs -> existsb is_upper (map char_of vs) = false.
Proof.
  induction 1 as [|v r Hv _ IH]; [reflexivity|]. cbn [map existsb].
  destruct (char_facts v Hv) as (_ & -> & _). exact IH.
Qed.

Lemma chars_no_sep vs : Forall fe vs -> Forall (fun c => c <> 49) (map char_of vs).
Proof.
  induction 1 as [|v r Hv _ IH]; [constructor|]. cbn [map]. constructor; [apply char_facts, Hv|exact IH].
Qed.

Lemma split_at_first_app a b : Forall (fun c => c <> 49) a -> split_at_first 49 (a ++ 49 :: b) = Some (a, b).
Proof.
  induction 1 as [|c r Hc _ IH]; [reflexivity|]. cbn [app split_at_first].
  destruct (c =? 49) eqn:E; [lia|]. rewrite IH. reflexivity.
Qed.

(* ================================================================ hrp *)
Lemma hrp_lower_id h : Forall (fun c => 33 <= c <= 126 /\ is_upper c = false) h -> map lower h = h.
Proof.
  induction 1 as [|c r [_ Hc] _ IH]; [reflexivity|]. cbn [map]. unfold lower at 1. rewrite Hc, IH. reflexivity.
Qed.
Lemma hrp_no_upper h : Forall (fun c => 33 <= c <= 126 /\ is_upper c = false) h -> existsb is_upper h = false.
Proof. induction 1 as [|c r [_ Hc] _ IH]; [reflexivity|]. cbn [existsb]. rewrite Hc. exact IH. Qed.
Lemma hrp_ok_valid h : hrp_valid h -> hrp_ok h = true.
Proof.
  intros (Hne & Hl & Hc). unfold hrp_ok.
  assert (blen h <> 0) by (unfold blen; destruct h; [congruence|cbn; lia]).
  assert (E : forallb (fun c => (33 <=? c) && (c <=? 126)) h = true).
  { apply forallb_forall. intros c Hin. rewrite Forall_forall in Hc. specialize (Hc c Hin). lia. }
  rewrite E. lia.
Qed.

Definition hrp_char_ok (c : Z) : bool :=
  let l := lower c in (0 <=? Z.shiftr l 5) && (Z.shiftr l 5 <? 32) && (0 <=? Z.land l 31) && (Z.land l 31 <? 32).
Lemma hrp_char_sweep : forallb hrp_char_ok (zrangeZ 33 94) = true.
Proof. vm_compute. reflexivity. Qed.
Lemma hrp_expand_fe h : Forall (fun c => 33 <= c <= 126 /\ is_upper c = false) h -> Forall fe (hrp_expand h).
Proof.
  intros Hc. unfold hrp_expand.
  assert (F : forall c, 33 <= c <= 126 -> fe (Z.shiftr (lower c) 5) /\ fe (Z.land (lower c) 31)).
  { intros c Hr. pose proof hrp_char_sweep as H. rewrite forallb_forall in H.
    specialize (H c ltac:(apply zrangeZ_In; lia)). unfold hrp_char_ok in H. cbv zeta in H. unfold fe. lia. }
  apply Forall_app. split; [|apply Forall_app; split].
  - apply Forall_map. eapply Forall_impl; [|exact Hc]. intros c [Hr _]. apply F, Hr.
  - constructor; [unfold fe; lia|constructor].
  - apply Forall_map. eapply Forall_impl; [|exact Hc]. intros c [Hr _]. apply F, Hr.
Qed.

(* ================================================================ decode . encode *)
Lemma blen_app (a b : list Z) : blen (a ++ b) = blen a + blen b.
Proof. unfold blen. rewrite app_length. lia. Qed.

Theorem bech32_roundtrip_proof h d s : hrp_valid h -> bytes_wf d ->
  bech32_encode h d = Some s -> bech32_decode s = Some (h, d).
Proof.
  intros Hh Hd He. pose proof Hh as (Hne & Hl & Hc).
  unfold bech32_encode in He. set (fes := to5 d) in *.
  destruct (blen h + 1 + blen fes + 6 >? 1023) eqn:EL; [discriminate|]. inversion He; subst s; clear He.
  rewrite (hrp_lower_id h Hc).
  assert (Hfes : Forall fe fes) by (apply to5_range).
  assert (HX : Forall fe (hrp_expand h ++ fes)) by (apply Forall_app; split; [apply hrp_expand_fe, Hc|exact Hfes]).
  pose proof (checksum_fes h fes HX) as Hck. set (ck := create_checksum h fes) in *.
  assert (Lck : length ck = 6%nat) by reflexivity.
  assert (Hall : Forall fe (fes ++ ck)) by (apply Forall_app; split; assumption).
  set (cs := map char_of (fes ++ ck)).
  change (h ++ [49] ++ cs) with (h ++ 49 :: cs).
  unfold bech32_decode.
  assert (Er : rev (h ++ 49 :: cs) = rev cs ++ 49 :: rev h).
  { rewrite rev_app_distr. cbn [rev]. rewrite <- app_assoc. reflexivity. }
  rewrite Er. rewrite split_at_first_app.
  2:{ apply Forall_rev. apply chars_no_sep, Hall. }
  rewrite !rev_involutive. unfold cs at 1. rewrite map_opt_chars by exact Hall.
  assert (Eu : existsb is_upper (h ++ 49 :: cs) = false).
  { change (h ++ 49 :: cs) with (h ++ [49] ++ cs). rewrite !existsb_app. rewrite (hrp_no_upper h Hc). unfold cs. rewrite chars_no_upper by exact Hall. reflexivity. }
  rewrite Eu. cbn [andb]. rewrite (hrp_ok_valid h Hh). cbn [negb].
  assert (Els : blen (h ++ 49 :: cs) = blen h + 1 + blen fes + 6).
  { change (h ++ 49 :: cs) with (h ++ [49] ++ cs). rewrite !blen_app. unfold cs, blen. rewrite map_length, app_length, Lck. cbn [length]. lia. }
  rewrite Els, EL.
  assert (E6 : (blen (fes ++ ck) <? 6) = false) by (rewrite blen_app; unfold blen; rewrite Lck; lia).
  rewrite E6. rewrite polymod_checksum by exact HX.
  replace ((1 =? BECH32M_CONST) || (1 =? 1)) with true by reflexivity.
  assert (Ef : firstn (length (fes ++ ck) - 6) (fes ++ ck) = fes).
  { rewrite app_length, Lck. replace (length fes + 6 - 6)%nat with (length fes) by lia.
    rewrite firstn_app, Nat.sub_diag, firstn_all. cbn. apply app_nil_r. }
  rewrite Ef. unfold fes. rewrite regroup_roundtrip by exact Hd. reflexivity.
Qed.

Lemma bech32_encode_some h d : blen h + 1 + (8 * blen d + 4) / 5 + 6 <= 1023 ->
  exists s, bech32_encode h d = Some s.
Proof.
  intros H. unfold bech32_encode. rewrite to5_length.
  destruct (_ >? 1023) eqn:E; [lia|]. eexists. reflexivity.
Qed.
