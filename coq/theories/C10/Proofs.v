(* C10 proofs: Hasher compositions, Hash<N> codecs, nonce formulas. *)
From PV Require Import Lib.Base Crypto.Hex Crypto.Blake2b Crypto.Blake2bProofs C10.Model.
Open Scope Z_scope.

(* ---------- Hasher ---------- *)
Lemma hash_spec_proof n bs : hash n bs = blake2b n bs.
Proof. apply absorb1. Qed.

Lemma hash_tagged_spec_proof n bs t : hash_tagged n bs t = blake2b n (t :: bs).
Proof. unfold hash_tagged, hasher_finalize, hasher_input, hasher_new. now rewrite absorb2. Qed.

Lemma hash_cbor_spec_proof n writes : hash_cbor n writes = blake2b n (concat writes).
Proof. apply blake2b_stream_split_proof. Qed.

Lemma hash_tagged_cbor_spec_proof n writes t :
  hash_tagged_cbor n writes t = blake2b n (t :: concat writes).
Proof.
  exact (blake2b_stream_split_proof n ([t] :: writes)).
Qed.

Lemma hash_length_proof n bs : 0 <= n <= 64 -> zlen (hash n bs) = n.
Proof. intros H. rewrite hash_spec_proof. now apply blake2b_length. Qed.

(* ---------- From<&[u8]> ---------- *)
Lemma hash_from_slice_strict_proof n bs :
  (zlen bs = n -> hash_from_slice n bs = Ok bs) /\
  (zlen bs <> n -> hash_from_slice n bs = Panic 1).
Proof. unfold hash_from_slice. split; intros H; destruct (zlen bs =? n) eqn:E; try reflexivity; lia. Qed.

(* ---------- hex ---------- *)
Lemma hex_byte_sweep :
  forallb (fun b => match hexval (hexdigit (Z.shiftr b 4)), hexval (hexdigit (Z.land b 15)) with
                    | Some h, Some l => Z.lor (Z.shiftl h 4) l =? b
                    | _, _ => false end) (zrangeZ 0 256) = true.
Proof. vm_compute. reflexivity. Qed.

Lemma hex_byte b : byte b ->
  exists h l, hexval (hexdigit (Z.shiftr b 4)) = Some h /\ hexval (hexdigit (Z.land b 15)) = Some l /\
              Z.lor (Z.shiftl h 4) l = b.
Proof.
  intros Hb. pose proof hex_byte_sweep as S. rewrite forallb_forall in S.
  specialize (S b (zrangeZ_In 0 256 b ltac:(unfold byte in Hb; lia))).
  destruct (hexval (hexdigit (Z.shiftr b 4))) as [h|]; [|discriminate].
  destruct (hexval (hexdigit (Z.land b 15))) as [l|]; [|discriminate].
  exists h, l. repeat split. lia.
Qed.

Lemma hex_pairs_to_hex bs : bytes_wf bs -> hex_pairs (to_hex bs) = Ok bs.
Proof.
  induction 1 as [|b bs Hb _ IH]; [reflexivity|].
  unfold to_hex in *. cbn [flat_map app hex_pairs].
  destruct (hex_byte b Hb) as (h & l & Hh & Hl & E). rewrite Hh, Hl, IH, E. reflexivity.
Qed.

Lemma to_hex_length bs : zlen (to_hex bs) = 2 * zlen bs.
Proof.
  unfold zlen, to_hex. induction bs as [|b bs IH]; [reflexivity|].
  cbn [flat_map app length]. lia.
Qed.

Lemma hash_hex_roundtrip_proof n bs :
  bytes_wf bs -> zlen bs = n -> hash_from_hex n (hash_to_hex bs) = Ok bs.
Proof.
  intros Hwf Hl. unfold hash_from_hex, hash_to_hex. rewrite to_hex_length.
  replace (2 * zlen bs mod 2 =? 0) with true by lia.
  replace (2 * zlen bs / 2 =? n) with true by lia.
  cbn [negb]. now apply hex_pairs_to_hex.
Qed.

Lemma hex_pairs_length : forall k s bs,
  length s = (2 * k)%nat -> hex_pairs s = Ok bs -> length bs = k.
Proof.
  induction k as [|k IH]; intros s bs Hl H.
  - destruct s; [|cbn in Hl; lia]. cbn in H. now inversion H.
  - destruct s as [|hi [|lo r]]; cbn [length] in Hl; try lia.
    cbn [hex_pairs] in H.
    destruct (hexval hi); [|discriminate]. destruct (hexval lo); [|discriminate].
    destruct (hex_pairs r) as [bs'| |] eqn:E; try discriminate.
    inversion H; subst. cbn [length]. f_equal. apply (IH r); [lia|exact E].
Qed.

Lemma hash_from_hex_strict_proof n s bs :
  hash_from_hex n s = Ok bs -> zlen s = 2 * n /\ zlen bs = n.
Proof.
  unfold hash_from_hex. intros H.
  destruct (zlen s mod 2 =? 0) eqn:E1; cbn [negb] in H; [|discriminate].
  destruct (zlen s / 2 =? n) eqn:E2; cbn [negb] in H; [|discriminate].
  assert (Hs : zlen s = 2 * n) by lia. split; [exact Hs|].
  unfold zlen in *. pose proof (hex_pairs_length (Z.to_nat n) s bs ltac:(lia) H). lia.
Qed.

(* ---------- CBOR ---------- *)
Lemma be_val_snoc a b : be_val (a ++ [b]) = be_val a * 256 + b.
Proof. unfold be_val. now rewrite fold_left_app. Qed.

Lemma be_bytes_length k v : length (be_bytes k v) = k.
Proof. revert v; induction k as [|k IH]; intros v; cbn [be_bytes]; [reflexivity|]. rewrite app_length, IH. cbn. lia. Qed.

Lemma be_val_be_bytes : forall k v, 0 <= v < 256 ^ Z.of_nat k -> be_val (be_bytes k v) = v.
Proof.
  induction k as [|k IH]; intros v Hv.
  - cbn in *. unfold be_val. cbn. lia.
  - cbn [be_bytes]. rewrite be_val_snoc, IH.
    + lia.
    + rewrite Nat2Z.inj_succ, Z.pow_succ_r in Hv by lia. lia.
Qed.

Lemma read_be_be_bytes k v p :
  0 <= v < 256 ^ Z.of_nat k -> read_be k (be_bytes k v ++ p) = Ok (v, p).
Proof.
  intros Hv. unfold read_be.
  assert (Hl := be_bytes_length k v).
  replace (length (be_bytes k v ++ p) <? k)%nat with false
    by (symmetry; apply Nat.ltb_ge; rewrite app_length; lia).
  rewrite firstn_app, skipn_app, Hl, Nat.sub_diag. cbn [firstn skipn].
  rewrite app_nil_r, <- Hl at 1. rewrite firstn_all.
  rewrite <- Hl at 2. rewrite skipn_all. cbn [app]. now rewrite be_val_be_bytes.
Qed.

Lemma small_head_sweep :
  forallb (fun l => (Z.land (64 + l) 224 =? 64) && negb (Z.land (64 + l) 31 =? 31)
                    && (Z.land (64 + l) 31 =? l)) (zrangeZ 0 24) = true.
Proof. vm_compute. reflexivity. Qed.

Definition after_head (buf : list Z) (n : Z) (r' : list Z) : outcome (list Z * Z) :=
  if zlen r' <? n then Err 1 else Ok (firstn (Z.to_nat n) r', zlen buf - zlen r' + n).

Lemma dec_bytes_head len p :
  0 <= len < 2 ^ 64 ->
  dec_bytes (cbor_bytes_head len ++ p) = after_head (cbor_bytes_head len ++ p) len p.
Proof.
  intros Hlen. unfold cbor_bytes_head.
  destruct (len <=? 23) eqn:E0.
  { pose proof small_head_sweep as S. rewrite forallb_forall in S.
    specialize (S len (zrangeZ_In 0 24 len ltac:(lia))).
    apply andb_true_iff in S as [S S3]. apply andb_true_iff in S as [S1 S2].
    cbn [app dec_bytes]. rewrite S1. apply negb_true_iff in S2. rewrite S2. cbn [negb orb].
    apply Z.eqb_eq in S3. rewrite S3, E0. reflexivity. }
  destruct (len <=? 255) eqn:E1.
  { cbn [app dec_bytes].
    change (Z.land 88 224) with 64. change (Z.land 88 31) with 24.
    change (negb (64 =? 64) || (24 =? 31)) with false. cbv iota.
    change (24 <=? 23) with false. change (24 =? 24) with true. cbv iota.
    rewrite read_be_be_bytes by (change (256 ^ Z.of_nat 1) with 256; lia). reflexivity. }
  destruct (len <=? 65535) eqn:E2.
  { cbn [app dec_bytes].
    change (Z.land 89 224) with 64. change (Z.land 89 31) with 25.
    change (negb (64 =? 64) || (25 =? 31)) with false. cbv iota.
    change (25 <=? 23) with false. change (25 =? 24) with false. change (25 =? 25) with true. cbv iota.
    rewrite read_be_be_bytes by (change (256 ^ Z.of_nat 2) with 65536; lia). reflexivity. }
  destruct (len <=? 4294967295) eqn:E3.
  { cbn [app dec_bytes].
    change (Z.land 90 224) with 64. change (Z.land 90 31) with 26.
    change (negb (64 =? 64) || (26 =? 31)) with false. cbv iota.
    change (26 <=? 23) with false. change (26 =? 24) with false. change (26 =? 25) with false.
    change (26 =? 26) with true. cbv iota.
    rewrite read_be_be_bytes by (change (256 ^ Z.of_nat 4) with 4294967296; lia). reflexivity. }
  { cbn [app dec_bytes].
    change (Z.land 91 224) with 64. change (Z.land 91 31) with 27.
    change (negb (64 =? 64) || (27 =? 31)) with false. cbv iota.
    change (27 <=? 23) with false. change (27 =? 24) with false. change (27 =? 25) with false.
    change (27 =? 26) with false. change (27 =? 27) with true. cbv iota.
    rewrite read_be_be_bytes by (change (256 ^ Z.of_nat 8) with (2 ^ 64); lia). reflexivity. }
Qed.

Lemma dec_enc_bytes bs rest :
  zlen bs < 2 ^ 64 ->
  dec_bytes (enc_Hash bs ++ rest) = Ok (bs, zlen (enc_Hash bs)).
Proof.
  intros Hl. unfold enc_Hash. rewrite <- app_assoc.
  rewrite dec_bytes_head by (unfold zlen in *; lia).
  unfold after_head. unfold zlen in *. rewrite !app_length.
  destruct (Z.of_nat (length bs + length rest) <? Z.of_nat (length bs)) eqn:E; [lia|].
  rewrite Nat2Z.id, firstn_app, Nat.sub_diag, firstn_all. cbn [firstn]. rewrite app_nil_r.
  f_equal. f_equal. lia.
Qed.

Lemma Hash_dec_enc_proof n bs rest :
  zlen bs = n -> n < 2 ^ 64 -> dec_Hash n (enc_Hash bs ++ rest) = Ok (bs, zlen (enc_Hash bs)).
Proof.
  intros Hl Hn. unfold dec_Hash. rewrite dec_enc_bytes by lia.
  replace (zlen bs =? n) with true by lia. reflexivity.
Qed.

Lemma Hash_dec_wrong_len_proof n bs rest :
  zlen bs < 2 ^ 64 -> zlen bs <> n -> dec_Hash n (enc_Hash bs ++ rest) = Err 3.
Proof.
  intros Hl Hn. unfold dec_Hash. rewrite dec_enc_bytes by lia.
  replace (zlen bs =? n) with false by lia. reflexivity.
Qed.

Lemma hash_cbor_len_strict_proof n buf bs pos : dec_Hash n buf = Ok (bs, pos) -> zlen bs = n.
Proof.
  unfold dec_Hash. destruct (dec_bytes buf) as [[bs' pos']| |]; try discriminate.
  destruct (zlen bs' =? n) eqn:E; [|discriminate]. intros H. inversion H; subst. lia.
Qed.

(* ---------- nonces ---------- *)
Lemma epoch_nonce_spec_proof nc nh extra :
  generate_epoch_nonce nc nh extra =
  match extra with
  | None => blake2b 32 (nc ++ nh)
  | Some ee => blake2b 32 (blake2b 32 (nc ++ nh) ++ ee)
  end.
Proof.
  unfold generate_epoch_nonce, hasher_finalize, hasher_input, hasher_new.
  destruct extra; now rewrite !absorb2.
Qed.

Lemma rolling_nonce_spec_proof prev vrf :
  generate_rolling_nonce prev vrf =
  if (zlen vrf =? 32) || (zlen vrf =? 64)
  then Ok (blake2b 32 (prev ++ blake2b 32 vrf)) else Panic 1.
Proof.
  unfold generate_rolling_nonce. destruct ((zlen vrf =? 32) || (zlen vrf =? 64)); [|reflexivity].
  rewrite hash_spec_proof. unfold hasher_finalize, hasher_input, hasher_new. now rewrite absorb2.
Qed.
