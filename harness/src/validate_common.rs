//! Shared by harness bins c33 and c38 (phase-1 validation): a mutable, CBOR-level scenario
//! (transaction + UTxO set + environment) lifted from an accepted fixture, structural mutators,
//! and materialisation back into the real pallas types that `validate_tx` takes.
//!
//! The transaction is kept as raw CBOR map entries (`key -> raw value`) so that one set of
//! mutators serves Shelley..Conway; after mutation the bytes are decoded with the era's real
//! decoder (a mutant that does not decode is outside the property's quantifier and is dropped).
#![allow(dead_code)]
use pallas_codec::minicbor::{self, data::Type, Decoder};
use pallas_primitives::byron;
use pallas_traverse::{Era, MultiEraInput, MultiEraOutput, MultiEraTx};
use pallas_validate::utils::{
    AccountState, CertState, Environment, MultiEraProtocolParameters, UTxOs,
};
use std::borrow::Cow;
use verif_harness::Rng;

use super::vfx::AnyTx;

// ---------------------------------------------------------------- CBOR helpers
pub fn head(major: u8, n: u64, out: &mut Vec<u8>) {
    let m = major << 5;
    if n < 24 { out.push(m | n as u8) }
    else if n < 0x100 { out.push(m | 24); out.push(n as u8) }
    else if n < 0x10000 { out.push(m | 25); out.extend_from_slice(&(n as u16).to_be_bytes()) }
    else if n < 0x1_0000_0000 { out.push(m | 26); out.extend_from_slice(&(n as u32).to_be_bytes()) }
    else { out.push(m | 27); out.extend_from_slice(&n.to_be_bytes()) }
}
pub fn c_uint(n: u64) -> Vec<u8> { let mut v = vec![]; head(0, n, &mut v); v }
pub fn c_int(n: i128) -> Vec<u8> {
    let mut v = vec![];
    if n >= 0 { head(0, n as u64, &mut v) } else { head(1, (-1 - n) as u64, &mut v) }
    v
}
pub fn c_bytes(b: &[u8]) -> Vec<u8> { let mut v = vec![]; head(2, b.len() as u64, &mut v); v.extend_from_slice(b); v }
pub fn c_array(items: &[Vec<u8>]) -> Vec<u8> {
    let mut v = vec![]; head(4, items.len() as u64, &mut v);
    for i in items { v.extend_from_slice(i) }
    v
}
pub fn c_map(items: &[(Vec<u8>, Vec<u8>)]) -> Vec<u8> {
    let mut v = vec![]; head(5, items.len() as u64, &mut v);
    for (k, x) in items { v.extend_from_slice(k); v.extend_from_slice(x) }
    v
}
pub fn c_tag(t: u64, inner: &[u8]) -> Vec<u8> { let mut v = vec![]; head(6, t, &mut v); v.extend_from_slice(inner); v }
pub fn c_bool(b: bool) -> Vec<u8> { vec![if b { 0xf5 } else { 0xf4 }] }
pub const C_NULL: u8 = 0xf6;

fn raw_item<'a>(d: &mut Decoder<'a>, src: &'a [u8]) -> Option<&'a [u8]> {
    let p = d.position();
    d.skip().ok()?;
    Some(&src[p..d.position()])
}
/// strip an optional tag; returns (tag, rest)
pub fn untag(raw: &[u8]) -> (Option<u64>, &[u8]) {
    let mut d = Decoder::new(raw);
    if let Ok(Type::Tag) = d.datatype() {
        if let Ok(t) = d.tag() { return (Some(t.as_u64()), &raw[d.position()..]); }
    }
    (None, raw)
}
/// items of a (definite or indefinite) array
pub fn arr_items(raw: &[u8]) -> Option<Vec<Vec<u8>>> {
    let mut d = Decoder::new(raw);
    let n = d.array().ok()?;
    let mut out = vec![];
    match n {
        Some(n) => { for _ in 0..n { out.push(raw_item(&mut d, raw)?.to_vec()) } }
        None => {
            while d.datatype().ok()? != Type::Break { out.push(raw_item(&mut d, raw)?.to_vec()) }
        }
    }
    Some(out)
}
pub fn map_items(raw: &[u8]) -> Option<Vec<(Vec<u8>, Vec<u8>)>> {
    let mut d = Decoder::new(raw);
    let n = d.map().ok()?;
    let mut out = vec![];
    match n {
        Some(n) => { for _ in 0..n { let k = raw_item(&mut d, raw)?.to_vec(); let v = raw_item(&mut d, raw)?.to_vec(); out.push((k, v)) } }
        None => {
            while d.datatype().ok()? != Type::Break { let k = raw_item(&mut d, raw)?.to_vec(); let v = raw_item(&mut d, raw)?.to_vec(); out.push((k, v)) }
        }
    }
    Some(out)
}
pub fn as_u64(raw: &[u8]) -> Option<u64> { Decoder::new(raw).u64().ok() }
pub fn as_int(raw: &[u8]) -> Option<i128> { Decoder::new(raw).int().ok().map(i128::from) }
pub fn as_bytes(raw: &[u8]) -> Option<Vec<u8>> { Decoder::new(raw).bytes().ok().map(|b| b.to_vec()) }
pub fn is_uint(raw: &[u8]) -> bool { matches!(Decoder::new(raw).datatype(), Ok(Type::U8 | Type::U16 | Type::U32 | Type::U64)) }

// ---------------------------------------------------------------- value / output IR
pub type Assets<Q> = Vec<(Vec<u8>, Vec<(Vec<u8>, Q)>)>;
#[derive(Clone, Debug)]
pub struct OutIr {
    pub legacy: bool,
    pub addr: Vec<u8>,
    pub coin: u64,
    pub assets: Option<Assets<u64>>,
    /// legacy: raw datum hash (bytes item); post-alonzo: raw datum_option
    pub datum: Option<Vec<u8>>,
    pub sref: Option<Vec<u8>>,
}
pub fn parse_assets_u(raw: &[u8]) -> Option<Assets<u64>> {
    let mut out = vec![];
    for (p, m) in map_items(raw)? {
        let mut a = vec![];
        for (n, q) in map_items(&m)? { a.push((as_bytes(&n)?, as_u64(&q)?)) }
        out.push((as_bytes(&p)?, a));
    }
    Some(out)
}
pub fn parse_assets_i(raw: &[u8]) -> Option<Assets<i128>> {
    let mut out = vec![];
    for (p, m) in map_items(raw)? {
        let mut a = vec![];
        for (n, q) in map_items(&m)? { a.push((as_bytes(&n)?, as_int(&q)?)) }
        out.push((as_bytes(&p)?, a));
    }
    Some(out)
}
pub fn enc_assets_u(a: &Assets<u64>) -> Vec<u8> {
    c_map(&a.iter().map(|(p, m)| (c_bytes(p), c_map(&m.iter().map(|(n, q)| (c_bytes(n), c_uint(*q))).collect::<Vec<_>>()))).collect::<Vec<_>>())
}
pub fn enc_assets_i(a: &Assets<i128>) -> Vec<u8> {
    c_map(&a.iter().map(|(p, m)| (c_bytes(p), c_map(&m.iter().map(|(n, q)| (c_bytes(n), c_int(*q))).collect::<Vec<_>>()))).collect::<Vec<_>>())
}
pub fn parse_value(raw: &[u8]) -> Option<(u64, Option<Assets<u64>>)> {
    if is_uint(raw) { return Some((as_u64(raw)?, None)); }
    let it = arr_items(raw)?;
    if it.len() != 2 { return None; }
    Some((as_u64(&it[0])?, Some(parse_assets_u(&it[1])?)))
}
pub fn enc_value(coin: u64, assets: &Option<Assets<u64>>) -> Vec<u8> {
    match assets { None => c_uint(coin), Some(a) => c_array(&[c_uint(coin), enc_assets_u(a)]) }
}
pub fn parse_out(raw: &[u8]) -> Option<OutIr> {
    let mut d = Decoder::new(raw);
    match d.datatype().ok()? {
        Type::Array | Type::ArrayIndef => {
            let it = arr_items(raw)?;
            if it.len() < 2 { return None; }
            let (coin, assets) = parse_value(&it[1])?;
            Some(OutIr { legacy: true, addr: as_bytes(&it[0])?, coin, assets, datum: it.get(2).cloned(), sref: None })
        }
        Type::Map | Type::MapIndef => {
            let mut o = OutIr { legacy: false, addr: vec![], coin: 0, assets: None, datum: None, sref: None };
            for (k, v) in map_items(raw)? {
                match as_u64(&k)? {
                    0 => o.addr = as_bytes(&v)?,
                    1 => { let (c, a) = parse_value(&v)?; o.coin = c; o.assets = a }
                    2 => o.datum = Some(v),
                    3 => o.sref = Some(v),
                    _ => return None,
                }
            }
            Some(o)
        }
        _ => None,
    }
}
pub fn enc_out(o: &OutIr) -> Vec<u8> {
    if o.legacy {
        let mut it = vec![c_bytes(&o.addr), enc_value(o.coin, &o.assets)];
        if let Some(d) = &o.datum { it.push(d.clone()) }
        c_array(&it)
    } else {
        let mut it = vec![(c_uint(0), c_bytes(&o.addr)), (c_uint(1), enc_value(o.coin, &o.assets))];
        if let Some(d) = &o.datum { it.push((c_uint(2), d.clone())) }
        if let Some(s) = &o.sref { it.push((c_uint(3), s.clone())) }
        c_map(&it)
    }
}
pub fn parse_inputs(raw: &[u8]) -> Option<(bool, Vec<(Vec<u8>, u64)>)> {
    let (tag, rest) = untag(raw);
    let mut out = vec![];
    for i in arr_items(rest)? {
        let p = arr_items(&i)?;
        if p.len() != 2 { return None; }
        out.push((as_bytes(&p[0])?, as_u64(&p[1])?));
    }
    Some((tag == Some(258), out))
}
pub fn enc_inputs(tagged: bool, ins: &[(Vec<u8>, u64)]) -> Vec<u8> {
    let a = c_array(&ins.iter().map(|(h, i)| c_array(&[c_bytes(h), c_uint(*i)])).collect::<Vec<_>>());
    if tagged { c_tag(258, &a) } else { a }
}

// ---------------------------------------------------------------- scenario
#[derive(Clone, Copy, PartialEq, Eq, Debug)]
pub enum Fam { Byron, AC(Era), Babbage, Conway }

#[derive(Clone)]
pub struct UEntry {
    /// key variant: Byron `TxIn` or Shelley+ `TransactionInput`
    pub byron_key: bool,
    pub hash: Vec<u8>,
    pub ix: u64,
    pub era: Era,
    /// CBOR of the output in its era's encoding (MultiEraOutput::encode / decode)
    pub out: Vec<u8>,
}
pub struct EnvSpec {
    pub pp: MultiEraProtocolParameters,
    pub magic: u32,
    pub slot: u64,
    pub netid: u8,
    pub acnt: Option<(u64, u64)>,
}
impl EnvSpec {
    pub fn build(&self) -> Environment {
        Environment {
            prot_params: self.pp.clone(),
            prot_magic: self.magic,
            block_slot: self.slot,
            network_id: self.netid,
            acnt: self.acnt.map(|(t, r)| AccountState { treasury: t, reserves: r }),
        }
    }
}
pub struct Scen {
    pub fam: Fam,
    /// Shelley+: body map entries / witness-set map entries (key, raw value), `valid` flag and aux data raw (None = null)
    pub body: Vec<(u64, Vec<u8>)>,
    pub wits: Vec<(u64, Vec<u8>)>,
    pub valid: bool,
    pub aux: Option<Vec<u8>>,
    /// Byron: typed
    pub btx: Option<byron::Tx>,
    pub bwits: Vec<byron::Twit>,
    pub utxo: Vec<UEntry>,
    pub env: EnvSpec,
    pub cs: CertState,
    /// names of the mutators applied so far
    pub trail: Vec<String>,
    /// Shelley-MA, rule level only: deposit counters handed to check_preservation_of_value instead of
    /// the ones check_certificates computes (they are a function of the number of certificates)
    pub counts: Option<(u64, u64, u64)>,
}

fn map_u(raw: &[u8]) -> Option<Vec<(u64, Vec<u8>)>> {
    map_items(raw)?.into_iter().map(|(k, v)| Some((as_u64(&k)?, v))).collect()
}
fn enc_map_u(m: &[(u64, Vec<u8>)]) -> Vec<u8> {
    c_map(&m.iter().map(|(k, v)| (c_uint(*k), v.clone())).collect::<Vec<_>>())
}

pub fn lift(tx: AnyTx, utxos: &UTxOs, env: &Environment, cs: &CertState) -> Scen {
    let mut utxo: Vec<UEntry> = utxos.iter().map(|(k, v)| UEntry {
        byron_key: matches!(k, MultiEraInput::Byron(_)),
        hash: k.hash().to_vec(), ix: k.index(), era: v.era(), out: v.encode(),
    }).collect();
    utxo.sort_by(|a, b| (&a.hash, a.ix).cmp(&(&b.hash, b.ix)));
    let envs = EnvSpec {
        pp: env.prot_params.clone(), magic: env.prot_magic, slot: env.block_slot, netid: env.network_id,
        acnt: env.acnt.as_ref().map(|a| (a.treasury, a.reserves)),
    };
    let mut s = Scen { fam: Fam::Byron, body: vec![], wits: vec![], valid: true, aux: None, btx: None, bwits: vec![],
                       utxo, env: envs, cs: cs.clone(), trail: vec![], counts: None };
    let bytes: Vec<u8>;
    match tx {
        AnyTx::Byron(p) => {
            s.btx = Some((*p.transaction).clone());
            s.bwits = (*p.witness).clone().to_vec();
            return s;
        }
        AnyTx::AC(t, era) => { s.fam = Fam::AC(era); bytes = minicbor::to_vec(t).unwrap(); }
        AnyTx::Babbage(t) => { s.fam = Fam::Babbage; bytes = minicbor::to_vec(t).unwrap(); }
        AnyTx::Conway(t) => { s.fam = Fam::Conway; bytes = minicbor::to_vec(t).unwrap(); }
    }
    let items = arr_items(&bytes).expect("tx array");
    s.body = map_u(&items[0]).expect("body map");
    s.wits = map_u(&items[1]).expect("wits map");
    s.valid = items[2] == [0xf5];
    s.aux = if items[3] == [C_NULL] { None } else { Some(items[3].clone()) };
    s
}

impl Scen {
    pub fn get(&self, k: u64) -> Option<&Vec<u8>> { self.body.iter().find(|e| e.0 == k).map(|e| &e.1) }
    pub fn put(&mut self, k: u64, v: Vec<u8>) {
        if let Some(e) = self.body.iter_mut().find(|e| e.0 == k) { e.1 = v; return; }
        let pos = self.body.iter().position(|e| e.0 > k).unwrap_or(self.body.len());
        self.body.insert(pos, (k, v));
    }
    pub fn del(&mut self, k: u64) { self.body.retain(|e| e.0 != k) }
    pub fn wget(&self, k: u64) -> Option<&Vec<u8>> { self.wits.iter().find(|e| e.0 == k).map(|e| &e.1) }
    pub fn wput(&mut self, k: u64, v: Vec<u8>) {
        if let Some(e) = self.wits.iter_mut().find(|e| e.0 == k) { e.1 = v; return; }
        let pos = self.wits.iter().position(|e| e.0 > k).unwrap_or(self.wits.len());
        self.wits.insert(pos, (k, v));
    }
    pub fn wdel(&mut self, k: u64) { self.wits.retain(|e| e.0 != k) }
    pub fn tx_bytes(&self) -> Vec<u8> {
        c_array(&[enc_map_u(&self.body), enc_map_u(&self.wits), c_bool(self.valid),
                  self.aux.clone().unwrap_or(vec![C_NULL])])
    }
    pub fn body_bytes(&self) -> Vec<u8> { enc_map_u(&self.body) }
    pub fn inputs(&self) -> (bool, Vec<(Vec<u8>, u64)>) { self.get(0).and_then(|r| parse_inputs(r)).unwrap_or((false, vec![])) }
    pub fn set_inputs(&mut self, tagged: bool, ins: &[(Vec<u8>, u64)]) { self.put(0, enc_inputs(tagged, ins)) }
    pub fn outputs(&self) -> Vec<OutIr> {
        self.get(1).and_then(|r| arr_items(r)).map(|v| v.iter().filter_map(|o| parse_out(o)).collect()).unwrap_or_default()
    }
    pub fn set_outputs(&mut self, outs: &[OutIr]) { self.put(1, c_array(&outs.iter().map(enc_out).collect::<Vec<_>>())) }
    pub fn fee(&self) -> u64 { self.get(2).and_then(|r| as_u64(r)).unwrap_or(0) }
    pub fn inlist(&self, k: u64) -> Option<(bool, Vec<(Vec<u8>, u64)>)> { self.get(k).and_then(|r| parse_inputs(r)) }
    pub fn uentry(&self, h: &[u8], ix: u64) -> Option<usize> { self.utxo.iter().position(|e| e.hash == h && e.ix == ix) }
    pub fn is_post_alonzo(&self) -> bool { matches!(self.fam, Fam::Babbage | Fam::Conway) }
    pub fn has_scripts_era(&self) -> bool { matches!(self.fam, Fam::AC(Era::Alonzo) | Fam::Babbage | Fam::Conway) }
}

/// Decode the scenario with the real decoders and hand the real objects to `k`.
/// Returns None when the mutated bytes are not decodable (outside the property's quantifier).
pub fn materialize<R>(s: &Scen, k: impl FnOnce(AnyTx, &MultiEraTx, &UTxOs, &Environment) -> R) -> Option<R> {
    let env = s.env.build();
    // UTxO set
    let mut outs: Vec<MultiEraOutput> = vec![];
    for e in &s.utxo { outs.push(MultiEraOutput::decode(e.era, &e.out).ok()?); }
    let mut utxos: UTxOs = UTxOs::new();
    for (e, o) in s.utxo.iter().zip(outs.into_iter()) {
        if e.hash.len() != 32 { return None; }
        let h: pallas_crypto::hash::Hash<32> = e.hash.as_slice().into();
        let key = if e.byron_key {
            MultiEraInput::Byron(Box::new(Cow::Owned(byron::TxIn::Variant0(pallas_codec::utils::CborWrap((h, e.ix as u32))))))
        } else {
            MultiEraInput::AlonzoCompatible(Box::new(Cow::Owned(pallas_primitives::alonzo::TransactionInput { transaction_id: h, index: e.ix })))
        };
        utxos.insert(key, o);
    }
    match s.fam {
        Fam::Byron => {
            let mut buf = vec![];
            let w: byron::Witnesses = pallas_codec::utils::MaybeIndefArray::Def(s.bwits.clone());
            let txb = minicbor::to_vec(s.btx.as_ref().unwrap()).ok()?;
            let wb = minicbor::to_vec(&w).ok()?;
            head(4, 2, &mut buf); buf.extend_from_slice(&txb); buf.extend_from_slice(&wb);
            let p: byron::TxPayload = minicbor::decode(&buf).ok()?;
            let m = MultiEraTx::from_byron(&p);
            Some(k(AnyTx::Byron(&p), &m, &utxos, &env))
        }
        Fam::AC(era) => {
            let b = s.tx_bytes();
            let t: pallas_primitives::alonzo::Tx = minicbor::decode(&b).ok()?;
            let m = MultiEraTx::from_alonzo_compatible(&t, era);
            Some(k(AnyTx::AC(&t, era), &m, &utxos, &env))
        }
        Fam::Babbage => {
            let b = s.tx_bytes();
            let t: pallas_primitives::babbage::Tx = minicbor::decode(&b).ok()?;
            let m = MultiEraTx::from_babbage(&t);
            Some(k(AnyTx::Babbage(&t), &m, &utxos, &env))
        }
        Fam::Conway => {
            let b = s.tx_bytes();
            let t: pallas_primitives::conway::Tx = minicbor::decode(&b).ok()?;
            let m = MultiEraTx::from_conway(&t);
            Some(k(AnyTx::Conway(&t), &m, &utxos, &env))
        }
    }
}

// ---------------------------------------------------------------- error classes
use pallas_validate::utils::{AlonzoError as AE, ByronError as BE, PostAlonzoError as PE, ShelleyMAError as SE, ValidationError as VE};
/// small integer class of a validation error: top-level 1..4, Byron 100+, ShelleyMA 200+, Alonzo 300+, PostAlonzo 400+
pub fn err_code(e: &VE) -> i64 {
    match e {
        VE::TxAndProtParamsDiffer => 1, VE::PParamsByronDoesntNeedAccountState => 2, VE::EnvMissingAccountState => 3, VE::UnknownProtParams => 4,
        VE::Byron(b) => 100 + match b {
            BE::TxInsEmpty => 0, BE::TxOutsEmpty => 1, BE::InputNotInUTxO => 2, BE::OutputWithoutLovelace => 3, BE::UnknownTxSize => 4,
            BE::UnableToComputeFees => 5, BE::FeesBelowMin => 6, BE::MaxTxSizeExceeded => 7, BE::UnableToProcessWitness => 8,
            BE::MissingWitness => 9, BE::WrongSignature => 10, _ => 99 },
        VE::ShelleyMA(s) => 200 + match s {
            SE::TxInsEmpty => 0, SE::InputNotInUTxO => 1, SE::TTLExceeded => 2, SE::AlonzoCompNotShelley => 3, SE::UnknownTxSize => 4,
            SE::MaxTxSizeExceeded => 5, SE::ValueNotShelley => 6, SE::MinLovelaceUnreached => 7, SE::PreservationOfValue => 8,
            SE::NegativeValue => 9, SE::FeesBelowMin => 10, SE::WrongEraOutput => 11, SE::AddressDecoding => 12, SE::WrongNetworkID => 13,
            SE::MetadataHash => 14, SE::MissingVKWitness => 15, SE::MissingScriptWitness => 16, SE::WrongSignature => 17,
            SE::MintingLacksPolicy => 18, SE::KeyAlreadyRegistered => 19, SE::KeyNotRegistered => 20, SE::PointerInUse => 21,
            SE::RewardsNotNull => 22, SE::PoolAlreadyRegistered => 23, SE::PoolNotRegistered => 24, SE::PoolCostBelowMin => 25,
            SE::DuplicateGenesisDelegate => 26, SE::DuplicateGenesisVRF => 27, SE::GenesisKeyNotInMapping => 28,
            SE::InsufficientForInstantaneousRewards => 29, SE::MIRCertificateTooLateinEpoch => 30, SE::ScriptDenial => 31, _ => 99 },
        VE::Alonzo(a) => 300 + match a {
            AE::UnknownTxSize => 0, AE::TxInsEmpty => 1, AE::InputNotInUTxO => 2, AE::CollateralNotInUTxO => 3, AE::BlockExceedsValInt => 4,
            AE::BlockPrecedesValInt => 5, AE::ValIntUpperBoundMissing => 6, AE::FeeBelowMin => 7, AE::CollateralMissing => 8,
            AE::TooManyCollaterals => 9, AE::CollateralNotVKeyLocked => 10, AE::AddressDecoding => 11, AE::CollateralMinLovelace => 12,
            AE::NonLovelaceCollateral => 13, AE::NegativeValue => 14, AE::PreservationOfValue => 15, AE::MinLovelaceUnreached => 16,
            AE::MaxValSizeExceeded => 17, AE::OutputWrongNetworkID => 18, AE::TxWrongNetworkID => 19, AE::RedeemerMissing => 20,
            AE::TxExUnitsExceeded => 21, AE::MaxTxSizeExceeded => 22, AE::VKWitnessMissing => 23, AE::VKWrongSignature => 24,
            AE::ReqSignerMissing => 25, AE::ReqSignerWrongSig => 26, AE::ScriptWitnessMissing => 27, AE::MintingLacksPolicy => 28,
            AE::InputDecoding => 29, AE::UnneededNativeScript => 30, AE::UnneededPlutusScript => 31, AE::UnneededRedeemer => 32,
            AE::DatumMissing => 33, AE::UnneededDatum => 34, AE::MetadataHash => 35, AE::ScriptIntegrityHash => 36, _ => 99 },
        VE::PostAlonzo(p) => 400 + match p {
            PE::UnknownTxSize => 0, PE::TxInsEmpty => 1, PE::InputNotInUTxO => 2, PE::CollateralNotInUTxO => 3, PE::ReferenceInputNotInUTxO => 4,
            PE::BlockPrecedesValInt => 5, PE::BlockExceedsValInt => 6, PE::FeeBelowMin => 7, PE::CollateralMissing => 8,
            PE::TooManyCollaterals => 9, PE::InputDecoding => 10, PE::CollateralNotVKeyLocked => 11, PE::CollateralMinLovelace => 12,
            PE::NonLovelaceCollateral => 13, PE::CollateralWrongAssets => 14, PE::NegativeValue => 15, PE::CollateralAnnotation => 16,
            PE::PreservationOfValue => 17, PE::MinLovelaceUnreached => 18, PE::MaxValSizeExceeded => 19, PE::AddressDecoding => 20,
            PE::OutputWrongNetworkID => 21, PE::TxWrongNetworkID => 22, PE::TxExUnitsExceeded => 23, PE::RedeemerMissing => 24,
            PE::UnneededRedeemer => 25, PE::MaxTxSizeExceeded => 26, PE::MintingLacksPolicy(_) => 27, PE::MetadataHash => 28,
            PE::DatumMissing => 29, PE::UnneededDatum => 30, PE::ScriptWitnessMissing => 31, PE::UnneededNativeScript => 32,
            PE::UnneededPlutusV1Script => 33, PE::UnneededPlutusV2Script => 34, PE::UnneededPlutusV3Script => 35,
            PE::ReqSignerMissing => 36, PE::ReqSignerWrongSig => 37, PE::VKWitnessMissing => 38, PE::VKWrongSignature => 39,
            PE::UnsupportedPlutusLanguage => 40, PE::ScriptIntegrityHash => 41, _ => 99 },
        _ => 98,
    }
}

// ---------------------------------------------------------------- small helpers for mutators
pub fn edge_amount(rng: &mut Rng) -> u64 {
    match rng.below(9) {
        0 => 0, 1 => 1, 2 => u64::MAX, 3 => u64::MAX - 1, 4 => 1u64 << 63, 5 => (1u64 << 63) - 1,
        6 => (1u64 << 63) + 1, 7 => (1u64 << 62) + rng.below(3), _ => rng.edge_u64(),
    }
}
pub fn edge_u32(rng: &mut Rng) -> u32 {
    match rng.below(6) { 0 => 0, 1 => 1, 2 => u32::MAX, 3 => u32::MAX - 1, 4 => 1 << 31, _ => rng.next() as u32 >> rng.below(32) }
}

// ---------------------------------------------------------------- scenario text (replays / corpus)
use pallas_validate::utils::MultiEraProtocolParameters as PPx;
/// the numeric protocol parameters the mutators touch
pub fn pp_fields(pp: &PPx) -> Vec<(&'static str, u64)> {
    macro_rules! post { ($p:ident) => { vec![("minfee_a", $p.minfee_a as u64), ("minfee_b", $p.minfee_b as u64), ("max_tx_size", $p.max_transaction_size as u64),
        ("ada_per_utxo_byte", $p.ada_per_utxo_byte), ("max_value_size", $p.max_value_size as u64), ("collateral_percentage", $p.collateral_percentage as u64),
        ("max_collateral_inputs", $p.max_collateral_inputs as u64), ("ex_mem", $p.max_tx_ex_units.mem), ("ex_steps", $p.max_tx_ex_units.steps)] } }
    match pp {
        PPx::Byron(p) => vec![("summand", p.summand), ("multiplier", p.multiplier), ("max_tx_size", p.max_tx_size)],
        PPx::Shelley(p) => vec![("minfee_a", p.minfee_a as u64), ("minfee_b", p.minfee_b as u64), ("max_tx_size", p.max_transaction_size as u64),
            ("min_utxo_value", p.min_utxo_value), ("key_deposit", p.key_deposit), ("pool_deposit", p.pool_deposit),
            ("min_pool_cost", p.min_pool_cost), ("maximum_epoch", p.maximum_epoch)],
        PPx::Alonzo(p) => post!(p), PPx::Babbage(p) => post!(p), PPx::Conway(p) => post!(p),
        _ => vec![],
    }
}
pub fn pp_set(pp: &mut PPx, k: &str, v: u64) {
    macro_rules! post { ($p:ident) => { match k { "minfee_a" => $p.minfee_a = v as u32, "minfee_b" => $p.minfee_b = v as u32, "max_tx_size" => $p.max_transaction_size = v as u32,
        "ada_per_utxo_byte" => $p.ada_per_utxo_byte = v, "max_value_size" => $p.max_value_size = v as u32, "collateral_percentage" => $p.collateral_percentage = v as u32,
        "max_collateral_inputs" => $p.max_collateral_inputs = v as u32, "ex_mem" => $p.max_tx_ex_units.mem = v, "ex_steps" => $p.max_tx_ex_units.steps = v, _ => {} } } }
    match pp {
        PPx::Byron(p) => match k { "summand" => p.summand = v, "multiplier" => p.multiplier = v, "max_tx_size" => p.max_tx_size = v, _ => {} },
        PPx::Shelley(p) => match k { "minfee_a" => p.minfee_a = v as u32, "minfee_b" => p.minfee_b = v as u32, "max_tx_size" => p.max_transaction_size = v as u32,
            "min_pool_cost" => p.min_pool_cost = v, "maximum_epoch" => p.maximum_epoch = v, "min_utxo_value" => p.min_utxo_value = v, "key_deposit" => p.key_deposit = v, "pool_deposit" => p.pool_deposit = v, _ => {} },
        PPx::Alonzo(p) => post!(p), PPx::Babbage(p) => post!(p), PPx::Conway(p) => post!(p),
        _ => {}
    }
}
fn hx(b: &[u8]) -> String { verif_harness::hex(b) }
fn era_name(e: Era) -> &'static str { match e { Era::Byron => "byron", Era::Shelley => "shelley", Era::Allegra => "allegra", Era::Mary => "mary", Era::Alonzo => "alonzo", Era::Babbage => "babbage", Era::Conway => "conway", _ => "other" } }
fn era_of(s: &str) -> Option<Era> { Some(match s { "byron" => Era::Byron, "shelley" => Era::Shelley, "allegra" => Era::Allegra, "mary" => Era::Mary, "alonzo" => Era::Alonzo, "babbage" => Era::Babbage, "conway" => Era::Conway, _ => return None }) }
/// a self-contained replay line: the fixture it started from (protocol parameters not listed and the
/// certificate state come from it) plus the concrete transaction bytes, UTxO set and environment
pub fn scen_text(s: &Scen, fixture: &str) -> String {
    let tx = if s.fam == Fam::Byron {
        let w: byron::Witnesses = pallas_codec::utils::MaybeIndefArray::Def(s.bwits.clone());
        format!("{}/{}", hx(&minicbor::to_vec(s.btx.as_ref().unwrap()).unwrap_or_default()), hx(&minicbor::to_vec(&w).unwrap_or_default()))
    } else { hx(&s.tx_bytes()) };
    let utxo = s.utxo.iter().map(|e| format!("{}#{}:{}:{}:{}", hx(&e.hash), e.ix, era_name(e.era), if e.byron_key { 1 } else { 0 }, hx(&e.out))).collect::<Vec<_>>().join(",");
    let pp = pp_fields(&s.env.pp).iter().map(|(k, v)| format!("{}={}", k, v)).collect::<Vec<_>>().join(";");
    format!("SCEN fixture={} tx={} utxo={} slot={} netid={} magic={} acnt={} pp={} counts={} cs={}", fixture, tx, utxo, s.env.slot, s.env.netid, s.env.magic,
            s.env.acnt.map(|(a, b)| format!("{}/{}", a, b)).unwrap_or("none".into()), pp, s.counts.map(|(a, b, c)| format!("{}/{}/{}", a, b, c)).unwrap_or("none".into()),
            if matches!(s.fam, Fam::AC(Era::Shelley) | Fam::AC(Era::Allegra) | Fam::AC(Era::Mary)) { super::vcert::cs_text(&s.cs) } else { "base".to_string() })
}
pub fn scen_parse(line: &str, base: &[(&'static str, Scen)], clone: &dyn Fn(&Scen) -> Scen) -> Option<(&'static str, Scen)> {
    let start = line.find("SCEN fixture=")?;
    let mut kv = std::collections::HashMap::new();
    for tok in line[start + 5..].split(' ') { if let Some((k, v)) = tok.split_once('=') { kv.insert(k.to_string(), v.to_string()); } }
    let fname = kv.get("fixture")?;
    let (bn, b) = base.iter().find(|(n, _)| n == fname)?;
    let mut s = clone(b);
    let tx = kv.get("tx")?;
    if s.fam == Fam::Byron {
        let (a, w) = tx.split_once('/')?;
        s.btx = Some(minicbor::decode(&hex::decode(a).ok()?).ok()?);
        let ws: byron::Witnesses = minicbor::decode(&hex::decode(w).ok()?).ok()?;
        s.bwits = ws.to_vec();
    } else {
        let bytes = hex::decode(tx).ok()?;
        let items = arr_items(&bytes)?;
        if items.len() != 4 { return None }
        s.body = map_u(&items[0])?; s.wits = map_u(&items[1])?; s.valid = items[2] == [0xf5];
        s.aux = if items[3] == [C_NULL] { None } else { Some(items[3].clone()) };
    }
    s.utxo.clear();
    let u = kv.get("utxo")?;
    if !u.is_empty() {
        for e in u.split(',') {
            let (hi, rest) = e.split_once(':')?; let (h, ix) = hi.split_once('#')?;
            let mut p = rest.splitn(3, ':');
            let era = era_of(p.next()?)?; let bk = p.next()? == "1"; let out = hex::decode(p.next()?).ok()?;
            s.utxo.push(UEntry { byron_key: bk, hash: hex::decode(h).ok()?, ix: ix.parse().ok()?, era, out });
        }
    }
    s.env.slot = kv.get("slot")?.parse().ok()?; s.env.netid = kv.get("netid")?.parse().ok()?; s.env.magic = kv.get("magic")?.parse().ok()?;
    let ac = kv.get("acnt")?;
    s.env.acnt = if ac == "none" { None } else { let (a, b) = ac.split_once('/')?; Some((a.parse().ok()?, b.parse().ok()?)) };
    if let Some(c) = kv.get("cs") { if c != "base" { s.cs = super::vcert::cs_parse(c)? } }
    if let Some(c) = kv.get("counts") { if c != "none" { let v: Vec<u64> = c.split('/').filter_map(|x| x.parse().ok()).collect(); if v.len() == 3 { s.counts = Some((v[0], v[1], v[2])) } } }
    if let Some(pp) = kv.get("pp") { for f in pp.split(';') { if let Some((k, v)) = f.split_once('=') { pp_set(&mut s.env.pp, k, v.parse().ok()?) } } }
    Some((bn, s))
}
pub fn clone_scen(b: &Scen) -> Scen {
    Scen { fam: b.fam, body: b.body.clone(), wits: b.wits.clone(), valid: b.valid, aux: b.aux.clone(), btx: b.btx.clone(), bwits: b.bwits.clone(),
           utxo: b.utxo.clone(), env: EnvSpec { pp: b.env.pp.clone(), magic: b.env.magic, slot: b.env.slot, netid: b.env.netid, acnt: b.env.acnt }, cs: b.cs.clone(), trail: vec![], counts: b.counts }
}
