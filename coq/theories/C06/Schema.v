(* C06 proofs, part 4: the law for every well-formed schema, by induction through the nested
   field / arm lists. *)
From PV Require Import Lib.Base Cbor.Item Cbor.Enc Cbor.Dec Cbor.HeadLaws Cbor.Laws Cbor.Api
  C06.Model C06.Leaves C06.Proofs C06.MapStruct.
Open Scope Z_scope.

Section SchemaInd.
  Variable P : schema -> Prop.
  Hypothesis HUInt : forall bits, P (SUInt bits).
  Hypothesis HInt : P SInt64.
  Hypothesis HBytes : P SBytes.
  Hypothesis HText : P SText.
  Hypothesis HBool : P SBool.
  Hypothesis HVec : forall s, P s -> P (SVec s).
  Hypothesis HArray : forall fields, Forall (fun f => P (snd (snd f))) fields -> P (SArray fields).
  Hypothesis HMap : forall fields, Forall (fun f => P (snd (snd f))) fields -> P (SMap fields).
  Hypothesis HFlat : forall arms, Forall (fun a => Forall (fun f => P (snd (snd f))) (snd a)) arms -> P (SFlat arms).
  Hypothesis HIndex : forall idxs, P (SIndexOnly idxs).
  Hypothesis HTag : forall t s, P s -> P (STag t s).
  Hypothesis HCustom : forall n, P (SCustom n).

  Fixpoint schema_ind' (s : schema) : P s :=
    let fix go (fs : list (Z * (bool * schema))) : Forall (fun f => P (snd (snd f))) fs :=
      match fs with
      | [] => Forall_nil _
      | f :: r => Forall_cons f (schema_ind' (snd (snd f))) (go r)
      end in
    let fix goa (arms : list (Z * list (Z * (bool * schema))))
      : Forall (fun a => Forall (fun f => P (snd (snd f))) (snd a)) arms :=
      match arms with
      | [] => Forall_nil _
      | a :: r => Forall_cons a (go (snd a)) (goa r)
      end in
    match s with
    | SUInt bits => HUInt bits
    | SInt64 => HInt
    | SBytes => HBytes
    | SText => HText
    | SBool => HBool
    | SVec s' => HVec s' (schema_ind' s')
    | SArray fields => HArray fields (go fields)
    | SMap fields => HMap fields (go fields)
    | SFlat arms => HFlat arms (goa arms)
    | SIndexOnly idxs => HIndex idxs
    | STag t s' => HTag t s' (schema_ind' s')
    | SCustom n => HCustom n
    end.
End SchemaInd.

Lemma fields_ok (fields : list (Z * (bool * schema))) :
  Forall (fun f => wf_schema (snd (snd f)) = true -> codec_ok (codec_of (snd (snd f)))) fields ->
  forallb (fun f => wf_schema (snd (snd f))) fields = true ->
  Forall (fun f : field => codec_ok (snd f)) (map (fun f => (fst (snd f), codec_of (snd (snd f)))) fields).
Proof.
  induction 1 as [|f fs Hf _ IH]; cbn [forallb map]; intros Hwf; [constructor|].
  apply andb_true_iff in Hwf as [H1 H2]. constructor; [cbn [snd]; auto|auto].
Qed.

Lemma mfields_ok (fields : list (Z * (bool * schema))) :
  Forall (fun f => wf_schema (snd (snd f)) = true -> codec_ok (codec_of (snd (snd f)))) fields ->
  forallb (fun f => wf_schema (snd (snd f))) fields = true ->
  Forall (fun mf : mfield => codec_ok (snd (snd mf)))
         (map (fun f => (fst f, (fst (snd f), codec_of (snd (snd f))))) fields).
Proof.
  induction 1 as [|f fs Hf _ IH]; cbn [forallb map]; intros Hwf; [constructor|].
  apply andb_true_iff in Hwf as [H1 H2]. constructor; [cbn [snd]; auto|auto].
Qed.

Lemma mf_map_fst (fields : list (Z * (bool * schema))) :
  map fst (map (fun f => (fst f, (fst (snd f), codec_of (snd (snd f))))) fields) = map fst fields.
Proof. induction fields as [|f t IH]; cbn [map fst]; [reflexivity|rewrite IH; reflexivity]. Qed.

Lemma mf_forallb_idx (fields : list (Z * (bool * schema))) :
  forallb (fun mf : mfield => idx_ok (fst mf)) (map (fun f => (fst f, (fst (snd f), codec_of (snd (snd f))))) fields)
  = forallb (fun f => idx_ok (fst f)) fields.
Proof. induction fields as [|f t IH]; cbn [map forallb fst]; [reflexivity|rewrite IH; reflexivity]. Qed.

Theorem codec_of_ok s : wf_schema s = true -> codec_ok (codec_of s).
Proof.
  induction s as [bits| | | | |s IH|fields IH|fields IH|arms IH|idxs|t s IH|n] using schema_ind';
    cbn [wf_schema codec_of]; intros Hwf.
  - apply c_uint_ok. unfold u64_max1.
    repeat (apply orb_true_iff in Hwf as [Hwf|Hwf]); apply Z.eqb_eq in Hwf; subst; cbn; lia.
  - apply c_i64_ok.
  - apply c_bytes_ok.
  - apply c_text_ok.
  - apply c_bool_ok.
  - apply c_vec_ok, IH, Hwf.
  - apply andb_true_iff in Hwf as [Hwf Hs]. apply andb_true_iff in Hwf as [_ Hlen]. apply c_struct_ok.
    + unfold len in *. rewrite map_length. lia.
    + apply fields_ok; assumption.
  - apply andb_true_iff in Hwf as [Hwf Hs]. apply andb_true_iff in Hwf as [Hwf Hlen].
    apply andb_true_iff in Hwf as [Hnd Hidx]. apply c_mapstruct_ok.
    + unfold wf_mfields. rewrite mf_map_fst, mf_forallb_idx. unfold len in *. rewrite map_length.
      rewrite Hnd, Hidx, Hlen. reflexivity.
    + apply mfields_ok; assumption.
  - apply andb_true_iff in Hwf as [_ Hwf]. apply c_flat_ok.
    induction IH as [|a arms Ha _ IHa]; cbn [forallb map] in *; [constructor|].
    apply andb_true_iff in Hwf as [H1 H2]. apply andb_true_iff in H1 as [H1 Hfs]. apply andb_true_iff in H1 as [_ Hlen].
    constructor; [|apply IHa, H2]. cbn [snd]. split.
    + unfold len in *. rewrite map_length. lia.
    + apply fields_ok; assumption.
  - apply c_index_ok.
  - apply andb_true_iff in Hwf as [Ht Hs]. apply c_tag_ok; [lia|apply IH, Hs].
  - apply c_raw_ok.
Qed.

(* the law, in the form of the assignment *)
Theorem schema_roundtrip_proof s v r :
  wf_schema s = true -> has_type v s -> dec_schema s (enc_schema s v ++ r) = DOk (v, r).
Proof. intros Hwf Hty. apply (codec_of_ok s Hwf v r Hty). Qed.
