//! Shared driver for C27/C28/C29: abstract events/messages <-> pallas-network2
//! behaviours, output draining, state snapshots, Coq printers.
#![allow(dead_code)]
pub mod raw;
use futures::StreamExt;
use pallas_network2::behavior::responder::{
    ResponderBehavior, ResponderCommand, ResponderEvent, ResponderState,
};
use pallas_network2::behavior::{
    AnyMessage, InitiatorBehavior, InitiatorCommand, InitiatorEvent, InitiatorState,
    PromotionBehavior, PromotionConfig,
};
use pallas_network2::protocol::{
    self as proto, blockfetch as bf, chainsync as cs, handshake as hs, keepalive as ka,
    leiosfetch as lf, leiosnotify as ln, peersharing as psh, txsubmission as tx, AnyCbor, Point,
    MAINNET_MAGIC,
};
use pallas_network2::{BehaviorOutput, InterfaceCommand, InterfaceError, InterfaceEvent, PeerId};
use std::collections::HashMap;
use std::net::Ipv4Addr;
use verif_harness::*;

// ---------------------------------------------------------------- ids
pub fn pid(i: i64) -> PeerId {
    PeerId { host: format!("10.0.{}.{}", (i >> 8) & 255, i & 255), port: 3000 + (i & 0xfff) as u16 }
}
pub fn pid_inv(p: &PeerId) -> i64 {
    let parts: Vec<&str> = p.host.split('.').collect();
    if parts.len() == 4 && parts[0] == "10" && parts[2].parse::<i64>().is_ok() {
        let i = parts[2].parse::<i64>().unwrap() * 256 + parts[3].parse::<i64>().unwrap_or(0);
        if pid(i) == *p { return i; }
    }
    -1
}
pub fn addr(i: i64) -> psh::PeerAddress {
    psh::PeerAddress::V4(Ipv4Addr::new(10, 0, ((i >> 8) & 255) as u8, (i & 255) as u8), 3000 + (i & 0xfff) as u16)
}
pub fn point(x: i64) -> Point { if x == 0 { Point::Origin } else { Point::Specific(x as u64, vec![x as u8; 4]) } }
pub fn point_inv(p: &Point) -> i64 { match p { Point::Origin => 0, Point::Specific(s, _) => *s as i64 } }
pub fn tip() -> cs::Tip { cs::Tip(Point::Origin, 0) }
pub fn cbor1(x: i64) -> AnyCbor { AnyCbor::from_raw_bytes(vec![x as u8]) }
pub fn cbor1_inv(c: &AnyCbor) -> i64 { c.raw_bytes().first().map(|b| *b as i64).unwrap_or(-1) }
pub fn vdata(magic: u64, ps: i64) -> hs::n2n::VersionData {
    hs::n2n::VersionData::new(magic, false, if ps < 0 { None } else { Some(ps as u8) }, Some(false))
}

// ---------------------------------------------------------------- messages
#[derive(Clone, Debug, PartialEq)]
pub enum Msg {
    HsPropose(Vec<(i64, i64)>), HsAccept(i64, i64), HsRefuse(i64), HsQueryReply,
    KaKeepAlive(i64), KaResponse(i64), KaDone,
    PsRequest(i64), PsPeers(Vec<i64>), PsDone,
    BfRequestRange(i64), BfClientDone, BfStartBatch, BfNoBlocks, BfBlock(i64), BfBatchDone,
    CsRequestNext, CsAwaitReply, CsRollForward(i64), CsRollBackward(i64), CsFindIntersect(i64),
    CsIntersectFound(i64), CsIntersectNotFound, CsDone,
    TxInit, TxRequestTxIds, TxReplyTxIds, TxRequestTxs, TxReplyTxs(i64), TxDone,
    LnRequestNext, LnAnnouncement(i64), LnOffer(i64), LnTxsOffer(i64), LnVotes(i64), LnDone,
    LfBlockRequest(i64), LfBlock(i64), LfBlockTxsRequest(i64), LfBlockTxs(i64), LfDone,
}
use Msg::*;

impl Msg {
    pub fn proto(&self) -> u16 {
        match self {
            HsPropose(_) | HsAccept(..) | HsRefuse(_) | HsQueryReply => 0,
            KaKeepAlive(_) | KaResponse(_) | KaDone => 8,
            PsRequest(_) | PsPeers(_) | PsDone => 10,
            BfRequestRange(_) | BfClientDone | BfStartBatch | BfNoBlocks | BfBlock(_) | BfBatchDone => 3,
            CsRequestNext | CsAwaitReply | CsRollForward(_) | CsRollBackward(_) | CsFindIntersect(_)
            | CsIntersectFound(_) | CsIntersectNotFound | CsDone => 2,
            TxInit | TxRequestTxIds | TxReplyTxIds | TxRequestTxs | TxReplyTxs(_) | TxDone => 4,
            LnRequestNext | LnAnnouncement(_) | LnOffer(_) | LnTxsOffer(_) | LnVotes(_) | LnDone => 18,
            _ => 19,
        }
    }
    pub fn coq(&self) -> String {
        match self {
            HsPropose(vs) => format!("(HsPropose {})", coq_list(vs, |(a, b)| format!("({},{})", coq_z(a), coq_z(b)))),
            HsAccept(v, p) => format!("(HsAccept {} {})", coq_z(v), coq_z(p)),
            HsRefuse(k) => format!("(HsRefuse {})", coq_z(k)),
            PsPeers(l) => format!("(PsPeers {})", coq_list(l, |x| coq_z(x))),
            KaKeepAlive(c) => format!("(KaKeepAlive {})", coq_z(c)),
            KaResponse(c) => format!("(KaResponse {})", coq_z(c)),
            PsRequest(c) => format!("(PsRequest {})", coq_z(c)),
            BfRequestRange(c) => format!("(BfRequestRange {})", coq_z(c)),
            BfBlock(c) => format!("(BfBlock {})", coq_z(c)),
            CsRollForward(c) => format!("(CsRollForward {})", coq_z(c)),
            CsRollBackward(c) => format!("(CsRollBackward {})", coq_z(c)),
            CsFindIntersect(c) => format!("(CsFindIntersect {})", coq_z(c)),
            CsIntersectFound(c) => format!("(CsIntersectFound {})", coq_z(c)),
            TxReplyTxs(c) => format!("(TxReplyTxs {})", coq_z(c)),
            LnAnnouncement(c) => format!("(LnAnnouncement {})", coq_z(c)),
            LnOffer(c) => format!("(LnOffer {})", coq_z(c)),
            LnTxsOffer(c) => format!("(LnTxsOffer {})", coq_z(c)),
            LnVotes(c) => format!("(LnVotes {})", coq_z(c)),
            LfBlockRequest(c) => format!("(LfBlockRequest {})", coq_z(c)),
            LfBlock(c) => format!("(LfBlock {})", coq_z(c)),
            LfBlockTxsRequest(c) => format!("(LfBlockTxsRequest {})", coq_z(c)),
            LfBlockTxs(c) => format!("(LfBlockTxs {})", coq_z(c)),
            other => format!("{:?}", other),
        }
    }
    pub fn to_any(&self) -> AnyMessage {
        match self {
            HsPropose(vs) => {
                let mut values = HashMap::new();
                for (v, m) in vs { values.insert(*v as u64, vdata(*m as u64, 1)); }
                AnyMessage::Handshake(hs::Message::Propose(hs::VersionTable { values }))
            }
            HsAccept(v, p) => AnyMessage::Handshake(hs::Message::Accept(*v as u64, vdata(MAINNET_MAGIC, *p))),
            HsRefuse(k) => AnyMessage::Handshake(hs::Message::Refuse(match k {
                0 => hs::RefuseReason::VersionMismatch(vec![13]),
                1 => hs::RefuseReason::HandshakeDecodeError(13, "x".into()),
                _ => hs::RefuseReason::Refused(13, "x".into()),
            })),
            HsQueryReply => AnyMessage::Handshake(hs::Message::QueryReply(hs::VersionTable { values: HashMap::new() })),
            KaKeepAlive(c) => AnyMessage::KeepAlive(ka::Message::KeepAlive(*c as u16)),
            KaResponse(c) => AnyMessage::KeepAlive(ka::Message::ResponseKeepAlive(*c as u16)),
            KaDone => AnyMessage::KeepAlive(ka::Message::Done),
            PsRequest(n) => AnyMessage::PeerSharing(psh::Message::ShareRequest(*n as u8)),
            PsPeers(l) => AnyMessage::PeerSharing(psh::Message::SharePeers(l.iter().map(|i| addr(*i)).collect())),
            PsDone => AnyMessage::PeerSharing(psh::Message::Done),
            BfRequestRange(r) => AnyMessage::BlockFetch(bf::Message::RequestRange((point(*r), point(*r + 1)))),
            BfClientDone => AnyMessage::BlockFetch(bf::Message::ClientDone),
            BfStartBatch => AnyMessage::BlockFetch(bf::Message::StartBatch),
            BfNoBlocks => AnyMessage::BlockFetch(bf::Message::NoBlocks),
            BfBlock(b) => AnyMessage::BlockFetch(bf::Message::Block(vec![*b as u8])),
            BfBatchDone => AnyMessage::BlockFetch(bf::Message::BatchDone),
            CsRequestNext => AnyMessage::ChainSync(cs::Message::RequestNext),
            CsAwaitReply => AnyMessage::ChainSync(cs::Message::AwaitReply),
            CsRollForward(h) => AnyMessage::ChainSync(cs::Message::RollForward(
                cs::HeaderContent { variant: 1, byron_prefix: None, cbor: vec![*h as u8] }, tip())),
            CsRollBackward(p) => AnyMessage::ChainSync(cs::Message::RollBackward(point(*p), tip())),
            CsFindIntersect(k) => AnyMessage::ChainSync(cs::Message::FindIntersect(vec![point(*k)])),
            CsIntersectFound(p) => AnyMessage::ChainSync(cs::Message::IntersectFound(point(*p), tip())),
            CsIntersectNotFound => AnyMessage::ChainSync(cs::Message::IntersectNotFound(tip())),
            CsDone => AnyMessage::ChainSync(cs::Message::Done),
            TxInit => AnyMessage::TxSubmission(tx::Message::Init),
            TxRequestTxIds => AnyMessage::TxSubmission(tx::Message::RequestTxIds(true, 0, 10)),
            TxReplyTxIds => AnyMessage::TxSubmission(tx::Message::ReplyTxIds(vec![tx::TxIdAndSize(tx::EraTxId(6, vec![1]), 10)])),
            TxRequestTxs => AnyMessage::TxSubmission(tx::Message::RequestTxs(vec![tx::EraTxId(6, vec![1])])),
            TxReplyTxs(n) => AnyMessage::TxSubmission(tx::Message::ReplyTxs((0..*n).map(|i| tx::EraTxBody(6, vec![i as u8])).collect())),
            TxDone => AnyMessage::TxSubmission(tx::Message::Done),
            LnRequestNext => AnyMessage::LeiosNotify(ln::Message::RequestNext),
            LnAnnouncement(x) => AnyMessage::LeiosNotify(ln::Message::BlockAnnouncement(cbor1(*x))),
            LnOffer(x) => AnyMessage::LeiosNotify(ln::Message::BlockOffer(point(*x), 7)),
            LnTxsOffer(x) => AnyMessage::LeiosNotify(ln::Message::BlockTxsOffer(point(*x))),
            LnVotes(x) => AnyMessage::LeiosNotify(ln::Message::Votes(vec![cbor1(*x)])),
            LnDone => AnyMessage::LeiosNotify(ln::Message::Done),
            LfBlockRequest(p) => AnyMessage::LeiosFetch(lf::Message::BlockRequest(point(*p))),
            LfBlock(x) => AnyMessage::LeiosFetch(lf::Message::Block(cbor1(*x))),
            LfBlockTxsRequest(p) => AnyMessage::LeiosFetch(lf::Message::BlockTxsRequest(point(*p), lf::Bitmaps::default())),
            LfBlockTxs(x) => AnyMessage::LeiosFetch(lf::Message::BlockTxs { point: point(*x), bitmaps: lf::Bitmaps::default(), txs: vec![cbor1(*x)] }),
            LfDone => AnyMessage::LeiosFetch(lf::Message::Done),
        }
    }
    pub fn from_any(m: &AnyMessage) -> Msg {
        match m {
            AnyMessage::Handshake(h) => match h {
                hs::Message::Propose(t) => {
                    let mut v: Vec<(i64, i64)> = t.values.iter().map(|(k, d)| (*k as i64, d.network_magic as i64)).collect();
                    v.sort();
                    HsPropose(v)
                }
                hs::Message::Accept(v, d) => HsAccept(*v as i64, d.peer_sharing.map(|x| x as i64).unwrap_or(0)),
                hs::Message::Refuse(r) => HsRefuse(match r {
                    hs::RefuseReason::VersionMismatch(_) => 0,
                    hs::RefuseReason::HandshakeDecodeError(..) => 1,
                    hs::RefuseReason::Refused(..) => 2,
                }),
                hs::Message::QueryReply(_) => HsQueryReply,
            },
            AnyMessage::KeepAlive(k) => match k {
                ka::Message::KeepAlive(c) => KaKeepAlive(*c as i64),
                ka::Message::ResponseKeepAlive(c) => KaResponse(*c as i64),
                ka::Message::Done => KaDone,
            },
            AnyMessage::PeerSharing(p) => match p {
                psh::Message::ShareRequest(n) => PsRequest(*n as i64),
                psh::Message::SharePeers(l) => PsPeers(l.iter().map(|a| pid_inv(&a.clone().into())).collect()),
                psh::Message::Done => PsDone,
            },
            AnyMessage::BlockFetch(b) => match b {
                bf::Message::RequestRange((a, _)) => BfRequestRange(point_inv(a)),
                bf::Message::ClientDone => BfClientDone,
                bf::Message::StartBatch => BfStartBatch,
                bf::Message::NoBlocks => BfNoBlocks,
                bf::Message::Block(b) => BfBlock(b.first().map(|x| *x as i64).unwrap_or(-1)),
                bf::Message::BatchDone => BfBatchDone,
            },
            AnyMessage::ChainSync(c) => match c {
                cs::Message::RequestNext => CsRequestNext,
                cs::Message::AwaitReply => CsAwaitReply,
                cs::Message::RollForward(h, _) => CsRollForward(h.cbor.first().map(|x| *x as i64).unwrap_or(-1)),
                cs::Message::RollBackward(p, _) => CsRollBackward(point_inv(p)),
                cs::Message::FindIntersect(ps) => CsFindIntersect(ps.first().map(point_inv).unwrap_or(-1)),
                cs::Message::IntersectFound(p, _) => CsIntersectFound(point_inv(p)),
                cs::Message::IntersectNotFound(_) => CsIntersectNotFound,
                cs::Message::Done => CsDone,
            },
            AnyMessage::TxSubmission(t) => match t {
                tx::Message::Init => TxInit,
                tx::Message::RequestTxIds(..) => TxRequestTxIds,
                tx::Message::ReplyTxIds(_) => TxReplyTxIds,
                tx::Message::RequestTxs(_) => TxRequestTxs,
                tx::Message::ReplyTxs(v) => TxReplyTxs(v.len() as i64),
                tx::Message::Done => TxDone,
            },
            AnyMessage::LeiosNotify(n) => match n {
                ln::Message::RequestNext => LnRequestNext,
                ln::Message::BlockAnnouncement(c) => LnAnnouncement(cbor1_inv(c)),
                ln::Message::BlockOffer(p, _) => LnOffer(point_inv(p)),
                ln::Message::BlockTxsOffer(p) => LnTxsOffer(point_inv(p)),
                ln::Message::Votes(v) => LnVotes(v.first().map(cbor1_inv).unwrap_or(-1)),
                ln::Message::Done => LnDone,
            },
            AnyMessage::LeiosFetch(f) => match f {
                lf::Message::BlockRequest(p) => LfBlockRequest(point_inv(p)),
                lf::Message::Block(c) => LfBlock(cbor1_inv(c)),
                lf::Message::BlockTxsRequest(p, _) => LfBlockTxsRequest(point_inv(p)),
                lf::Message::BlockTxs { txs, .. } => LfBlockTxs(txs.first().map(cbor1_inv).unwrap_or(-1)),
                lf::Message::Done => LfDone,
            },
        }
    }
}

/// every message constructor with small payloads (for the "arbitrary message" generators)
pub fn any_msg(rng: &mut Rng, npeers: i64) -> Msg {
    let x = rng.below(6) as i64;
    match rng.below(41) {
        0 => HsPropose(match rng.below(4) { 0 => vec![(13, MAINNET_MAGIC as i64)], 1 => vec![(13, 2)], 2 => vec![(11, MAINNET_MAGIC as i64), (15, MAINNET_MAGIC as i64)], _ => vec![(7, 1), (13, MAINNET_MAGIC as i64), (14, 5)] }),
        1 => HsAccept(*rng.pick(&[13, 14, 15, 16, 11]), *rng.pick(&[0, 1, 1, 2])),
        2 => HsRefuse(rng.below(3) as i64), 3 => HsQueryReply,
        4 => KaKeepAlive(*rng.pick(&[0, 1, 42, 65535])), 5 => KaResponse(*rng.pick(&[0, 42, 65535])), 6 => KaDone,
        7 => PsRequest(*rng.pick(&[0, 1, 10, 255])),
        8 => { let n = rng.below(4); PsPeers((0..n).map(|_| 1 + rng.below(npeers as u64 + 3) as i64).collect()) }
        9 => PsDone,
        10 => BfRequestRange(x), 11 => BfClientDone, 12 => BfStartBatch, 13 => BfNoBlocks, 14 => BfBlock(x), 15 => BfBatchDone,
        16 => CsRequestNext, 17 => CsAwaitReply, 18 => CsRollForward(x), 19 => CsRollBackward(x), 20 => CsFindIntersect(x),
        21 => CsIntersectFound(x), 22 => CsIntersectNotFound, 23 => CsDone,
        24 => TxInit, 25 => TxRequestTxIds, 26 => TxReplyTxIds, 27 => TxRequestTxs, 28 => TxReplyTxs(rng.below(4) as i64), 29 => TxDone,
        30 => LnRequestNext, 31 => LnAnnouncement(x), 32 => LnOffer(x), 33 => LnTxsOffer(x), 34 => LnVotes(x), 35 => LnDone,
        36 => LfBlockRequest(x), 37 => LfBlock(x), 38 => LfBlockTxsRequest(x), 39 => LfBlockTxs(x), _ => LfDone,
    }
}

// ---------------------------------------------------------------- outputs
#[derive(Clone, Debug, PartialEq)]
pub enum Out { Connect(i64), Disconnect(i64), Send(i64, Msg), Event(i64, i64, Vec<i64>) }
impl Out {
    pub fn coq(&self) -> String {
        match self {
            Out::Connect(p) => format!("(OConnect {})", coq_z(p)),
            Out::Disconnect(p) => format!("(ODisconnect {})", coq_z(p)),
            Out::Send(p, m) => format!("(OSend {} {})", coq_z(p), m.coq()),
            Out::Event(p, k, a) => format!("(OEvent {} {} {})", coq_z(p), coq_z(k), coq_list(a, |x| coq_z(x))),
        }
    }
}
pub fn coq_outs(o: &[Out]) -> String { coq_list(o, |x| x.coq()) }
pub fn coq_zs(o: &[i64]) -> String { coq_list(o, |x| coq_z(x)) }

fn icmd_with(c: InterfaceCommand<AnyMessage>, inv: fn(&PeerId) -> i64) -> Out {
    match c {
        InterfaceCommand::Connect(p) => Out::Connect(inv(&p)),
        InterfaceCommand::Disconnect(p) => Out::Disconnect(inv(&p)),
        InterfaceCommand::Send(p, m) => Out::Send(inv(&p), Msg::from_any(&m)),
    }
}
fn icmd(c: InterfaceCommand<AnyMessage>) -> Out { icmd_with(c, pid_inv) }
/// responder-side peer ids: 16 ports per host, so that the per-IP limit is reachable
pub fn rpid(i: i64) -> PeerId { PeerId { host: format!("10.1.0.{}", i / 16), port: 4000 + (i % 16) as u16 } }
pub fn rpid_inv(p: &PeerId) -> i64 {
    let parts: Vec<&str> = p.host.split('.').collect();
    if parts.len() == 4 { if let Ok(h) = parts[3].parse::<i64>() { let i = h * 16 + (p.port as i64 - 4000); if i >= 0 && rpid(i) == *p { return i; } } }
    -1
}
fn ln_notif(n: &ln::Notification) -> (i64, i64) {
    match n {
        ln::Notification::BlockAnnouncement(c) => (1, cbor1_inv(c)),
        ln::Notification::BlockOffer(p, _) => (2, point_inv(p)),
        ln::Notification::BlockTxsOffer(p) => (3, point_inv(p)),
        ln::Notification::Votes(v) => (4, v.first().map(cbor1_inv).unwrap_or(-1)),
    }
}
pub fn init_out(o: BehaviorOutput<InitiatorBehavior>) -> Out {
    match o {
        BehaviorOutput::InterfaceCommand(c) => icmd(c),
        BehaviorOutput::ExternalEvent(e) => match e {
            InitiatorEvent::PeerInitialized(p, (v, d)) => Out::Event(pid_inv(&p), 1, vec![v as i64, d.peer_sharing.map(|x| x as i64).unwrap_or(0)]),
            InitiatorEvent::IntersectionFound(p, pt, _) => Out::Event(pid_inv(&p), 2, vec![point_inv(&pt)]),
            InitiatorEvent::BlockHeaderReceived(p, h, _) => Out::Event(pid_inv(&p), 3, vec![h.cbor.first().map(|x| *x as i64).unwrap_or(-1)]),
            InitiatorEvent::RollbackReceived(p, pt, _) => Out::Event(pid_inv(&p), 4, vec![point_inv(&pt)]),
            InitiatorEvent::BlockBodyReceived(p, b) => Out::Event(pid_inv(&p), 5, vec![b.first().map(|x| *x as i64).unwrap_or(-1)]),
            InitiatorEvent::TxRequested(p, _) => Out::Event(pid_inv(&p), 6, vec![]),
            InitiatorEvent::EbNotification(p, n) => { let (k, x) = ln_notif(&n); Out::Event(pid_inv(&p), 7, vec![k, x]) }
            InitiatorEvent::EbFetched(p, eb, r) => {
                let (k, x) = match &r { lf::Response::Block(c) => (0, cbor1_inv(c)), lf::Response::BlockTxs { txs } => (1, txs.first().map(cbor1_inv).unwrap_or(-1)) };
                Out::Event(pid_inv(&p), 8, vec![point_inv(&eb), k, x])
            }
        },
    }
}
pub fn resp_out(o: BehaviorOutput<ResponderBehavior>) -> Out {
    match o {
        BehaviorOutput::InterfaceCommand(c) => icmd_with(c, rpid_inv),
        BehaviorOutput::ExternalEvent(e) => match e {
            ResponderEvent::PeerInitialized(p, (v, _)) => Out::Event(rpid_inv(&p), 11, vec![v as i64]),
            ResponderEvent::PeerDisconnected(p) => Out::Event(rpid_inv(&p), 12, vec![]),
            ResponderEvent::IntersectionRequested(p, pts) => Out::Event(rpid_inv(&p), 13, vec![pts.first().map(point_inv).unwrap_or(-1)]),
            ResponderEvent::NextHeaderRequested(p) => Out::Event(rpid_inv(&p), 14, vec![]),
            ResponderEvent::BlockRangeRequested(p, (a, _)) => Out::Event(rpid_inv(&p), 15, vec![point_inv(&a)]),
            ResponderEvent::PeersRequested(p, n) => Out::Event(rpid_inv(&p), 16, vec![n as i64]),
            ResponderEvent::TxReceived(p, b) => Out::Event(rpid_inv(&p), 17, vec![b.1.first().map(|x| *x as i64).unwrap_or(-1)]),
            ResponderEvent::EbNotificationRequested(p) => Out::Event(rpid_inv(&p), 18, vec![]),
            ResponderEvent::EbRequested(p, eb) => Out::Event(rpid_inv(&p), 19, vec![point_inv(&eb)]),
            ResponderEvent::EbTxsRequested(p, eb, _) => Out::Event(rpid_inv(&p), 20, vec![point_inv(&eb)]),
        },
    }
}

/// drain the behaviour's output stream (StreamExt::next().now_or_never())
pub fn drain_init(b: &mut InitiatorBehavior) -> Vec<Out> {
    let mut v = vec![];
    while let Some(Some(o)) = futures::FutureExt::now_or_never(b.next()) { v.push(init_out(o)); }
    v
}
pub fn drain_resp(b: &mut ResponderBehavior) -> Vec<Out> {
    let mut v = vec![];
    while let Some(Some(o)) = futures::FutureExt::now_or_never(b.next()) { v.push(resp_out(o)); }
    v
}

// ---------------------------------------------------------------- initiator events
#[derive(Clone, Debug, PartialEq)]
pub enum Ev {
    Include(i64), Ban(i64), Demote(i64),
    /// housekeeping: false = InitiatorCommand::Housekeeping, true = InterfaceEvent::Idle
    Hk(bool),
    StartSync(i64), ContinueSync(i64), RequestBlocks(i64), SendTx(i64), FetchEb(i64, i64), FetchEbTxs(i64, i64),
    Connected(i64), Disconnected(i64), Error(i64), Recv(i64, Vec<Msg>), Sent(i64, Msg),
}
impl Ev {
    /// Coq term; housekeeping carries the two hash iteration orders observed just before the call
    pub fn coq(&self, order: &[i64], dorder: &[i64]) -> String {
        match self {
            Ev::Include(p) => format!("(EInclude {})", coq_z(p)),
            Ev::Ban(p) => format!("(EBan {})", coq_z(p)),
            Ev::Demote(p) => format!("(EDemote {})", coq_z(p)),
            Ev::Hk(_) => format!("(EHousekeeping {} {})", coq_zs(order), coq_zs(dorder)),
            Ev::StartSync(k) => format!("(EStartSync {})", coq_z(k)),
            Ev::ContinueSync(p) => format!("(EContinueSync {})", coq_z(p)),
            Ev::RequestBlocks(r) => format!("(ERequestBlocks {})", coq_z(r)),
            Ev::SendTx(p) => format!("(ESendTx {})", coq_z(p)),
            Ev::FetchEb(p, x) => format!("(EFetchEb {} {})", coq_z(p), coq_z(x)),
            Ev::FetchEbTxs(p, x) => format!("(EFetchEbTxs {} {})", coq_z(p), coq_z(x)),
            Ev::Connected(p) => format!("(EConnected {})", coq_z(p)),
            Ev::Disconnected(p) => format!("(EDisconnected {})", coq_z(p)),
            Ev::Error(p) => format!("(EError {})", coq_z(p)),
            Ev::Recv(p, ms) => format!("(ERecv {} {})", coq_z(p), coq_list(ms, |m| m.coq())),
            Ev::Sent(p, m) => format!("(ESent {} {})", coq_z(p), m.coq()),
        }
    }
    pub fn short(&self) -> String { format!("{:?}", self) }
}

pub fn new_initiator(max_peers: usize, max_warm: usize, max_hot: usize, max_err: u32) -> InitiatorBehavior {
    InitiatorBehavior {
        promotion: PromotionBehavior::new(PromotionConfig { max_peers, max_warm_peers: max_warm, max_hot_peers: max_hot, max_error_count: max_err }),
        ..Default::default()
    }
}

pub fn apply_init(b: &mut InitiatorBehavior, e: &Ev) {
    use pallas_network2::Behavior;
    match e {
        Ev::Include(p) => b.execute(InitiatorCommand::IncludePeer(pid(*p))),
        Ev::Ban(p) => b.execute(InitiatorCommand::BanPeer(pid(*p))),
        Ev::Demote(p) => b.execute(InitiatorCommand::DemotePeer(pid(*p))),
        Ev::Hk(false) => b.execute(InitiatorCommand::Housekeeping),
        Ev::Hk(true) => b.handle_io(InterfaceEvent::Idle),
        Ev::StartSync(k) => b.execute(InitiatorCommand::StartSync(vec![point(*k)])),
        Ev::ContinueSync(p) => b.execute(InitiatorCommand::ContinueSync(pid(*p))),
        Ev::RequestBlocks(r) => b.execute(InitiatorCommand::RequestBlocks((point(*r), point(*r + 1)))),
        Ev::SendTx(p) => b.execute(InitiatorCommand::SendTx(pid(*p), tx::EraTxId(6, vec![1]), tx::EraTxBody(6, vec![2]))),
        Ev::FetchEb(p, x) => b.execute(InitiatorCommand::FetchEb(pid(*p), point(*x))),
        Ev::FetchEbTxs(p, x) => b.execute(InitiatorCommand::FetchEbTxs(pid(*p), point(*x), lf::Bitmaps::default())),
        Ev::Connected(p) => b.handle_io(InterfaceEvent::Connected(pid(*p))),
        Ev::Disconnected(p) => b.handle_io(InterfaceEvent::Disconnected(pid(*p))),
        Ev::Error(p) => b.handle_io(InterfaceEvent::Error(pid(*p), InterfaceError::Other("err".into()))),
        Ev::Recv(p, ms) => b.handle_io(InterfaceEvent::Recv(pid(*p), ms.iter().map(|m| m.to_any()).collect())),
        Ev::Sent(p, m) => b.handle_io(InterfaceEvent::Sent(pid(*p), m.to_any())),
    }
}

// ---------------------------------------------------------------- snapshots (via the public Debug impls)
/// the text of field `name` in a `{:?}` rendering of a struct whose fields follow in `names` order
fn dbg_fields(s: &str, names: &[&str]) -> Vec<String> {
    let mut out = vec![];
    let mut pos = 0usize;
    let mut starts = vec![];
    for (i, n) in names.iter().enumerate() {
        let pat = if i == 0 { format!("{{ {}: ", n) } else { format!(", {}: ", n) };
        let at = s[pos..].find(&pat).map(|x| x + pos).expect("debug field");
        starts.push((at, at + pat.len()));
        pos = at + pat.len();
    }
    for i in 0..names.len() {
        let end = if i + 1 < names.len() { starts[i + 1].0 } else { s.rfind(" }").unwrap_or(s.len()) };
        out.push(s[starts[i].1..end].to_string());
    }
    out
}
fn class(s: &str, table: &[(&str, i64)]) -> i64 {
    for (p, c) in table { if s.starts_with(p) { return *c; } }
    -1
}
const CONN: &[(&str, i64)] = &[("New", 0), ("Connecting", 1), ("Connected", 2), ("Initialized", 3), ("Disconnected", 4), ("Errored", 5)];
const TAG: &[(&str, i64)] = &[("Cold", 0), ("Warm", 1), ("Hot", 2), ("Banned", 3)];
const HS: &[(&str, i64)] = &[("Propose", 0), ("Confirm", 1), ("Done(Accepted", 2), ("Done(Rejected", 3), ("Done(QueryReply", 4)];
const KA: &[(&str, i64)] = &[("Client(Empty", 0), ("Client(Response", 1), ("Server", 2), ("Done", 3)];
const PS: &[(&str, i64)] = &[("Idle(Empty", 0), ("Idle(Response", 1), ("Busy", 2), ("Done", 3)];
const BF: &[(&str, i64)] = &[("Idle", 0), ("Busy", 1), ("Streaming(None", 2), ("Streaming(Some", 3), ("Done", 4)];
const CS: &[(&str, i64)] = &[("Idle(New", 0), ("Idle(Intersection", 1), ("Idle(NoIntersection", 2), ("Idle(Content", 3), ("Idle(Rollback", 4), ("Idle(Drained", 5), ("CanAwait", 6), ("MustReply", 7), ("Intersect", 8), ("Done", 9)];
const TX: &[(&str, i64)] = &[("Init", 0), ("Idle", 1), ("TxIdsNonBlocking", 2), ("TxIdsBlocking", 3), ("Txs", 4), ("Done", 5)];
const LN: &[(&str, i64)] = &[("Idle(None", 0), ("Idle(Some", 1), ("Busy", 2), ("Done", 3)];
const LF: &[(&str, i64)] = &[("Idle(None", 0), ("Idle(Some", 1), ("AwaitingBlock(", 2), ("AwaitingBlockTxs(", 3), ("Done", 4)];

/// [conn, tag, hs, ka, ps, bf, cs, tx, ln, lf, violation, error_count, continue_sync]
pub fn init_peer_snapshot(st: &InitiatorState) -> Vec<i64> {
    let s = format!("{:?}", st);
    let f = dbg_fields(&s, &["connection", "promotion", "handshake", "keepalive", "peersharing", "blockfetch", "chainsync",
        "tx_submission", "leios_notify", "leios_fetch", "violation", "error_count", "continue_sync"]);
    vec![class(&f[0], CONN), class(&f[1], TAG), class(&f[2], HS), class(&f[3], KA), class(&f[4], PS), class(&f[5], BF),
         class(&f[6], CS), class(&f[7], TX), class(&f[8], LN), class(&f[9], LF),
         (f[10] == "true") as i64, f[11].parse().unwrap_or(-1), (f[12] == "true") as i64]
}
/// [conn, hs, ka, ps, bf, cs, tx, ln, lf, violation, error_count]
pub fn resp_peer_snapshot(st: &ResponderState) -> Vec<i64> {
    let s = format!("{:?}", st);
    let f = dbg_fields(&s, &["connection", "handshake", "keepalive", "peersharing", "blockfetch", "chainsync",
        "tx_submission", "leios_notify", "leios_fetch", "violation", "error_count", "violations_counter"]);
    vec![class(&f[0], CONN), class(&f[1], HS), class(&f[2], KA), class(&f[3], PS), class(&f[4], BF),
         class(&f[5], CS), class(&f[6], TX), class(&f[7], LN), class(&f[8], LF),
         (f[9] == "true") as i64, f[10].parse().unwrap_or(-1)]
}
pub fn sorted_ids<'a, I: Iterator<Item = &'a PeerId>>(it: I) -> Vec<i64> { let mut v: Vec<i64> = it.map(pid_inv).collect(); v.sort(); v }

pub struct InitSnap { pub cold: Vec<i64>, pub warm: Vec<i64>, pub hot: Vec<i64>, pub banned: Vec<i64>, pub peers: Vec<(i64, Vec<i64>)> }
pub fn init_snapshot(b: &InitiatorBehavior) -> InitSnap {
    let mut peers: Vec<(i64, Vec<i64>)> = b.peers.iter().map(|(p, s)| (pid_inv(p), init_peer_snapshot(s))).collect();
    peers.sort();
    InitSnap {
        cold: sorted_ids(b.promotion.cold_peers.iter()), warm: sorted_ids(b.promotion.warm_peers.iter()),
        hot: sorted_ids(b.promotion.hot_peers.iter()), banned: sorted_ids(b.promotion.banned_peers.iter()), peers,
    }
}
impl InitSnap {
    pub fn coq_sets(&self) -> String { format!("({},{},{},{})", coq_zs(&self.cold), coq_zs(&self.warm), coq_zs(&self.hot), coq_zs(&self.banned)) }
    pub fn coq_peers(&self) -> String { coq_list(&self.peers, |(p, v)| format!("({},{})", coq_z(p), coq_zs(v))) }
}
/// the two hash iteration orders the next housekeeping pass will use
pub fn init_orders(b: &InitiatorBehavior) -> (Vec<i64>, Vec<i64>) {
    (b.peers.keys().map(pid_inv).collect(), b.discovery.verif_discovered().iter().map(pid_inv).collect())
}

// ---------------------------------------------------------------- driving the real initiator
#[derive(Clone, Copy, Debug)]
pub struct PCfg { pub max_peers: usize, pub max_warm: usize, pub max_hot: usize, pub max_err: u32 }
impl PCfg {
    pub fn coq(&self) -> String { format!("({},{},{},{})", self.max_peers, self.max_warm, self.max_hot, self.max_err) }
}

/// one executed step of a history on the real InitiatorBehavior
pub struct StepObs {
    pub ev: Ev, pub order: Vec<i64>, pub dorder: Vec<i64>,
    pub outs: Vec<Out>, pub panic: Option<String>,
}

pub struct InitDriver {
    pub cfg: PCfg,
    pub b: InitiatorBehavior,
    pub dead: bool,
    /// Sends emitted and not yet confirmed by a Sent event, per peer, in emission order
    pub unconfirmed: HashMap<i64, Vec<Msg>>,
    /// peers for which a Connect was emitted and no Connected/Disconnected/Error delivered yet
    pub connect_pending: Vec<i64>,
}
impl InitDriver {
    pub fn new(cfg: PCfg) -> Self {
        InitDriver { cfg, b: new_initiator(cfg.max_peers, cfg.max_warm, cfg.max_hot, cfg.max_err), dead: false,
                     unconfirmed: HashMap::new(), connect_pending: vec![] }
    }
    /// apply one event under catch_unwind and drain the output stream
    pub fn step(&mut self, ev: Ev) -> StepObs {
        let (order, dorder) = if matches!(ev, Ev::Hk(_)) { init_orders(&self.b) } else { (vec![], vec![]) };
        let b = &mut self.b;
        let r = guard_total(|| { apply_init(b, &ev); drain_init(b) });
        let (outs, panic) = match r {
            Out_::Ok(o) => (o, None),
            Out_::Panic(m) => { self.dead = true; (vec![], Some(m)) }
            Out_::Err(e) => { self.dead = true; (vec![], Some(e)) }
        };
        match &ev {
            Ev::Connected(p) | Ev::Disconnected(p) | Ev::Error(p) => self.connect_pending.retain(|q| q != p),
            Ev::Sent(p, m) => { if let Some(q) = self.unconfirmed.get_mut(p) { if q.first() == Some(m) { q.remove(0); } } }
            _ => {}
        }
        if let Ev::Disconnected(p) = &ev { self.unconfirmed.remove(p); }
        for o in &outs {
            match o {
                Out::Connect(p) => self.connect_pending.push(*p),
                Out::Send(p, m) => self.unconfirmed.entry(*p).or_default().push(m.clone()),
                _ => {}
            }
        }
        StepObs { ev, order, dorder, outs, panic }
    }
    pub fn peer_class(&self, p: i64) -> Option<Vec<i64>> { self.b.peers.get(&pid(p)).map(init_peer_snapshot) }
    pub fn tracked(&self) -> Vec<i64> { let mut v: Vec<i64> = self.b.peers.keys().map(pid_inv).collect(); v.sort(); v }
}
pub use verif_harness::Out as Out_;

/// a conformant server reply to client message `m` (None: the client message expects no reply)
pub fn server_reply(rng: &mut Rng, m: &Msg, npeers: i64) -> Option<Vec<Msg>> {
    let x = rng.below(6) as i64;
    Some(match m {
        HsPropose(_) => vec![match rng.below(8) { 0 => HsRefuse(rng.below(3) as i64), 1 => HsQueryReply, 2 => HsAccept(13, 0), 3 => HsAccept(15, 1), 4 => HsAccept(16, 2), _ => HsAccept(13, 1) }],
        KaKeepAlive(c) => vec![KaResponse(*c)],
        PsRequest(_) => { let n = rng.below(4); vec![PsPeers((0..n).map(|_| 1 + rng.below(npeers as u64 + 3) as i64).collect())] }
        BfRequestRange(_) => if rng.chance(1, 4) { vec![BfNoBlocks] } else {
            let mut v = vec![BfStartBatch]; for _ in 0..rng.below(3) { v.push(BfBlock(rng.below(6) as i64)); } v.push(BfBatchDone); v },
        CsFindIntersect(_) => vec![if rng.chance(1, 5) { CsIntersectNotFound } else { CsIntersectFound(x) }],
        CsRequestNext => match rng.below(4) { 0 => vec![CsAwaitReply, CsRollForward(x)], 1 => vec![CsRollBackward(x)], _ => vec![CsRollForward(x)] },
        LnRequestNext => vec![match rng.below(4) { 0 => LnAnnouncement(x), 1 => LnOffer(x), 2 => LnTxsOffer(x), _ => LnVotes(x) }],
        LfBlockRequest(_) => vec![LfBlock(x)],
        LfBlockTxsRequest(_) => vec![LfBlockTxs(x)],
        _ => return None,
    })
}

/// adaptive random event: mostly plausible next events for the current state of the
/// real object, mixed with arbitrary ones (the generator may look at the object; the oracle never uses this)
pub fn gen_init_event(rng: &mut Rng, d: &InitDriver, npeers: i64) -> Ev {
    let anyp = |rng: &mut Rng| 1 + rng.below(npeers as u64) as i64;
    let tracked = d.tracked();
    let by_conn = |c: i64| -> Vec<i64> { tracked.iter().cloned().filter(|p| d.peer_class(*p).map(|v| v[0] == c).unwrap_or(false)).collect() };
    let r = rng.below(100);
    if r < 20 { return Ev::Hk(rng.chance(1, 3)); }
    if r < 31 { return Ev::Include(anyp(rng)); }
    if r < 35 { return Ev::Ban(anyp(rng)); }
    if r < 39 { return Ev::Demote(anyp(rng)); }
    if r < 49 {
        if !d.connect_pending.is_empty() && rng.chance(4, 5) { return Ev::Connected(*rng.pick(&d.connect_pending)); }
        return Ev::Connected(anyp(rng));
    }
    if r < 54 { return Ev::Disconnected(if !tracked.is_empty() && rng.chance(3, 4) { *rng.pick(&tracked) } else { anyp(rng) }); }
    if r < 58 { return Ev::Error(if !tracked.is_empty() && rng.chance(3, 4) { *rng.pick(&tracked) } else { anyp(rng) }); }
    if r < 70 {
        // confirm the oldest unconfirmed Send of some peer
        let ps: Vec<i64> = d.unconfirmed.iter().filter(|(_, q)| !q.is_empty()).map(|(p, _)| *p).collect();
        if !ps.is_empty() && rng.chance(9, 10) {
            let mut ps = ps; ps.sort();
            let p = *rng.pick(&ps);
            return Ev::Sent(p, d.unconfirmed[&p][0].clone());
        }
        return Ev::Sent(anyp(rng), any_msg(rng, npeers));
    }
    if r < 84 {
        // a conformant reply to what the peer's protocol state is waiting for
        let mut cands: Vec<(i64, Msg)> = vec![];
        for p in &tracked {
            if let Some(v) = d.peer_class(*p) {
                if v[2] == 1 { cands.push((*p, HsPropose(vec![]))); }
                if v[3] == 2 { cands.push((*p, KaKeepAlive(65535))); }
                if v[4] == 2 { cands.push((*p, PsRequest(0))); }
                if v[5] == 1 { cands.push((*p, BfRequestRange(0))); }
                if v[6] == 8 { cands.push((*p, CsFindIntersect(0))); }
                if v[6] == 6 { cands.push((*p, CsRequestNext)); }
                if v[8] == 2 { cands.push((*p, LnRequestNext)); }
                if v[9] == 2 { cands.push((*p, LfBlockRequest(0))); }
                if v[9] == 3 { cands.push((*p, LfBlockTxsRequest(0))); }
            }
        }
        if !cands.is_empty() {
            let (p, m) = rng.pick(&cands).clone();
            if let Some(reply) = server_reply(rng, &m, npeers) { return Ev::Recv(p, reply); }
        }
        let conn = by_conn(2);
        if !conn.is_empty() { return Ev::Recv(*rng.pick(&conn), vec![HsAccept(13, 1)]); }
        return Ev::Recv(anyp(rng), vec![any_msg(rng, npeers)]);
    }
    if r < 91 {
        let n = 1 + rng.below(3);
        let p = if !tracked.is_empty() && rng.chance(4, 5) { *rng.pick(&tracked) } else { anyp(rng) };
        return Ev::Recv(p, (0..n).map(|_| any_msg(rng, npeers)).collect());
    }
    match rng.below(7) {
        0 => Ev::StartSync(rng.below(4) as i64),
        1 | 2 => Ev::ContinueSync(anyp(rng)),
        3 => Ev::RequestBlocks(rng.below(5) as i64),
        4 => Ev::FetchEb(anyp(rng), rng.below(5) as i64),
        5 => Ev::FetchEbTxs(anyp(rng), rng.below(5) as i64),
        _ => Ev::SendTx(anyp(rng)),
    }
}


// ---------------------------------------------------------------- responder
use pallas_network2::behavior::responder::connection::{ConnectionResponder, ConnectionResponderConfig};
use pallas_network2::behavior::responder::handshake::{HandshakeResponder, HandshakeResponderConfig};

#[derive(Clone, Debug)]
pub struct RCfg { pub max_err: u32, pub max_ip: usize, pub vers: Vec<(i64, i64)> }
impl RCfg {
    pub fn coq(&self) -> String { format!("({},{},{})", self.max_err, self.max_ip, coq_list(&self.vers, |(a, b)| format!("({},{})", coq_z(a), coq_z(b)))) }
}
pub fn new_responder(c: &RCfg) -> ResponderBehavior {
    let mut values = HashMap::new();
    for (v, m) in &c.vers { values.insert(*v as u64, vdata(*m as u64, 1)); }
    ResponderBehavior {
        connection: ConnectionResponder::new(ConnectionResponderConfig { max_error_count: c.max_err, max_connections_per_ip: c.max_ip }),
        handshake: HandshakeResponder::new(HandshakeResponderConfig { supported_version: hs::VersionTable { values } }),
        ..Default::default()
    }
}

#[derive(Clone, Debug, PartialEq)]
pub enum RProv { Intersection(i64), Header(i64), Rollback(i64), Blocks(Vec<i64>), Peers(Vec<i64>), EbAnn(i64), EbOffer(i64), EbTxsOffer(i64), Votes(i64), Eb(i64), EbTxs(i64) }
impl RProv {
    pub fn msgs(&self) -> Vec<Msg> {
        match self {
            RProv::Intersection(x) => vec![CsIntersectFound(*x)], RProv::Header(h) => vec![CsRollForward(*h)], RProv::Rollback(p) => vec![CsRollBackward(*p)],
            RProv::Blocks(bs) => { let mut v = vec![BfStartBatch]; for b in bs { v.push(BfBlock(*b)); } v.push(BfBatchDone); v }
            RProv::Peers(l) => vec![PsPeers(l.clone())], RProv::EbAnn(x) => vec![LnAnnouncement(*x)], RProv::EbOffer(x) => vec![LnOffer(*x)],
            RProv::EbTxsOffer(x) => vec![LnTxsOffer(*x)], RProv::Votes(x) => vec![LnVotes(*x)], RProv::Eb(x) => vec![LfBlock(*x)], RProv::EbTxs(x) => vec![LfBlockTxs(*x)],
        }
    }
}
#[derive(Clone, Debug, PartialEq)]
pub enum REv { Hk(bool), Provide(i64, RProv), Ban(i64), DisconnectPeer(i64), Connected(i64), Disconnected(i64), Error(i64), Recv(i64, Vec<Msg>), Sent(i64, Msg) }
impl REv {
    pub fn coq(&self, order: &[i64]) -> String {
        match self {
            REv::Hk(_) => format!("(RHousekeeping {})", coq_zs(order)),
            REv::Provide(p, pr) => format!("(RProvide {} {})", coq_z(p), coq_list(&pr.msgs(), |m| m.coq())),
            REv::Ban(p) => format!("(RBan {})", coq_z(p)),
            REv::DisconnectPeer(p) => format!("(RDisconnectPeer {})", coq_z(p)),
            REv::Connected(p) => format!("(RConnected {})", coq_z(p)),
            REv::Disconnected(p) => format!("(RDisconnected {})", coq_z(p)),
            REv::Error(p) => format!("(RError {})", coq_z(p)),
            REv::Recv(p, ms) => format!("(RRecv {} {})", coq_z(p), coq_list(ms, |m| m.coq())),
            REv::Sent(p, m) => format!("(RSent {} {})", coq_z(p), m.coq()),
        }
    }
    pub fn short(&self) -> String { format!("{:?}", self) }
}
pub fn apply_resp(b: &mut ResponderBehavior, e: &REv) {
    use pallas_network2::Behavior;
    match e {
        REv::Hk(false) => b.execute(ResponderCommand::Housekeeping),
        REv::Hk(true) => b.handle_io(InterfaceEvent::Idle),
        REv::Provide(p, pr) => b.execute(match pr {
            RProv::Intersection(x) => ResponderCommand::ProvideIntersection(rpid(*p), point(*x), tip()),
            RProv::Header(h) => ResponderCommand::ProvideHeader(rpid(*p), cs::HeaderContent { variant: 1, byron_prefix: None, cbor: vec![*h as u8] }, tip()),
            RProv::Rollback(x) => ResponderCommand::ProvideRollback(rpid(*p), point(*x), tip()),
            RProv::Blocks(bs) => ResponderCommand::ProvideBlocks(rpid(*p), bs.iter().map(|b| vec![*b as u8]).collect()),
            RProv::Peers(l) => ResponderCommand::ProvidePeers(rpid(*p), l.iter().map(|i| addr(*i)).collect()),
            RProv::EbAnn(x) => ResponderCommand::ProvideEbAnnouncement(rpid(*p), cbor1(*x)),
            RProv::EbOffer(x) => ResponderCommand::ProvideEbOffer(rpid(*p), point(*x), 7),
            RProv::EbTxsOffer(x) => ResponderCommand::ProvideEbTxsOffer(rpid(*p), point(*x)),
            RProv::Votes(x) => ResponderCommand::ProvideVotes(rpid(*p), vec![cbor1(*x)]),
            RProv::Eb(x) => ResponderCommand::ProvideEb(rpid(*p), cbor1(*x)),
            RProv::EbTxs(x) => ResponderCommand::ProvideEbTxs(rpid(*p), point(*x), lf::Bitmaps::default(), vec![cbor1(*x)]),
        }),
        REv::Ban(p) => b.execute(ResponderCommand::BanPeer(rpid(*p))),
        REv::DisconnectPeer(p) => b.execute(ResponderCommand::DisconnectPeer(rpid(*p))),
        REv::Connected(p) => b.handle_io(InterfaceEvent::Connected(rpid(*p))),
        REv::Disconnected(p) => b.handle_io(InterfaceEvent::Disconnected(rpid(*p))),
        REv::Error(p) => b.handle_io(InterfaceEvent::Error(rpid(*p), InterfaceError::Other("err".into()))),
        REv::Recv(p, ms) => b.handle_io(InterfaceEvent::Recv(rpid(*p), ms.iter().map(|m| m.to_any()).collect())),
        REv::Sent(p, m) => b.handle_io(InterfaceEvent::Sent(rpid(*p), m.to_any())),
    }
}
pub struct RStepObs { pub ev: REv, pub order: Vec<i64>, pub outs: Vec<Out>, pub panic: Option<String> }
pub struct RespDriver { pub b: ResponderBehavior, pub dead: bool }
impl RespDriver {
    pub fn new(c: &RCfg) -> Self { RespDriver { b: new_responder(c), dead: false } }
    pub fn step(&mut self, ev: REv) -> RStepObs {
        let order: Vec<i64> = if matches!(ev, REv::Hk(_)) { self.b.peers.keys().map(rpid_inv).collect() } else { vec![] };
        let b = &mut self.b;
        let r = guard_total(|| { apply_resp(b, &ev); drain_resp(b) });
        let (outs, panic) = match r {
            Out_::Ok(o) => (o, None),
            Out_::Panic(m) => { self.dead = true; (vec![], Some(m)) }
            Out_::Err(e) => { self.dead = true; (vec![], Some(e)) }
        };
        RStepObs { ev, order, outs, panic }
    }
    pub fn snapshot(&self) -> Vec<(i64, Vec<i64>)> {
        let mut v: Vec<(i64, Vec<i64>)> = self.b.peers.iter().map(|(p, s)| (rpid_inv(p), resp_peer_snapshot(s))).collect();
        v.sort();
        v
    }
    pub fn tracked(&self) -> Vec<i64> { self.snapshot().into_iter().map(|x| x.0).collect() }
}
pub fn coq_snap(v: &[(i64, Vec<i64>)]) -> String { coq_list(v, |(p, x)| format!("({},{})", coq_z(p), coq_zs(x))) }

/// a conformant client message for a responder peer in the given protocol-state classes
pub fn gen_resp_event(rng: &mut Rng, d: &RespDriver, npeers: i64) -> REv {
    let anyp = |rng: &mut Rng| rng.below(npeers as u64) as i64;
    let snap = d.snapshot();
    let tracked: Vec<i64> = snap.iter().map(|x| x.0).collect();
    let somep = |rng: &mut Rng| if !tracked.is_empty() && rng.chance(4, 5) { *rng.pick(&tracked) } else { rng.below(npeers as u64) as i64 };
    let x = rng.below(6) as i64;
    let r = rng.below(100);
    if r < 12 { return REv::Hk(rng.chance(1, 3)); }
    if r < 26 { return REv::Connected(anyp(rng)); }
    if r < 31 { return REv::Disconnected(somep(rng)); }
    if r < 36 { return REv::Error(somep(rng)); }
    if r < 38 { return REv::Ban(somep(rng)); }
    if r < 40 { return REv::DisconnectPeer(somep(rng)); }
    if r < 62 {
        // plausible client traffic for a tracked peer
        if !snap.is_empty() {
            let (p, v) = rng.pick(&snap).clone();
            // v = [conn, hs, ka, ps, bf, cs, tx, ln, lf, viol, errc]
            if v[1] == 0 { return REv::Recv(p, vec![HsPropose(match rng.below(5) { 0 => vec![(13, 2)], 1 => vec![(11, MAINNET_MAGIC as i64)], 2 => vec![(13, MAINNET_MAGIC as i64), (15, MAINNET_MAGIC as i64)], 3 => vec![(7, 1), (13, MAINNET_MAGIC as i64), (14, 5)], _ => vec![(13, MAINNET_MAGIC as i64)] })]); }
            let m = match rng.below(9) {
                0 => KaKeepAlive(*rng.pick(&[0, 7, 65535])), 1 => CsFindIntersect(x), 2 => CsRequestNext, 3 => BfRequestRange(x), 4 => PsRequest(*rng.pick(&[0, 5, 255])),
                5 => TxInit, 6 => LnRequestNext, 7 => LfBlockRequest(x), _ => LfBlockTxsRequest(x),
            };
            return REv::Recv(p, vec![m]);
        }
        return REv::Connected(anyp(rng));
    }
    if r < 72 {
        // confirm a plausible server message
        let p = somep(rng);
        let m = match rng.below(12) {
            0 => HsAccept(13, 1), 1 => KaResponse(7), 2 => CsIntersectFound(x), 3 => CsRollForward(x), 4 => BfStartBatch, 5 => BfBatchDone, 6 => PsPeers(vec![]),
            7 => TxInit, 8 => TxRequestTxIds, 9 => TxRequestTxs, 10 => LnOffer(x), _ => LfBlock(x),
        };
        return REv::Sent(p, m);
    }
    if r < 80 {
        let pr = match rng.below(11) {
            0 => RProv::Intersection(x), 1 => RProv::Header(x), 2 => RProv::Rollback(x), 3 => RProv::Blocks((0..rng.below(3)).map(|i| i as i64).collect()),
            4 => RProv::Peers(vec![1, 2]), 5 => RProv::EbAnn(x), 6 => RProv::EbOffer(x), 7 => RProv::EbTxsOffer(x), 8 => RProv::Votes(x), 9 => RProv::Eb(x), _ => RProv::EbTxs(x),
        };
        return REv::Provide(somep(rng), pr);
    }
    if r < 92 { let n = 1 + rng.below(3); return REv::Recv(somep(rng), (0..n).map(|_| any_msg(rng, 8)).collect()); }
    REv::Sent(somep(rng), any_msg(rng, 8))
}
