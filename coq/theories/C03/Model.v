(* C03 model: the helper wrappers of pallas-codec/src/utils.rs, transcribed
   decode / encode pair by pair over the shared minicbor model (Cbor/Api.v,
   Cbor/Skip.v). Every generic wrapper is parametrised by the codec of its
   payload type(s) (Section variables [dec]/[enc]); the theorems in Proofs*.v
   take "the payload round-trips" / "the payload re-encodes exactly" as
   hypotheses, so they compose to any nesting. No proofs in this file. *)
From PV Require Import Lib.Base Cbor.Item Cbor.Enc Cbor.Dec Cbor.Api Cbor.Skip.
Open Scope Z_scope.

Definition decoder (T : Type) : Type := list Z -> dres (T * list Z).

(* the slice of [bs] consumed when [r] remains: &all[start..end] *)
Definition consumed (bs r : list Z) : list Z := firstn (length bs - length r) bs.

(* ------------------------------------------------------------ AnyUInt *)
Inductive anyuint : Type :=
| AMajorByte (x : Z) | AU8 (x : Z) | AU16 (x : Z) | AU32 (x : Z) | AU64 (x : Z).

(* AnyUInt::decode, as of the `fix:` commit: for Type::U8 the variant is chosen by the
   initial byte (<= 0x17 => MajorByte), not by the value. *)
Definition dec_anyuint : decoder anyuint := fun bs =>
  dbind (d_datatype bs) (fun t =>
    if ctype_eqb t TU8 then
      let immediate := match bs with b :: _ => b <=? 23 | [] => false end in
      dbind (d_u8 bs) (fun '(x, r) => if immediate then DOk (AMajorByte x, r) else DOk (AU8 x, r))
    else if ctype_eqb t TU16 then dbind (d_u16 bs) (fun '(x, r) => DOk (AU16 x, r))
    else if ctype_eqb t TU32 then dbind (d_u32 bs) (fun '(x, r) => DOk (AU32 x, r))
    else if ctype_eqb t TU64 then dbind (d_u64 bs) (fun '(x, r) => DOk (AU64 x, r))
    else DErr).

(* the decoder of the tree before the repair: match d.u8()? { x @ 0..=0x17 => MajorByte(x), x => U8(x) } *)
Definition dec_anyuint_before_fix : decoder anyuint := fun bs =>
  dbind (d_datatype bs) (fun t =>
    if ctype_eqb t TU8 then
      dbind (d_u8 bs) (fun '(x, r) => if x <=? 23 then DOk (AMajorByte x, r) else DOk (AU8 x, r))
    else if ctype_eqb t TU16 then dbind (d_u16 bs) (fun '(x, r) => DOk (AU16 x, r))
    else if ctype_eqb t TU32 then dbind (d_u32 bs) (fun '(x, r) => DOk (AU32 x, r))
    else if ctype_eqb t TU64 then dbind (d_u64 bs) (fun '(x, r) => DOk (AU64 x, r))
    else DErr).

(* AnyUInt::encode writes the raw bytes: MajorByte(x) => [x]; U8(x) => [24, x]; U16 => [25] ++ be; ... *)
Definition enc_anyuint (a : anyuint) : list Z :=
  match a with
  | AMajorByte x => [x]
  | AU8 x => [24; x]
  | AU16 x => 25 :: be_bytes 2 x
  | AU32 x => 26 :: be_bytes 4 x
  | AU64 x => 27 :: be_bytes 8 x
  end.

(* values of the Rust type: the field fits its integer type *)
Definition anyuint_ty (a : anyuint) : Prop :=
  match a with
  | AMajorByte x | AU8 x => 0 <= x < 256
  | AU16 x => 0 <= x < 65536
  | AU32 x => 0 <= x < 4294967296
  | AU64 x => 0 <= x < 18446744073709551616
  end.
(* ... whose MajorByte really is an immediate value *)
Definition anyuint_wf (a : anyuint) : Prop :=
  anyuint_ty a /\ match a with AMajorByte x => x <= 23 | _ => True end.
Definition anyuint_value (a : anyuint) : Z :=
  match a with AMajorByte x | AU8 x | AU16 x | AU32 x | AU64 x => x end.

(* ------------------------------------------------------------ AnyCbor, EmptyMap, Bytes, Int *)
(* AnyCbor::decode: start = position; d.skip()?; inner = all[start..end] *)
Definition dec_anycbor : decoder (list Z) := d_skip_slice.
Definition enc_anycbor (inner : list Z) : list Z := inner.

(* EmptyMap::decode: d.skip()? — anything; encode: e.map(0) *)
Definition dec_emptymap : decoder unit := fun bs => dbind (d_skip bs) (fun r => DOk (tt, r)).
Definition enc_emptymap (_ : unit) : list Z := e_map 0.

(* Bytes: #[cbor(transparent)] ByteVec; Int: #[cbor(transparent)] minicbor::data::Int *)
Definition dec_bytes : decoder (list Z) := d_bytes.
Definition enc_bytes (b : list Z) : list Z := e_bytes b.
Definition dec_cint : decoder Z := d_int.
Definition enc_cint (n : Z) : list Z := e_int n.

(* plain u64 payload (u64::decode / Encoder::u64) *)
Definition dec_u64 : decoder Z := d_u64.
Definition enc_u64 (n : Z) : list Z := e_uint n.

(* ------------------------------------------------------------ one payload *)
Inductive mia (T : Type) : Type := MDef (xs : list T) | MIndef (xs : list T).
Arguments MDef {T} xs. Arguments MIndef {T} xs.
Inductive nullable (T : Type) : Type := NSome (x : T) | NNull | NUndefined.
Arguments NSome {T} x. Arguments NNull {T}. Arguments NUndefined {T}.

Section OnePayload.
  Context {T : Type} (dec : decoder T) (enc : T -> list Z).

  (* KeepRaw<T> = (raw, inner). decode: inner = T::decode; raw = &all[start..end] *)
  Definition dec_keepraw : decoder (list Z * T) := fun bs =>
    dbind (dec bs) (fun '(x, r) => DOk ((consumed bs r, x), r)).
  (* encode: raw empty => encode inner, else write raw *)
  Definition enc_keepraw (k : list Z * T) : list Z :=
    match fst k with [] => enc (snd k) | raw => raw end.
  (* From<T>: no raw; deref_mut: clear_raw() then hand out &mut inner *)
  Definition keepraw_from (x : T) : list Z * T := ([], x).
  Definition keepraw_deref_mut_set (k : list Z * T) (x' : T) : list Z * T := ([], x').
  (* to_owned(): raw = Cow::Owned(self.raw.into_owned()) -- the same bytes, detached from the input
     buffer; Clone: field-wise. Whether the buffer is borrowed or owned is not observable by
     encode (it tests raw_cbor().is_empty() only), so both are the identity on (raw, inner). *)
  Definition keepraw_to_owned (k : list Z * T) : list Z * T := (fst k, snd k).
  Definition keepraw_clone (k : list Z * T) : list Z * T := (fst k, snd k).

  (* Vec<T> *)
  Definition dec_vec : decoder (list T) := d_vec dec.
  Definition enc_vec (xs : list T) : list Z := e_vec enc xs.

  (* MaybeIndefArray<T> *)
  Definition dec_mia : decoder (mia T) := fun bs =>
    dbind (d_datatype bs) (fun t =>
      if ctype_eqb t TArray then dbind (dec_vec bs) (fun '(xs, r) => DOk (MDef xs, r))
      else if ctype_eqb t TArrayIndef then dbind (dec_vec bs) (fun '(xs, r) => DOk (MIndef xs, r))
      else DErr).
  Definition enc_mia (m : mia T) : list Z :=
    match m with
    | MDef xs => enc_vec xs
    | MIndef xs => e_begin_array ++ concat (map enc xs) ++ e_end
    end.

  (* Nullable<T> *)
  Definition dec_nullable : decoder (nullable T) := fun bs =>
    dbind (d_datatype bs) (fun t =>
      if ctype_eqb t TNull then dbind (d_null bs) (fun '(_, r) => DOk (NNull, r))
      else if ctype_eqb t TUndefined then dbind (d_undefined bs) (fun '(_, r) => DOk (NUndefined, r))
      else dbind (dec bs) (fun '(x, r) => DOk (NSome x, r))).
  Definition enc_nullable (n : nullable T) : list Z :=
    match n with NSome x => enc x | NNull => e_null | NUndefined => e_undefined end.

  (* Set<T> and NonEmptySet<T> (identical codecs: the emptiness check is commented out) *)
  Definition dec_set : decoder (list T) := fun bs =>
    dbind (d_datatype bs) (fun t =>
      if ctype_eqb t TTag then
        dbind (d_tag bs) (fun '(tg, r) => if tg =? 258 then dec_vec r else DErr)
      else dec_vec bs).
  Definition enc_set (xs : list T) : list Z := e_tag 258 ++ enc_vec xs.

  (* CborWrap<T>: d.tag()? (any tag); d.bytes()?; minicbor::decode(bytes) (trailing bytes ignored) *)
  Definition dec_cborwrap : decoder T := fun bs =>
    dbind (d_tag bs) (fun '(_, r) =>
    dbind (d_bytes r) (fun '(b, r') =>
    dbind (dec b) (fun '(x, _) => DOk (x, r')))).
  Definition enc_cborwrap (x : T) : list Z := e_tag 24 ++ e_bytes (enc x).

  (* TagWrap<T, TAG>: d.tag()? (any tag); inner *)
  Definition dec_tagwrap : decoder T := fun bs => dbind (d_tag bs) (fun '(_, r) => dec r).
  Definition enc_tagwrap (tag : Z) (x : T) : list Z := e_tag tag ++ enc x.

  (* ZeroOrOneArray<T> *)
  Definition dec_zoo : decoder (option T) := fun bs =>
    dbind (d_array bs) (fun '(l, r) =>
      match l with
      | Some n => if n =? 0 then DOk (None, r)
                  else if n =? 1 then dbind (dec r) (fun '(x, r') => DOk (Some x, r'))
                  else DErr
      | None => DErr
      end).
  Definition enc_zoo (o : option T) : list Z :=
    match o with Some x => e_array 1 ++ enc x | None => e_array 0 end.

  (* OrderPreservingProperties<T>: len = d.map()?.unwrap_or_default(); len components *)
  Definition dec_opp : decoder (list T) := fun bs =>
    dbind (d_map bs) (fun '(l, r) =>
      seq_loop dec (budget r) (match l with Some n => n | None => 0 end) r).
  Definition enc_opp (xs : list T) : list Z := e_map (len xs) ++ concat (map enc xs).
End OnePayload.

(* ------------------------------------------------------------ two payloads *)
Inductive kvp (K V : Type) : Type := KDef (l : list (K * V)) | KIndef (l : list (K * V)).
Arguments KDef {K V} l. Arguments KIndef {K V} l.

Section TwoPayloads.
  Context {K V : Type} (dk : decoder K) (dv : decoder V) (ek : K -> list Z) (ev : V -> list Z).

  (* KeyValuePairs<K,V> and NonEmptyKeyValuePairs<K,V> (identical codecs) *)
  Definition dec_kvp : decoder (kvp K V) := fun bs =>
    dbind (d_datatype bs) (fun t =>
    dbind (d_map_pairs dk dv bs) (fun '(l, r) =>
      if ctype_eqb t TMap then DOk (KDef l, r)
      else if ctype_eqb t TMapIndef then DOk (KIndef l, r)
      else DErr)).
  Definition enc_pair_kv (kv : K * V) : list Z := ek (fst kv) ++ ev (snd kv).
  Definition enc_kvp (m : kvp K V) : list Z :=
    match m with
    | KDef l => e_map (len l) ++ concat (map enc_pair_kv l)
    | KIndef l => e_begin_map ++ concat (map enc_pair_kv l) ++ e_end
    end.
End TwoPayloads.
