(* C40: the staging state machine over operation histories -- the mint map keeps
   unique keys, mint_asset accumulates, remove_mint_asset forgets. *)
From PV Require Import Lib.Base C40.Model C40.Spec C40.SortFacts.
From Coq Require Import Sorting.Sorted.
Open Scope Z_scope.

(* ---------- inner maps ---------- *)
Lemma inner_add_keys lo hi n a l l' : inner_add lo hi n a l = Some l' ->
  forall x, In x (map fst l') <-> x = n \/ In x (map fst l).
Proof.
  revert l'. induction l as [|[n0 a0] r IH]; cbn; intros l' H x.
  - inversion H; subst. cbn. intuition.
  - destruct (bytes_eqb n0 n) eqn:E.
    + destruct ((lo <=? a0 + a) && (a0 + a <=? hi)); [|discriminate]. inversion H; subst. cbn.
      apply bytes_eqb_eq in E. subst. intuition.
    + destruct (inner_add lo hi n a r) as [r'|] eqn:Er; [|discriminate]. inversion H; subst. cbn.
      rewrite (IH r' eq_refl x). intuition.
Qed.

Lemma inner_add_wf lo hi n a l l' : inner_wf l -> inner_add lo hi n a l = Some l' -> inner_wf l'.
Proof.
  unfold inner_wf. revert l'. induction l as [|[n0 a0] r IH]; cbn; intros l' Hw H.
  - inversion H; subst. cbn. constructor; [intros []|constructor].
  - inversion Hw as [|x y Hn Hr]; subst. destruct (bytes_eqb n0 n) eqn:E.
    + destruct ((lo <=? a0 + a) && (a0 + a <=? hi)); [|discriminate]. inversion H; subst. cbn. constructor; auto.
    + destruct (inner_add lo hi n a r) as [r'|] eqn:Er; [|discriminate]. inversion H; subst. cbn.
      constructor; [|apply IH; auto].
      intros Hin. apply (inner_add_keys _ _ _ _ _ _ Er) in Hin as [Hin|Hin]; [|auto].
      subst. assert (bytes_eqb n n = true) by (apply bytes_eqb_eq; reflexivity). congruence.
Qed.

Lemma inner_add_lookup lo hi n a l l' x : inner_add lo hi n a l = Some l' ->
  inner_lookup x l' = if bytes_eqb n x then Some (match inner_lookup n l with Some v => v + a | None => a end)
                      else inner_lookup x l.
Proof.
  revert l'. induction l as [|[n0 a0] r IH]; cbn; intros l' H.
  - inversion H; subst. cbn. reflexivity.
  - destruct (bytes_eqb n0 n) eqn:E.
    + destruct ((lo <=? a0 + a) && (a0 + a <=? hi)); [|discriminate]. inversion H; subst. cbn.
      apply bytes_eqb_eq in E. subst n0. destruct (bytes_eqb n x); reflexivity.
    + destruct (inner_add lo hi n a r) as [r'|] eqn:Er; [|discriminate]. inversion H; subst. cbn.
      rewrite (IH r' eq_refl). destruct (bytes_eqb n0 x) eqn:E0; [|reflexivity].
      apply bytes_eqb_eq in E0. subst n0. destruct (bytes_eqb n x) eqn:E1; [|reflexivity].
      apply bytes_eqb_eq in E1. subst x. assert (bytes_eqb n n = true) by (apply bytes_eqb_eq; reflexivity). congruence.
Qed.

Lemma inner_remove_lookup n l x :
  inner_lookup x (inner_remove n l) = if bytes_eqb n x then None else inner_lookup x l.
Proof.
  unfold inner_remove. induction l as [|[n0 a0] r IH].
  - cbn. destruct (bytes_eqb n x); reflexivity.
  - cbn [filter fst]. destruct (bytes_eqb n0 n) eqn:E; cbn [negb inner_lookup].
    + rewrite IH. apply bytes_eqb_eq in E. subst n0. destruct (bytes_eqb n x); reflexivity.
    + rewrite IH. destruct (bytes_eqb n0 x) eqn:E0; [|reflexivity].
      apply bytes_eqb_eq in E0. subst n0. destruct (bytes_eqb n x) eqn:E1; [|reflexivity].
      apply bytes_eqb_eq in E1. subst x. rewrite (proj2 (bytes_eqb_eq n n) eq_refl) in E. discriminate.
Qed.

Lemma inner_remove_wf n l : inner_wf l -> inner_wf (inner_remove n l).
Proof.
  unfold inner_wf, inner_remove. induction l as [|[n0 a0] r IH]; intros H; [constructor|].
  cbn [map fst] in H. inversion H as [|x y Hn Hr]; subst. cbn [filter fst].
  destruct (negb (bytes_eqb n0 n)); cbn [map fst]; [constructor|]; auto.
  intros Hin. apply Hn. apply in_map_iff in Hin as [e [He Hin]]. apply filter_In in Hin as [Hin _].
  apply in_map_iff. exists e. auto.
Qed.

Lemma inner_lookup_in l n q : inner_lookup n l = Some q -> In (n, q) l.
Proof.
  induction l as [|[n0 a0] r IH]; cbn; [discriminate|].
  destruct (bytes_eqb n0 n) eqn:E; intros H.
  - apply bytes_eqb_eq in E. inversion H; subst. left; reflexivity.
  - right; auto.
Qed.

Lemma inner_in_lookup l n q : inner_wf l -> In (n, q) l -> inner_lookup n l = Some q.
Proof.
  unfold inner_wf. induction l as [|[n0 a0] r IH]; cbn; intros Hw Hin; [contradiction|].
  inversion Hw as [|x y Hn Hr]; subst. destruct Hin as [Heq|Hin].
  - inversion Heq; subst. assert (bytes_eqb n n = true) by (apply bytes_eqb_eq; reflexivity). rewrite H. reflexivity.
  - destruct (bytes_eqb n0 n) eqn:E; [|auto]. apply bytes_eqb_eq in E. subst n0.
    exfalso. apply Hn. apply in_map_iff. exists (n, q). auto.
Qed.

(* ---------- policy maps ---------- *)
Lemma amap_lookup_notin p n m : ~ In p (map fst m) -> amap_lookup p n m = None.
Proof.
  induction m as [|[p0 l] r IH]; cbn; intros H; [reflexivity|].
  destruct (p0 =? p) eqn:E; [exfalso; apply H; left; lia|]. apply IH. intros Hin. apply H. right. exact Hin.
Qed.

Lemma amap_add_keys lo hi p n a m m' : amap_add lo hi p n a m = Some m' ->
  forall x, In x (map fst m') <-> x = p \/ In x (map fst m).
Proof.
  revert m'. induction m as [|[p0 l] r IH]; cbn; intros m' H x.
  - inversion H; subst. cbn. intuition.
  - destruct (p0 =? p) eqn:E.
    + destruct (inner_add lo hi n a l); [|discriminate]. inversion H; subst. cbn. assert (p0 = p) by lia. subst. intuition.
    + destruct (amap_add lo hi p n a r) as [r'|] eqn:Er; [|discriminate]. inversion H; subst. cbn.
      rewrite (IH r' eq_refl x). intuition.
Qed.

Lemma amap_add_wf lo hi p n a m m' : amap_wf m -> amap_add lo hi p n a m = Some m' -> amap_wf m'.
Proof.
  unfold amap_wf. revert m'. induction m as [|[p0 l] r IH]; cbn; intros m' [Hk Hi] H.
  - inversion H; subst. cbn. split.
    + constructor; [intros []|constructor].
    + constructor; [|constructor]. cbn. unfold inner_wf. cbn. constructor; [intros []|constructor].
  - inversion Hk as [|x y Hn Hr]; subst. inversion Hi as [|x y Hl Hf]; subst. cbn in Hl.
    destruct (p0 =? p) eqn:E.
    + destruct (inner_add lo hi n a l) as [l'|] eqn:El; [|discriminate]. inversion H; subst. cbn. split.
      * constructor; auto.
      * constructor; [cbn; eapply inner_add_wf; eauto|exact Hf].
    + destruct (amap_add lo hi p n a r) as [r'|] eqn:Er; [|discriminate]. inversion H; subst. cbn.
      destruct (IH r' (conj Hr Hf) eq_refl) as [Hk' Hi']. split.
      * constructor; [|exact Hk']. intros Hin. apply (amap_add_keys _ _ _ _ _ _ _ Er) in Hin as [Hin|Hin]; [lia|auto].
      * constructor; [exact Hl|exact Hi'].
Qed.

Lemma amap_add_lookup lo hi p n a m m' x y : amap_add lo hi p n a m = Some m' ->
  amap_lookup x y m' = if (p =? x) && bytes_eqb n y
                       then Some (match amap_lookup p n m with Some v => v + a | None => a end)
                       else amap_lookup x y m.
Proof.
  revert m'. induction m as [|[p0 l] r IH]; cbn; intros m' H.
  - inversion H; subst. cbn. destruct (p =? x); cbn; [|reflexivity]. destruct (bytes_eqb n y); reflexivity.
  - destruct (p0 =? p) eqn:E.
    + destruct (inner_add lo hi n a l) as [l'|] eqn:El; [|discriminate]. inversion H; subst. cbn.
      assert (p0 = p) by lia. subst p0. destruct (p =? x) eqn:Ex; cbn; [|reflexivity].
      apply (inner_add_lookup _ _ _ _ _ _ y El).
    + destruct (amap_add lo hi p n a r) as [r'|] eqn:Er; [|discriminate]. inversion H; subst. cbn.
      rewrite (IH r' eq_refl). destruct (p0 =? x) eqn:E0; [|reflexivity].
      destruct (p =? x) eqn:Ex; [lia|reflexivity].
Qed.

Lemma amap_remove_keys p n m x : In x (map fst (amap_remove p n m)) -> In x (map fst m).
Proof.
  induction m as [|[p0 l] r IH]; cbn; [auto|].
  destruct (p0 =? p).
  - destruct (inner_remove n l); cbn; intuition.
  - cbn. intuition.
Qed.

Lemma amap_remove_wf p n m : amap_wf m -> amap_wf (amap_remove p n m).
Proof.
  unfold amap_wf. induction m as [|[p0 l] r IH]; cbn; intros [Hk Hi]; [split; constructor|].
  inversion Hk as [|x y Hn Hr]; subst. inversion Hi as [|x y Hl Hf]; subst. cbn in Hl.
  destruct (p0 =? p).
  - destruct (inner_remove n l) as [|e l'] eqn:El; [split; assumption|].
    cbn. split; [constructor; auto|]. constructor; [|exact Hf]. cbn. rewrite <- El. apply inner_remove_wf. exact Hl.
  - destruct (IH (conj Hr Hf)) as [Hk' Hi']. cbn. split.
    + constructor; [|exact Hk']. intros Hin. apply Hn. eapply amap_remove_keys. exact Hin.
    + constructor; [exact Hl|exact Hi'].
Qed.

Lemma amap_remove_lookup p n m x y : amap_wf m ->
  amap_lookup x y (amap_remove p n m) = if (p =? x) && bytes_eqb n y then None else amap_lookup x y m.
Proof.
  unfold amap_wf. induction m as [|[p0 l] r IH]; cbn; intros [Hk Hi].
  - destruct ((p =? x) && bytes_eqb n y); reflexivity.
  - inversion Hk as [|a b Hn Hr]; subst. inversion Hi as [|a b Hl Hf]; subst.
    destruct (p0 =? p) eqn:E.
    + assert (p0 = p) by lia. subst p0. pose proof (inner_remove_lookup n l y) as Hil.
      destruct (inner_remove n l) as [|e l'] eqn:El.
      * cbn in Hil. destruct (p =? x) eqn:Ex; cbn.
        -- assert (x = p) by lia. subst x. rewrite (amap_lookup_notin p y r Hn).
           destruct (bytes_eqb n y); [reflexivity|]. exact Hil.
        -- reflexivity.
      * cbn [amap_lookup]. destruct (p =? x) eqn:Ex; cbn [andb]; [exact Hil|reflexivity].
    + cbn. rewrite (IH (conj Hr Hf)). destruct (p0 =? x) eqn:E0; [|reflexivity].
      destruct (p =? x) eqn:Ex; [lia|reflexivity].
Qed.

Lemma amap_lookup_entry m p n q : amap_wf m ->
  (amap_lookup p n m = Some q <-> exists l, In (p, l) m /\ In (n, q) l).
Proof.
  unfold amap_wf. induction m as [|[p0 l0] r IH]; cbn; intros [Hk Hi].
  - split; [discriminate|intros [l [[] _]]].
  - inversion Hk as [|a b Hn Hr]; subst. inversion Hi as [|a b Hl Hf]; subst. cbn in Hl.
    destruct (p0 =? p) eqn:E.
    + assert (p0 = p) by lia. subst p0. split.
      * intros H. exists l0. split; [left; reflexivity|apply inner_lookup_in; exact H].
      * intros [l [[Heq|Hin] Hq]].
        -- inversion Heq; subst. apply inner_in_lookup; assumption.
        -- exfalso. apply Hn. apply in_map_iff. exists (p, l). auto.
    + rewrite (IH (conj Hr Hf)). split.
      * intros [l [Hin Hq]]. exists l. auto.
      * intros [l [[Heq|Hin] Hq]]; [inversion Heq; lia|exists l; auto].
Qed.

(* ---------- histories ---------- *)
Lemma apply_op_mint st o st' p n : amap_wf (s_mint st) -> apply_op st o = Ok st' ->
  amap_wf (s_mint st') /\
  amap_lookup p n (s_mint st') =
    match o with
    | OMint p' n' a => if (p' =? p) && bytes_eqb n' n
                       then Some (match amap_lookup p n (s_mint st) with Some v => v + a | None => a end)
                       else amap_lookup p n (s_mint st)
    | ORemoveMint p' n' => if (p' =? p) && bytes_eqb n' n then None else amap_lookup p n (s_mint st)
    | _ => amap_lookup p n (s_mint st)
    end.
Proof.
  intros Hw H. destruct o; cbn in H;
    try (inversion H; subst; cbn; split; [exact Hw|reflexivity]).
  - (* ORemoveOutput *) destruct ((0 <=? idx) && (idx <? Z.of_nat (length (s_outputs st)))); [|discriminate].
    inversion H; subst; cbn. split; [exact Hw|reflexivity].
  - (* OMint *) destruct (32 <? Z.of_nat (length n0)); [discriminate|].
    destruct (amap_add I64_MIN I64_MAX p0 n0 a (s_mint st)) as [m|] eqn:Ea; [|discriminate].
    inversion H; subst; cbn. split; [eapply amap_add_wf; eauto|].
    rewrite (amap_add_lookup _ _ _ _ _ _ _ p n Ea).
    destruct ((p0 =? p) && bytes_eqb n0 n) eqn:E; [|reflexivity].
    apply andb_true_iff in E as [E1 E2]. apply bytes_eqb_eq in E2. assert (p0 = p) by lia. subst. reflexivity.
  - (* ORemoveMint *) inversion H; subst; cbn. split; [apply amap_remove_wf; exact Hw|].
    apply amap_remove_lookup. exact Hw.
  - (* OAux *) destruct ok; inversion H; subst; cbn; split; try exact Hw; reflexivity.
Qed.

Lemma run_ops_mint ops : forall st st' p n, amap_wf (s_mint st) -> run_ops ops st = Ok st' ->
  amap_wf (s_mint st') /\ amap_lookup p n (s_mint st') = mint_spec ops (amap_lookup p n (s_mint st)) p n.
Proof.
  induction ops as [|o r IH]; intros st st' p n Hw H; cbn in H.
  - inversion H; subst. split; [exact Hw|reflexivity].
  - destruct (apply_op st o) as [st1| |] eqn:E; try discriminate.
    destruct (apply_op_mint st o st1 p n Hw E) as [Hw1 Hl1].
    destruct (IH st1 st' p n Hw1 H) as [Hw' Hl']. split; [exact Hw'|].
    rewrite Hl'. cbn [mint_spec]. rewrite Hl1. destruct o; reflexivity.
Qed.

Lemma empty_wf : amap_wf (s_mint empty_staging).
Proof. split; constructor. Qed.

(* ---------- strict order of the built policies ---------- *)
Lemma insert_sorted_keys_nodup {A} (leb : A -> A -> bool) (f : A -> Z) x l :
  NoDup (map f (x :: l)) -> NoDup (map f (insert_sorted leb x l)).
Proof.
  induction l as [|y r IH]; cbn; intros H; [exact H|].
  destruct (leb x y); [exact H|]. cbn.
  inversion H as [|a b Hn Hr]; subst. inversion Hr as [|a b Hn2 Hr2]; subst.
  constructor.
  - intros Hin. apply in_map_iff in Hin as [e [He Hin]]. apply insert_In in Hin as [->|Hin].
    + apply Hn. left. auto.
    + apply Hn2. apply in_map_iff. exists e. auto.
  - apply IH. cbn. constructor; [|exact Hr2]. intros Hin. apply Hn. right. exact Hin.
Qed.

Lemma isort_keys_nodup {A} (leb : A -> A -> bool) (f : A -> Z) l :
  NoDup (map f l) -> NoDup (map f (isort leb l)).
Proof.
  induction l as [|x r IH]; cbn; intros H; [constructor|].
  inversion H as [|a b Hn Hr]; subst. apply insert_sorted_keys_nodup. cbn. constructor; [|apply IH; exact Hr].
  intros Hin. apply Hn. apply in_map_iff in Hin as [e [He Hin]]. apply isort_In in Hin. apply in_map_iff. exists e. auto.
Qed.

Lemma norm_amap_keys_nodup m : NoDup (map fst m) -> NoDup (map fst (norm_amap m)).
Proof.
  intros H. unfold norm_amap. apply isort_keys_nodup.
  induction m as [|[p l] r IH]; [constructor|].
  cbn [map fst] in H. inversion H as [|a b Hn Hr]; subst. cbn [map filter fst snd].
  destruct (norm_inner l) eqn:E; cbn [map fst]; [apply IH; exact Hr|].
  constructor; [|apply IH; exact Hr].
  intros Hin. apply Hn. apply in_map_iff in Hin as [e [He Hin]]. apply filter_In in Hin as [Hin _].
  apply in_map_iff in Hin as [e0 [He0 Hin]]. subst e. cbn in He. apply in_map_iff. exists e0. auto.
Qed.

Lemma sorted_nodup_strict (m : amap) :
  Sorted (fun a b => (fst a <=? fst b) = true) m -> NoDup (map fst m) -> StronglySorted Z.lt (map fst m).
Proof.
  intros Hs Hn. apply Sorted_StronglySorted in Hs; [|intros a b c; lia].
  induction m as [|[p l] r IH]; cbn; [constructor|].
  inversion Hs as [|a b Hr Hf]; subst. inversion Hn as [|a b Hni Hnr]; subst.
  constructor; [apply IH; assumption|].
  rewrite Forall_forall in *. intros x Hin. apply in_map_iff in Hin as [e [He Hin]]. subst x.
  specialize (Hf e Hin). cbn [fst] in Hf. apply Z.leb_le in Hf.
  assert (fst e <> p). { intros Heq. apply Hni. apply in_map_iff. exists e. auto. }
  unfold hash in *. lia.
Qed.
