From PV Require Import Lib.Base Kes.Model Kes.KeyAt C12.Model.
Open Scope Z_scope.

(* ---- evolve in closed form ---- *)
Lemma evolve_closed d b s n : length b = ksize d -> Z.of_nat n < total d ->
  evolve d b s n = Some (key_at d s (Z.of_nat n), Z.of_nat n).
Proof. intros Hb Hn. unfold evolve. rewrite (keygen_closed d b s Hb). apply updates_closed, Hn. Qed.

Lemma evolve_beyond d b s n : length b = ksize d -> total d <= Z.of_nat n -> evolve d b s n = None.
Proof. intros Hb Hn. unfold evolve. rewrite (keygen_closed d b s Hb). apply updates_too_many, Hn. Qed.

Lemma pk_of_closed d b s : length b = ksize d -> pk_of d b s = pk_tree d s.
Proof. intros Hb. unfold pk_of. rewrite (keygen_closed d b s Hb). reflexivity. Qed.

(* any number of update() calls at the last period are refused and change nothing *)
Lemma update_calls_refused d k : snd (update d k) = false ->
  forall j, update_calls d j k = k /\ snd (update d (update_calls d j k)) = false.
Proof.
  intros H j. induction j as [|j [IH1 IH2]]; cbn [update_calls]; [split; [reflexivity|exact H]|].
  rewrite IH1. destruct (update d k) as [k' ok] eqn:E. cbn [snd] in H. subst ok.
  rewrite (update_err_unchanged _ _ _ E). cbn [fst]. split; [reflexivity|].
  rewrite (update_err_unchanged _ _ _ E) in E. rewrite E. reflexivity.
Qed.

(* ---- public keys of distinct seeds are distinct ---- *)
Lemma pk_tree_inj n : forall a b, pk_tree n a = pk_tree n b -> a = b.
Proof.
  induction n as [|n IH]; intros a b H; cbn [pk_tree] in H.
  - injection H as H. exact H.
  - injection H as H1 _. apply IH in H1. injection H1 as H1. exact H1.
Qed.

Lemma pk_tree_LR n s : pk_tree n (L s) <> pk_tree n (R s).
Proof. intros H. apply pk_tree_inj in H. discriminate. Qed.

(* ---- SumKes ---- *)
Lemma sign_sum_S d a x p q m : length a = ksize d ->
  sign_sum (S d) (a ++ [x; p; q]) m = SNode (sign_sum d a m) p q.
Proof.
  intros Ha. cbn [sign_sum]. rewrite (firstn_exact _ _ _ Ha), !(get_app _ _ _ _ Ha). reflexivity.
Qed.

Lemma sign_sum_key_at_S d s t m :
  sign_sum (S d) (key_at (S d) s t) m =
  SNode (sign_sum d (if t <? total d then key_at d (L s) t else key_at d (R s) (t - total d)) m)
        (pk_tree d (L s)) (pk_tree d (R s)).
Proof.
  destruct (key_at_S_shape d s t) as (a & x & E & Ha & Ea). rewrite E, (sign_sum_S _ _ _ _ _ _ Ha), Ea.
  reflexivity.
Qed.

Lemma sum_verify_ok d : forall s t m, 0 <= t < total d ->
  verify_sum d (sign_sum d (key_at d s t) m) t (pk_tree d s) m = true.
Proof.
  induction d as [|d IH]; intros s t m Ht.
  - cbn. rewrite !term_eqb_refl, Z.eqb_refl. reflexivity.
  - rewrite sign_sum_key_at_S. cbn [verify_sum pk_tree]. rewrite term_eqb_refl. cbn [negb].
    rewrite half_S. rewrite total_S in Ht.
    destruct (t <? total d) eqn:E; apply IH; lia.
Qed.

(* a signature never verifies under a public key other than its own subtree's *)
Lemma sum_verify_other_pk d s t m t' pk m' : pk <> pk_tree d s ->
  verify_sum d (sign_sum d (key_at d s t) m) t' pk m' = false.
Proof.
  intros Hpk. destruct d as [|d].
  - cbn [pk_tree] in Hpk. apply term_eqb_neq in Hpk. cbn. rewrite Hpk. reflexivity.
  - rewrite sign_sum_key_at_S. cbn [verify_sum].
    assert (E : term_eqb (H2 (pk_tree d (L s)) (pk_tree d (R s))) pk = false).
    { apply term_eqb_neq. intros H. apply Hpk. rewrite <- H. reflexivity. }
    rewrite E. reflexivity.
Qed.

Lemma sum_verify_wrong_period d : forall s t t' m,
  0 <= t < total d -> 0 <= t' < total d -> t' <> t ->
  verify_sum d (sign_sum d (key_at d s t) m) t' (pk_tree d s) m = false.
Proof.
  induction d as [|d IH]; intros s t t' m Ht Ht' Hne.
  - unfold total in *. cbn in Ht, Ht'. lia.
  - rewrite sign_sum_key_at_S. cbn [verify_sum pk_tree]. rewrite term_eqb_refl. cbn [negb].
    rewrite half_S. rewrite total_S in Ht, Ht'.
    destruct (t <? total d) eqn:E; destruct (t' <? total d) eqn:E'.
    + apply IH; lia.
    + apply sum_verify_other_pk. intros H. symmetry in H. exact (pk_tree_LR _ _ H).
    + apply sum_verify_other_pk. exact (pk_tree_LR _ _).
    + apply IH; lia.
Qed.

Lemma sum_verify_wrong_message d : forall s t t' m m', m' <> m ->
  verify_sum d (sign_sum d (key_at d s t) m) t' (pk_tree d s) m' = false.
Proof.
  induction d as [|d IH]; intros s t t' m m' Hne.
  - cbn. assert (E : (m =? m') = false) by lia. rewrite E, !andb_false_r. reflexivity.
  - rewrite sign_sum_key_at_S. cbn [verify_sum pk_tree]. rewrite term_eqb_refl. cbn [negb].
    destruct (t <? total d) eqn:E; destruct (t' <? half (S d)) eqn:E';
      try (apply IH; exact Hne).
    + apply sum_verify_other_pk. intros H. symmetry in H. exact (pk_tree_LR _ _ H).
    + apply sum_verify_other_pk. exact (pk_tree_LR _ _).
Qed.

Lemma sign_sum_depth d : forall sk m, sumsig_depth (sign_sum d sk m) = d.
Proof. induction d as [|d IH]; intros sk m; cbn; [reflexivity|]. rewrite IH. reflexivity. Qed.

Lemma sumsig_to_bytes_length sig : length (sumsig_to_bytes sig) = sumsig_size (sumsig_depth sig).
Proof.
  induction sig as [a b|sig IH l r]; cbn [sumsig_to_bytes sumsig_depth]; [reflexivity|].
  rewrite app_length, IH. unfold sumsig_size. cbn [length]. lia.
Qed.

Lemma sumsig_roundtrip sig :
  sumsig_from_bytes (sumsig_depth sig) (sumsig_to_bytes sig) = Some sig.
Proof.
  induction sig as [a b|sig IH l r]; [reflexivity|].
  cbn [sumsig_depth sumsig_to_bytes sumsig_from_bytes].
  pose proof (sumsig_to_bytes_length sig) as Hl.
  assert (E : (length (sumsig_to_bytes sig ++ [l; r]) =? sumsig_size (S (sumsig_depth sig)))%nat = true).
  { apply Nat.eqb_eq. rewrite app_length, Hl. unfold sumsig_size. cbn [length]. lia. }
  rewrite E. cbn [negb].
  rewrite (firstn_exact _ _ _ Hl), IH.
  rewrite (get_app0 _ _ _ Hl), (get_app _ _ _ 1 Hl). reflexivity.
Qed.

Lemma sumsig_from_bytes_length d : forall bytes sig,
  sumsig_from_bytes d bytes = Some sig -> length bytes = sumsig_size d.
Proof.
  destruct d as [|d]; intros bytes sig H; cbn [sumsig_from_bytes] in H.
  - destruct (length bytes =? sumsig_size 0)%nat eqn:E; cbn [negb] in H; [|discriminate].
    apply Nat.eqb_eq in E. exact E.
  - destruct (length bytes =? sumsig_size (S d))%nat eqn:E; cbn [negb] in H; [|discriminate].
    apply Nat.eqb_eq in E. exact E.
Qed.

(* ---- SumCompactKes ---- *)
Lemma sign_cmp_key_at_S d s t m :
  sign_cmp (S d) (key_at (S d) s t) m t =
  if t <? total d
  then CNode (sign_cmp d (key_at d (L s) t) m t) (pk_tree d (R s))
  else CNode (sign_cmp d (key_at d (R s) (t - total d)) m (t - total d)) (pk_tree d (L s)).
Proof.
  destruct (key_at_S_shape d s t) as (a & x & E & Ha & Ea). rewrite E.
  cbn [sign_cmp]. rewrite half_S, (firstn_exact _ _ _ Ha), !(get_app _ _ _ _ Ha), Ea.
  destruct (t <? total d); reflexivity.
Qed.

Lemma cmp_recompute_ok d : forall s t m, 0 <= t < total d ->
  recompute d (sign_cmp d (key_at d s t) m t) t m = Some (pk_tree d s).
Proof.
  induction d as [|d IH]; intros s t m Ht.
  - cbn. rewrite !term_eqb_refl, Z.eqb_refl. reflexivity.
  - rewrite sign_cmp_key_at_S. rewrite total_S in Ht.
    destruct (t <? total d) eqn:E; cbn [recompute]; rewrite half_S, E; rewrite IH by lia; reflexivity.
Qed.

Lemma cmp_recompute_wrong_period d : forall s t t' m m',
  0 <= t < total d -> 0 <= t' < total d -> t' <> t ->
  recompute d (sign_cmp d (key_at d s t) m t) t' m' <> Some (pk_tree d s).
Proof.
  induction d as [|d IH]; intros s t t' m m' Ht Ht' Hne.
  - unfold total in *. cbn in Ht, Ht'. lia.
  - rewrite sign_cmp_key_at_S. rewrite total_S in Ht, Ht'.
    destruct (t <? total d) eqn:E; cbn [recompute pk_tree]; rewrite half_S;
      destruct (t' <? total d) eqn:E'.
    + destruct (recompute d _ t' m') as [r|] eqn:Er; [|discriminate].
      intros H. injection H as H. subst r. revert Er. apply IH; lia.
    + destruct (recompute d _ (t' - total d) m') as [r|]; [|discriminate].
      intros H. injection H as H _. symmetry in H. exact (pk_tree_LR _ _ H).
    + destruct (recompute d _ t' m') as [r|]; [|discriminate].
      intros H. injection H as _ H. exact (pk_tree_LR _ _ H).
    + destruct (recompute d _ (t' - total d) m') as [r|] eqn:Er; [|discriminate].
      intros H. injection H as H. subst r. revert Er. apply IH; lia.
Qed.

Lemma cmp_recompute_wrong_message d : forall s t t' m m', m' <> m ->
  recompute d (sign_cmp d (key_at d s t) m t) t' m' <> Some (pk_tree d s).
Proof.
  induction d as [|d IH]; intros s t t' m m' Hne.
  - cbn. assert (E : (m =? m') = false) by lia. rewrite E, !andb_false_r. discriminate.
  - rewrite sign_cmp_key_at_S.
    destruct (t <? total d) eqn:E; cbn [recompute pk_tree]; rewrite half_S;
      destruct (t' <? total d) eqn:E'.
    + destruct (recompute d _ t' m') as [r|] eqn:Er; [|discriminate].
      intros H. injection H as H. subst r. revert Er. apply IH; exact Hne.
    + destruct (recompute d _ (t' - total d) m') as [r|]; [|discriminate].
      intros H. injection H as H _. symmetry in H. exact (pk_tree_LR _ _ H).
    + destruct (recompute d _ t' m') as [r|]; [|discriminate].
      intros H. injection H as _ H. exact (pk_tree_LR _ _ H).
    + destruct (recompute d _ (t' - total d) m') as [r|] eqn:Er; [|discriminate].
      intros H. injection H as H. subst r. revert Er. apply IH; exact Hne.
Qed.

Lemma verify_cmp_false d sig t pk m :
  recompute d sig t m <> Some pk -> verify_cmp d sig t pk m = false.
Proof.
  intros H. unfold verify_cmp. destruct (recompute d sig t m) as [r|]; [|reflexivity].
  apply term_eqb_neq. intros E. apply H. rewrite E. reflexivity.
Qed.

Lemma sign_cmp_depth d : forall sk m t, cmpsig_depth (sign_cmp d sk m t) = d.
Proof.
  induction d as [|d IH]; intros sk m t; cbn [sign_cmp]; [reflexivity|].
  destruct (t <? half (S d)); cbn [cmpsig_depth]; rewrite IH; reflexivity.
Qed.
Lemma sign_cmp_wf d : forall sk m t, cmpsig_wf (sign_cmp d sk m t) = true.
Proof.
  induction d as [|d IH]; intros sk m t; cbn [sign_cmp]; [reflexivity|].
  destruct (t <? half (S d)); cbn [cmpsig_wf]; apply IH.
Qed.

Lemma cmpsig_to_bytes_length sig : length (cmpsig_to_bytes sig) = cmpsig_size (cmpsig_depth sig).
Proof.
  induction sig as [a b vk|sig IH p]; cbn [cmpsig_to_bytes cmpsig_depth]; [reflexivity|].
  rewrite app_length, IH. unfold cmpsig_size. cbn [length]. lia.
Qed.

Lemma cmpsig_roundtrip sig : cmpsig_wf sig = true ->
  cmpsig_from_bytes (cmpsig_depth sig) (cmpsig_to_bytes sig) = Some sig.
Proof.
  induction sig as [a b vk|sig IH p]; intros Hwf.
  - cbn in Hwf. cbn. rewrite Hwf. reflexivity.
  - cbn [cmpsig_wf] in Hwf. cbn [cmpsig_depth cmpsig_to_bytes cmpsig_from_bytes].
    pose proof (cmpsig_to_bytes_length sig) as Hl.
    assert (E : (length (cmpsig_to_bytes sig ++ [p]) =? cmpsig_size (S (cmpsig_depth sig)))%nat = true).
    { apply Nat.eqb_eq. rewrite app_length, Hl. unfold cmpsig_size. cbn [length]. lia. }
    rewrite E. cbn [negb].
    rewrite (firstn_exact _ _ _ Hl), (IH Hwf), (get_app0 _ _ _ Hl). reflexivity.
Qed.
