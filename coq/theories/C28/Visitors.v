(* C28 proofs, part C (Visitors): see Proofs.v for the theorem [exec_sync_conformant]. *)
From PV Require Import Lib.Base P2p.Proto P2p.Initiator P2p.Spec C27.Proofs C28.Model.
From PV Require Import C28.Abs C28.Refine.
Open Scope Z_scope.

(* same connection-initialised flag and same protocol fields *)
Definition SFi (s s1 : pstate) : Prop :=
  is_init s1 = is_init s /\ hs s1 = hs s /\ ka s1 = ka s /\ ps s1 = ps s /\ bf s1 = bf s /\ cs s1 = cs s /\
  tx s1 = tx s /\ ln s1 = ln s /\ lf s1 = lf s.
Lemma SFi_refl s : SFi s s. Proof. repeat split. Qed.
Lemma SFi_trans a b c : SFi a b -> SFi b c -> SFi a c.
Proof. intros (A1&A2&A3&A4&A5&A6&A7&A8&A9) (B1&B2&B3&B4&B5&B6&B7&B8&B9). repeat split; congruence. Qed.
Lemma SFi_Rel s s1 w : SFi s s1 -> Rel s w -> Rel s1 w.
Proof. intros (A1&A2&A3&A4&A5&A6&A7&A8&A9) (R1&R2&R3&R4&R5&R6&R7). unfold Rel. rewrite A2, A3, A4, A5, A6, A8, A9. repeat split; assumption. Qed.
Lemma SFi_Acc s s1 : SFi s s1 -> Acc s -> Acc s1.
Proof. intros (A1&A2&A3&A4&A5&A6&A7&A8&A9) A. unfold Acc. rewrite A1, A2, A6. exact A. Qed.
Lemma SFi_Default s s1 : SFi s s1 -> DefaultProto s -> DefaultProto s1.
Proof. intros (A1&A2&A3&A4&A5&A6&A7&A8&A9) D. unfold DefaultProto. rewrite A2, A3, A4, A5, A6, A7, A8, A9. exact D. Qed.

(* ---- inbound visitors ---- *)
Definition ivis (f : vst -> outcome vst) : Prop :=
  forall a s out a' s' out', f (a, s, out) = Ok (a', s', out') ->
    (forall w, Rel s w -> Rel s' w) /\ (Acc s -> Acc s') /\ (DefaultProto s -> DefaultProto s') /\
    exists ext, out' = out ++ ext /\ sends ext = [].

Lemma sends_app a b : sends (a ++ b) = sends a ++ sends b.
Proof. unfold sends. induction a as [|x r IH]; cbn; [reflexivity|]. rewrite IH, app_assoc. reflexivity. Qed.

Lemma ivis_bind f g : ivis f -> ivis g -> ivis (fun v => x <- f v ;; g x).
Proof.
  intros Hf Hg a s out a' s' out' H. destruct (f (a, s, out)) as [[[a1 s1] o1]| |] eqn:E; cbn [bind] in H; try discriminate.
  apply Hf in E as (R1 & A1 & D1 & e1 & -> & S1). apply Hg in H as (R2 & A2 & D2 & e2 & -> & S2).
  split; [intros w R; apply R2, R1, R|]. split; [auto|]. split; [auto|]. exists (e1 ++ e2). rewrite app_assoc, sends_app, S1, S2. auto.
Qed.
Lemma ivis_SFi f :
  (forall a s out a' s' out', f (a, s, out) = Ok (a', s', out') -> SFi s s' /\ exists ext, out' = out ++ ext /\ sends ext = []) -> ivis f.
Proof.
  intros H a s out a' s' out' E. apply H in E as (S & X). split; [intros w; apply SFi_Rel, S|]. split; [apply SFi_Acc, S|]. split; [apply SFi_Default, S | exact X].
Qed.

Ltac iv4 := split; [|split; [|split]].
Ltac iv_same := split; [auto|]; split; [auto|]; split; [auto|].
Ltac ext0 := exists []; split; [symmetry; apply app_nil_r | reflexivity].
Ltac ext1 := eexists; split; [reflexivity | reflexivity].

Lemma iv_hs p : ivis (v_hs_inbound p).
Proof.
  intros a s out a' s' out' H. unfold v_hs_inbound in H.
  destruct (conn s) eqn:C; try (inversion H; subst; iv_same; ext0).
  destruct (hs s) eqn:Hh; inversion H; subst; try (iv_same; ext0).
  iv4; [intros w R; exact R | | intros D; destruct D as (D1 & _); congruence | ext1].
  intros _ _. exists v, ps. exact Hh.
Qed.
Lemma iv_disc p : ivis (v_disc_inbound p).
Proof.
  intros a s out a' s' out' H. unfold v_disc_inbound in H.
  destruct (ps_peer_supports s); [|inversion H; subst; iv_same; ext0].
  destruct (ps s) as [[peers|]| |] eqn:E; inversion H; subst; try (iv_same; ext0).
  iv4.
  - intros w (R1&R2&R3&R4&R5&R6&R7). repeat split; try assumption. left; reflexivity.
  - intros A; exact A.
  - intros (_ & _ & D & _). congruence.
  - ext0.
Qed.
Lemma iv_bf p : ivis (v_bf_inbound p).
Proof.
  apply ivis_SFi. intros a s out a' s' out' H. unfold v_bf_inbound, emit in H.
  destruct (bf s) as [| |[b|]|]; inversion H; subst; (split; [apply SFi_refl|]); try ext0; ext1.
Qed.
Lemma iv_cs p : ivis (v_cs_inbound p).
Proof.
  intros a s out a' s' out' H. unfold v_cs_inbound in H.
  destruct (negb (cs_syncing s)) eqn:Sy; [inversion H; subst; iv_same; ext0|].
  unfold cs_syncing in Sy. apply negb_false_iff, negb_true_iff in Sy.
  destruct (cs s) as [d| | | |] eqn:Cs; cbn [cs_drain] in H; try (inversion H; subst; iv_same; ext0).
  assert (Nn : cs s <> CsSIdle CdNew) by (rewrite Cs; intros X; inversion X; subst; discriminate).
  assert (RR : forall v (w : pspec), Rel s w -> Rel (set_viol v (set_cs (CsSIdle CdDrained) s)) w).
  { intros v w (R1&R2&R3&R4&R5&R6&R7). unfold Rel. cbn. rewrite Cs in R5. repeat split; assumption. }
  assert (AA : forall v, Acc s -> Acc (set_viol v (set_cs (CsSIdle CdDrained) s))).
  { intros v A _. exact (A (or_intror Nn)). }
  assert (DD : forall v, DefaultProto s -> DefaultProto (set_viol v (set_cs (CsSIdle CdDrained) s))).
  { intros v (_ & _ & _ & _ & D & _). congruence. }
  destruct d; inversion H; subst;
    (iv4; [intros w R; exact (RR (viol s) w R) || exact (RR true w R) | intros A; exact (AA (viol s) A) || exact (AA true A)
                   | intros D; exact (DD (viol s) D) || exact (DD true D) | first [ext0 | ext1]]).
Qed.
Lemma iv_ln p : ivis (v_ln_inbound p).
Proof.
  intros a s out a' s' out' H. unfold v_ln_inbound in H.
  destruct (ln s) as [[[k x]|]| |] eqn:E; cbn [ln_drain] in H; inversion H; subst; try (iv_same; ext0).
  iv4.
  - intros w (R1&R2&R3&R4&R5&R6&R7). unfold Rel. cbn. rewrite E in R6. repeat split; assumption.
  - intros A; exact A.
  - intros (_ & _ & _ & _ & _ & _ & D & _). congruence.
  - ext1.
Qed.
Lemma iv_lf p : ivis (v_lf_inbound p).
Proof.
  intros a s out a' s' out' H. unfold v_lf_inbound in H.
  destruct (lf s) as [[[eb [k x]]|]| | |] eqn:E; cbn [lf_drain] in H; inversion H; subst; try (iv_same; ext0).
  iv4.
  - intros w (R1&R2&R3&R4&R5&R6&R7). unfold Rel. cbn. rewrite E in R7. repeat split; assumption.
  - intros A; exact A.
  - intros (_ & _ & _ & _ & _ & _ & _ & D). congruence.
  - ext1.
Qed.
Lemma iv_inbound_rest p : ivis (inbound_rest p).
Proof.
  unfold inbound_rest. apply ivis_bind; [apply iv_hs|]. apply ivis_bind; [apply iv_disc|]. apply ivis_bind; [apply iv_bf|].
  apply ivis_bind; [apply iv_cs|]. apply ivis_bind; [apply iv_ln|]. apply iv_lf.
Qed.

(* categorize only touches the tag *)
Lemma categorize_SFi c p pr0 s pr1 s1 : categorize c p pr0 s = Ok (pr1, s1) -> SFi s s1.
Proof.
  unfold categorize, ban_peer, promote_cold, promote_warm, bind, usub.
  repeat match goal with |- context[if ?x then _ else _] => destruct x end; intros H; inversion H; subst; repeat split.
Qed.

(* ---- emitters ---- *)
Definition epre (s : pstate) (m : msg) : Prop :=
  match m with
  | HsPropose _ => hs s = HsSPropose
  | KaKeepAlive _ => is_init s = true /\ exists r, ka s = KaSClient r
  | PsRequest _ => is_init s = true /\ supports_ps s = true /\ ps s = PsSIdle None
  | BfRequestRange _ => is_init s = true /\ bf s = BfSIdle
  | CsFindIntersect _ => is_init s = true /\ cs s = CsSIdle CdNew
  | CsRequestNext => exists d, cs s = CsSIdle d /\ d <> CdNew
  | LnRequestNext => is_init s = true /\ supports_leios s = true /\ ln s = LnSIdle None
  | LfBlockRequest _ | LfBlockTxsRequest _ => is_init s = true /\ supports_leios s = true /\ lf s = LfSIdle None
  | _ => False
  end.

Lemma epre_SFi s s1 m : SFi s1 s -> epre s m -> epre s1 m.
Proof.
  intros (A1&A2&A3&A4&A5&A6&A7&A8&A9). unfold epre, supports_ps, supports_leios. destruct m; auto; rewrite <- ?A1, <- ?A2, <- ?A3, <- ?A4, <- ?A5, <- ?A6, <- ?A8, <- ?A9; auto.
Qed.

Definition hvis (p : Z) (P : list Z) (f : vst -> outcome vst) : Prop :=
  forall a s out a' s' out', f (a, s, out) = Ok (a', s', out') ->
    SFi s s' /\ exists ext ms, out' = out ++ ext /\ sends ext = map (pair p) ms /\
      Forall (fun m => In (proto_of m) P /\ epre s m) ms /\ NoDup (map proto_of ms).

Lemma NoDup_app_intro {A} (a b : list A) : NoDup a -> NoDup b -> (forall x, In x a -> ~ In x b) -> NoDup (a ++ b).
Proof.
  induction 1 as [|x r Hx Hn IH]; intros Hb D; cbn; [exact Hb|].
  constructor.
  - intros X. apply in_app_iff in X as [X|X]; [exact (Hx X) | exact (D x (or_introl eq_refl) X)].
  - apply IH; [exact Hb | intros y Hy; apply D; right; exact Hy].
Qed.

Lemma hvis_bind p P Q f g : hvis p P f -> hvis p Q g -> (forall x, In x P -> ~ In x Q) -> hvis p (P ++ Q) (fun v => x <- f v ;; g x).
Proof.
  intros Hf Hg Dj a s out a' s' out' H. destruct (f (a, s, out)) as [[[a1 s1] o1]| |] eqn:E; cbn [bind] in H; try discriminate.
  apply Hf in E as (S1 & e1 & m1 & -> & X1 & F1 & N1). apply Hg in H as (S2 & e2 & m2 & -> & X2 & F2 & N2).
  split; [eapply SFi_trans; eassumption|]. exists (e1 ++ e2), (m1 ++ m2).
  split; [rewrite app_assoc; reflexivity|]. split; [rewrite sends_app, X1, X2, map_app; reflexivity|]. split.
  - apply Forall_app. split.
    + eapply Forall_impl; [|exact F1]. cbn. intros m [I Ep]. split; [apply in_or_app; left; exact I | exact Ep].
    + eapply Forall_impl; [|exact F2]. cbn. intros m [I Ep]. split; [apply in_or_app; right; exact I|].
      eapply epre_SFi; [exact S1 | exact Ep].
  - rewrite map_app. apply NoDup_app_intro; [exact N1 | exact N2|].
    intros x I1 I2. apply in_map_iff in I1 as (y1 & <- & J1). apply in_map_iff in I2 as (y2 & Ey & J2).
    rewrite Forall_forall in F1, F2. apply (Dj (proto_of y1)); [apply F1, J1 | rewrite <- Ey; apply F2, J2].
Qed.

Ltac hv_none := split; [repeat split|]; exists [], []; (split; [symmetry; apply app_nil_r|]); (split; [reflexivity|]); (split; constructor).
Ltac hv_ext e := split; [repeat split|]; exists e, []; (split; [reflexivity|]); (split; [reflexivity|]); (split; constructor).
Ltac hv_one e m := split; [repeat split|]; exists e, [m]; (split; [reflexivity|]); (split; [reflexivity|]);
  (split; [constructor; [split; [cbn; auto|] | constructor] | constructor; [intros [] | constructor]]).

Lemma hv_conn p : hvis p [] (v_conn_hk p).
Proof.
  intros a s out a' s' out' H. unfold v_conn_hk in H. destruct (needs_connection s) eqn:N.
  - assert (I : is_init (set_conn CConnecting s) = is_init s).
    { unfold needs_connection in N. unfold is_init. cbn. destruct (conn s); try discriminate; reflexivity. }
    destruct (needs_disconnect (set_conn CConnecting s)); try discriminate; injection H as <- <- <-.
    + split; [repeat split; exact I|]. exists [OConnect p; ODisconnect p], []. rewrite <- app_assoc. repeat split; constructor.
    + split; [repeat split; exact I|]. exists [OConnect p], []. repeat split; constructor.
  - destruct (needs_disconnect s); try discriminate; injection H as <- <- <-; [hv_ext [ODisconnect p] | hv_none].
Qed.
Lemma hv_ka p : hvis p [8] (v_ka_hk p).
Proof.
  intros a s out a' s' out' H. unfold v_ka_hk, emit in H. destruct (negb (is_init s)) eqn:I; [try discriminate; injection H as <- <- <-; hv_none|].
  apply negb_false_iff in I. destruct (ka s) eqn:K; try discriminate; injection H as <- <- <-; try hv_none.
  hv_one [OSend p (KaKeepAlive KA_TOKEN)] (KaKeepAlive KA_TOKEN). cbn. split; [exact I | eauto].
Qed.
Lemma hv_disc p : hvis p [10] (v_disc_hk p).
Proof.
  intros a s out a' s' out' H. unfold v_disc_hk, emit in H.
  destruct (negb (len (disc a) <? HWM)); [try discriminate; injection H as <- <- <-; hv_none|].
  destruct (negb (ps_peer_available s)) eqn:Av; [try discriminate; injection H as <- <- <-; hv_none|].
  destruct (usub _ _ _) as [amount| |]; cbn [bind] in H; try discriminate; injection H as <- <- <-.
  apply negb_false_iff in Av. unfold ps_peer_available, ps_peer_supports in Av.
  apply andb_true_iff in Av as [Av1 Av2]. apply andb_true_iff in Av1 as [I Sp].
  destruct (ps s) as [[l|]| |] eqn:E; try discriminate.
  hv_one [OSend p (PsRequest (amount mod 256))] (PsRequest (amount mod 256)). cbn. auto.
Qed.
Lemma hv_bf p : hvis p [3] (v_bf_hk p).
Proof.
  intros a s out a' s' out' H. unfold v_bf_hk in H. destruct (bfq a) as [|r rest]; [try discriminate; injection H as <- <- <-; hv_none|].
  destruct (bf_peer_available s) eqn:Av; try discriminate; injection H as <- <- <-; [|hv_none].
  unfold bf_peer_available in Av. apply andb_true_iff in Av as [I B]. destruct (bf s) eqn:E; try discriminate.
  hv_one [OSend p (BfRequestRange r)] (BfRequestRange r). cbn. auto.
Qed.
Lemma hv_cs p : hvis p [2] (v_cs_hk p).
Proof.
  intros a s out a' s' out' H. unfold v_cs_hk, emit in H. destruct (csi a) as [k|]; [|try discriminate; injection H as <- <- <-; hv_none].
  destruct (negb (cs_should_sync s)) eqn:Sh; [try discriminate; injection H as <- <- <-; hv_none|].
  destruct (cs_syncing s) eqn:Sy; try discriminate; injection H as <- <- <-; [hv_none|].
  apply negb_false_iff in Sh. unfold cs_should_sync in Sh. apply andb_true_iff in Sh as [I _].
  unfold cs_syncing in Sy. apply negb_false_iff in Sy. unfold cs_is_new in Sy.
  destruct (cs s) as [d| | | |] eqn:E; try discriminate. destruct d; try discriminate.
  hv_one [OSend p (CsFindIntersect k)] (CsFindIntersect k). cbn. auto.
Qed.
Lemma hv_ln p : hvis p [18] (v_ln_hk p).
Proof.
  intros a s out a' s' out' H. unfold v_ln_hk, emit in H. destruct (negb (leios_ready s)) eqn:Rd; [try discriminate; injection H as <- <- <-; hv_none|].
  apply negb_false_iff in Rd. unfold leios_ready in Rd. apply andb_true_iff in Rd as [I L].
  destruct (ln s) as [[n|]| |] eqn:E; try discriminate; injection H as <- <- <-; try hv_none.
  hv_one [OSend p LnRequestNext] LnRequestNext. cbn. auto.
Qed.
Lemma hv_lf p : hvis p [19] (v_lf_hk p).
Proof.
  intros a s out a' s' out' H. unfold v_lf_hk in H. destruct (negb (lf_peer_available s)) eqn:Av; [try discriminate; injection H as <- <- <-; hv_none|].
  apply negb_false_iff in Av. unfold lf_peer_available in Av. apply andb_true_iff in Av as [Av L]. apply andb_true_iff in Av as [I Le].
  destruct (lf s) as [[r|]| | |] eqn:E; try discriminate.
  destruct (lf_position p (lfq a)); [|try discriminate; injection H as <- <- <-; hv_none].
  destruct (remove_nth n (lfq a)) as [[[q [k x]] rest]|]; try discriminate; injection H as <- <- <-.
  unfold lf_msg. cbn [fst snd]. destruct (k =? 0).
  - hv_one [OSend p (LfBlockRequest x)] (LfBlockRequest x). cbn. auto.
  - hv_one [OSend p (LfBlockTxsRequest x)] (LfBlockTxsRequest x). cbn. auto.
Qed.

Lemma hv_hk_rest p : hvis p ([] ++ [8] ++ [10] ++ [3] ++ [2] ++ [18] ++ [19]) (hk_rest p).
Proof.
  unfold hk_rest.
  apply hvis_bind; [apply hv_conn | | intros x []].
  apply hvis_bind; [apply hv_ka | | cbn; intros x [<-|[]]; lia].
  apply hvis_bind; [apply hv_disc | | cbn; intros x [<-|[]]; lia].
  apply hvis_bind; [apply hv_bf | | cbn; intros x [<-|[]]; lia].
  apply hvis_bind; [apply hv_cs | | cbn; intros x [<-|[]]; lia].
  apply hvis_bind; [apply hv_ln | apply hv_lf | cbn; intros x [<-|[]]; lia].
Qed.

Lemma hv_cs_tagged p : hvis p [2] (v_cs_tagged p).
Proof.
  intros a s out a' s' out' H. unfold v_cs_tagged, emit in H. destruct (negb (cs_syncing s)) eqn:Sy; [try discriminate; injection H as <- <- <-; hv_none|].
  destruct (negb (cs_is_idle (cs s))) eqn:Id; [try discriminate; injection H as <- <- <-; hv_none|].
  destruct (csync s); try discriminate; injection H as <- <- <-; [|hv_none].
  apply negb_false_iff in Sy, Id. unfold cs_syncing in Sy. apply negb_true_iff in Sy.
  destruct (cs s) as [d| | | |] eqn:E; try discriminate.
  hv_one [OSend p CsRequestNext] CsRequestNext. cbn. exists d. split; [exact E|]. intros ->. discriminate.
Qed.
Lemma hv_hs_connected p : hvis p [0] (v_hs_connected p).
Proof.
  intros a s out a' s' out' H. unfold v_hs_connected, emit in H. destruct (hs s) eqn:E; try discriminate; injection H as <- <- <-; try hv_none.
  hv_one [OSend p (HsPropose [(13, 764824073)])] (HsPropose [(13, 764824073)]). cbn. exact E.
Qed.
