#!/bin/sh
# Build the framework from files on disk only (offline): the whole Coq
# development (full .vo build) and every harness binary against /repo.
set -e
cd "$(dirname "$0")"
export CARGO_NET_OFFLINE=true
python3 vp/setup.py
