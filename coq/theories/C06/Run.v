(* C06 correspondence: minicbor(-derive) encodes the value to exactly the bytes the schema
   codec produces, and the schema decoder reads them back. *)
From PV Require Import Lib.Base Cbor.Item Cbor.Dec C06.Model C06.MapStruct C06.Schemas.
Open Scope Z_scope.

Fixpoint value_eqb (a b : value) : bool :=
  let fix go (x y : list value) : bool :=
    match x, y with
    | [], [] => true
    | p :: x', q :: y' => value_eqb p q && go x' y'
    | _, _ => false
    end in
  match a, b with
  | VInt x, VInt y => x =? y
  | VBytes x, VBytes y => list_eqb Z.eqb x y
  | VBool x, VBool y => Bool.eqb x y
  | VNone, VNone => true
  | VSome x, VSome y => value_eqb x y
  | VList x, VList y => go x y
  | VRec x, VRec y => go x y
  | VVar i x, VVar j y => (i =? j) && go x y
  | _, _ => false
  end.

(* schema id, value, the bytes minicbor::to_vec produced, whether minicbor::decode of those
   bytes gave back an equal value *)
Inductive case : Type :=
| CSchema (sid : Z) (v : value) (bytes : list Z) (rt : bool)
| CMapSchema (mid : Z) (v : value) (bytes : list Z) (rt : bool).

Definition case_codec (c : case) : codec :=
  match c with CSchema sid _ _ _ => codec_of (schema_of sid) | CMapSchema mid _ _ _ => map_codec (mschema_of mid) end.
Definition case_parts (c : case) : value * list Z * bool :=
  match c with CSchema _ v b rt | CMapSchema _ v b rt => (v, b, rt) end.

Definition case_out (c : case) : list Z * option value :=
  let '(v, _, _) := case_parts c in
  let k := case_codec c in
  (c_enc k v, match c_dec k (c_enc k v) with DOk (x, _) => Some x | _ => None end).

Definition case_ok (c : case) : bool :=
  let '(v, bytes, rt) := case_parts c in
  let k := case_codec c in
  list_eqb Z.eqb (c_enc k v) bytes && rt &&
  match c_dec k bytes with DOk (x, r) => value_eqb x v && match r with [] => true | _ => false end | _ => false end.
