(* C40 correspondence: case = (staging operations, what the implementation did:
   Ok (decoded abstract tx) / Err class / Panic class). Set-like parts (scripts per
   language, datums, redeemers: HashMap iteration order) are compared up to permutation;
   when the redeemer loop fails, the implementation may stop at any failing redeemer. *)
From PV Require Export Lib.Base C40.Model.
Open Scope Z_scope.

(* Output::new(addr, lovelace).add_asset(..)*.set_*datum(..).set_inline_script(..) *)
Definition mk_out (addr : blob) (lov : Z) (calls : list (hash * bytes * Z)) (d : option datum) (s : option script) : output :=
  mkOutput addr lov (match assets_of_calls calls [] with Some m => m | None => [] end) d s.

Definition case : Type := (list sop * outcome atx)%type.

Definition opt_eqb {A} (eqb : A -> A -> bool) (a b : option A) : bool :=
  match a, b with Some x, Some y => eqb x y | None, None => true | _, _ => false end.
Definition inner_eqb (a b : inner) : bool := list_eqb (fun x y => bytes_eqb (fst x) (fst y) && (snd x =? snd y)) a b.
Definition amap_eqb (a b : amap) : bool := list_eqb (fun x y => (fst x =? fst y) && inner_eqb (snd x) (snd y)) a b.
Definition aout_eqb (a b : aout) : bool :=
  let '(ad1, l1, m1, d1, s1) := a in
  let '(ad2, l2, m2, d2, s2) := b in
  blob_eqb ad1 ad2 && (l1 =? l2) && amap_eqb m1 m2 &&
  opt_eqb (fun x y => Bool.eqb (fst x) (fst y) && blob_eqb (snd x) (snd y)) d1 d2 &&
  opt_eqb (fun x y => (fst x =? fst y) && blob_eqb (snd x) (snd y)) s1 s2.
Definition ardmr_eqb (a b : ardmr) : bool :=
  let '(t1, i1, d1, m1, s1) := a in
  let '(t2, i2, d2, m2, s2) := b in
  (t1 =? t2) && (i1 =? i2) && blob_eqb d1 d2 && (m1 =? m2) && (s1 =? s2).

(* equality up to order *)
Fixpoint remove_first {A} (eqb : A -> A -> bool) (x : A) (l : list A) : option (list A) :=
  match l with
  | [] => None
  | y :: r => if eqb x y then Some r else match remove_first eqb x r with Some r' => Some (y :: r') | None => None end
  end.
Fixpoint perm_eqb {A} (eqb : A -> A -> bool) (a b : list A) : bool :=
  match a with
  | [] => match b with [] => true | _ => false end
  | x :: r => match remove_first eqb x b with Some b' => perm_eqb eqb r b' | None => false end
  end.

Definition atx_eqb (a b : atx) : bool :=
  list_eqb input_eqb (t_inputs a) (t_inputs b) && list_eqb aout_eqb (t_outputs a) (t_outputs b) &&
  (t_fee a =? t_fee b) && opt_eqb Z.eqb (t_ttl a) (t_ttl b) && opt_eqb Z.eqb (t_vstart a) (t_vstart b) &&
  amap_eqb (t_mint a) (t_mint b) && Bool.eqb (t_sdh a) (t_sdh b) &&
  list_eqb input_eqb (t_collateral a) (t_collateral b) && list_eqb Z.eqb (t_signers a) (t_signers b) &&
  opt_eqb Z.eqb (t_network a) (t_network b) && opt_eqb aout_eqb (t_collret a) (t_collret b) &&
  list_eqb input_eqb (t_refs a) (t_refs b) &&
  perm_eqb blob_eqb (t_native a) (t_native b) && perm_eqb blob_eqb (t_pv1 a) (t_pv1 b) &&
  perm_eqb blob_eqb (t_pv2 a) (t_pv2 b) && perm_eqb blob_eqb (t_pv3 a) (t_pv3 b) &&
  perm_eqb blob_eqb (t_datums a) (t_datums b) && perm_eqb ardmr_eqb (t_rdmrs a) (t_rdmrs b) &&
  opt_eqb blob_eqb (t_aux a) (t_aux b).

Definition code_eqb (a b : outcome atx) : bool :=
  match a, b with
  | Err x, Err y => x =? y
  | Panic x, Panic y => x =? y
  | _, _ => false
  end.

(* which build is the code under test: false = current code (after the fix commits) *)
Definition PREFIX : bool := false.

Definition case_out (c : case) : outcome atx := pipeline PREFIX (fst c).

Definition case_ok (c : case) : bool :=
  let '(ops, o) := c in
  match run_ops ops empty_staging with
  | Ok st =>
    match build PREFIX st, o with
    | Ok t, Ok t' => atx_eqb t t'
    | m, _ =>
      match build_head PREFIX st with
      | Ok _ => (* the redeemer loop failed: any failing redeemer may be hit first *)
                existsb (code_eqb o) (rdmr_failures PREFIX st)
      | _ => code_eqb m o
      end
    end
  | Err e => code_eqb (Err e) o
  | Panic p => code_eqb (Panic p) o
  end.
