(* C23 — definitions joining the agents' model with the specification (no proofs):
   naming bridge (pallas-network -> Spec.v), what the specification lets a role send /
   receive, the product exploration (agent state, specification state) over every operation,
   and the boolean checks the theorems are reflected from. *)
From PV Require Import Lib.Base C24.Spec Generated.AgentTables C23.Model.
From Coq Require Import String.
Open Scope string_scope.

(* ----------------------------------------------------------- naming bridge *)
(* an implementation state class stands for one or more specification states
   (txmonitor keeps a single Busy for the three StBusy kinds) *)
Definition st_spec (proto s : string) : list string :=
  if String.eqb proto "txmonitor" && String.eqb s "Busy" then ["BusyNextTx"; "BusyHasTx"; "BusyGetSizes"]
  else [s].

(* an implementation message class stands for one or more specification messages; a class
   that is no message of the specification maps to [] *)
Definition msg_spec (proto m0 : string) : list string :=
  let m := base m0 in
  if String.eqb proto "handshake" then
    (if String.eqb m "Propose" then ["ProposeVersions"] else if String.eqb m "Accept" then ["AcceptVersion"] else [m])
  else if String.eqb proto "keepalive" then
    (if String.eqb m "ResponseKeepAlive" then ["KeepAliveResponse"] else [m])
  else if String.eqb proto "txsubmission" then
    (if String.eqb m "RequestTxIds(true)" then ["RequestTxIdsBlocking"]
     else if String.eqb m "RequestTxIds(false)" then ["RequestTxIdsNonBlocking"] else [m])
  else if String.eqb proto "txmonitor" then
    (* the wire message [1] is MsgAcquire in Idle and MsgAwaitAcquire in Acquired; the
       implementation's own `AwaitAcquire` (tag 4) is not a message of the specification *)
    (if String.eqb m "Acquire" then ["Acquire"; "AwaitAcquire"]
     else if String.eqb m "AwaitAcquire" then []
     else if String.eqb m "RequestHasTx" then ["HasTx"]
     else if String.eqb m "RequestNextTx" then ["NextTx"]
     else if String.eqb m "RequestSizeAndCapacity" then ["GetSizes"]
     else if String.eqb m "ResponseHasTx(true)" then ["ReplyHasTx"]
     else if String.eqb m "ResponseHasTx(false)" then ["ReplyHasTx"]
     else if String.eqb m "ResponseNextTx" then ["ReplyNextTx"]
     else if String.eqb m "ResponseSizeAndCapacity" then ["ReplyGetSizes"]
     else [m])
  else [m].

Definition a_proto (a : agent) : string := at_proto (ag_table a).
Definition a_role (a : agent) : string := at_role (ag_table a).
Definition other (r : agency) : agency := match r with Client => Server | Server => Client | Nobody => Nobody end.

(* ----------------------------------------- what the specification permits *)
Fixpoint first_some {A} (l : list (option A)) : option A :=
  match l with [] => None | Some x :: _ => Some x | None :: r => first_some r end.

(* in specification state q, may `sender` emit implementation message class m? -> next state *)
Definition spec_ev (sp : proto_spec) (proto : string) (sender : agency) (q m : string) : option string :=
  match spec_agency sp q with
  | Some r => if agency_eqb r sender then first_some (map (spec_next sp q) (msg_spec proto m)) else None
  | None => None
  end.

Definition is_some {A} (o : option A) : bool := match o with Some _ => true | None => false end.

(* table level: over the specification states an implementation state stands for *)
Definition spec_can (sp : proto_spec) (proto : string) (sender : agency) (s m : string) : bool :=
  existsb (fun q => is_some (spec_ev sp proto sender q m)) (st_spec proto s).

(* ------------------------------------------------------------ known cells *)
(* (protocol, role, implementation state, message class, kind) — the harness's ORACLE_FAIL keys
   `<protocol>/<role>/<state>/<message>/<kind>`; kinds: send, recv (acceptance tables),
   next (state after an accepted exchange), method (no operation performs a permitted transition) *)
Definition known23 : list (string * string * string * string * string) := [].

Definition key_eqb (a b : string * string * string * string * string) : bool :=
  let '(p1, r1, s1, m1, k1) := a in let '(p2, r2, s2, m2, k2) := b in
  String.eqb p1 p2 && String.eqb r1 r2 && String.eqb s1 s2 && String.eqb m1 m2 && String.eqb k1 k2.
Definition is_known (a : agent) (s m kind : string) : bool :=
  existsb (key_eqb (a_proto a, a_role a, s, base m, kind)) known23.

(* ----------------------------------------------------- table-level checks *)
Definition cell_send_ok (a : agent) (s m : string) : bool :=
  is_known a s m "send" ||
  Bool.eqb (can_send (ag_table a) s m) (spec_can (ag_spec a) (a_proto a) (ag_role a) s m).
Definition cell_recv_ok (a : agent) (s m : string) : bool :=
  is_known a s m "recv" ||
  Bool.eqb (can_recv (ag_table a) s m) (spec_can (ag_spec a) (a_proto a) (other (ag_role a)) s m).

Definition tables_ok (a : agent) : bool :=
  forallb (fun s => forallb (fun m => cell_send_ok a s m && cell_recv_ok a s m) (at_msgs (ag_table a)))
          (at_states (ag_table a)).

(* has_agency agrees with the specification wherever somebody has agency *)
Definition agency_ok (a : agent) : bool :=
  forallb (fun s => forallb (fun q =>
     match spec_agency (ag_spec a) q with
     | Some Nobody => true
     | Some r => Bool.eqb (has_agency (ag_table a) s) (agency_eqb r (ag_role a))
     | None => false
     end) (st_spec (a_proto a) s)) (at_states (ag_table a)).

Definition same_set_b (x y : list string) : bool :=
  forallb (fun e => mem e y) x && forallb (fun e => mem e x) y.

(* the tables speak about exactly the specification's states; every specification message is
   the image of a message class; the initial states agree *)
Definition covers_ok (a : agent) : bool :=
  let t := ag_table a in let sp := ag_spec a in
  same_set_b (flat_map (st_spec (a_proto a)) (at_states t)) (state_names sp) &&
  forallb (fun m => existsb (fun c => mem m (msg_spec (a_proto a) c)) (at_msgs t)) (sp_msgs sp) &&
  forallb (fun c => forallb (fun m => mem m (sp_msgs sp)) (msg_spec (a_proto a) c)) (at_msgs t) &&
  mem (sp_init sp) (st_spec (a_proto a) (at_init t)).

(* ------------------------------------------------------ operations alphabet *)
(* extra deliverable classes (data qualifiers) *)
Definition extra_deliverables (a : agent) : list string :=
  if String.eqb (a_proto a) "keepalive" && String.eqb (a_role a) "client" then ["ResponseKeepAlive!cookie"] else [].
Definition deliverables (a : agent) : list string := at_msgs (ag_table a) ++ extra_deliverables a.

Definition method_ops (a : agent) (m : method) : list op :=
  match m with
  | MSend n _ _ | MSendIf n _ _ _ => [Call n ""]
  | MRecv n _ _ | MSendRecv n _ _ _ => map (Call n) (deliverables a)
  end.
Definition alphabet (a : agent) : list op :=
  flat_map (method_ops a) (ag_methods a) ++
  (if ag_low_send a then map LowSend (at_msgs (ag_table a)) else []) ++
  (if ag_low_recv a then map LowRecv (deliverables a) else []).

Definition is_call (o : op) : bool := match o with Call _ _ => true | _ => false end.

(* --------------------------------------- product of agent and specification *)
Definition pair : Type := (string * string).        (* agent state class, specification state *)
Definition pair_eqb (x y : pair) : bool := String.eqb (fst x) (fst y) && String.eqb (snd x) (snd y).
Definition pair_mem (x : pair) (l : list pair) : bool := existsb (pair_eqb x) l.

(* the specification follows the wire events of a step *)
Fixpoint spec_events (a : agent) (q : string) (evs : list (bool * string)) : option string :=
  match evs with
  | [] => Some q
  | (sent, m) :: r =>
      match spec_ev (ag_spec a) (a_proto a) (if sent then ag_role a else other (ag_role a)) q m with
      | Some q' => spec_events a q' r
      | None => None
      end
  end.

Definition op_msg (a : agent) (o : op) : string :=
  match o with
  | LowSend m | LowRecv m => m
  | Call n d => match find_method n (ag_methods a) with
                | Some (MSend _ m _) | Some (MSendIf _ _ m _) => m
                | Some (MRecv _ _ _) => d
                | Some (MSendRecv _ _ _ _) => d
                | None => d
                end
  end.

(* one operation from a product state: the wire events must be permitted; an accepted call
   must end in a state that stands for the specification's; a low-level send/receive must be
   accepted exactly when the specification permits the message *)
Definition pair_step_ok (a : agent) (pq : pair) (o : op) : bool :=
  let '(s, q) := pq in
  let x := step a s o in
  match o with
  | Call _ _ =>
      match spec_events a q (events_of x) with
      | None => false
      | Some q' => if so_ok x then is_known a s (op_msg a o) "next" || mem q' (st_spec (a_proto a) (so_state x)) else true
      end
  | LowSend m =>
      Bool.eqb (so_ok x) (is_some (spec_ev (ag_spec a) (a_proto a) (ag_role a) q m)) || is_known a s m "send"
  | LowRecv m =>
      Bool.eqb (so_ok x) (is_some (spec_ev (ag_spec a) (a_proto a) (other (ag_role a)) q m)) || is_known a s m "recv"
  end.

(* successor of an accepted call (known-deviating steps are not followed) *)
Definition succ (a : agent) (pq : pair) (o : op) : option pair :=
  let '(s, q) := pq in
  let x := step a s o in
  if is_call o && so_ok x && negb (is_known a s (op_msg a o) "next") then
    match spec_events a q (events_of x) with
    | Some q' => Some (so_state x, q')
    | None => None
    end
  else None.

Fixpoint add_new (l : list pair) (acc : list pair) : list pair :=
  match l with
  | [] => acc
  | x :: r => if pair_mem x acc then add_new r acc else add_new r (acc ++ [x])
  end.

Definition expand (a : agent) (acc : list pair) : list pair :=
  add_new (flat_map (fun pq => flat_map (fun o => match succ a pq o with Some x => [x] | None => [] end)
                                         (alphabet a)) acc) acc.

Fixpoint iterate (a : agent) (n : nat) (acc : list pair) : list pair :=
  match n with O => acc | S k => iterate a k (expand a acc) end.

Definition init_pair (a : agent) : pair := (at_init (ag_table a), sp_init (ag_spec a)).
Definition reach (a : agent) : list pair := iterate a 12 [init_pair a].

Definition closed (a : agent) (l : list pair) : bool :=
  forallb (fun pq => forallb (fun o => match succ a pq o with Some x => pair_mem x l | None => true end)
                             (alphabet a)) l.

Definition steps_ok (a : agent) : bool :=
  forallb (fun pq => forallb (pair_step_ok a pq) (alphabet a)) (reach a).

(* completeness: at every reached product state every transition the specification offers is
   performed by some accepted operation *)
Definition carries (a : agent) (x : step_out) (m : string) : bool :=
  existsb (fun e => mem m (msg_spec (a_proto a) (snd e))) (events_of x).
Definition complete_at (a : agent) (pq : pair) : bool :=
  let '(s, q) := pq in
  forallb (fun tr => let '(f, m, _) := tr in
     negb (String.eqb f q) ||
     existsb (fun c => mem m (msg_spec (a_proto a) c) && is_known a s c "method") (at_msgs (ag_table a)) ||
     existsb (fun o => let x := step a s o in so_ok x && carries a x m) (alphabet a))
  (sp_trans (ag_spec a)).
Definition complete_ok (a : agent) : bool := forallb (complete_at a) (reach a).

(* every specification state, except the transient ones, is reached *)
Definition transient (proto q : string) : bool :=
  String.eqb proto "txmonitor" && (String.eqb q "BusyNextTx" || String.eqb q "BusyHasTx" || String.eqb q "BusyGetSizes" || String.eqb q "Acquiring").
(* these clients have no public method that terminates the protocol (MsgDone can only be
   put on the wire with the low-level send_message, which leaves state() alone) *)
Definition no_terminating_method (proto role q : string) : bool :=
  String.eqb q "Done" && String.eqb role "client" && (String.eqb proto "keepalive" || String.eqb proto "txmonitor").
Definition reaches_all (a : agent) : bool :=
  forallb (fun q => transient (a_proto a) q || no_terminating_method (a_proto a) (a_role a) q ||
                    existsb (fun pq => String.eqb (snd pq) q) (reach a))
          (state_names (ag_spec a)).

Definition agent_ok (a : agent) : bool :=
  tables_ok a && agency_ok a && covers_ok a && closed a (reach a) && steps_ok a && complete_ok a && reaches_all a.

(* operations of the alphabet only; no step on a known "next" deviation *)
Fixpoint avoids_known23 (a : agent) (s : string) (ops : list op) : Prop :=
  match ops with
  | [] => True
  | o :: r => is_known a s (op_msg a o) "next" = false /\
              let x := step a s o in if so_ok x then avoids_known23 a (so_state x) r else True
  end.
