//! Shared CBOR test-data machinery for the cbor-core properties (C03, C04, ...).
//! Include from a bin with `#[path = "../cborgen.rs"] mod cborgen;`.
//!
//! * `Item` mirrors `PV.Cbor.Item.item` (head widths as on the wire, definite /
//!   indefinite forms, major 7 as raw bits); `encode` writes exactly that form;
//!   `to_coq` prints the Coq term.
//! * `gen_item` draws well-formed items including non-minimal heads.
//! * `parse_item` is the reference parser: it walks the input with minicbor's
//!   head-level `Decoder` calls (datatype/u64/int/bytes/str/array/map/tag/
//!   simple/bool/null/undefined/f16/f32/f64) — the calls pallas decoders make —
//!   and rebuilds the `Item` including the widths.
#![allow(dead_code)]
use pallas_codec::minicbor::{data::Type, decode::Error, Decoder};
use verif_harness::Rng;

#[derive(Clone, Copy, Debug, PartialEq, Eq)]
pub enum W { W0, W8, W16, W32, W64 }

pub const ALL_W: [W; 5] = [W::W0, W::W8, W::W16, W::W32, W::W64];

impl W {
    pub fn name(self) -> &'static str {
        match self { W::W0 => "W0", W::W8 => "W8", W::W16 => "W16", W::W32 => "W32", W::W64 => "W64" }
    }
    /// exclusive bound of the argument
    pub fn bound(self) -> u128 {
        match self { W::W0 => 24, W::W8 => 1 << 8, W::W16 => 1 << 16, W::W32 => 1 << 32, W::W64 => 1 << 64 }
    }
    pub fn fits(self, n: u64) -> bool { (n as u128) < self.bound() }
    pub fn min_for(n: u64) -> W { *ALL_W.iter().find(|w| w.fits(n)).unwrap() }
    pub fn of_info(info: u8) -> Option<W> {
        match info { 0..=23 => Some(W::W0), 24 => Some(W::W8), 25 => Some(W::W16), 26 => Some(W::W32), 27 => Some(W::W64), _ => None }
    }
    /// a random width able to hold n (minimal with probability 1/2)
    pub fn pick(rng: &mut Rng, n: u64) -> W {
        let ok: Vec<W> = ALL_W.iter().copied().filter(|w| w.fits(n)).collect();
        if rng.bool() { ok[0] } else { *rng.pick(&ok) }
    }
}

/// initial byte + argument bytes, as given (caller guarantees `w.fits(n)`)
pub fn head(major: u8, w: W, n: u64) -> Vec<u8> {
    let m = major << 5;
    match w {
        W::W0 => vec![m | (n as u8)],
        W::W8 => vec![m | 24, n as u8],
        W::W16 => { let mut v = vec![m | 25]; v.extend_from_slice(&(n as u16).to_be_bytes()); v }
        W::W32 => { let mut v = vec![m | 26]; v.extend_from_slice(&(n as u32).to_be_bytes()); v }
        W::W64 => { let mut v = vec![m | 27]; v.extend_from_slice(&n.to_be_bytes()); v }
    }
}

#[derive(Clone, Debug, PartialEq)]
pub enum Item {
    UInt(W, u64),
    NInt(W, u64),
    Bytes(W, Vec<u8>),
    BytesIndef(Vec<(W, Vec<u8>)>),
    Text(W, Vec<u8>),
    TextIndef(Vec<(W, Vec<u8>)>),
    Array(W, Vec<Item>),
    ArrayIndef(Vec<Item>),
    Map(W, Vec<(Item, Item)>),
    MapIndef(Vec<(Item, Item)>),
    Tag(W, u64, Box<Item>),
    Simple(W, u64),
}

pub fn encode_into(i: &Item, out: &mut Vec<u8>) {
    match i {
        Item::UInt(w, n) => out.extend(head(0, *w, *n)),
        Item::NInt(w, n) => out.extend(head(1, *w, *n)),
        Item::Bytes(w, b) => { out.extend(head(2, *w, b.len() as u64)); out.extend_from_slice(b) }
        Item::BytesIndef(cs) => {
            out.push(0x5f);
            for (w, b) in cs { out.extend(head(2, *w, b.len() as u64)); out.extend_from_slice(b) }
            out.push(0xff)
        }
        Item::Text(w, b) => { out.extend(head(3, *w, b.len() as u64)); out.extend_from_slice(b) }
        Item::TextIndef(cs) => {
            out.push(0x7f);
            for (w, b) in cs { out.extend(head(3, *w, b.len() as u64)); out.extend_from_slice(b) }
            out.push(0xff)
        }
        Item::Array(w, xs) => { out.extend(head(4, *w, xs.len() as u64)); for x in xs { encode_into(x, out) } }
        Item::ArrayIndef(xs) => { out.push(0x9f); for x in xs { encode_into(x, out) } out.push(0xff) }
        Item::Map(w, kvs) => {
            out.extend(head(5, *w, kvs.len() as u64));
            for (k, v) in kvs { encode_into(k, out); encode_into(v, out) }
        }
        Item::MapIndef(kvs) => {
            out.push(0xbf);
            for (k, v) in kvs { encode_into(k, out); encode_into(v, out) }
            out.push(0xff)
        }
        Item::Tag(w, t, x) => { out.extend(head(6, *w, *t)); encode_into(x, out) }
        Item::Simple(w, n) => out.extend(head(7, *w, *n)),
    }
}
pub fn encode(i: &Item) -> Vec<u8> { let mut v = Vec::new(); encode_into(i, &mut v); v }

fn coq_bytes(b: &[u8]) -> String {
    let mut s = String::from("[");
    for (i, x) in b.iter().enumerate() { if i > 0 { s.push(';') } s.push_str(&x.to_string()) }
    s.push(']');
    s
}
fn coq_chunks(cs: &[(W, Vec<u8>)]) -> String {
    let v: Vec<String> = cs.iter().map(|(w, b)| format!("({},{})", w.name(), coq_bytes(b))).collect();
    format!("[{}]", v.join(";"))
}
pub fn to_coq(i: &Item) -> String {
    match i {
        Item::UInt(w, n) => format!("(UInt {} {})", w.name(), n),
        Item::NInt(w, n) => format!("(NInt {} {})", w.name(), n),
        Item::Bytes(w, b) => format!("(Bytes {} {})", w.name(), coq_bytes(b)),
        Item::BytesIndef(cs) => format!("(BytesIndef {})", coq_chunks(cs)),
        Item::Text(w, b) => format!("(Text {} {})", w.name(), coq_bytes(b)),
        Item::TextIndef(cs) => format!("(TextIndef {})", coq_chunks(cs)),
        Item::Array(w, xs) => format!("(Array {} [{}])", w.name(), xs.iter().map(to_coq).collect::<Vec<_>>().join(";")),
        Item::ArrayIndef(xs) => format!("(ArrayIndef [{}])", xs.iter().map(to_coq).collect::<Vec<_>>().join(";")),
        Item::Map(w, kvs) => format!("(Map {} [{}])", w.name(),
            kvs.iter().map(|(k, v)| format!("({},{})", to_coq(k), to_coq(v))).collect::<Vec<_>>().join(";")),
        Item::MapIndef(kvs) => format!("(MapIndef [{}])",
            kvs.iter().map(|(k, v)| format!("({},{})", to_coq(k), to_coq(v))).collect::<Vec<_>>().join(";")),
        Item::Tag(w, t, x) => format!("(Tag {} {} {})", w.name(), t, to_coq(x)),
        Item::Simple(w, n) => format!("(Simple {} {})", w.name(), n),
    }
}

/// all heads minimal?
pub fn is_minimal(i: &Item) -> bool {
    let m = |w: &W, n: u64| *w == W::min_for(n);
    match i {
        Item::UInt(w, n) | Item::NInt(w, n) => m(w, *n),
        Item::Bytes(w, b) | Item::Text(w, b) => m(w, b.len() as u64),
        Item::BytesIndef(cs) | Item::TextIndef(cs) => cs.iter().all(|(w, b)| m(w, b.len() as u64)),
        Item::Array(w, xs) => m(w, xs.len() as u64) && xs.iter().all(is_minimal),
        Item::ArrayIndef(xs) => xs.iter().all(is_minimal),
        Item::Map(w, kvs) => m(w, kvs.len() as u64) && kvs.iter().all(|(k, v)| is_minimal(k) && is_minimal(v)),
        Item::MapIndef(kvs) => kvs.iter().all(|(k, v)| is_minimal(k) && is_minimal(v)),
        Item::Tag(w, t, x) => m(w, *t) && is_minimal(x),
        Item::Simple(w, n) => match w { W::W0 | W::W8 => m(w, *n), _ => true },
    }
}

fn gen_utf8(rng: &mut Rng, max_chars: u64) -> Vec<u8> {
    let mut s = String::new();
    for _ in 0..rng.below(max_chars + 1) {
        let c = match rng.below(6) {
            0 | 1 => rng.range(0x20, 0x7e) as u32,
            2 => rng.range(0x80, 0x7ff) as u32,
            3 => *rng.pick(&[0x800u32, 0xd7ff, 0xe000, 0xffff, 0x20ac]),
            4 => *rng.pick(&[0x10000u32, 0x10ffff, 0x1f600]),
            _ => rng.range(0, 0x7f) as u32,
        };
        if let Some(ch) = char::from_u32(c) { s.push(ch) }
    }
    s.into_bytes()
}

fn gen_arg(rng: &mut Rng) -> (W, u64) {
    let n = match rng.below(4) { 0 => rng.below(24), 1 => rng.edge_u64(), 2 => *rng.pick(&[23u64, 24, 255, 256, 65535, 65536, 0xffff_ffff, 0x1_0000_0000, u64::MAX]), _ => rng.below(1000) };
    (W::pick(rng, n), n)
}

fn gen_chunks(rng: &mut Rng, text: bool) -> Vec<(W, Vec<u8>)> {
    (0..rng.below(4)).map(|_| {
        let b = if text { gen_utf8(rng, 5) } else { let l = rng.below(6) as usize; rng.bytes(l) };
        (W::pick(rng, b.len() as u64), b)
    }).collect()
}

/// a well-formed item (in the sense of PV.Cbor.Item.wf_item)
pub fn gen_item(rng: &mut Rng, depth: u32) -> Item {
    let leaf = depth == 0 || rng.chance(2, 5);
    if leaf {
        match rng.below(9) {
            0 | 1 => { let (w, n) = gen_arg(rng); Item::UInt(w, n) }
            2 => { let (w, n) = gen_arg(rng); Item::NInt(w, n) }
            3 => { let l = *rng.pick(&[0usize, 1, 5, 23, 24, 28, 32, 60]); let b = rng.bytes(l); Item::Bytes(W::pick(rng, l as u64), b) }
            4 => Item::BytesIndef(gen_chunks(rng, false)),
            5 => { let b = gen_utf8(rng, 12); Item::Text(W::pick(rng, b.len() as u64), b) }
            6 => Item::TextIndef(gen_chunks(rng, true)),
            7 => match rng.below(4) {
                0 => Item::Simple(W::W0, rng.below(24)),
                1 => Item::Simple(W::W8, rng.below(256)),
                2 => Item::Simple(W::W16, rng.below(1 << 16)),
                _ => if rng.bool() { Item::Simple(W::W32, rng.below(1 << 32)) } else { Item::Simple(W::W64, rng.next()) },
            },
            _ => Item::Simple(W::W0, *rng.pick(&[20u64, 21, 22, 23])),
        }
    } else {
        match rng.below(5) {
            0 => { let n = rng.below(4); let xs: Vec<Item> = (0..n).map(|_| gen_item(rng, depth - 1)).collect(); Item::Array(W::pick(rng, n), xs) }
            1 => { let n = rng.below(4); Item::ArrayIndef((0..n).map(|_| gen_item(rng, depth - 1)).collect()) }
            2 => { let n = rng.below(3); let kvs: Vec<(Item, Item)> = (0..n).map(|_| (gen_item(rng, depth - 1), gen_item(rng, depth - 1))).collect(); Item::Map(W::pick(rng, n), kvs) }
            3 => { let n = rng.below(3); Item::MapIndef((0..n).map(|_| (gen_item(rng, depth - 1), gen_item(rng, depth - 1))).collect()) }
            _ => { let t = *rng.pick(&[0u64, 2, 24, 30, 121, 258, 1280, 65536, u64::MAX]); Item::Tag(W::pick(rng, t), t, Box::new(gen_item(rng, depth - 1))) }
        }
    }
}

/// corrupt a byte string: flip, truncate, splice, length-field damage
pub fn mutate(rng: &mut Rng, b: &[u8]) -> Vec<u8> {
    let mut v = b.to_vec();
    match rng.below(6) {
        0 => { if !v.is_empty() { let k = rng.below(v.len() as u64) as usize; v.truncate(k) } }
        1 => { if !v.is_empty() { let k = rng.below(v.len() as u64) as usize; v[k] ^= 1 << rng.below(8) } }
        2 => { if !v.is_empty() { let k = rng.below(v.len() as u64) as usize; v[k] = *rng.pick(&[0xffu8, 0x1f, 0x5f, 0x7f, 0x9f, 0xbf, 0x1c, 0x3b, 0x38, 0xf8, 0xdf, 0xfc, 0x00]) } }
        3 => { let k = rng.below(v.len() as u64 + 1) as usize; v.insert(k, rng.byte()) }
        4 => { if !v.is_empty() { let k = rng.below(v.len() as u64) as usize; v.remove(k); } }
        _ => { v.push(rng.byte()) }
    }
    v
}

#[derive(Clone, Copy, Debug, PartialEq, Eq)]
pub enum PErr { Eoi, Err }
pub fn class(e: &Error) -> PErr { if e.is_end_of_input() { PErr::Eoi } else { PErr::Err } }

fn width_at(d: &Decoder) -> Result<W, PErr> {
    let b = *d.input().get(d.position()).ok_or(PErr::Eoi)?;
    W::of_info(b & 0x1f).ok_or(PErr::Err)
}

/// Reference parser on top of minicbor's head-level API.
pub fn parse_item(d: &mut Decoder) -> Result<Item, PErr> {
    let ty = d.datatype().map_err(|e| class(&e))?;
    let b0 = d.input()[d.position()];
    match ty {
        Type::U8 | Type::U16 | Type::U32 | Type::U64 => {
            let w = width_at(d)?;
            Ok(Item::UInt(w, d.u64().map_err(|e| class(&e))?))
        }
        Type::I8 | Type::I16 | Type::I32 | Type::I64 | Type::Int => {
            let w = width_at(d)?;
            let v = d.int().map_err(|e| class(&e))?;
            let n = (-1 - i128::from(v)) as u64;
            Ok(Item::NInt(w, n))
        }
        Type::Bytes => { let w = width_at(d)?; Ok(Item::Bytes(w, d.bytes().map_err(|e| class(&e))?.to_vec())) }
        Type::String => { let w = width_at(d)?; Ok(Item::Text(w, d.str().map_err(|e| class(&e))?.as_bytes().to_vec())) }
        Type::BytesIndef | Type::StringIndef => {
            d.set_position(d.position() + 1);
            let mut cs = Vec::new();
            loop {
                if d.datatype().map_err(|e| class(&e))? == Type::Break { d.set_position(d.position() + 1); break }
                let w = width_at(d)?;
                let c = if ty == Type::BytesIndef { d.bytes().map_err(|e| class(&e))?.to_vec() }
                        else { d.str().map_err(|e| class(&e))?.as_bytes().to_vec() };
                cs.push((w, c));
            }
            Ok(if ty == Type::BytesIndef { Item::BytesIndef(cs) } else { Item::TextIndef(cs) })
        }
        Type::Array => {
            let w = width_at(d)?;
            let n = d.array().map_err(|e| class(&e))?.ok_or(PErr::Err)?;
            let mut xs = Vec::new();
            for _ in 0..n { xs.push(parse_item(d)?) }
            Ok(Item::Array(w, xs))
        }
        Type::ArrayIndef => {
            if d.array().map_err(|e| class(&e))?.is_some() { return Err(PErr::Err) }
            let mut xs = Vec::new();
            loop {
                if d.datatype().map_err(|e| class(&e))? == Type::Break { d.set_position(d.position() + 1); break }
                xs.push(parse_item(d)?)
            }
            Ok(Item::ArrayIndef(xs))
        }
        Type::Map => {
            let w = width_at(d)?;
            let n = d.map().map_err(|e| class(&e))?.ok_or(PErr::Err)?;
            let mut kvs = Vec::new();
            for _ in 0..n { let k = parse_item(d)?; let v = parse_item(d)?; kvs.push((k, v)) }
            Ok(Item::Map(w, kvs))
        }
        Type::MapIndef => {
            if d.map().map_err(|e| class(&e))?.is_some() { return Err(PErr::Err) }
            let mut kvs = Vec::new();
            loop {
                if d.datatype().map_err(|e| class(&e))? == Type::Break { d.set_position(d.position() + 1); break }
                let k = parse_item(d)?; let v = parse_item(d)?; kvs.push((k, v))
            }
            Ok(Item::MapIndef(kvs))
        }
        Type::Tag => {
            let w = width_at(d)?;
            let t = d.tag().map_err(|e| class(&e))?.as_u64();
            Ok(Item::Tag(w, t, Box::new(parse_item(d)?)))
        }
        Type::Bool => { let v = d.bool().map_err(|e| class(&e))?; Ok(Item::Simple(W::W0, if v { 21 } else { 20 })) }
        Type::Null => { d.null().map_err(|e| class(&e))?; Ok(Item::Simple(W::W0, 22)) }
        Type::Undefined => { d.undefined().map_err(|e| class(&e))?; Ok(Item::Simple(W::W0, 23)) }
        Type::Simple => {
            let v = d.simple().map_err(|e| class(&e))? as u64;
            Ok(Item::Simple(if b0 == 0xf8 { W::W8 } else { W::W0 }, v))
        }
        Type::F16 => {
            let p = d.position();
            d.f16().map_err(|e| class(&e))?;
            let raw = &d.input()[p + 1..p + 3];
            Ok(Item::Simple(W::W16, u16::from_be_bytes([raw[0], raw[1]]) as u64))
        }
        Type::F32 => {
            let p = d.position();
            d.f32().map_err(|e| class(&e))?;
            let raw = &d.input()[p + 1..p + 5];
            Ok(Item::Simple(W::W32, u32::from_be_bytes([raw[0], raw[1], raw[2], raw[3]]) as u64))
        }
        Type::F64 => {
            let p = d.position();
            d.f64().map_err(|e| class(&e))?;
            let mut a = [0u8; 8];
            a.copy_from_slice(&d.input()[p + 1..p + 9]);
            Ok(Item::Simple(W::W64, u64::from_be_bytes(a)))
        }
        Type::Break | Type::Unknown(_) => Err(PErr::Err),
    }
}
