(* C20 — property theorems only. Statements are pinned by props/C20.json. *)
From PV Require Import Lib.Base C20.Model C20.Proofs.
Open Scope Z_scope.

Theorem header_roundtrip : forall h, header_wf h -> header_decode (header_encode h) = Ok h.
Proof. exact header_roundtrip_proof. Qed.

Theorem header_encode_wf : forall h, header_wf h ->
  length (header_encode h) = 8%nat /\ bytes_wf (header_encode h).
Proof. intros h H. split; [apply header_encode_length|now apply header_encode_bytes]. Qed.

(* framing is self-delimiting: the demuxer cuts the byte stream written by the
   muxer back into exactly the segments, for any list of segments of 0..65535 bytes *)
Theorem segments_parse : forall w, Forall segment_wf w -> parse (mux_bytes w) = (map untimed w, Ok tt).
Proof. exact segments_parse_proof. Qed.

(* exactly once, in order: for ANY interleaving of the per-channel chunk
   sequences (and any timestamps) the agent subscribed as (r, p) on the receiving
   side gets precisely what the opposite-role agent on p enqueued *)
Theorem mux_per_channel_fifo : forall (sent : Z -> list (list Z)) (wire : list segment),
  Forall segment_wf wire -> Interleaving sent (map untimed wire) ->
  forall r p, received r p wire = sent (send_id (peer r) p).
Proof. exact received_fifo. Qed.

(* the routing core of the above, on the parsed wire sequence *)
Theorem interleaving_per_channel : forall sent w,
  Interleaving sent w -> forall id, delivered_to id w = sent id.
Proof. exact delivered_interleaving. Qed.

(* chunks never leak to another protocol or role *)
Theorem no_cross_delivery : forall sent wire r p r' p',
  Forall segment_wf wire -> Interleaving sent (map untimed wire) ->
  0 <= p < 32768 -> 0 <= p' < 32768 -> (r, p) <> (r', p') ->
  recv_id r p <> recv_id r' p' /\
  received r p wire = sent (recv_id r p) /\ received r' p' wire = sent (recv_id r' p').
Proof. exact no_cross_delivery_proof. Qed.

Theorem queue_contents_sent_with_its_id : forall id x w, In x (delivered_to id w) -> In (id, x) w.
Proof. exact delivered_in. Qed.

Theorem demux_queues_only_for_subscribers : forall subs w id q,
  In (id, q) (demux subs w) -> In id subs /\ q = delivered_to id w.
Proof. exact demux_only_subscribed. Qed.

Theorem direction_bit_involutive : forall p, flip (flip p) = p.
Proof. exact flip_involutive. Qed.

Theorem direction_bit_flips : forall p, u16 p ->
  u16 (flip p) /\ flip p <> p /\ flip p = (if p <? 32768 then p + 32768 else p - 32768).
Proof. intros p H. split; [now apply flip_u16|]. split; [now apply flip_neq|now apply flip_spec]. Qed.

Theorem client_server_ids_match : forall r p, recv_id r p = send_id (peer r) p.
Proof. exact recv_id_peer. Qed.

(* the premise of mux_per_channel_fifo is inhabited for every finite family of channels *)
Theorem interleaving_exists : forall ids sent,
  NoDup ids -> (forall id, ~ In id ids -> sent id = []) -> Interleaving sent (sequential ids sent).
Proof. exact sequential_interleaving. Qed.

(* non-vacuity: two agents (chainsync client id 2, blockfetch server id 0x8003), chunks
   interleaved, one empty chunk, checked through bytes *)
Example mux_example :
  let wire : list segment := [(7, 2, [1; 2]); (9, 32771, []); (11, 2, [3]); (4294967295, 32771, [255; 0])] in
  Forall segment_wf wire /\
  received Server 2 wire = [[1; 2]; [3]] /\ received Client 3 wire = [[]; [255; 0]] /\
  received Client 2 wire = [] /\
  firstn 10 (mux_bytes wire) = [0; 0; 0; 7; 0; 2; 0; 2; 1; 2].
Proof. cbv zeta. split; [repeat constructor; unfold u32, u16, len; cbn; lia|]. repeat split; vm_compute; reflexivity. Qed.

(* outside the property's domain (chunks <= 65535 bytes): payload.len() as u16
   wraps, so a 65536-byte chunk is framed with length 0 and the receiver reads
   its bytes as 8193 segments *)
Example oversize_chunk_misframed :
  len (fst (parse (mux_bytes [(0, 2, repeat 0 (Z.to_nat 65536))]))) = 8193.
Proof. vm_compute. reflexivity. Qed.
