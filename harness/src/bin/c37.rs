//! C37: accepted script transactions respect the execution-unit budget.
//!
//! Two tie levels.
//!  * per rule: `check_tx_ex_units` of Alonzo/Babbage/Conway (through the
//!    cfg(pallas_verif) hook) on freely generated witness sets (scripts present
//!    or not, redeemers absent / list / map, budgets around the limits and
//!    around 2^64) — verdict class compared with the Gallina model; oracle:
//!    the rule answering Ok implies sum <= max in unbounded arithmetic.
//!  * end to end: `validate_tx` on the Plutus fixtures with the protocol maximum
//!    moved to sum-1 / sum / sum+1 and with the redeemers' budgets rewritten
//!    (script-integrity hash recomputed, transaction re-signed with harness
//!    keys); oracle: accepted implies sum <= max, sums taken by the harness's
//!    own CBOR walk of the final transaction bytes.
//!
//! case := (kind, era, has_plutus, redeemers, max_mem, max_steps, observed)
mod val_common;
use pallas_codec::minicbor::{self, data::Type, Decoder, Encoder};
use pallas_primitives::{alonzo, babbage, conway};
use pallas_validate::phase1::validate_tx;
use pallas_validate::utils::{MultiEraProtocolParameters as PP, UTxOs, ValidationError};
use val_common::mutate::*;
use val_common::*;
use verif_harness::*;

const U64MAX: u128 = u64::MAX as u128;

#[derive(Clone, Debug)]
struct Rdm {
    tag: u8,
    index: u32,
    data: Vec<u8>, // raw plutus data
    mem: u64,
    steps: u64,
}

fn enc_units(mem: u64, steps: u64) -> Vec<u8> {
    let mut v = vec![0x82];
    v.extend(enc_u64(mem));
    v.extend(enc_u64(steps));
    v
}

/// redeemers value (witness-set key 5): list or map encoding
fn encode_redeemers(rs: &[Rdm], map_enc: bool) -> Vec<u8> {
    let mut out = vec![];
    if map_enc {
        let mut h = vec![];
        Encoder::new(&mut h).map(rs.len() as u64).unwrap();
        out.extend(h);
        for r in rs {
            out.push(0x82);
            out.extend(enc_u64(r.tag as u64));
            out.extend(enc_u64(r.index as u64));
            out.push(0x82);
            out.extend(&r.data);
            out.extend(enc_units(r.mem, r.steps));
        }
    } else {
        let mut h = vec![];
        Encoder::new(&mut h).array(rs.len() as u64).unwrap();
        out.extend(h);
        for r in rs {
            out.push(0x84);
            out.extend(enc_u64(r.tag as u64));
            out.extend(enc_u64(r.index as u64));
            out.extend(&r.data);
            out.extend(enc_units(r.mem, r.steps));
        }
    }
    out
}

/// The harness's own walk of a redeemers value: (is_map, redeemers).
fn parse_redeemers(b: &[u8]) -> (bool, Vec<Rdm>) {
    let mut d = Decoder::new(b);
    let mut out = vec![];
    let raw = |d: &mut Decoder, b: &[u8]| -> Vec<u8> { let s = d.position(); d.skip().unwrap(); b[s..d.position()].to_vec() };
    match d.datatype().unwrap() {
        Type::Map | Type::MapIndef => {
            let n = d.map().unwrap();
            let mut i = 0;
            loop {
                match n { Some(n) => if i >= n { break }, None => if d.datatype().unwrap() == Type::Break { break } }
                d.array().unwrap();
                let tag = d.u8().unwrap();
                let index = d.u32().unwrap();
                d.array().unwrap();
                let data = raw(&mut d, b);
                d.array().unwrap();
                let mem = d.u64().unwrap();
                let steps = d.u64().unwrap();
                out.push(Rdm { tag, index, data, mem, steps });
                i += 1;
            }
            (true, out)
        }
        _ => {
            let n = d.array().unwrap();
            let mut i = 0;
            loop {
                match n { Some(n) => if i >= n { break }, None => if d.datatype().unwrap() == Type::Break { break } }
                d.array().unwrap();
                let tag = d.u8().unwrap();
                let index = d.u32().unwrap();
                let data = raw(&mut d, b);
                d.array().unwrap();
                let mem = d.u64().unwrap();
                let steps = d.u64().unwrap();
                out.push(Rdm { tag, index, data, mem, steps });
                i += 1;
            }
            (false, out)
        }
    }
}

fn sums(rs: &[Rdm]) -> (u128, u128) {
    (rs.iter().map(|r| r.mem as u128).sum(), rs.iter().map(|r| r.steps as u128).sum())
}

/// witness set carries Plutus scripts (keys 3, 6, 7 non-empty) — harness's own reading
fn wits_have_plutus(w: &RawMap) -> bool {
    [3u64, 6, 7].iter().any(|k| w.get(*k).map(|b| !parse_array(b).1.is_empty()).unwrap_or(false))
}

fn coq_rdm(enc_map: bool, rs: &[Rdm]) -> String {
    format!("(Some ({}, {}))", if enc_map { 1 } else { 0 }, coq_list(rs, |r| format!("({},{})", r.mem, r.steps)))
}

fn era_code(e: EraK) -> i64 { match e { EraK::Alonzo => 0, EraK::Babbage => 1, EraK::Conway => 2, _ => -9 } }
fn era_name(e: EraK) -> &'static str { match e { EraK::Alonzo => "alonzo", EraK::Babbage => "babbage", EraK::Conway => "conway", EraK::ShelleyMA => "shelley_ma", EraK::Byron => "byron" } }

fn class_of(r: &Out<()>) -> i64 {
    match r {
        Out::Ok(_) => 0,
        Out::Err(e) => if e.contains("TxExUnitsExceeded") { 1 } else if e.contains("RedeemerMissing") { 2 } else { 9 },
        Out::Panic(_) => -1,
    }
}

fn with_max(pp: &PP, mem: u64, steps: u64, zero_fee: bool) -> PP {
    let mut p = pp.clone();
    match &mut p {
        PP::Alonzo(a) => { a.max_tx_ex_units.mem = mem; a.max_tx_ex_units.steps = steps; if zero_fee { a.minfee_a = 0; a.minfee_b = 0; } }
        PP::Babbage(a) => { a.max_tx_ex_units.mem = mem; a.max_tx_ex_units.steps = steps; if zero_fee { a.minfee_a = 0; a.minfee_b = 0; } }
        PP::Conway(a) => { a.max_tx_ex_units.mem = mem; a.max_tx_ex_units.steps = steps; if zero_fee { a.minfee_a = 0; a.minfee_b = 0; } }
        _ => {}
    }
    p
}
fn max_of(pp: &PP) -> (u64, u64) {
    match pp {
        PP::Alonzo(a) => (a.max_tx_ex_units.mem, a.max_tx_ex_units.steps),
        PP::Babbage(a) => (a.max_tx_ex_units.mem, a.max_tx_ex_units.steps),
        PP::Conway(a) => (a.max_tx_ex_units.mem, a.max_tx_ex_units.steps),
        _ => (0, 0),
    }
}

/// call the era's private `check_tx_ex_units` on tx bytes
fn rule(era: EraK, tx: &[u8], pp: &PP) -> Option<Out<()>> {
    use pallas_validate::phase1 as p1;
    let e = |r: Result<(), ValidationError>| r.map_err(|e| format!("{e:?}"));
    match (era, pp) {
        (EraK::Alonzo, PP::Alonzo(pp)) => {
            let mtx: alonzo::Tx = minicbor::decode(tx).ok()?;
            Some(guard(|| e(p1::alonzo::verif::check_tx_ex_units(&mtx, pp))))
        }
        (EraK::Babbage, PP::Babbage(pp)) => {
            let mtx: babbage::Tx = minicbor::decode(tx).ok()?;
            Some(guard(|| e(p1::babbage::verif::check_tx_ex_units(&mtx, pp))))
        }
        (EraK::Conway, PP::Conway(pp)) => {
            let mtx: conway::Tx = minicbor::decode(tx).ok()?;
            Some(guard(|| e(p1::conway::verif::check_tx_ex_units(&mtx, pp))))
        }
        _ => None,
    }
}

/// budgets: n values (u64) whose exact sum is `total` when total fits the chosen shape
fn split_total(rng: &mut Rng, total: u128, n: usize) -> Vec<u64> {
    if n == 0 { return vec![]; }
    let mut rest = total;
    let mut v = vec![];
    for i in 0..n {
        let left = n - i - 1;
        let hi = rest.min(U64MAX);
        // the remaining `left` values can carry at most left * U64MAX
        let lo = rest.saturating_sub(left as u128 * U64MAX);
        let x = if left == 0 { rest.min(U64MAX) } else if rng.chance(1, 4) { lo } else if rng.chance(1, 3) { hi } else { lo + (rng.next() as u128) % (hi - lo + 1) };
        v.push(x as u64);
        rest -= x;
    }
    v
}

/// a total relative to a limit: below / at / one above / far above / beyond u64
fn pick_total(rng: &mut Rng, max: u64, n: usize) -> u128 {
    let m = max as u128;
    let cap = n as u128 * U64MAX;
    let t = match rng.below(9) {
        0 => m.saturating_sub(1),
        1 | 2 => m,
        3 | 4 => m + 1,
        5 => (rng.next() as u128) % (m + 1),
        6 => m + 1 + (rng.next() as u128 % 1000),
        7 => (1u128 << 64) + rng.below(3) as u128 + if rng.bool() { m } else { 0 }, // wraps to ~0 / ~max in u64
        _ => U64MAX - rng.below(2) as u128,
    };
    t.min(cap)
}

struct Ctx { oracle_only: bool, panics: u64, n_rule: u64, n_e2e: u64, acc: u64, rej_units: u64, rej_other: u64 }

#[allow(clippy::too_many_arguments)]
fn run_rule(cx: &mut Ctx, era: EraK, base: &Parts, pp0: &PP, has_plutus_keys: &[u64], tagged: bool, rdm: Option<(bool, Vec<Rdm>)>, maxm: u64, maxs: u64, tag: &str) {
    let mut w = RawMap(vec![]);
    for k in has_plutus_keys {
        w.set(*k, encode_array(tagged && era == EraK::Conway, &[enc_bytes(&[0x4d, 0x01, 0x00, 0x00, 0x33, 0x22, 0x22, 0x00, 0x51, 0x20, 0x01, 0x20, 0x01, 0x11])]));
    }
    if let Some((m, rs)) = &rdm { w.set(5, encode_redeemers(rs, *m)); }
    let tx = join(&Parts { head: base.head.clone(), body: base.body.clone(), wits: w.encode(), tail: vec![0xf5, 0xf6] });
    let pp = with_max(pp0, maxm, maxs, false);
    let r = match rule(era, &tx, &pp) { Some(r) => r, None => { emit_stat("rule_tx_not_decodable", 1); return; } };
    let has = !has_plutus_keys.is_empty();
    let c = class_of(&r);
    cx.n_rule += 1;
    // oracle (independent of the model): Ok => sums within the limits, for a transaction with Plutus scripts
    let (sm, ss) = rdm.as_ref().map(|(_, rs)| sums(rs)).unwrap_or((0, 0));
    let with_scripts = has || (rdm.is_some() && era != EraK::Alonzo); // Babbage+: scripts may be referenced
    if c == 0 && with_scripts && (sm > maxm as u128 || ss > maxs as u128) {
        let key = format!("rule:{}:ok-but-over-budget:{}", era_name(era), if has { "witness-scripts" } else { "reference-scripts" });
        emit_oracle_fail(&key, &format!("check_tx_ex_units({}) = Ok on tx={} with max_tx_ex_units=({},{}) but redeemers sum to mem={} steps={} (encoding {})",
            era_name(era), hex(&tx), maxm, maxs, sm, ss, rdm.as_ref().map(|x| if x.0 { "map" } else { "list" }).unwrap_or("none")));
    }
    if c == -1 {
        if let Out::Panic(p) = &r { cx.panics += 1; if cx.panics <= 2 { emit_sample(&format!("panic in check_tx_ex_units({}): {}", era_name(era), p)); } }
    }
    if !cx.oracle_only {
        let rd = match &rdm { None => "None".to_string(), Some((m, rs)) => coq_rdm(*m, rs) };
        emit_case(tag, &format!("(0,{},{},{},{},{},{})", era_code(era), coq_bool(has), rd, maxm, maxs, coq_z(c)));
    }
}

/// recompute the script integrity hash of `tx` (body key 11) with the validator's own functions
fn integrity_hash(era: EraK, tx: &[u8], orig: &[u8], utxos: &UTxOs, env: &pallas_validate::utils::Environment) -> Option<Vec<u8>> {
    use pallas_validate::phase1 as p1;
    match era {
        EraK::Alonzo => {
            let mtx: alonzo::Tx = minicbor::decode(tx).ok()?;
            let pd: Vec<alonzo::PlutusData> = mtx.transaction_witness_set.plutus_data.as_ref()?.iter().map(|x| x.clone().unwrap()).collect();
            let rd = mtx.transaction_witness_set.redeemer.as_ref()?;
            Some(p1::alonzo::verif::compute_script_integrity_hash(&pd, rd).as_ref().to_vec())
        }
        EraK::Babbage => {
            let h = |b: &[u8]| -> Option<(Vec<u8>, Vec<u8>)> {
                let mtx: babbage::Tx = minicbor::decode(b).ok()?;
                let pd: Vec<babbage::PlutusData> = mtx.transaction_witness_set.plutus_data.as_ref()?.iter().map(|x| x.clone().unwrap()).collect();
                let rd = mtx.transaction_witness_set.redeemer.as_ref()?;
                let langs = p1::babbage::verif::tx_languages(&mtx, utxos);
                let (a, b) = p1::babbage::verif::compute_script_integrity_hash(&langs, &pd, rd, env.prot_magic(), env.network_id(), env.block_slot());
                Some((a.as_ref().to_vec(), b.as_ref().to_vec()))
            };
            // use the same (indefinite / definite) variant the fixture used
            let ob = RawMap::parse(&split(orig).body);
            let cur = ob.get(11).map(|b| Decoder::new(b).bytes().unwrap().to_vec());
            let (oi, _od) = h(orig)?;
            let (ni, nd) = h(tx)?;
            Some(if cur.as_deref() == Some(&oi[..]) { ni } else { nd })
        }
        EraK::Conway => {
            let mtx: conway::Tx = minicbor::decode(tx).ok()?;
            let langs = p1::conway::verif::tx_languages(&mtx, utxos);
            let pp = match env.prot_params() { PP::Conway(p) => p, _ => return None };
            let views = p1::conway::verif::cost_model_for_tx(&langs, pp)?;
            Some(conway::ScriptData::build_for(&mtx.transaction_witness_set, &Some(views))?.hash().as_ref().to_vec())
        }
        _ => None,
    }
}

#[allow(clippy::too_many_arguments)]
fn run_e2e(cx: &mut Ctx, f: &Fixture, tx: &[u8], rekeyed: bool, maxm: u64, maxs: u64, zero_fee: bool, tag: &str, what: &str) {
    let p = split(tx);
    let w = RawMap::parse(&p.wits);
    let has = wits_have_plutus(&w);
    let (is_map, rs) = match w.get(5) { Some(b) => parse_redeemers(b), None => return };
    let (sm, ss) = sums(&rs);
    let mut res: Option<Out<()>> = None;
    (f.run)(tx, &mut |metx, utxos, env, cs| {
        let env2 = env_with(env, with_max(env.prot_params(), maxm, maxs, zero_fee));
        let u2;
        let u: &UTxOs = if rekeyed { u2 = rekey_utxos(utxos).expect("rekey"); &u2 } else { utxos };
        res = Some(guard(|| validate_tx(metx, 0, &env2, u, cs).map_err(|e| format!("{e:?}"))));
    });
    let r = res.expect("fixture ran");
    cx.n_e2e += 1;
    let accepted = matches!(r, Out::Ok(_));
    match &r { Out::Ok(_) => cx.acc += 1, Out::Err(e) if e.contains("TxExUnitsExceeded") => cx.rej_units += 1, _ => cx.rej_other += 1 }
    if accepted && (sm > maxm as u128 || ss > maxs as u128) {
        let key = format!("e2e:{}:accepted-over-budget:{}", era_name(f.era), if has { "witness-scripts" } else { "reference-scripts" });
        emit_oracle_fail(&key, &format!("validate_tx accepts fixture {} ({}) with max_tx_ex_units=({},{}){} although its {} redeemers ({}) sum to mem={} steps={}; tx={}",
            f.name, what, maxm, maxs, if zero_fee { " minfee=0" } else { "" }, rs.len(), if is_map { "map" } else { "list" }, sm, ss, hex(tx)));
    }
    if !cx.oracle_only {
        emit_case(tag, &format!("(1,{},{},{},{},{},{})", era_code(f.era), coq_bool(has), coq_rdm(is_map, &rs), maxm, maxs, if accepted { 0 } else { 1 }));
    }
}

/// rewrite the redeemers' budgets of a Plutus fixture; returns re-keyed, re-signed tx bytes
fn mutate_budget(f: &Fixture, orig: &[u8], new_units: &[(u64, u64)], flip_enc: bool) -> Option<Vec<u8>> {
    let p = split(orig);
    let mut body = RawMap::parse(&p.body);
    let mut w = RawMap::parse(&p.wits);
    let (is_map, mut rs) = parse_redeemers(w.get(5)?);
    for (r, (m, s)) in rs.iter_mut().zip(new_units) { r.mem = *m; r.steps = *s; }
    let enc_map = if flip_enc && f.era == EraK::Conway { !is_map } else { is_map };
    w.set(5, encode_redeemers(&rs, enc_map));
    let tmp = join(&Parts { head: p.head.clone(), body: p.body.clone(), wits: w.encode(), tail: p.tail.clone() });
    let mut h: Option<Vec<u8>> = None;
    (f.run)(orig, &mut |_metx, utxos, env, _cs| { h = integrity_hash(f.era, &tmp, orig, utxos, env); });
    body.set(11, enc_bytes(&h?));
    Some(finish(&p, body, w))
}

fn main() {
    let args = args();
    let mut rng = Rng::new(args.seed);
    let thorough = args.tier == "thorough";
    let mut cx = Ctx { oracle_only: args.oracle_only, panics: 0, n_rule: 0, n_e2e: 0, acc: 0, rej_units: 0, rej_other: 0 };
    let fx = fixtures();
    let plutus_fx: Vec<&Fixture> = fx.iter().filter(|f| matches!(f.era, EraK::Alonzo | EraK::Babbage | EraK::Conway)
        && RawMap::parse(&split(&load_tx(f)).wits).get(5).is_some()).collect();
    emit_stat("plutus_fixtures", plutus_fx.len() as u64);

    // ---- per rule: one base body + protocol parameters per era
    let mut bases: Vec<(EraK, Parts, PP)> = vec![];
    for (era, name) in [(EraK::Alonzo, "alonzo1"), (EraK::Babbage, "babbage3"), (EraK::Conway, "conway3")] {
        let f = fx.iter().find(|f| f.name == name).unwrap();
        let tx = load_tx(f);
        let mut pp = None;
        (f.run)(&tx, &mut |_m, _u, env, _c| { pp = Some(env.prot_params().clone()); });
        bases.push((era, split(&tx), pp.unwrap()));
    }
    let data0 = vec![0x00u8];

    // corpus: past failures first
    //   rule <era 0|1|2> <script key or -> <enc l|m|-> <maxm> <maxs> m:s,m:s,...
    let corpus = std::env::var("VERIF_DIR").unwrap_or_else(|_| "/verif".into()) + "/corpus/C37";
    if let Ok(rd) = std::fs::read_dir(&corpus) {
        let mut files: Vec<_> = rd.filter_map(|e| e.ok()).map(|e| e.path()).collect();
        files.sort();
        for p in files {
            for line in std::fs::read_to_string(&p).unwrap_or_default().lines() {
                let t: Vec<&str> = line.split_whitespace().collect();
                if t.len() >= 6 && t[0] == "rule" {
                    let era = [EraK::Alonzo, EraK::Babbage, EraK::Conway][t[1].parse::<usize>().unwrap()];
                    let keys: Vec<u64> = if t[2] == "-" { vec![] } else { vec![t[2].parse().unwrap()] };
                    let units: Vec<Rdm> = t.get(6).map(|s| s.split(',').filter(|x| !x.is_empty()).enumerate().map(|(i, x)| {
                        let (m, s) = x.split_once(':').unwrap();
                        Rdm { tag: 0, index: i as u32, data: data0.clone(), mem: m.parse().unwrap(), steps: s.parse().unwrap() }
                    }).collect()).unwrap_or_default();
                    let rdm = match t[3] { "-" => None, "m" => Some((true, units)), _ => Some((false, units)) };
                    let (_, base, pp) = bases.iter().find(|b| b.0 == era).unwrap();
                    run_rule(&mut cx, era, base, pp, &keys, false, rdm, t[4].parse().unwrap(), t[5].parse().unwrap(), "corpus");
                }
            }
        }
    }

    for i in 0..args.n {
        let (era, base, pp) = &bases[rng.below(3) as usize];
        let era = *era;
        let script_keys: Vec<u64> = match rng.below(4) {
            0 => vec![],
            _ => match era {
                EraK::Alonzo => vec![3],
                EraK::Babbage => vec![*rng.pick(&[3u64, 6])],
                _ => if rng.chance(1, 6) { vec![3, 7] } else { vec![*rng.pick(&[3u64, 6, 7])] },
            },
        };
        let (rm, rs) = max_of(pp);
        let (maxm, maxs) = match rng.below(6) {
            0 | 1 => (rm, rs),
            2 => (rng.range(0, 3), rng.range(0, 3)),
            3 => (rng.edge_u64(), rng.edge_u64()),
            4 => (u64::MAX - rng.below(2), u64::MAX - rng.below(2)),
            _ => (rng.below(1 << 24), rng.below(1 << 34)),
        };
        let shape = rng.below(12);
        let rdm = if shape == 0 { None } else {
            let n = match rng.below(8) { 0 => 0, 1 | 2 => 1, 3 | 4 => 2, 5 => 3, _ => rng.range(2, 7) } as usize;
            // decide which dimension is critical; the other one is mostly comfortably inside
            let tm = if rng.chance(2, 3) { pick_total(&mut rng, maxm, n) } else { (rng.next() as u128) % (maxm as u128 + 1) };
            let ts = if rng.chance(2, 3) { pick_total(&mut rng, maxs, n) } else { (rng.next() as u128) % (maxs as u128 + 1) };
            let ms = split_total(&mut rng, tm, n);
            let ss = split_total(&mut rng, ts, n);
            let units: Vec<Rdm> = (0..n).map(|k| Rdm { tag: (k % 4) as u8, index: k as u32, data: data0.clone(), mem: ms[k], steps: ss[k] }).collect();
            let map_enc = era == EraK::Conway && rng.bool();
            Some((map_enc, units))
        };
        let tag = format!("rule-{}-{}-{}", era_name(era), if script_keys.is_empty() { "noscripts" } else { "scripts" },
            match &rdm { None => "none", Some((true, _)) => "map", Some((false, _)) => "list" });
        if i < 3 { emit_sample(&format!("rule era={} scripts={:?} max=({},{}) redeemers={:?}", era_name(era), script_keys, maxm, maxs, rdm.as_ref().map(|r| r.1.iter().map(|x| (x.mem, x.steps)).collect::<Vec<_>>()))); }
        run_rule(&mut cx, era, base, pp, &script_keys, rng.bool(), rdm, maxm, maxs, &tag);
    }

    // ---- end to end
    for f in &plutus_fx {
        let tx = load_tx(f);
        let w = RawMap::parse(&split(&tx).wits);
        let (_is_map, rs) = parse_redeemers(w.get(5).unwrap());
        let (sm, ss) = sums(&rs);
        let (sm, ss) = (sm as u64, ss as u64);
        let mut envmax = (0u64, 0u64);
        (f.run)(&tx, &mut |_m, _u, env, _c| { envmax = max_of(env.prot_params()); });
        // (1) the limit moved around the fixture's own total
        for dm in [-1i64, 0, 1] { for ds in [-1i64, 0, 1] {
            let mm = (sm as i64 + dm).max(0) as u64;
            let ms = (ss as i64 + ds).max(0) as u64;
            run_e2e(&mut cx, f, &tx, false, mm, ms, false, &format!("e2e-limit-{}", era_name(f.era)), &format!("limit moved by ({dm},{ds})"));
        } }
        run_e2e(&mut cx, f, &tx, false, envmax.0, envmax.1, false, &format!("e2e-orig-{}", era_name(f.era)), "unchanged");
        // (2) the budgets rewritten, hash recomputed, re-signed
        let rounds = if thorough { 40 } else { 8 };
        for k in 0..rounds {
            let n = rs.len();
            let tm = if k % 2 == 0 { pick_total(&mut rng, envmax.0, n) } else { (rng.next() as u128) % (envmax.0 as u128 + 1) };
            let ts = if k % 2 == 1 || rng.bool() { pick_total(&mut rng, envmax.1, n) } else { (rng.next() as u128) % (envmax.1 as u128 + 1) };
            let ms = split_total(&mut rng, tm, n);
            let ssv = split_total(&mut rng, ts, n);
            let units: Vec<(u64, u64)> = ms.iter().cloned().zip(ssv.iter().cloned()).collect();
            let flip = rng.bool();
            match mutate_budget(f, &tx, &units, flip) {
                Some(tx2) => run_e2e(&mut cx, f, &tx2, true, envmax.0, envmax.1, true,
                    &format!("e2e-budget-{}{}", era_name(f.era), if flip && f.era == EraK::Conway { "-encflip" } else { "" }),
                    &format!("budgets rewritten to {:?}{}", units, if flip && f.era == EraK::Conway { ", redeemer encoding flipped" } else { "" })),
                None => emit_stat("e2e_mutation_failed", 1),
            }
        }
        // budgets kept, only the encoding flipped (Conway), limit exactly at / one below the total
        if f.era == EraK::Conway {
            let units: Vec<(u64, u64)> = rs.iter().map(|r| (r.mem, r.steps)).collect();
            if let Some(tx2) = mutate_budget(f, &tx, &units, true) {
                run_e2e(&mut cx, f, &tx2, true, sm, ss, true, "e2e-encflip-at-limit", "encoding flipped, limit = total");
                run_e2e(&mut cx, f, &tx2, true, sm.saturating_sub(1), ss, true, "e2e-encflip-below-limit", "encoding flipped, mem limit = total-1");
                run_e2e(&mut cx, f, &tx2, true, sm, ss.saturating_sub(1), true, "e2e-encflip-below-limit", "encoding flipped, steps limit = total-1");
            }
        }
    }
    emit_stat("rule_cases", cx.n_rule);
    emit_stat("rule_panics", cx.panics);
    emit_stat("e2e_cases", cx.n_e2e);
    emit_stat("e2e_accepted", cx.acc);
    emit_stat("e2e_rejected_ex_units", cx.rej_units);
    emit_stat("e2e_rejected_other_rule", cx.rej_other);
}
