(* C04 — property theorems only. Statements are pinned by props/C04.json.
   The model is the tree after `fix: PositiveCoin decoding rejects 0`. *)
From PV Require Import Lib.Base Cbor.Item Cbor.Enc Cbor.Dec Cbor.Api C04.Model C04.Proofs.
Open Scope Z_scope.

(* decoded values are in the declared range, for every input *)
Theorem nonzero_int_decoded_in_range : forall bs v r,
  dec_nonzero_int bs = DOk (v, r) -> inv_nonzero_int v.
Proof. exact nonzero_int_in_range. Qed.

Theorem positive_coin_decoded_in_range : forall bs v r,
  dec_positive_coin bs = DOk (v, r) -> inv_positive_coin v.
Proof. exact positive_coin_in_range. Qed.

(* zero in any head width (00, 18 00, 19 0000, 1a .., 1b ..) is rejected with a decode error *)
Theorem nonzero_int_zero_rejected : forall w r, dec_nonzero_int (enc_head MajUInt w 0 ++ r) = DErr.
Proof. exact nonzero_int_rejects_zero. Qed.

Theorem positive_coin_zero_rejected : forall w r, dec_positive_coin (enc_head MajUInt w 0 ++ r) = DErr.
Proof. exact positive_coin_rejects_zero. Qed.

(* non-vacuity: every value of the declared range is accepted *)
Theorem nonzero_int_range_accepted : forall v r,
  inv_nonzero_int v -> dec_nonzero_int (enc_nonzero_int v ++ r) = DOk (v, r).
Proof. exact nonzero_int_accepts. Qed.

Theorem positive_coin_range_accepted : forall v r,
  inv_positive_coin v -> dec_positive_coin (enc_positive_coin v ++ r) = DOk (v, r).
Proof. exact positive_coin_accepts. Qed.

(* embedded occurrences: Conway mints, values and the donation field type *)
Theorem mint_decoded_in_range : forall bs m r,
  dec_mint bs = DOk (m, r) -> Forall inv_nonzero_int (quantities m).
Proof. exact mint_in_range. Qed.

Theorem value_decoded_in_range : forall bs v r,
  dec_value bs = DOk (v, r) -> Forall inv_positive_coin (value_quantities v).
Proof. exact value_in_range. Qed.

Theorem donation_decoded_in_range : forall bs v r,
  dec_donation bs = DOk (Some v, r) -> inv_positive_coin v.
Proof. exact donation_in_range. Qed.

(* the checked constructors establish exactly the same invariant *)
Theorem checked_ctor_same_inv : forall v c,
  (0 <= v <= 18446744073709551615 -> positive_coin_try_from v = Some c -> c = v /\ inv_positive_coin c) /\
  (-9223372036854775808 <= v <= 9223372036854775807 -> nonzero_int_try_from v = Some c ->
   c = v /\ inv_nonzero_int c).
Proof. intros v c. split; [apply positive_coin_ctor|apply nonzero_int_ctor]. Qed.

(* record of the repaired defect: the derived transparent decoder accepted 0 *)
Theorem positivecoin_zero_refuted_before_fix :
  exists bs v r, dec_positive_coin_before_fix bs = DOk (v, r) /\ ~ inv_positive_coin v.
Proof.
  exists [0], 0, []. split; [exact positive_coin_zero_was_accepted|]. unfold inv_positive_coin. lia.
Qed.

Example nonzero_example :
  dec_nonzero_int [56; 41] = DOk (-42, []) /\ inv_nonzero_int (-42) /\ dec_nonzero_int [24; 0] = DErr.
Proof. split; [vm_compute; reflexivity|]. split; [unfold inv_nonzero_int; lia|vm_compute; reflexivity]. Qed.

Example value_example :
  dec_value ([130; 5; 161; 88; 28] ++ repeat 7 28 ++ [161; 65; 97; 24; 9])
    = DOk (VMulti 5 [(repeat 7 28, [([97], 9)])], []) /\
  dec_value ([130; 5; 161; 88; 28] ++ repeat 7 28 ++ [161; 65; 97; 24; 0]) = DErr.
Proof. split; vm_compute; reflexivity. Qed.
