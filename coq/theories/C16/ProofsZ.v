(* C16 — integer-level facts about the fixed-point helpers of math_dashu.rs:
   `scale` is floor division by 10^34, `div` is truncated division of x*10^34,
   and one loop iteration of ref_exp_cmp (for x >= 0) computes
   error' = floor(error * x / (10^34 * (n+2))) with a single rounding. *)
From PV Require Import Lib.Base C16.Model.
Open Scope Z_scope.

Lemma PREC_pos : 0 < PREC.
Proof. reflexivity. Qed.

Lemma EPS_pos : 0 < EPS.
Proof. reflexivity. Qed.

Lemma ONE_PREC : ONE = PREC.
Proof. vm_compute. reflexivity. Qed.

#[global] Opaque PREC EPS ONE.

(* scale = floor division, for every sign *)
Lemma scale_floor : forall a, scale a = a / PREC.
Proof.
  intros a. unfold scale. pose proof PREC_pos as HP.
  remember PREC as P eqn:EP. clear EP.
  pose proof (Z.quot_rem' a P) as Hqr.
  destruct (Z.le_gt_cases 0 a) as [Ha|Ha].
  - replace (a <? 0) with false by lia. cbn [andb].
    apply Z.quot_div_nonneg; lia.
  - replace (a <? 0) with true by lia. cbn [andb].
    pose proof (Z.rem_bound_pos_neg a P HP ltac:(lia)) as Hr.
    destruct (Z.rem a P =? 0) eqn:E; cbn [negb].
    + apply Z.eqb_eq in E. rewrite E, Z.add_0_r in Hqr.
      rewrite Hqr at 2. rewrite Z.mul_comm, Z.div_mul by lia. reflexivity.
    + apply Z.eqb_neq in E.
      apply Z.div_unique with (r := Z.rem a P + P); lia.
Qed.

(* div = truncated division of x * 10^34 by y (no intermediate loss) *)
Lemma fdiv_nonneg : forall x y, 0 <= x -> 0 < y -> fdiv x y = (x * PREC) / y.
Proof.
  intros x y Hx Hy. unfold fdiv. pose proof PREC_pos as HP.
  remember PREC as P eqn:EP. clear EP.
  pose proof (Z.mod_pos_bound x y Hy) as Hm.
  assert (Hmain : x / y * P + (x mod y * P) / y = x * P / y).
  { rewrite (Z.div_mod x y) at 3 by lia.
    replace ((y * (x / y) + x mod y) * P) with (x mod y * P + (x / y * P) * y) by ring.
    rewrite Z.div_add by lia. ring. }
  rewrite <- Hmain.
  rewrite !Z.quot_div_nonneg, Z.rem_mod_nonneg; try lia.
  all: rewrite ?Z.rem_mod_nonneg by lia; nia.
Qed.

(* one iteration's error update for non-negative operands: a single floor *)
Lemma err_step : forall e x m, 0 <= e -> 0 <= x -> 0 < m ->
  fdiv (scale (e * x)) (m * PREC) = (e * x) / (PREC * m).
Proof.
  intros e x m He Hx Hm. pose proof PREC_pos as HP.
  rewrite scale_floor. rewrite fdiv_nonneg.
  - remember PREC as P eqn:EP. clear EP.
    rewrite Z.div_mul_cancel_r by lia. rewrite Z.div_div by lia. reflexivity.
  - remember PREC as P eqn:EP. clear EP. apply Z.div_pos; nia.
  - remember PREC as P eqn:EP. clear EP. nia.
Qed.

Lemma err_step_nonneg : forall e x m, 0 <= e -> 0 <= x -> 0 < m -> 0 <= (e * x) / (PREC * m).
Proof.
  intros e x m He Hx Hm. pose proof PREC_pos as HP.
  remember PREC as P eqn:EP. clear EP. apply Z.div_pos; nia.
Qed.
