(* C40 — property theorems only. Statements are pinned by vp/check.py. *)
From PV Require Import Lib.Base C40.Model C40.Spec C40.SortFacts C40.Proofs C40.Staging.
From Coq Require Import Sorting.Sorted.
Open Scope Z_scope.

(* building never panics, outside the known class (a redeemer staged without ex-units) *)
Theorem build_total : forall st,
  (forall pr, In pr (s_rdmrs st) -> r_ex (snd pr) <> None) -> is_panic (build false st) = false.
Proof. exact build_no_panic. Qed.

(* the known class is real: todo!() is still reached *)
Theorem build_total_refuted_todo :
  pipeline false [OInput (1, 0); OSpendRdmr (1, 0) (mkRdmr (1, 0) true None)] = Panic P_TODO.
Proof. exact todo_exunits_panics. Qed.

(* every staged input/output/mint/fee/validity/... appears exactly, nothing else *)
Theorem build_reflects_staging : forall st t, build false st = Ok t -> reflects st t.
Proof. exact build_reflects. Qed.

(* each redeemer carries its staged data and budget and its index addresses its target in the
   strictly increasing input list / the sorted policy list of the built transaction *)
Theorem redeemer_points_at_target : forall st t, build false st = Ok t ->
  Forall2 (rdmr_points (t_inputs t) (map fst (t_mint t))) (s_rdmrs st) (t_rdmrs t) /\
  StronglySorted input_lt (t_inputs t) /\ policies_sorted (t_mint t).
Proof.
  intros st t H. split; [apply build_points; exact H|].
  destruct (build_reflects st t H) as [Hs [_ [_ [_ [_ [_ [[_ [Hp _]] _]]]]]]]. auto.
Qed.

(* over histories: the minted quantity of (policy, name) is the sum of the mint_asset calls since
   the last remove_mint_asset, zero sums are absent, and the policies are strictly increasing *)
Theorem mint_reflects_history : forall ops st t,
  run_ops ops empty_staging = Ok st -> build false st = Ok t ->
  (forall p n q, entry_in (t_mint t) p n q <-> mint_spec ops None p n = Some q /\ q <> 0) /\
  StronglySorted Z.lt (map fst (t_mint t)).
Proof.
  intros ops st t Hr Hb.
  assert (Hw : amap_wf (s_mint st)) by (apply (run_ops_mint ops empty_staging st 0 [] empty_wf Hr)).
  destruct (build_reflects st t Hb) as [_ [_ [_ [_ [_ [_ [[He [Hp _]] _]]]]]]].
  split.
  - intros p n q. rewrite He. unfold entry_in. rewrite <- (amap_lookup_entry _ p n q Hw).
    destruct (run_ops_mint ops empty_staging st p n empty_wf Hr) as [_ Hl]. rewrite Hl. reflexivity.
  - apply build_ok in Hb as [outs [mint [net [cr [rdmrs [Hh [_ Ht]]]]]]].
    apply build_head_ok in Hh as [_ [Hm _]]. subst t mint. cbn in *.
    apply sorted_nodup_strict; [exact Hp|]. apply norm_amap_keys_nodup. apply Hw.
Qed.

(* the reported id is the hash of the body bytes found inside the built bytes, for any body
   encoder, framing, hash function and item scan that recovers the first framed item *)
Theorem tx_id_is_body_hash : forall (enc_body enc_rest : atx -> list Z) (frame : list Z -> list Z -> list Z)
    (H : list Z -> Z) (scan : list Z -> option (list Z)),
  (forall b r, scan (frame b r) = Some b) ->
  forall t body, scan (built_bytes enc_body enc_rest frame t) = Some body -> built_id enc_body H t = H body.
Proof.
  intros enc_body enc_rest frame H scan Hscan t body Hb. unfold built_bytes in Hb. rewrite Hscan in Hb.
  inversion Hb; subst. reflexivity.
Qed.

(* what the code did before the two `fix:` commits *)
Theorem build_total_refuted_before_fix :
  pipeline true [OInput (1, 0); OMint 1 [97] 5; OMint 1 [97] (-5)] = Panic P_UNWRAP_ERR /\
  pipeline true [OInput (1, 0); OOutput (mkOutput (29, 0) 1000000 [(1, [([97], 0)])] None None)] = Panic P_UNWRAP_ERR.
Proof. split; [exact prefix_cancelling_mint_panics|exact prefix_zero_asset_panics]. Qed.

Theorem redeemer_pointer_refuted_before_fix :
  exists t, pipeline true [OInput (1, 0); OInput (1, 0); OInput (2, 0); OSpendRdmr (2, 0) (mkRdmr (1, 0) true (Some (1, 2)))] = Ok t /\
            t_rdmrs t = [(0, 2, (1, 0), 1, 2)] /\ t_inputs t = [(1, 0); (1, 0); (2, 0)].
Proof. exact prefix_duplicate_input_pointer. Qed.

(* non-vacuity: a history with a cancelling mint, a duplicated input, redeemers staged in reverse
   order, builds; the duplicate is gone and the pointers follow the sorted order *)
Example build_example :
  exists t, pipeline false
      [OInput (7, 1); OInput (3, 0); OInput (7, 1); OMint 9 [97] 5; OMint 9 [98] 2; OMint 9 [97] (-5); OMint 4 [] 1;
       OSpendRdmr (7, 1) (mkRdmr (1, 0) true (Some (10, 20))); OMintRdmr 9 (mkRdmr (1, 1) true (Some (30, 40))); OFee 170000] = Ok t /\
    t_inputs t = [(3, 0); (7, 1)] /\ t_mint t = [(4, [([], 1)]); (9, [([98], 2)])] /\
    t_rdmrs t = [(0, 1, (1, 0), 10, 20); (1, 1, (1, 1), 30, 40)] /\ t_fee t = 170000.
Proof. eexists. split; [vm_compute; reflexivity|]. repeat split; reflexivity. Qed.
