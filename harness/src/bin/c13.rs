//! C13: KES evolution erases all signing material of past periods.
//! Runs the real Sum{1..7}Kes / Sum{1..7}CompactKes through whole lives and, after keygen
//! and after every update, inspects the caller's key buffer (KesSk::as_bytes):
//!  oracle 1: no 32-byte window (any byte offset, period bytes included) equals the leaf
//!            secret of an earlier period or a seed of the key tree from which one derives
//!            (all recomputed independently from the master seed);
//!  oracle 2: brute force — every 32-byte slot is expanded through the seed-splitting
//!            hashes down to leaf depth; no result may be an earlier period's secret;
//!  oracle 3: keygen wiped the caller's seed.
//! The CASE carries the slot classification and the brute-force derivable set; the
//! symbolic model must predict both (coq/theories/C13/Run.v).
//! Caveat (named in the config): copies outside the caller's buffers — stack temporaries,
//! dalek internals — are invisible to this check.
#[path = "kes_shared/mod.rs"]
mod kes_shared;
use kes_shared::*;
use pallas_crypto::kes::summed_kes::*;
use std::collections::HashMap;
use verif_harness::*;

struct Ctx { rng: Rng, oracle_only: bool, cases: usize, states: u64, windows: u64, samples: usize }

fn vname<K: KesOps>() -> &'static str { if K::COMPACT { "compact" } else { "sum" } }

fn fail<K: KesOps>(what: &str, k: i64, master: &B32, t: u32, buf: &[u8], text: String) {
    emit_oracle_fail(&format!("{}/{}", vname::<K>(), what),
        &format!("{} seed={} (k={}) after {} updates, key buffer {}: {}", K::NAME, hex(master), k, t, hex(buf), text));
}

/// leaf periods computable from `slot` by iterating the public split hashes
fn expand(slot: &B32, d: u32, leaf_index: &HashMap<B32, u32>, out: &mut Vec<u32>) {
    let mut level: Vec<B32> = vec![*slot];
    for j in 0..=d {
        for v in &level { if let Some(i) = leaf_index.get(v) { out.push(*i); } }
        if j == d { break; }
        let mut next = Vec::with_capacity(level.len() * 2);
        for v in &level { next.push(split_left(v)); next.push(split_right(v)); }
        level = next;
    }
}

/// emit_mode: 1 = every period, 2 = boundary + random periods
fn history<K: KesOps>(ctx: &mut Ctx, k: i64, master: &B32, emit_mode: u32) {
    let d = K::DEPTH;
    let total: u32 = 1 << d;
    let tree = Tree::new(d, k, master);
    let mut cl = Classifier::new();
    cl.add_tree(&tree);
    // secret -> (first period whose key it yields, description)
    let mut secrets: HashMap<B32, (u32, String)> = HashMap::new();
    for (l, row) in tree.seeds.iter().enumerate() {
        for (i, s) in row.iter().enumerate() {
            let (lo, hi) = tree.leaves_of(l, i);
            let what = if l == d as usize { format!("the signing key of period {}", lo) }
                       else { format!("the seed of node (level {}, index {}) deriving periods {}..{}", l, i, lo, hi - 1) };
            secrets.insert(*s, (lo as u32, what));
        }
    }
    let leaf_index: HashMap<B32, u32> = tree.seeds[d as usize].iter().enumerate().map(|(i, s)| (*s, i as u32)).collect();
    let mut live = match live_keygen::<K>(master) {
        Ok(l) => l,
        Err(e) => { fail::<K>("keygen", k, master, 0, &[], e); return; }
    };
    if live.seed_after == master.to_vec() {
        fail::<K>("caller-seed-not-wiped", k, master, 0, &live.buf, "the seed passed to keygen still holds the master seed".into());
    }
    let mut emit_at: Vec<u32> = vec![];
    if emit_mode == 2 {
        let h = total / 2;
        emit_at = vec![0, 1, 2, 3, h - 1, h, h + 1, h + 2, total - 2, total - 1, h / 2, h / 2 + 1, h + h / 2, h + h / 2 + 1];
        for _ in 0..3 { emit_at.push(ctx.rng.below(total as u64) as u32); }
    }
    // every period, then three more update() calls at the last period (refused; the key must stay put)
    let mut steps: Vec<(u32, u32)> = (0..total).map(|t| (t, 0)).collect();
    for r in 1..=3 { steps.push((total - 1, r)); }
    for (t, refused) in steps {
        ctx.states += 1;
        // oracle 1: sliding 32-byte windows over the whole buffer (period bytes included)
        for off in 0..=(live.buf.len() - 32) {
            ctx.windows += 1;
            let mut w = [0u8; 32];
            w.copy_from_slice(&live.buf[off..off + 32]);
            if let Some((first, what)) = secrets.get(&w) {
                if *first < t {
                    fail::<K>("past-secret-in-buffer", k, master, t, &live.buf, format!("bytes {}..{} are {}", off, off + 32, what));
                }
            }
        }
        // oracle 2: brute-force derivation from every slot
        let mut der: Vec<u32> = vec![];
        for c in live.buf[..K::SIZE].chunks(32) {
            let mut s = [0u8; 32];
            s.copy_from_slice(c);
            expand(&s, d, &leaf_index, &mut der);
        }
        der.sort(); der.dedup();
        if let Some(p) = der.iter().find(|p| **p < t) {
            fail::<K>("past-key-derivable", k, master, t, &live.buf, format!("the signing key of period {} is computable from a buffer slot by the split hashes", p));
        }
        let selected = match emit_mode { 1 => true, 2 => emit_at.contains(&t), _ => false };
        if selected && !ctx.oracle_only {
            let term = format!("(Case13 {} {} {} {} {} {} {} {})", K::COMPACT as u32, d, coq_z(k), t, refused,
                cl.cls(&live.seed_after), cl.slots(&live.buf[..K::SIZE]), coq_list(&der, |p| p.to_string()));
            let tag = format!("{}-d{}-{}", vname::<K>(), d,
                if refused > 0 { "refused-update" } else if t == 0 { "fresh" } else if t + 1 == total { "last" } else if t == total / 2 { "half" } else if t + 1 == total / 2 { "before-half" } else { "mid" });
            emit_case(&tag, &term);
            ctx.cases += 1;
            if ctx.samples < 3 && t == total / 2 { ctx.samples += 1; emit_sample(&format!("{} seed={} t={} buffer={}", K::NAME, hex(master), t, hex(&live.buf))); }
        }
        let before = live.buf.clone();
        match K::update(&mut live.buf) {
            Out::Ok(true) => {}
            Out::Ok(false) => {
                if live.buf[..K::SIZE] != before[..K::SIZE] {
                    fail::<K>("update-error-changes-key-material", k, master, t, &live.buf, format!("a refused update changed the secret part of the buffer (was {})", hex(&before)));
                }
                if t + 1 < total { break; }
            }
            o => { fail::<K>("update-error", k, master, t, &live.buf, out_string(&o, |_| String::new())); break; }
        }
    }
}

fn main() {
    let args = args();
    let mut ctx = Ctx { rng: Rng::new(args.seed), oracle_only: args.oracle_only, cases: 0, states: 0, windows: 0, samples: 0 };
    let thorough = args.tier == "thorough";
    let mut k: i64 = 0;
    loop {
        k += 1;
        let mut master = [0u8; 32];
        master.copy_from_slice(&ctx.rng.bytes(32));
        if k % 7 == 0 { for b in master.iter_mut().skip(1) { *b = 0; } }
        if master == [0u8; 32] { master[0] = 1; } // the all-zero seed equals the wiping pattern: not a genuine secret
        if k % 11 == 0 { master = [0xff; 32]; master[31] = k as u8; }
        for d in 1..=4u32 {
            for compact in [false, true] { dispatch_kes!(compact, d, history, &mut ctx, k, &master, 1); }
        }
        let deep: Vec<u32> = if thorough { vec![5, 6, 7] } else { vec![5 + ((k as u32 + args.seed as u32) % 3)] };
        for d in deep {
            for compact in [false, true] { dispatch_kes!(compact, d, history, &mut ctx, k, &master, 2); }
        }
        if ctx.oracle_only { if ctx.states as usize >= args.n { break; } } else if ctx.cases >= args.n { break; }
    }
    emit_stat("key_states_oracle", ctx.states);
    emit_stat("windows_searched", ctx.windows);
    emit_stat("master_seeds", k as u64);
}
