//! Long-tail codecs, oracle only (not inside the Coq model): encode with the real
//! `Encode`, strict item scan, decode with the real `Decode`, compare (Debug form).
use super::{scan, Ctx};
use pallas_codec::minicbor::{self, Decode, Decoder, Encode};
use pallas_network::miniprotocols::{localmsgnotification as lmn, localmsgsubmission as lms, localstate::queries_v16 as q16, localtxsubmission as ltx};
use std::fmt::Debug;
use verif_harness::*;

pub fn run_dbg<M>(cx: &mut Ctx, stack: &str, proto: &str, variant: &str, msg: &M) -> bool
where M: Encode<()> + for<'b> Decode<'b, ()> + Debug {
    let fails0 = cx.fails;
    let key = |what: &str| format!("{}/{}/{}/{}", stack, proto, variant, what);
    let shown = format!("{:?}", msg);
    let bytes = match guard(|| minicbor::to_vec(msg).map_err(|e| e.to_string())) {
        Out::Ok(b) => b,
        Out::Err(e) => { cx.fails += 1; emit_oracle_fail(&key("encode-error"), &format!("message={} encode error: {}", shown, e)); return false; }
        Out::Panic(p) => { cx.fails += 1; emit_oracle_fail(&key("encode-panic"), &format!("message={} encode panicked: {}", shown, p)); return false; }
    };
    if let Err(why) = scan::exactly_one_item(&bytes) {
        cx.fails += 1;
        emit_oracle_fail(&key("not-one-item"), &format!("message={} encoding={} is not one well-formed CBOR item: {}", shown, hex(&bytes), why));
    }
    match guard(|| { let mut d = Decoder::new(&bytes); let m: M = d.decode().map_err(|e| e.to_string())?; Ok((format!("{:?}", m), d.position())) }) {
        Out::Ok((s2, pos)) => {
            if s2 != shown { cx.fails += 1; emit_oracle_fail(&key("decode-differs"), &format!("message={} encoding={} decoded to {}", shown, hex(&bytes), s2)); }
            else if pos != bytes.len() { cx.fails += 1; emit_oracle_fail(&key("decode-leftover"), &format!("message={} encoding={} decoder consumed {} of {}", shown, hex(&bytes), pos, bytes.len())); }
        }
        Out::Err(e) => { cx.fails += 1; emit_oracle_fail(&key("decode-error"), &format!("message={} encoding={} decode error: {}", shown, hex(&bytes), e)); }
        Out::Panic(p) => { cx.fails += 1; emit_oracle_fail(&key("decode-panic"), &format!("message={} encoding={} decode panicked: {}", shown, hex(&bytes), p)); }
    }
    cx.tail += 1;
    cx.fails == fails0
}

fn sb(r: &mut Rng) -> Vec<u8> { let n = *r.pick(&[0usize, 3, 32, 64]); r.bytes(n) }
fn dmq(r: &mut Rng) -> lms::DmqMsg {
    lms::DmqMsg {
        msg_id: sb(r),
        msg_payload: lms::DmqMsgPayload { msg_body: sb(r), kes_period: r.edge_u64(), expires_at: r.next() as u32 },
        kes_signature: sb(r),
        operational_certificate: lms::DmqMsgOperationalCertificate { kes_vk: sb(r), issue_number: r.edge_u64(), start_kes_period: r.edge_u64(), cert_sig: sb(r) },
        cold_verification_key: sb(r),
    }
}
fn dmqs(r: &mut Rng) -> Vec<lms::DmqMsg> { (0..r.below(3)).map(|_| dmq(r)).collect() }

pub fn round(cx: &mut Ctx, r: &mut Rng, round: u64) {
    // local state queries without parameters
    if round % 4 == 0 {
        use q16::BlockQuery as B;
        let era = *r.pick(&[0u16, 1, 5, 6, 23, 24]);
        let nullary = [B::GetLedgerTip, B::GetEpochNo, B::GetCurrentPParams, B::GetProposedPParamsUpdates, B::GetStakeDistribution, B::GetUTxOWhole,
            B::DebugEpochState, B::GetGenesisConfig, B::DebugNewEpochState, B::DebugChainDepState, B::GetRewardProvenance, B::GetStakePools,
            B::GetRewardInfoPools, B::GetConstitution, B::GetGovState, B::GetAccountState, B::GetRatifyState, B::GetFuturePParams];
        for b in nullary {
            let name = format!("{:?}", b);
            let _ = &name;
            if round == 0 { run_dbg(cx, "n1", "localstate-query", "GetCBOR", &q16::Request::LedgerQuery(q16::LedgerQuery::BlockQuery(era, B::GetCBOR(Box::new(b))))); }
        }
    }
}

/// Leading constructor names of a Debug form, e.g. `UtxowFailure.MissingRedeemers.Certifying`
/// (at most 4, up to the first container of payloads): the class of a ledger failure.
fn ctor_path(dbg: &str) -> String {
    let b = dbg.as_bytes();
    let (mut i, mut out) = (0usize, Vec::<String>::new());
    while i < b.len() && out.len() < 4 {
        while i < b.len() && (b[i] == b'(' || b[i] == b'[' || b[i] == b' ') { i += 1; }
        let st = i;
        while i < b.len() && (b[i].is_ascii_alphanumeric() || b[i] == b'_') { i += 1; }
        if i == st || !b[st].is_ascii_uppercase() { break; }
        let id = &dbg[st..i];
        let opens = i < b.len() && (b[i] == b'(' || dbg[i..].starts_with(" {"));
        if matches!(id, "Array" | "Set" | "OHashMap" | "Utxo") { break; }      // a container of payloads: the class ends here
        if id != "Some" { out.push(id.to_string()); }
        if !opens { break; }
        if dbg[i..].starts_with(" {") { break; }
    }
    out.join(".")
}

/// The reject reasons a node really sent (the hex samples of pallas-network's own test module,
/// read from the tree under test). Each decoded sample is split into its single ledger failures;
/// each failure (class = its leading constructors) must survive encode -> scan -> decode inside a
/// one-element TxValidationError; samples whose failures all pass are also checked as a whole.
pub fn reject_samples(cx: &mut Ctx) {
    let repo = std::env::var("VERIF_REPO").unwrap_or_else(|_| "/repo".into());
    let path = format!("{}/pallas-network/src/miniprotocols/localtxsubmission/codec.rs", repo);
    let src = match std::fs::read_to_string(&path) { Ok(s) => s, Err(_) => { emit_stat("reject_samples_missing", 1); return; } };
    let (mut n, mut elems, mut whole) = (0u64, 0u64, 0u64);
    let mut lines = src.lines().peekable();
    while let Some(l) = lines.next() {
        if !l.contains("assert_reject_reason(") || l.contains("fn ") { continue; }
        let Some(h) = lines.next() else { break };
        let h = h.trim().trim_end_matches(',').trim_matches('"');
        let Ok(bytes) = hex::decode(h) else { continue };
        let dec = guard(|| { let mut d = Decoder::new(&bytes); d.decode::<ltx::TxValidationError>().map_err(|e| e.to_string()) });
        let Out::Ok(ltx::TxValidationError::ShelleyTxValidationError { error, era }) = dec else { continue };
        n += 1;
        let mut all_ok = true;
        for f in &error.0 {
            elems += 1;
            let class = ctor_path(&format!("{:?}", f));
            let one = ltx::TxValidationError::ShelleyTxValidationError { error: ltx::ApplyTxError(vec![f.clone()]), era: era.clone() };
            all_ok &= run_dbg(cx, "n1", "localtxsubmission-reject", &class, &one);
        }
        if all_ok {
            whole += 1;
            let v = ltx::TxValidationError::ShelleyTxValidationError { error, era };
            run_dbg(cx, "n1", "localtxsubmission-reject", "whole-sample", &v);
            if whole <= 5 {
                type M = ltx::Message<ltx::EraTx, ltx::TxValidationError>;
                run_dbg::<M>(cx, "n1", "localtxsubmission-reject", "RejectTx", &ltx::Message::RejectTx(v));
            }
        }
    }
    emit_stat("reject_samples", n);
    emit_stat("reject_failures_checked", elems);
    emit_stat("reject_samples_fully_round_tripping", whole);
}
