(* C30 model: pallas-traverse probe::block_era (first two CBOR tokens, as
   minicbor's Tokenizer reads them), MultiEraBlock::{decode (dispatch), era,
   txs, tx_count} and support.rs clone_tx_fn! / clone_*_txs, over an abstract
   block whose components are opaque (bodies A, witness sets B, auxiliary data C). *)
From PV Require Import Lib.Base.
Open Scope Z_scope.

(* ---- eras and the probe ---- *)
Inductive era : Type := Byron | Shelley | Allegra | Mary | Alonzo | Babbage | Conway.
Inductive probe_outcome : Type := Matched (e : era) | EpochBoundary | Inconclusive.

(* minicbor tokens, as far as the probe distinguishes them *)
Inductive token : Type :=
| TArray (n : Z)      (* definite-length array head, any width *)
| TU8 (v : Z)         (* unsigned integer held in the initial byte or one following byte *)
| TOther              (* anything else, including a decoding error / end of input *)
.

(* big-endian value of the first [n] bytes, None when the input is too short *)
Fixpoint be_value (n : nat) (acc : Z) (l : list Z) : option (Z * list Z) :=
  match n with
  | O => Some (acc, l)
  | S k => match l with [] => None | b :: r => be_value k (acc * 256 + b) r end
  end.

(* argument of a CBOR head with additional info [info] *)
Definition head_arg (info : Z) (rest : list Z) : option (Z * list Z) :=
  if info <? 24 then Some (info, rest)
  else if info =? 24 then be_value 1 0 rest
  else if info =? 25 then be_value 2 0 rest
  else if info =? 26 then be_value 4 0 rest
  else if info =? 27 then be_value 8 0 rest
  else None.

(* Tokenizer::next on the first item: only what the probe can tell apart *)
Definition next_token (l : list Z) : token * list Z :=
  match l with
  | [] => (TOther, [])
  | b :: rest =>
      let major := b / 32 in
      let info := b mod 32 in
      if major =? 4 then
        match head_arg info rest with
        | Some (n, r) => (TArray n, r)
        | None => (TOther, rest)          (* indefinite array / reserved info / truncated *)
        end
      else if major =? 0 then
        if info <=? 24 then
          match head_arg info rest with
          | Some (v, r) => (TU8 v, r)
          | None => (TOther, rest)
          end
        else (TOther, rest)               (* U16 / U32 / U64 tokens *)
      else (TOther, rest)
  end.

Definition era_of_variant (v : Z) : probe_outcome :=
  if v =? 0 then EpochBoundary
  else if v =? 1 then Matched Byron
  else if v =? 2 then Matched Shelley
  else if v =? 3 then Matched Allegra
  else if v =? 4 then Matched Mary
  else if v =? 5 then Matched Alonzo
  else if v =? 6 then Matched Babbage
  else if v =? 7 then Matched Conway
  else Inconclusive.

Definition block_era (cbor : list Z) : probe_outcome :=
  match next_token cbor with
  | (TArray 2, rest) =>
      match next_token rest with
      | (TU8 v, _) => era_of_variant v
      | _ => Inconclusive
      end
  | _ => Inconclusive
  end.

(* ---- blocks ---- *)
Section Blocks.
Context {A B C : Type}.

(* Shelley-family block body: what clone_tx_fn! reads *)
Record sblock : Type := mk_sblock {
  bodies : list A;                     (* transaction_bodies *)
  wits : list B;                       (* transaction_witness_sets *)
  aux : list (Z * C);                  (* auxiliary_data_set, in BTreeMap iteration order *)
  invalid : option (list Z)            (* invalid_transactions *)
}.

(* the variants of MultiEraBlock *)
Inductive mblock : Type :=
| BEpochBoundary
| BByron (payload : list (A * B))                  (* tx_payload: (transaction, witness) *)
| BAlonzoCompatible (b : sblock) (e : era)
| BBabbage (b : sblock)
| BConway (b : sblock).

(* a traversed transaction: body, witness set, success flag, auxiliary data *)
Definition mtx : Type := (A * B * bool * option C)%type.

Definition u32 (i : Z) : Z := i mod 2 ^ 32.          (* `index as u32` *)

(* .iter().find_map(|(idx, val)| if idx.eq(&(index as u32)) { Some(val) } else { None }) *)
Fixpoint aux_lookup (i : Z) (l : list (Z * C)) : option C :=
  match l with [] => None | (k, c) :: r => if k =? i then Some c else aux_lookup i r end.

Definition clone_tx_at (b : sblock) (index : nat) : option mtx :=
  match nth_error (bodies b) index with
  | None => None
  | Some body =>
    match nth_error (wits b) index with
    | None => None
    | Some w =>
      let i := u32 (Z.of_nat index) in
      let success := negb (match invalid b with Some l => existsb (Z.eqb i) l | None => false end) in
      Some (body, w, success, aux_lookup i (aux b))
    end
  end.

(* (0..bodies.len()).filter_map(|idx| clone_tx_at(block, idx)) *)
Fixpoint filter_map {X Y} (f : X -> option Y) (l : list X) : list Y :=
  match l with [] => [] | x :: r => match f x with Some y => y :: filter_map f r | None => filter_map f r end end.
Definition clone_txs (b : sblock) : list mtx := filter_map (clone_tx_at b) (seq 0 (length (bodies b))).

Definition txs (m : mblock) : list mtx :=
  match m with
  | BEpochBoundary => []
  | BByron p => map (fun tw => (fst tw, snd tw, true, None)) p     (* MultiEraTx::Byron: is_valid = true, no aux data *)
  | BAlonzoCompatible b _ | BBabbage b | BConway b => clone_txs b
  end.

Definition tx_count (m : mblock) : Z :=
  match m with
  | BEpochBoundary => 0
  | BByron p => Z.of_nat (length p)
  | BAlonzoCompatible b _ | BBabbage b | BConway b => Z.of_nat (length (bodies b))
  end.

Definition block_era_of (m : mblock) : era :=
  match m with
  | BEpochBoundary => Byron
  | BByron _ => Byron
  | BAlonzoCompatible _ e => e
  | BBabbage _ => Babbage
  | BConway _ => Conway
  end.

(* MultiEraBlock::decode: the probe picks the decoder; [shape] says which variant
   a decoder builds, given that it succeeded on the payload *)
Inductive variant_kind : Type := KEpochBoundary | KByron | KAlonzoCompatible (e : era) | KBabbage | KConway.
Definition decoder_for (p : probe_outcome) : option variant_kind :=
  match p with
  | EpochBoundary => Some KEpochBoundary
  | Matched Byron => Some KByron
  | Matched Shelley => Some (KAlonzoCompatible Shelley)
  | Matched Allegra => Some (KAlonzoCompatible Allegra)
  | Matched Mary => Some (KAlonzoCompatible Mary)
  | Matched Alonzo => Some (KAlonzoCompatible Alonzo)
  | Matched Babbage => Some KBabbage
  | Matched Conway => Some KConway
  | Inconclusive => None                      (* Err(unknown_cbor) *)
  end.
Definition kind_of (m : mblock) : variant_kind :=
  match m with
  | BEpochBoundary => KEpochBoundary | BByron _ => KByron
  | BAlonzoCompatible _ e => KAlonzoCompatible e | BBabbage _ => KBabbage | BConway _ => KConway
  end.
End Blocks.
Arguments sblock : clear implicits.
Arguments mblock : clear implicits.

(* the era a wrapper tag declares (tag 0 is the Byron epoch-boundary block) *)
Definition era_of_tag (tag : Z) : option era :=
  if tag =? 0 then Some Byron else if tag =? 1 then Some Byron else if tag =? 2 then Some Shelley
  else if tag =? 3 then Some Allegra else if tag =? 4 then Some Mary else if tag =? 5 then Some Alonzo
  else if tag =? 6 then Some Babbage else if tag =? 7 then Some Conway else None.

Definition era_code (e : era) : Z :=
  match e with Byron => 1 | Shelley => 2 | Allegra => 3 | Mary => 4 | Alonzo => 5 | Babbage => 6 | Conway => 7 end.
