//! C11: Ed25519 keys of pallas-crypto (SecretKey, SecretKeyExtended, PublicKey::verify)
//! against the executable RFC 8032 model (coq/theories/Crypto/Ed25519Spec.v).
//! Cases are the constructors of `case` in coq/theories/C11/Run.v.
//! Oracle (independent of the model): sign-then-verify accepts; every single-bit
//! tampering of message / public key / signature, S + L, and a foreign key reject;
//! from_bytes / TryFrom<[u8;64]> accept exactly the clamped keys on ALL 256 x 256 (byte 0, byte 31) pairs
//! (several fillers; the whole grid also goes through the model as a bitmap); sizes;
//! honest keys whose public key encoding is close to the non-canonical range still verify.
use pallas_crypto::key::ed25519::{PublicKey, SecretKey, SecretKeyExtended, Signature};
use std::convert::TryFrom;
use verif_harness::*;

fn xb(bs: &[u8]) -> String { format!("(X \"{}\")", hex(bs)) }

/// group order L, little endian
const L_LE: [u8; 32] = [0xed, 0xd3, 0xf5, 0x5c, 0x1a, 0x63, 0x12, 0x58, 0xd6, 0x9c, 0xf7, 0xa2, 0xde, 0xf9, 0xde, 0x14,
                        0, 0, 0, 0, 0, 0, 0, 0, 0, 0, 0, 0, 0, 0, 0, 0x10];
fn add_le(a: &[u8], b: &[u8]) -> Vec<u8> {
    let mut out = vec![0u8; 32]; let mut c = 0u16;
    for i in 0..32 { let s = a[i] as u16 + b[i] as u16 + c; out[i] = s as u8; c = s >> 8; }
    out
}

fn verify(pk: &[u8], m: &[u8], sig: &[u8]) -> Out<bool> {
    let pk = pk.to_vec(); let m = m.to_vec(); let sig = sig.to_vec();
    guard_total(move || {
        let mut p = [0u8; 32]; p.copy_from_slice(&pk);
        let mut s = [0u8; 64]; s.copy_from_slice(&sig);
        PublicKey::from(p).verify(&m, &Signature::from(s))
    })
}

struct Cx { oracle_only: bool, thorough: bool, triples: u64, tamper_checks: u64 }
impl Cx {
    fn case(&self, tag: &str, term: String) { if !self.oracle_only { emit_case(tag, &term); } }
    fn verify_case(&self, tag: &str, pk: &[u8], m: &[u8], sig: &[u8], acc: bool) {
        self.case(tag, format!("(CVerify {} {} {} {})", xb(pk), xb(m), xb(sig), coq_bool(acc)));
    }
}

/// expected = Some(b): the property demands this answer (oracle); returns the observed answer
fn check_verify(key: &str, what: &str, pk: &[u8], m: &[u8], sig: &[u8], expected: Option<bool>) -> bool {
    let first = verify(pk, m, sig);
    if let (Out::Ok(a), Out::Ok(b)) = (&first, &verify(pk, m, sig)) { if a != b {
        emit_oracle_fail("repeat-verify-differs", &format!("{}: the same verification twice in a row: pk={} msg={} sig={} first={} second={}", what, hex(pk), hex(m), hex(sig), a, b)); } }
    match first {
        Out::Ok(b) => { if let Some(e) = expected { if b != e {
            emit_oracle_fail(key, &format!("{}: pk={} msg={} sig={} verify={} expected={}", what, hex(pk), hex(m), hex(sig), b, e)); } } b }
        _ => { emit_oracle_fail("verify-panic", &format!("{}: pk={} msg={} sig={}", what, hex(pk), hex(m), hex(sig))); false }
    }
}

/// sign (and derive the public key) with the given key bytes; None on panic / rejected key
fn resign(ext: bool, key: &[u8], m: &[u8]) -> Option<(Vec<u8>, Vec<u8>)> {
    let key = key.to_vec(); let m = m.to_vec();
    match guard(move || {
        if ext { let mut e = [0u8; 64]; e.copy_from_slice(&key); let k = SecretKeyExtended::from_bytes(e).map_err(|x| x.to_string())?;
                 let sg = k.sign(&m); Ok((<[u8; 32]>::from(k.public_key()).to_vec(), sg.as_ref().to_vec())) }
        else { let mut e = [0u8; 32]; e.copy_from_slice(&key); let k = SecretKey::from(e);
               let sg = k.sign(&m); Ok((<[u8; 32]>::from(k.public_key()).to_vec(), sg.as_ref().to_vec())) } }) {
        Out::Ok(v) => Some(v), _ => None }
}

/// what a FRESH thread observes: `first` operation on the thread, then the rest. order: 0 = sign first,
/// 1 = public_key first, 2 = a (rejecting) verify first, 3 = sign with another key first
fn on_fresh_thread(ext: bool, key: Vec<u8>, m: Vec<u8>, order: u8) -> Option<(Vec<u8>, Vec<u8>, bool, Vec<u8>)> {
    std::thread::spawn(move || {
        std::panic::catch_unwind(move || {
            let sign = |m: &[u8]| -> Vec<u8> {
                if ext { let mut e = [0u8; 64]; e.copy_from_slice(&key); SecretKeyExtended::from_bytes(e).unwrap().sign(m).as_ref().to_vec() }
                else { let mut e = [0u8; 32]; e.copy_from_slice(&key); SecretKey::from(e).sign(m).as_ref().to_vec() } };
            let public = || -> [u8; 32] {
                if ext { let mut e = [0u8; 64]; e.copy_from_slice(&key); SecretKeyExtended::from_bytes(e).unwrap().public_key().into() }
                else { let mut e = [0u8; 32]; e.copy_from_slice(&key); SecretKey::from(e).public_key().into() } };
            match order {
                1 => { let _ = public(); }
                2 => { let _ = PublicKey::from([3u8; 32]).verify(b"x", &Signature::from([5u8; 64])); }
                3 => { let _ = SecretKey::from([0x42u8; 32]).sign(b"other"); }
                _ => {}
            }
            let sig_first = sign(&m);
            let pk = public();
            let mut s = [0u8; 64]; s.copy_from_slice(&sig_first);
            let ok = PublicKey::from(pk).verify(&m, &Signature::from(s));
            let _ = SecretKey::from([0x17u8; 32]).sign(b"in between");
            let sig_again = sign(&m);
            (pk.to_vec(), sig_first, ok, sig_again)
        }).ok()
    }).join().ok().flatten()
}

/// history / state shapes: degenerate keys as the first operation of a fresh thread, and fixed
/// interleavings on the main thread. Expected values are computed once and reused for the repeats.
fn history(cx: &mut Cx, rng: &mut Rng) {
    let one = { let mut v = vec![0u8; 32]; v[0] = 1; v };
    let clamp = |mut e: Vec<u8>| { e[0] &= 0xf8; e[31] = (e[31] & 0x3f) | 0x40; e };
    let degenerate: Vec<(bool, Vec<u8>, &str)> = vec![
        (false, vec![0u8; 32], "seed-all-zero"), (false, vec![0xffu8; 32], "seed-all-ff"), (false, one.clone(), "seed-01-then-zeros"),
        (true, clamp(vec![0u8; 64]), "ext-all-zero-clamped"), (true, clamp(vec![0xffu8; 64]), "ext-all-ff-clamped"),
    ];
    for (ext, key, name) in &degenerate {
        let m: Vec<u8> = match rng.below(3) { 0 => vec![], 1 => vec![0u8; 32], _ => rng.bytes(24) };
        let mut reference: Option<(Vec<u8>, Vec<u8>)> = None;
        for order in 0..4u8 {
            match on_fresh_thread(*ext, key.clone(), m.clone(), order) {
                None => emit_oracle_fail("sign-panic", &format!("{} on a fresh thread (order {}): key={} msg={}", name, order, hex(key), hex(&m))),
                Some((pk, s1, ok, s2)) => {
                    let what = format!("{} as {} operation of a fresh thread: key={} msg={} pk={} sig={}", name,
                        ["the FIRST", "the second (after public_key)", "the second (after a verify)", "the second (after another key signed)"][order as usize], hex(key), hex(&m), hex(&pk), hex(&s1));
                    if !ok { emit_oracle_fail("sign-verify", &format!("{} does not verify under the key's own public key", what)); }
                    if s1 != s2 { emit_oracle_fail("repeat-sign-differs", &format!("{} ; signing again on the same thread gives {}", what, hex(&s2))); }
                    match &reference { None => reference = Some((pk.clone(), s1.clone())),
                        Some((rpk, rs)) => if *rpk != pk || *rs != s1 { emit_oracle_fail("repeat-sign-differs", &format!("{} ; another fresh thread gave pk={} sig={}", what, hex(rpk), hex(rs))); } }
                }
            }
        }
        // the same on the main thread, after everything that ran before
        if let (Some((rpk, rs)), Some((pk, sg))) = (&reference, resign(*ext, key, &m)) {
            if *rpk != pk || *rs != sg { emit_oracle_fail("repeat-sign-differs", &format!("{}: key={} msg={} fresh thread pk={} sig={} main thread pk={} sig={}", name, hex(key), hex(&m), hex(rpk), hex(rs), hex(&pk), hex(&sg))); }
        }
        if let Some((pk, sg)) = &reference {
            cx.triples += 1;
            // what the FIRST call on a fresh thread produced goes through the model
            cx.case("history-fresh-thread", format!("({} {} {} {} {})", if *ext { "CExt" } else { "CStd" }, xb(key), xb(&m), xb(pk), xb(sg)));
        }
    }
    // ---- fixed interleavings on the main thread: two keys A, B (and the zero seed Z)
    let a = rng.bytes(32); let b = rng.bytes(32); let z = vec![0u8; 32];
    let ma = rng.bytes(40); let mb = rng.bytes(3);
    let exp = |k: &Vec<u8>, m: &Vec<u8>| resign(false, k, m);
    let (ea, eb, ez) = match (exp(&a, &ma), exp(&b, &mb), exp(&z, &ma)) { (Some(x), Some(y), Some(w)) => (x, y, w), _ => { emit_oracle_fail("sign-panic", "history keys"); return; } };
    let order: [u8; 14] = [b'A', b'A', b'B', b'A', b'B', b'B', b'Z', b'A', b'Z', b'Z', b'B', b'Z', b'A', b'A'];
    for (step, w) in order.iter().enumerate() {
        let (k, m, e) = match w { b'A' => (&a, &ma, &ea), b'B' => (&b, &mb, &eb), _ => (&z, &ma, &ez) };
        match resign(false, k, m) {
            Some(got) if got == *e => {}
            got => emit_oracle_fail("repeat-sign-differs", &format!("main thread, step {} of sign order {}: key={} msg={} expected pk={} sig={} got {:?}", step, String::from_utf8_lossy(&order), hex(k), hex(m), hex(&e.0), hex(&e.1), got.map(|(p, s)| (hex(&p), hex(&s))))),
        }
    }
    cx.case("history-main-thread", format!("(CStd {} {} {} {})", xb(&a), xb(&ma), xb(&ea.0), xb(&ea.1)));
    // verify: invalid twice, invalid / valid / invalid / valid, valid twice, other key's triple in between
    let bad_a = { let mut v = ea.1.clone(); v[5] ^= 0x10; v };
    let bad_m = { let mut v = ma.clone(); v[0] ^= 1; v };
    let script: Vec<(&Vec<u8>, &Vec<u8>, &Vec<u8>, bool, &str)> = vec![
        (&ea.0, &ma, &bad_a, false, "invalid sig"), (&ea.0, &ma, &bad_a, false, "invalid sig again"), (&ea.0, &ma, &ea.1, true, "valid"), (&ea.0, &ma, &bad_a, false, "invalid after valid"),
        (&ea.0, &ma, &ea.1, true, "valid again"), (&ea.0, &ma, &ea.1, true, "valid twice"), (&eb.0, &mb, &eb.1, true, "other key valid"), (&ea.0, &bad_m, &ea.1, false, "tampered message"),
        (&ea.0, &bad_m, &ea.1, false, "tampered message again"), (&eb.0, &ma, &ea.1, false, "foreign key"), (&eb.0, &ma, &ea.1, false, "foreign key again"), (&ez.0, &ma, &ez.1, true, "zero seed valid"),
        (&ea.0, &ma, &bad_a, false, "invalid sig, third time"), (&ez.0, &ma, &ez.1, true, "zero seed valid again"),
    ];
    for (step, (pk, m, sg, want, what)) in script.iter().enumerate() {
        match verify(pk, m, sg) {
            Out::Ok(got) if got == *want => {}
            Out::Ok(got) => emit_oracle_fail(if *want { "sign-verify" } else { "repeat-verify-differs" }, &format!("main thread, verify script step {} ({}): pk={} msg={} sig={} verify={} expected={}", step, what, hex(pk), hex(m), hex(sg), got, want)),
            _ => emit_oracle_fail("verify-panic", &format!("verify script step {} ({})", step, what)),
        }
    }
    cx.verify_case("history-main-thread", &ea.0, &ma, &bad_a, false);
}

fn flip(bs: &[u8], bit: usize) -> Vec<u8> { let mut v = bs.to_vec(); v[bit / 8] ^= 1 << (bit % 8); v }

fn triple(cx: &mut Cx, rng: &mut Rng, i: usize) {
    let ext = rng.below(5) < 2;
    let mlen = match rng.below(8) { 0 => 0, 1 => 1, 2 => *rng.pick(&[31usize, 32, 47, 48, 63, 64, 79, 80, 95, 96, 111, 112, 127, 128]), 3 => 1024,
                                    4 => rng.range(900, 1024) as usize, _ => rng.below(if cx.thorough { 1025 } else { 400 }) as usize };
    let m = match rng.below(6) { 0 => vec![0u8; mlen], 1 => vec![0xffu8; mlen], _ => rng.bytes(mlen) };
    // key material
    let (pk, sig, keybytes) = if !ext {
        let mut sk = [0u8; 32];
        match rng.below(10) { 0 => {}, 1 => sk = [0xff; 32], _ => sk.copy_from_slice(&rng.bytes(32)) }
        let r = guard_total(|| { let k = SecretKey::from(sk); (<[u8; 32]>::from(k.public_key()), k.sign(&m)) });
        match r { Out::Ok((pk, sg)) => (pk.to_vec(), sg.as_ref().to_vec(), sk.to_vec()),
                  _ => { emit_oracle_fail("sign-panic", &format!("sk={} msg={}", hex(&sk), hex(&m))); return; } }
    } else {
        let mut esk = [0u8; 64];
        esk.copy_from_slice(&rng.bytes(64));
        match rng.below(8) { 0 => { for b in esk[..32].iter_mut() { *b = 0; } }, 1 => { for b in esk[..32].iter_mut() { *b = 0xff; } }, 2 => { for b in esk[32..].iter_mut() { *b = 0; } }, _ => {} }
        esk[0] &= 0b1111_1000; esk[31] &= 0b0011_1111; esk[31] |= 0b0100_0000;
        let r = guard(|| { let k = SecretKeyExtended::from_bytes(esk).map_err(|e| e.to_string())?; Ok((<[u8; 32]>::from(k.public_key()), k.sign(&m))) });
        match r { Out::Ok((pk, sg)) => (pk.to_vec(), sg.as_ref().to_vec(), esk.to_vec()),
                  Out::Err(e) => { emit_oracle_fail("from-bytes-clamped-rejected", &format!("esk={} err={}", hex(&esk), e)); return; }
                  _ => { emit_oracle_fail("sign-panic", &format!("esk={} msg={}", hex(&esk), hex(&m))); return; } }
    };
    cx.triples += 1;
    if i < 3 { emit_sample(&format!("{} key={} msg_len={} pk={} sig={}", if ext { "extended" } else { "standard" }, hex(&keybytes), m.len(), hex(&pk), hex(&sig))); }
    cx.case(if ext { "sign-extended" } else { "sign-standard" },
            format!("({} {} {} {} {})", if ext { "CExt" } else { "CStd" }, xb(&keybytes), xb(&m), xb(&pk), xb(&sig)));

    // ---- oracle: sign-then-verify accepts, every kind of tampering rejects
    check_verify("sign-verify", if ext { "extended key" } else { "standard key" }, &pk, &m, &sig, Some(true));
    let rounds = if cx.thorough { 24 } else { 12 };
    for _ in 0..rounds {
        if !m.is_empty() { let b = rng.below(8 * m.len() as u64) as usize; check_verify("tampered-message-accepted", &format!("bit {}", b), &pk, &flip(&m, b), &sig, Some(false)); cx.tamper_checks += 1; }
        let b = rng.below(256) as usize; check_verify("tampered-key-accepted", &format!("bit {}", b), &flip(&pk, b), &m, &sig, Some(false));
        let b = rng.below(512) as usize; check_verify("tampered-signature-accepted", &format!("bit {}", b), &pk, &m, &flip(&sig, b), Some(false));
        cx.tamper_checks += 2;
    }
    { let mut m2 = m.clone(); m2.push(0); check_verify("tampered-message-accepted", "appended 00", &pk, &m2, &sig, Some(false));
      if !m.is_empty() { check_verify("tampered-message-accepted", "truncated", &pk, &m[..m.len() - 1], &sig, Some(false)); } }
    let mut s_plus_l = sig.to_vec(); s_plus_l[32..].copy_from_slice(&add_le(&sig[32..], &L_LE));
    check_verify("malleable-S-plus-L-accepted", "S + L", &pk, &m, &s_plus_l, Some(false));
    // the same key signs the same message again, after all those verifications: same public key, same signature
    if let Some((pk2, sig2)) = resign(ext, &keybytes, &m) {
        if pk2 != pk || sig2 != sig { emit_oracle_fail("repeat-sign-differs", &format!("{} key={} msg={} first pk={} sig={} again pk={} sig={}", if ext { "extended" } else { "standard" }, hex(&keybytes), hex(&m), hex(&pk), hex(&sig), hex(&pk2), hex(&sig2))); }
    }

    // ---- one verification of this triple also goes through the model (a scalar multiplication costs seconds there)
    match (i + rng.below(2) as usize) % 8 {
        0 | 1 => cx.verify_case("verify-valid", &pk, &m, &sig, check_verify("sign-verify", "valid", &pk, &m, &sig, Some(true))),
        2 => { let (m2, what) = if m.is_empty() { (vec![0u8], "appended".to_string()) } else { let b = rng.below(8 * m.len() as u64) as usize; (flip(&m, b), format!("bit {}", b)) };
               cx.verify_case("verify-tampered-message", &pk, &m2, &sig, check_verify("tampered-message-accepted", &what, &pk, &m2, &sig, Some(false))); }
        3 => { let b = rng.below(256) as usize; let pk2 = flip(&pk, b);
               cx.verify_case("verify-tampered-key", &pk2, &m, &sig, check_verify("tampered-key-accepted", &format!("bit {}", b), &pk2, &m, &sig, Some(false))); }
        4 => { let b = rng.below(256) as usize; let s2 = flip(&sig, b);
               cx.verify_case("verify-tampered-R", &pk, &m, &s2, check_verify("tampered-signature-accepted", &format!("bit {}", b), &pk, &m, &s2, Some(false))); }
        5 => { let b = 256 + rng.below(256) as usize; let s2 = flip(&sig, b);
               cx.verify_case("verify-tampered-S", &pk, &m, &s2, check_verify("tampered-signature-accepted", &format!("bit {}", b), &pk, &m, &s2, Some(false))); }
        6 => cx.verify_case("verify-S-plus-L", &pk, &m, &s_plus_l, check_verify("malleable-S-plus-L-accepted", "S + L", &pk, &m, &s_plus_l, Some(false))),
        _ => { // another key's public key
               let mut sk2 = [0u8; 32]; sk2.copy_from_slice(&rng.bytes(32));
               let pk2 = <[u8; 32]>::from(SecretKey::from(sk2).public_key());
               cx.verify_case("verify-foreign-key", &pk2, &m, &sig, check_verify("foreign-key-accepted", "other key", &pk2, &m, &sig, Some(false))); }
    }
}

/// y coordinate of the encoding in the 19-value window below 2^255 except for the middle bytes:
/// byte 31 low 7 bits all set and byte 0 >= 0xed (y >= p would need bytes 1..=30 all 0xff as well)
fn near_noncanonical(e: &[u8]) -> bool { e[31] & 0x7f == 0x7f && e[0] >= 0xed }
fn near_noncanonical_ff(e: &[u8]) -> bool { near_noncanonical(e) && e[1..31].iter().any(|b| *b == 0xff) }
fn counter_key(c: u64) -> [u8; 32] { let mut sk = [0u8; 32]; sk[..8].copy_from_slice(&c.to_le_bytes()); sk }

/// honest keys / signatures whose point encodings sit next to the non-canonical range: an over-eager
/// canonicity pre-check (in verify or in a key constructor) would reject them. Seeds found once with `--find-near`.
const NEAR_PK_SEEDS: [u64; 4] = [8848, 12233, 17404, 18137];
/// (key counter, message counter): the signature's R has the shape
const NEAR_R_SEEDS: [(u64, u64); 3] = [(1, 21982), (1, 41881), (1, 48287)];

fn targeted(cx: &mut Cx, rng: &mut Rng) {
    let mut keys: Vec<([u8; 32], Vec<u8>, &str)> = vec![];
    for c in NEAR_PK_SEEDS { keys.push((counter_key(c), rng.bytes(20), "near-noncanonical-pk")); }
    for (c, mc) in NEAR_R_SEEDS { keys.push((counter_key(c), mc.to_le_bytes().to_vec(), "near-noncanonical-R")); }
    // cheaper shapes found afresh on every run: top seven bits of y set (1/128); low byte >= 0xed and a 0xff byte
    let mut found = 0; let mut tries = 0;
    while found < 2 && tries < 3000 { tries += 1;
        let mut sk = [0u8; 32]; sk.copy_from_slice(&rng.bytes(32));
        let pk = <[u8; 32]>::from(SecretKey::from(sk).public_key());
        if pk[31] & 0x7f == 0x7f { keys.push((sk, rng.bytes(8), "pk-top-bits-set")); found += 1; }
    }
    for (j, (sk, m, tag)) in keys.iter().enumerate() {
        let r = guard_total(|| { let k = SecretKey::from(*sk); (<[u8; 32]>::from(k.public_key()), k.sign(m)) });
        let (pk, sig) = match r { Out::Ok((pk, sg)) => (pk.to_vec(), sg.as_ref().to_vec()), _ => { emit_oracle_fail("sign-panic", &format!("sk={} msg={}", hex(sk), hex(m))); continue; } };
        let shape = if near_noncanonical_ff(&pk) { "pk:0x7f..ff..>=0xed" } else if near_noncanonical_ff(&sig[..32]) { "R:0x7f..ff..>=0xed" } else if near_noncanonical(&pk) || pk[31] & 0x7f == 0x7f { "pk:top bits" } else { "none" };
        let ok = check_verify("sign-verify", &format!("honest key with encoding near the non-canonical range ({})", shape), &pk, m, &sig, Some(true));
        // the public key must also survive the byte-level constructors
        if PublicKey::try_from(&pk[..]).map(|p| p.as_ref() != &pk[..]).unwrap_or(true) { emit_oracle_fail("try-from-size", &format!("PublicKey::try_from rejected or altered {}", hex(&pk))); }
        cx.triples += 1;
        if j % 2 == 0 || cx.thorough {
            cx.case(tag, format!("(CStd {} {} {} {})", xb(sk), xb(m), xb(&pk), xb(&sig)));
            cx.verify_case(tag, &pk, m, &sig, ok);
        }
    }
}

fn find_near() {
    // one-off search used to produce NEAR_PK_SEEDS / NEAR_R_SEEDS
    let mut npk = 0; let mut c = 0u64;
    while npk < 4 { let pk = <[u8; 32]>::from(SecretKey::from(counter_key(c)).public_key()); if near_noncanonical_ff(&pk) { println!("PK {} {}", c, hex(&pk)); npk += 1; } c += 1; }
    let mut nr = 0; let mut mc = 0u64; let k = SecretKey::from(counter_key(1));
    while nr < 3 { let sg = k.sign(mc.to_le_bytes()); if near_noncanonical_ff(&sg.as_ref()[..32]) { println!("R 1 {} {}", mc, hex(sg.as_ref())); nr += 1; } mc += 1; }
}

fn main() {
    let args = args();
    if args.extra.iter().any(|a| a == "--find-near") { find_near(); return; }
    let mut rng = Rng::new(args.seed);
    let mut cx = Cx { oracle_only: args.oracle_only, thorough: args.tier == "thorough", triples: 0, tamper_checks: 0 };

    // ---- the very first key operation of the main thread: the all-zero seed signs (nothing is cached yet)
    match resign(false, &[0u8; 32], b"first") {
        Some((pk, sg)) => {
            check_verify("sign-verify", "all-zero seed, first operation of the main thread", &pk, b"first", &sg, Some(true));
            if Some((pk.clone(), sg.clone())) != resign(false, &[0u8; 32], b"first") { emit_oracle_fail("repeat-sign-differs", &format!("all-zero seed signing twice at start-up: first pk={} sig={}", hex(&pk), hex(&sg))); }
            cx.case("history-first-on-main-thread", format!("(CStd {} {} {} {})", xb(&[0u8; 32]), xb(b"first"), xb(&pk), xb(&sg)));
        }
        None => emit_oracle_fail("sign-panic", "all-zero seed, first operation of the main thread"),
    }

    // ---- EXHAUSTIVE: all 256 x 256 (byte 0, byte 31) pairs, four fillers for the other 62 bytes (every run).
    // Oracle on every pair (from_bytes and TryFrom); for two fillers the whole accept/reject grid goes through
    // the model as 256 bitmaps (row b0, bit b31), so the tie with check_structure is exhaustive as well.
    let fillers: Vec<(Vec<u8>, bool)> = vec![(vec![0u8; 64], true), (vec![0xffu8; 64], false), (rng.bytes(64), true), (rng.bytes(64), false)];
    let mut pairs = 0u64;
    for (filler, to_model) in &fillers {
        let mut rows: Vec<String> = vec![];
        for b0 in 0..=255u8 {
            let mut row = [0u8; 32]; // 256-bit little-endian bitmap
            for b31 in 0..=255u8 {
                let mut esk = [0u8; 64]; esk.copy_from_slice(filler); esk[0] = b0; esk[31] = b31;
                let ok = SecretKeyExtended::from_bytes(esk).is_ok();
                let ok2 = SecretKeyExtended::try_from(esk).is_ok();
                let want = b0 & 0b111 == 0 && b31 & 0b1100_0000 == 0b0100_0000;
                if ok != want || ok2 != want {
                    emit_oracle_fail("clamping-check", &format!("esk={} byte0={:#04x} byte31={:#04x} from_bytes ok={} try_from ok={} expected={}", hex(&esk), b0, b31, ok, ok2, want));
                }
                if ok { row[b31 as usize / 8] |= 1 << (b31 % 8); }
                pairs += 1;
            }
            let mut be = row; be.reverse();
            rows.push(format!("0x{}", hex(&be)));
        }
        if *to_model { cx.case("from-bytes-grid-65536", format!("(CFromBytesGrid {} [{}])", xb(filler), rows.join(";"))); }
    }
    emit_stat("clamp_pairs_oracle", pairs);
    // named boundary bytes individually through the model as well (readable replay on a mismatch)
    for &b31 in &[0x00u8, 0x3f, 0x40, 0x41, 0x7f, 0x80, 0x81, 0xbf, 0xc0, 0xff] {
        let b0 = *rng.pick(&[0u8, 1, 2, 4, 7, 8, 0xf8, 0xf9, 0xff]);
        let mut esk = [0u8; 64]; esk.copy_from_slice(&rng.bytes(64)); esk[0] = b0; esk[31] = b31;
        let ok = SecretKeyExtended::from_bytes(esk).is_ok();
        cx.case("from-bytes-boundary", format!("(CFromBytes {} {})", xb(&esk), coq_bool(ok)));
        let mut esk0 = [0u8; 64]; esk0[31] = b31;   // all other bytes zero
        let ok0 = SecretKeyExtended::from_bytes(esk0).is_ok();
        cx.case("from-bytes-boundary", format!("(CFromBytes {} {})", xb(&esk0), coq_bool(ok0)));
    }
    // the other bits never matter
    for _ in 0..(if cx.thorough { 2000 } else { 200 }) {
        let mut esk = [0u8; 64]; esk.copy_from_slice(&rng.bytes(64));
        if rng.bool() { esk[0] &= 0xf8; } if rng.bool() { esk[31] = (esk[31] & 0x3f) | 0x40; }
        let ok = SecretKeyExtended::from_bytes(esk).is_ok();
        let want = esk[0] & 7 == 0 && esk[31] >> 6 == 1;
        if ok != want { emit_oracle_fail("clamping-check", &format!("esk={} from_bytes ok={} expected={}", hex(&esk), ok, want)); }
        if rng.below(25) == 0 { cx.case("from-bytes-random", format!("(CFromBytes {} {})", xb(&esk), coq_bool(ok))); }
    }
    // ---- sizes
    for l in [0usize, 1, 31, 32, 33, 63, 64, 65, 128] {
        let bs = rng.bytes(l);
        let okp = PublicKey::try_from(&bs[..]).map(|p| p.as_ref() == &bs[..]).unwrap_or(false);
        let oks = Signature::try_from(&bs[..]).map(|s| s.as_ref() == &bs[..]).unwrap_or(false);
        if okp != (l == 32) || oks != (l == 64) { emit_oracle_fail("try-from-size", &format!("len={} PublicKey ok={} Signature ok={}", l, okp, oks)); }
        cx.case("try-from-size", format!("(CTryFrom 0 {} {})", xb(&bs), coq_bool(okp)));
        cx.case("try-from-size", format!("(CTryFrom 1 {} {})", xb(&bs), coq_bool(oks)));
    }
    // ---- crafted verifications (model tie only, except where RFC 8032 and the property leave no doubt)
    {
        let ident = { let mut v = vec![0u8; 32]; v[0] = 1; v };
        let mut sig_id = ident.clone(); sig_id.extend_from_slice(&[0u8; 32]);
        // neutral element as public key, R = neutral, S = 0: the group equation holds trivially (RFC 8032 accepts)
        let a = check_verify("crafted", "neutral pk", &ident, b"x", &sig_id, None);
        cx.verify_case("crafted-neutral-pk", &ident, b"x", &sig_id, a);
        // non-canonical encoding (y = p + 1) of the neutral element; RFC 8032 5.1.3 rejects it, cryptoxide decodes it
        let mut nc = vec![0xffu8; 32]; nc[0] = 0xee; nc[31] = 0x7f;
        let a = check_verify("crafted", "non-canonical pk", &nc, b"", &sig_id, None);
        cx.verify_case("crafted-noncanonical-pk", &nc, b"", &sig_id, a);
        // all-zero public key (order 4): rejected outright by cryptoxide
        let z = vec![0u8; 32];
        let a = check_verify("crafted", "zero pk", &z, &[4u8], &sig_id, None);
        cx.verify_case("crafted-zero-pk", &z, &[4u8], &sig_id, a);
        // S = L and S = L - 1 with a random R, random key: must reject / almost surely rejects
        let mut sk = [0u8; 32]; sk.copy_from_slice(&rng.bytes(32));
        let pk = <[u8; 32]>::from(SecretKey::from(sk).public_key());
        let mut s = rng.bytes(32); s.extend_from_slice(&L_LE);
        let a = check_verify("noncanonical-S-accepted", "S = L", &pk, b"m", &s, Some(false));
        cx.verify_case("crafted-S-eq-L", &pk, b"m", &s, a);
        // a public key that is not on the curve (y = 2: x^2 = 3 / (4 d + 1) is a non-residue or not; the model decides) with a random signature
        let mut y2 = vec![0u8; 32]; y2[0] = 2; let sg = { let mut v = rng.bytes(64); v[63] &= 0x0f; v };
        let a = check_verify("crafted", "pk y=2", &y2, b"m", &sg, None);
        cx.verify_case("crafted-small-y", &y2, b"m", &sg, a);
        let mut y3 = vec![0u8; 32]; y3[0] = 7; let a = check_verify("crafted", "pk y=7", &y3, b"m", &sg, None);
        cx.verify_case("crafted-small-y", &y3, b"m", &sg, a);
    }
    // random public key / signature pairs never verify (quickcheck property of the crate), a few through the model
    for j in 0..(if cx.thorough { 400 } else { 60 }) {
        let pk = rng.bytes(32); let mut sg = rng.bytes(64); if rng.bool() { sg[63] &= 0x0f; }
        let ml = rng.below(64) as usize; let m = rng.bytes(ml);
        let a = check_verify("random-signature-accepted", "random pk/sig", &pk, &m, &sg, Some(false));
        if j < (if cx.thorough { 24 } else { 4 }) { cx.verify_case("verify-random", &pk, &m, &sg, a); }
    }

    targeted(&mut cx, &mut rng);
    for i in 0..args.n { triple(&mut cx, &mut rng, i); }
    history(&mut cx, &mut rng);
    emit_stat("triples", cx.triples);
    emit_stat("tamper_checks_oracle", cx.tamper_checks);
}
