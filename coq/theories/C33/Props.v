(* C33 - property theorems only. Statements are pinned by vp/check.py. *)
From PV Require Import Lib.Base C33.Model C33.ModelPA C33.Proofs.
Open Scope Z_scope.

(* Phase-1 validation (all five era validators and the dispatch of validate_tx, as modelled) never
   panics: for every transaction, UTxO set and environment whose numeric fields are in the ranges of
   their Rust types (fee: u64, minfee_a/minfee_b/collateral_percentage: u32, UTxO lovelace: u64), in
   both build profiles [dev] (overflow checks on / wrapping), given that the un-modelled certificate
   check does not panic. *)
Theorem validate_total : forall dev t u e,
  wf_params (e_pp e) = true -> wf_tx t = true -> wf_utxo u = true -> is_panic (c_certs t) = false ->
  is_panic (validate dev t u e) = false.
Proof. exact validate_np. Qed.

(* the same for every rule function of the era validator taken on its own (also after an earlier rule failed) *)
Theorem rules_total : forall dev t u e,
  wf_params (e_pp e) = true -> wf_tx t = true -> wf_utxo u = true -> is_panic (c_certs t) = false ->
  Forall (fun c => is_panic c = false) (era_checks dev t u e).
Proof. exact era_checks_np. Qed.

(* the unchecked operations that remain in the code cannot overflow on in-range operands *)
Theorem collateral_percentage_no_overflow : forall paid fee pct,
  paid < U64 -> 0 <= fee < U64 -> 0 <= pct < U32 -> is_panic (pct_below paid fee pct) = false.
Proof. exact np_pct_below. Qed.
Theorem min_fee_no_overflow : forall dev pp size, wf_params pp = true -> is_panic (min_fee_u32 dev pp size) = false.
Proof. exact np_min_fee. Qed.

(* non-vacuity: inputs satisfying every hypothesis, on which validation returns a validation error
   (a Conway transaction spending 2^63-1 of an asset and minting 1 more of it while paying out 1) *)
Definition ex_uout : uout := Build_uout EConway 6 false (AShelley 1 (PKey 5)) (VMulti 10 [(7, [(8, I64MAX)])]) DNone None 0 [].
Definition ex_out : tout := Build_tout false (AShelley 1 (PKey 5)) (VMulti 10 [(7, [(8, 1)])]) 1 DNone false.
Definition ex_tx : tx :=
  Build_tx 6 100 [(1, 0)] [ex_out] 0 None None (Some [(7, [(8, 1)])]) None None None None None None None None []
           None None (Some []) None None None None None None (Ok tt) 0 0 0 [] [].
Definition ex_env : env :=
  Build_env (Build_params 6 0 0 16384 0 0 0 1 5000 150 3 0 0 true true true 0 0) 764824073 5 1 true.
Example validate_total_example :
  wf_params (e_pp ex_env) = true /\ wf_tx ex_tx = true /\ wf_utxo [((false, 1, 0), ex_uout)] = true /\
  is_panic (c_certs ex_tx) = false /\
  validate true ex_tx [((false, 1, 0), ex_uout)] ex_env = Err 417.
Proof. repeat split; reflexivity. Qed.
